package main

import (
	"encoding/json"
	"go/ast"
	"os"
	"path/filepath"
)

// tablesVars: package-level var/const initialisers (regex literals, format strings, durations) that
// the models depend on but that live outside every anchored function body. Driven by vars.json next
// to anchors.json: [{"area","name","file","ident"}]; emitted as string tables <area>.<name>.
type varAnchor struct {
	Area, Name, File, Ident string
}

func tablesVars(repo string, put func(area, name string, v any), fail func(string)) {
	exe, _ := os.Executable()
	_ = exe
	b, err := os.ReadFile(varsFile)
	if err != nil {
		return
	}
	var vs []varAnchor
	if json.Unmarshal(b, &vs) != nil {
		fail("vars.json")
		return
	}
	for _, v := range vs {
		f := parse(repo, v.File)
		found := false
		if f != nil {
			for _, d := range f.Decls {
				gd, ok := d.(*ast.GenDecl)
				if !ok {
					continue
				}
				for _, sp := range gd.Specs {
					vsp, ok := sp.(*ast.ValueSpec)
					if !ok {
						continue
					}
					for i, n := range vsp.Names {
						if n.Name == v.Ident && i < len(vsp.Values) {
							put(v.Area, v.Name, []string{src(vsp.Values[i])})
							found = true
						}
					}
				}
			}
		}
		if !found {
			fail("package-level " + v.File + ":" + v.Ident)
		}
	}
}

var varsFile = filepath.Join("vars.json")
