package main

import (
	"go/ast"
	"strings"
)

// tables fills out.Tables with the decision tables the Lean model interprets.
func tables(repo string, out *Out) {
	put := func(area, name string, v any) {
		if out.Tables[area] == nil {
			out.Tables[area] = map[string]any{}
		}
		out.Tables[area][name] = v
	}
	fail := func(what string) { out.Errors = append(out.Errors, "shape not recognised: "+what) }

	// ---------- scheduler.go ----------
	sf := parse(repo, "internal/dag/scheduler/scheduler.go")

	// E1 isReady: switch over the dependency's status
	if fd := findFunc(sf, "", "isReady"); fd != nil {
		var rows [][]string
		ok := false
		ast.Inspect(fd.Body, func(n ast.Node) bool {
			sw, isSw := n.(*ast.SwitchStmt)
			if !isSw || ok {
				return true
			}
			ok = true
			for _, c := range sw.Body.List {
				cc := c.(*ast.CaseClause)
				labels := []string{"default"}
				if cc.List != nil {
					labels = nil
					for _, e := range cc.List {
						labels = append(labels, strings.TrimPrefix(src(e), "NodeStatus"))
					}
				}
				guard, eff, lab := classifyReadyBody(cc.Body)
				for _, l := range labels {
					rows = append(rows, []string{l, guard, eff, lab})
				}
			}
			return false
		})
		if !ok {
			fail("isReady switch")
		}
		put("Sched", "isReadyTable", rows)
	} else {
		fail("isReady")
	}

	// E4 Status(): cascade of `if cond { return X }` … `return Y`
	if fd := findFunc(sf, "Scheduler", "Status"); fd != nil {
		var rows [][]string
		for _, st := range fd.Body.List {
			switch s := st.(type) {
			case *ast.IfStmt:
				if len(s.Body.List) == 1 {
					if r, ok := s.Body.List[0].(*ast.ReturnStmt); ok && len(r.Results) == 1 && s.Else == nil && s.Init == nil {
						rows = append(rows, []string{src(s.Cond), src(r.Results[0])})
						continue
					}
				}
				rows = append(rows, []string{"?", src(s)})
			case *ast.ReturnStmt:
				if len(s.Results) == 1 {
					rows = append(rows, []string{"", src(s.Results[0])})
				}
			default:
				rows = append(rows, []string{"?", src(st)})
			}
		}
		put("Sched", "statusCascade", rows)
	} else {
		fail("Scheduler.Status")
	}

	// predicates over node statuses
	for _, p := range []string{"isFinished", "isSucceed", "runningCount"} {
		if fd := findFunc(sf, "Scheduler", p); fd != nil {
			var conds []string
			ast.Inspect(fd.Body, func(n ast.Node) bool {
				if i, ok := n.(*ast.IfStmt); ok {
					conds = append(conds, src(i.Cond)+" => "+stmtsSrc(i.Body.List))
				}
				return true
			})
			put("Sched", "pred_"+p, conds)
		} else {
			fail(p)
		}
	}

	// E2/E3/E5: pieces of Schedule
	if fd := findFunc(sf, "Scheduler", "Schedule"); fd != nil {
		var handlerRows [][]string
		var errRows [][]string
		var ifConds []string
		exitAppended := ""
		// variables holding the result of sc.Status(g) (`outcome := sc.Status(g)`): a switch on one of them is
		// the handler selection just like a switch on the call itself
		statusVars := map[string]bool{}
		ast.Inspect(fd.Body, func(n ast.Node) bool {
			if a, ok := n.(*ast.AssignStmt); ok && len(a.Lhs) == 1 && len(a.Rhs) == 1 {
				if id, ok := a.Lhs[0].(*ast.Ident); ok && strings.Contains(src(a.Rhs[0]), "Status(") {
					statusVars[id.Name] = true
				}
			}
			return true
		})
		ast.Inspect(fd.Body, func(n ast.Node) bool {
			switch s := n.(type) {
			case *ast.SwitchStmt:
				if s.Tag != nil && (strings.Contains(src(s.Tag), "Status(") || statusVars[src(s.Tag)]) {
					for _, c := range s.Body.List {
						cc := c.(*ast.CaseClause)
						lab := "default"
						if cc.List != nil {
							var ls []string
							for _, e := range cc.List {
								ls = append(ls, src(e))
							}
							lab = strings.Join(ls, ",")
						}
						handlerRows = append(handlerRows, []string{lab, stmtsSrc(cc.Body)})
					}
				} else if s.Tag == nil {
					for _, c := range s.Body.List {
						cc := c.(*ast.CaseClause)
						cond := "default"
						if cc.List != nil {
							cond = src(cc.List[0])
						}
						errRows = append(errRows, []string{cond, stmtsSrc(cc.Body)})
					}
				}
			case *ast.IfStmt:
				ifConds = append(ifConds, src(s.Cond))
			case *ast.AssignStmt:
				if t := src(s); strings.Contains(t, "HandlerOnExit") {
					exitAppended = t
				}
			}
			return true
		})
		put("Sched", "handlerSwitch", handlerRows)
		put("Sched", "errSwitch", errRows)
		put("Sched", "scheduleIfConds", ifConds)
		put("Sched", "exitAppend", exitAppended)
	} else {
		fail("Schedule")
	}

	// dry guards (E7)
	var dry []string
	for _, p := range []string{"setupNode", "teardownNode", "execNode"} {
		if fd := findFunc(sf, "Scheduler", p); fd != nil {
			dry = append(dry, p+": "+stmtsSrc(fd.Body.List))
		} else {
			fail(p)
		}
	}
	put("Sched", "dryGuards", dry)

	// Signal (E6)
	if fd := findFunc(sf, "Scheduler", "Signal"); fd != nil {
		var sk []string
		skeleton(&sk, 0, fd.Body.List)
		put("Sched", "signalSkeleton", sk)
	} else {
		fail("Signal")
	}
	nf := parse(repo, "internal/dag/scheduler/node.go")
	if fd := findFunc(nf, "Node", "signal"); fd != nil {
		var sk []string
		skeleton(&sk, 0, fd.Body.List)
		put("Sched", "nodeSignalSkeleton", sk)
	} else {
		fail("Node.signal")
	}

	// ---------- graph.go (E8) ----------
	gf := parse(repo, "internal/dag/scheduler/graph.go")
	if fd := findFunc(gf, "ExecutionGraph", "hasCycle"); fd != nil {
		var conds []string
		ast.Inspect(fd.Body, func(n ast.Node) bool {
			switch s := n.(type) {
			case *ast.IfStmt:
				conds = append(conds, "if "+src(s.Cond)+" => "+stmtsSrc(s.Body.List))
			case *ast.ForStmt:
				c := ""
				if s.Cond != nil {
					c = src(s.Cond)
				}
				conds = append(conds, "for "+c)
			case *ast.RangeStmt:
				conds = append(conds, "range "+src(s.X))
			case *ast.IncDecStmt:
				conds = append(conds, src(s))
			}
			return true
		})
		put("Graph", "hasCycleFacts", conds)
	} else {
		fail("hasCycle")
	}
	if fd := findFunc(gf, "ExecutionGraph", "setupRetry"); fd != nil {
		var conds []string
		ast.Inspect(fd.Body, func(n ast.Node) bool {
			if s, ok := n.(*ast.IfStmt); ok {
				conds = append(conds, "if "+src(s.Cond)+" => "+stmtsSrc(s.Body.List))
			}
			return true
		})
		put("Graph", "setupRetryFacts", conds)
	} else {
		fail("setupRetry")
	}
	tablesMore(repo, out, put, fail)
	tablesLoad(repo, out, put, fail)
	tablesDisplay(repo, put, fail)
	tablesVars(repo, put, fail)
}

func stmtsSrc(l []ast.Stmt) string {
	var ps []string
	for _, s := range l {
		if es, ok := s.(*ast.ExprStmt); ok && isLogging(es.X) {
			continue
		}
		ps = append(ps, src(s))
	}
	return strings.Join(ps, "; ")
}

// classifyReadyBody: (guard field, effect, label)
func classifyReadyBody(body []ast.Stmt) (string, string, string) {
	if len(body) == 1 {
		if b, ok := body[0].(*ast.BranchStmt); ok && b.Tok.String() == "continue" {
			return "", "go", ""
		}
		if i, ok := body[0].(*ast.IfStmt); ok && i.Else == nil {
			c := src(i.Cond)
			const pre = "!n.data.Step.ContinueOn."
			if strings.HasPrefix(c, pre) {
				_, eff, lab := classifyReadyBody(i.Body.List)
				return strings.TrimPrefix(c, pre), eff, lab
			}
			return "?" + c, "?", ""
		}
	}
	readyFalse, lab, other := false, "", false
	for _, s := range body {
		t := src(s)
		switch {
		case t == "ready = false":
			readyFalse = true
		case strings.HasPrefix(t, "node.setStatus(NodeStatus"):
			lab = strings.TrimSuffix(strings.TrimPrefix(t, "node.setStatus(NodeStatus"), ")")
		case strings.HasPrefix(t, "node.SetError("):
		default:
			other = true
		}
	}
	if other || !readyFalse {
		return "", "?" + stmtsSrc(body), lab
	}
	if lab == "" {
		return "", "wait", ""
	}
	return "", "block", lab
}
