// extract: re-reads the anchored functions of /repo on every run and emits
//   - a normalised skeleton (control structure + calls, logging and comments stripped) and its hash
//     per anchored function,
//   - decision tables for the decisions the Lean model interprets,
// as JSON (for the checks) and as Lean data (for the `decide` tie obligations).
// Standard library only.
package main

import (
	"bytes"
	"crypto/sha256"
	"encoding/json"
	"fmt"
	"go/ast"
	"go/parser"
	"go/printer"
	"go/token"
	"os"
	"path/filepath"
	"sort"
	"strings"
)

type Anchor struct {
	ID   string `json:"id"`   // Lean identifier
	Area string `json:"area"` // Lean module under BdModel/Extracted
	File string `json:"file"`
	Recv string `json:"recv"` // "" for plain functions, else receiver type name without *
	Func string `json:"func"`
}

type FuncOut struct {
	Hash     string   `json:"hash"`
	Skeleton []string `json:"skeleton"`
	Missing  bool     `json:"missing"`
}

type Out struct {
	Funcs  map[string]FuncOut        `json:"funcs"`
	Tables map[string]map[string]any `json:"tables"` // area -> name -> value
	Errors []string                  `json:"errors"`
}

var fset = token.NewFileSet()
var files = map[string]*ast.File{}

func parse(repo, rel string) *ast.File {
	if f, ok := files[rel]; ok {
		return f
	}
	f, err := parser.ParseFile(fset, filepath.Join(repo, rel), nil, parser.SkipObjectResolution)
	if err != nil {
		files[rel] = nil
		return nil
	}
	files[rel] = f
	return f
}

func recvName(fd *ast.FuncDecl) string {
	if fd.Recv == nil || len(fd.Recv.List) == 0 {
		return ""
	}
	t := fd.Recv.List[0].Type
	if s, ok := t.(*ast.StarExpr); ok {
		t = s.X
	}
	// generic receivers: Cache[T], Pair[K, V]
	if ix, ok := t.(*ast.IndexExpr); ok {
		t = ix.X
	}
	if ix, ok := t.(*ast.IndexListExpr); ok {
		t = ix.X
	}
	if id, ok := t.(*ast.Ident); ok {
		return id.Name
	}
	return "?"
}

func findFunc(f *ast.File, recv, name string) *ast.FuncDecl {
	if f == nil {
		return nil
	}
	for _, d := range f.Decls {
		if fd, ok := d.(*ast.FuncDecl); ok && fd.Name.Name == name && recvName(fd) == recv {
			return fd
		}
	}
	return nil
}

func src(n ast.Node) string {
	var b bytes.Buffer
	cfg := printer.Config{Mode: printer.RawFormat}
	_ = cfg.Fprint(&b, fset, n)
	s := b.String()
	// collapse whitespace
	return strings.Join(strings.Fields(s), " ")
}

// isLogging: calls that cannot matter for behaviour
func isLogging(e ast.Expr) bool {
	c, ok := e.(*ast.CallExpr)
	if !ok {
		return false
	}
	s := src(c.Fun)
	for _, p := range []string{".logger.", "log.Print", "log.Printf", "log.Println", "logger.Default.", "lg.Info", "lg.Error", "lg.Warn", "lg.Debug"} {
		if strings.Contains(s, p) {
			return true
		}
	}
	return false
}

// skeleton prints the statement structure; expressions verbatim (whitespace-normalised)
func skeleton(out *[]string, depth int, stmts []ast.Stmt) {
	ind := strings.Repeat(".", depth)
	add := func(s string) { *out = append(*out, ind+s) }
	for _, st := range stmts {
		switch s := st.(type) {
		case *ast.ExprStmt:
			if isLogging(s.X) {
				continue
			}
			add(srcWithFuncLits(out, depth, s.X))
		case *ast.IfStmt:
			hd := "if "
			if s.Init != nil {
				hd += src(s.Init) + "; "
			}
			add(hd + src(s.Cond))
			skeleton(out, depth+1, s.Body.List)
			if s.Else != nil {
				add("else")
				switch e := s.Else.(type) {
				case *ast.BlockStmt:
					skeleton(out, depth+1, e.List)
				default:
					skeleton(out, depth+1, []ast.Stmt{e})
				}
			}
		case *ast.ForStmt:
			hd := "for "
			if s.Init != nil {
				hd += src(s.Init)
			}
			hd += ";"
			if s.Cond != nil {
				hd += src(s.Cond)
			}
			hd += ";"
			if s.Post != nil {
				hd += src(s.Post)
			}
			add(hd)
			skeleton(out, depth+1, s.Body.List)
		case *ast.RangeStmt:
			k, v := "_", "_"
			if s.Key != nil {
				k = src(s.Key)
			}
			if s.Value != nil {
				v = src(s.Value)
			}
			add("range " + k + "," + v + " := " + src(s.X))
			skeleton(out, depth+1, s.Body.List)
		case *ast.SwitchStmt:
			hd := "switch "
			if s.Init != nil {
				hd += src(s.Init) + "; "
			}
			if s.Tag != nil {
				hd += src(s.Tag)
			}
			add(hd)
			for _, c := range s.Body.List {
				cc := c.(*ast.CaseClause)
				if cc.List == nil {
					add("default:")
				} else {
					var ls []string
					for _, e := range cc.List {
						ls = append(ls, src(e))
					}
					add("case " + strings.Join(ls, ", ") + ":")
				}
				skeleton(out, depth+1, cc.Body)
			}
		case *ast.TypeSwitchStmt:
			add("typeswitch " + src(s.Assign))
			for _, c := range s.Body.List {
				cc := c.(*ast.CaseClause)
				if cc.List == nil {
					add("default:")
				} else {
					var ls []string
					for _, e := range cc.List {
						ls = append(ls, src(e))
					}
					add("case " + strings.Join(ls, ", ") + ":")
				}
				skeleton(out, depth+1, cc.Body)
			}
		case *ast.SelectStmt:
			add("select")
			for _, c := range s.Body.List {
				cc := c.(*ast.CommClause)
				if cc.Comm == nil {
					add("default:")
				} else {
					add("comm " + src(cc.Comm) + ":")
				}
				skeleton(out, depth+1, cc.Body)
			}
		case *ast.BlockStmt:
			skeleton(out, depth, s.List)
		case *ast.LabeledStmt:
			add("label " + s.Label.Name)
			skeleton(out, depth, []ast.Stmt{s.Stmt})
		case *ast.GoStmt:
			add("go " + srcWithFuncLits(out, depth, s.Call))
		case *ast.DeferStmt:
			add("defer " + srcWithFuncLits(out, depth, s.Call))
		case *ast.AssignStmt:
			txt := ""
			for i, l := range s.Lhs {
				if i > 0 {
					txt += ", "
				}
				txt += src(l)
			}
			txt += " " + s.Tok.String() + " "
			for i, r := range s.Rhs {
				if i > 0 {
					txt += ", "
				}
				txt += srcWithFuncLits(out, depth, r)
			}
			add(txt)
		case *ast.ReturnStmt:
			txt := "return"
			for i, r := range s.Results {
				if i > 0 {
					txt += ","
				}
				txt += " " + srcWithFuncLits(out, depth, r)
			}
			add(txt)
		case *ast.DeclStmt:
			add(src(s))
		default:
			add(src(st))
		}
	}
}

// srcWithFuncLits prints an expression; function literals are replaced by `func{…}` and their bodies
// are emitted as nested skeleton lines (so logging inside closures is stripped too)
func srcWithFuncLits(out *[]string, depth int, e ast.Expr) string {
	var lits []*ast.FuncLit
	ast.Inspect(e, func(n ast.Node) bool {
		if fl, ok := n.(*ast.FuncLit); ok {
			lits = append(lits, fl)
			return false
		}
		return true
	})
	if len(lits) == 0 {
		return src(e)
	}
	s := src(e)
	for i, fl := range lits {
		s = strings.Replace(s, src(fl), fmt.Sprintf("func#%d%s", i, src(fl.Type)[4:]), 1)
	}
	*out = append(*out, strings.Repeat(".", depth)+s)
	for i, fl := range lits {
		*out = append(*out, strings.Repeat(".", depth+1)+fmt.Sprintf("func#%d body", i))
		skeleton(out, depth+2, fl.Body.List)
	}
	return "^"
}

func hashOf(lines []string) string {
	h := sha256.Sum256([]byte(strings.Join(lines, "\n")))
	return fmt.Sprintf("%x", h[:8]) // 64 bits are plenty to detect an edit
}

func leanIdent(s string) string {
	r := strings.NewReplacer(".", "_", "-", "_", "/", "_", " ", "_")
	return r.Replace(s)
}

func leanStr(s string) string {
	s = strings.ReplaceAll(s, "\\", "\\\\")
	s = strings.ReplaceAll(s, "\"", "\\\"")
	s = strings.ReplaceAll(s, "\n", "\\n")
	s = strings.ReplaceAll(s, "\t", "\\t")
	return "\"" + s + "\""
}

func main() {
	if len(os.Args) < 5 {
		fmt.Fprintln(os.Stderr, "usage: extract <repo> <anchors.json> <out.json> <leanExtractedDir>")
		os.Exit(2)
	}
	repo, anchorsFile, outJSON, leanDir := os.Args[1], os.Args[2], os.Args[3], os.Args[4]
	varsFile = filepath.Join(filepath.Dir(anchorsFile), "vars.json")
	var anchors []Anchor
	b, err := os.ReadFile(anchorsFile)
	if err != nil {
		panic(err)
	}
	if err := json.Unmarshal(b, &anchors); err != nil {
		panic(err)
	}
	out := Out{Funcs: map[string]FuncOut{}, Tables: map[string]map[string]any{}}
	byArea := map[string][]Anchor{}
	for _, a := range anchors {
		byArea[a.Area] = append(byArea[a.Area], a)
		f := parse(repo, a.File)
		if a.Func == "*" {
			// "rest of the file": every top-level declaration that is not anchored on its own in this area —
			// functions as skeletons, var / const / type declarations verbatim (comments and imports excluded)
			if f == nil {
				out.Funcs[a.ID] = FuncOut{Hash: "0", Missing: true}
				out.Errors = append(out.Errors, "missing file "+a.File)
				continue
			}
			own := map[string]bool{}
			for _, b := range anchors {
				if b.Area == a.Area && b.File == a.File && b.Func != "*" {
					own[b.Recv+"."+b.Func] = true
				}
			}
			var sk []string
			for _, d := range f.Decls {
				switch x := d.(type) {
				case *ast.FuncDecl:
					if own[recvName(x)+"."+x.Name.Name] {
						continue
					}
					sk = append(sk, "func "+recvName(x)+"."+x.Name.Name)
					sk = append(sk, "sig "+src(x.Type))
					if x.Body != nil {
						skeleton(&sk, 1, x.Body.List)
					}
				case *ast.GenDecl:
					if x.Tok == token.IMPORT {
						continue
					}
					sk = append(sk, "decl "+src(x))
				}
			}
			out.Funcs[a.ID] = FuncOut{Hash: hashOf(sk), Skeleton: sk}
			continue
		}
		fd := findFunc(f, a.Recv, a.Func)
		if fd == nil || fd.Body == nil {
			out.Funcs[a.ID] = FuncOut{Hash: "0", Missing: true}
			out.Errors = append(out.Errors, "missing function "+a.File+":"+a.Recv+"."+a.Func)
			continue
		}
		var sk []string
		sk = append(sk, "sig "+src(fd.Type))
		skeleton(&sk, 0, fd.Body.List)
		out.Funcs[a.ID] = FuncOut{Hash: hashOf(sk), Skeleton: sk}
	}
	tables(repo, &out)

	// Lean output: one module per area
	areas := []string{}
	for a := range byArea {
		areas = append(areas, a)
	}
	for a := range out.Tables {
		if _, ok := byArea[a]; !ok {
			areas = append(areas, a)
		}
	}
	sort.Strings(areas)
	_ = os.MkdirAll(leanDir, 0o755)
	for _, area := range areas {
		var w bytes.Buffer
		fmt.Fprintf(&w, "/- GENERATED by /verif/go/extract from /repo's current source. Do not edit. -/\n")
		fmt.Fprintf(&w, "namespace BdModel.Extracted.%s\n\n", area)
		for _, a := range byArea[area] {
			fmt.Fprintf(&w, "/-- hash of the normalised skeleton of %s (%s) -/\ndef h_%s : Nat := 0x%s\n\n", a.Func, a.File, leanIdent(a.ID), out.Funcs[a.ID].Hash)
		}
		names := []string{}
		for n := range out.Tables[area] {
			names = append(names, n)
		}
		sort.Strings(names)
		for _, n := range names {
			fmt.Fprintf(&w, "def %s : %s\n\n", leanIdent(n), leanValue(out.Tables[area][n]))
		}
		fmt.Fprintf(&w, "end BdModel.Extracted.%s\n", area)
		p := filepath.Join(leanDir, area+".lean")
		old, _ := os.ReadFile(p)
		if !bytes.Equal(old, w.Bytes()) {
			if err := os.WriteFile(p, w.Bytes(), 0o644); err != nil {
				panic(err)
			}
		}
	}
	jb, _ := json.MarshalIndent(out, "", " ")
	if err := os.WriteFile(outJSON, jb, 0o644); err != nil {
		panic(err)
	}
}

// leanValue renders a table value: []string -> List String, [][]string -> List (List String), string -> String, bool -> Bool, int -> Nat
func leanValue(v any) string {
	switch t := v.(type) {
	case string:
		return "String := " + leanStr(t)
	case bool:
		if t {
			return "Bool := true"
		}
		return "Bool := false"
	case int:
		return fmt.Sprintf("Nat := %d", t)
	case []string:
		var ps []string
		for _, s := range t {
			ps = append(ps, leanStr(s))
		}
		return "List String := [" + strings.Join(ps, ", ") + "]"
	case [][]string:
		var rows []string
		for _, r := range t {
			var ps []string
			for _, s := range r {
				ps = append(ps, leanStr(s))
			}
			rows = append(rows, "["+strings.Join(ps, ", ")+"]")
		}
		return "List (List String) := [\n  " + strings.Join(rows, ",\n  ") + "]"
	}
	return "String := \"?\""
}
