package main

import (
	"go/ast"
	"strings"
)

// tablesMore: tables of the other areas
func tablesMore(repo string, out *Out, put func(area, name string, v any), fail func(string)) {
	// ---------- middleware (E15): wrap order of SetupGlobalMiddleware ----------
	mf := parse(repo, "internal/frontend/middleware/global.go")
	if fd := findFunc(mf, "", "SetupGlobalMiddleware"); fd != nil {
		var rows [][]string
		var walk func(stmts []ast.Stmt, cond string)
		walk = func(stmts []ast.Stmt, cond string) {
			for _, st := range stmts {
				switch s := st.(type) {
				case *ast.AssignStmt:
					if len(s.Lhs) == 1 && src(s.Lhs[0]) == "next" && len(s.Rhs) == 1 {
						rows = append(rows, []string{callHead(s.Rhs[0]), cond})
					}
				case *ast.IfStmt:
					walk(s.Body.List, src(s.Cond))
					if s.Else != nil {
						if b, ok := s.Else.(*ast.BlockStmt); ok {
							walk(b.List, "!("+src(s.Cond)+")")
						}
					}
				}
			}
		}
		walk(fd.Body.List, "")
		put("Auth", "wrapOrder", rows)
	} else {
		fail("SetupGlobalMiddleware")
	}
	bf := parse(repo, "internal/frontend/middleware/basic_auth.go")
	if fd := findFunc(bf, "", "skipBasicAuth"); fd != nil {
		put("Auth", "skipBasicCond", stmtsSrc(fd.Body.List))
	} else {
		fail("skipBasicAuth")
	}
}

// callHead: the function name of `f(...)(next)` or `f(next)`
func callHead(e ast.Expr) string {
	for {
		c, ok := e.(*ast.CallExpr)
		if !ok {
			return strings.TrimSpace(src(e))
		}
		if _, inner := c.Fun.(*ast.CallExpr); inner {
			e = c.Fun
			continue
		}
		return src(c.Fun)
	}
}
