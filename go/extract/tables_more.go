package main

// tablesMore: tables of the other areas (filled in as the models grow)
func tablesMore(repo string, out *Out, put func(area, name string, v any), fail func(string)) {
}
