package main

// Area "Load" (C13, C19): effect-site table of the DAG loader.
//
//	effectSites : [func, callee, idx, kind, needNoEval, needMetadataOnly]   calls of exec.Command / os.Setenv / os.ExpandEnv
//	callEdges   : [caller, callee, needNoEval, needMetadataOnly]            calls / references between functions of the three files
//	builderFields : [builder step function, definition field]               `b.def.X` read by a builder step
//	entryOpts   : [entry point, metadataOnly, noEval]                       buildOpts literal of each exported loader
//	defStructs  : [struct, field, type]                                     internal/dag/definition.go
//
// needX ∈ {"-", "T", "F"}: the call is lexically inside `if X` ("T") / `if !X` or after `if X { return }` ("F");
// bool parameters are resolved through their (unique) call-site argument (`eval` ← `!b.opts.noEval`).
// A condition that cannot be resolved to noEval / metadataOnly is a data condition and is dropped
// (conservative: the site counts as reachable).

import (
	"fmt"
	"go/ast"
	"go/token"
	"sort"
	"strings"
)

var loadFiles = []string{"internal/dag/builder.go", "internal/dag/parser.go", "internal/dag/loader.go"}

type guardSet map[string]string // "noEval" / "metadataOnly" -> "T" / "F"

func (g guardSet) with(lits [][2]string) guardSet {
	n := guardSet{}
	for k, v := range g {
		n[k] = v
	}
	for _, l := range lits {
		n[l[0]] = l[1]
	}
	return n
}

func (g guardSet) col(k string) string {
	if v, ok := g[k]; ok {
		return v
	}
	return "-"
}

type loadCtx struct {
	funcs       map[string]*ast.FuncDecl
	vars        map[string][]string            // package-level var -> functions referenced in its initialiser
	aliases     map[string]map[string]ast.Expr // func -> bool param -> unique call-site argument (nil = ambiguous)
	params      map[string][]string            // func -> parameter names in order
	aliasCaller map[string]string              // func.param -> the function containing that call site
}

func stripParens(e ast.Expr) ast.Expr {
	for {
		p, ok := e.(*ast.ParenExpr)
		if !ok {
			return e
		}
		e = p.X
	}
}

// literal resolves an expression to (option, "T"/"F") if it is (the negation of) noEval / metadataOnly
func (c *loadCtx) literal(fn string, e ast.Expr, depth int) (string, string, bool) {
	e = stripParens(e)
	if depth > 4 {
		return "", "", false
	}
	switch x := e.(type) {
	case *ast.UnaryExpr:
		if x.Op == token.NOT {
			k, v, ok := c.literal(fn, x.X, depth+1)
			if !ok {
				return "", "", false
			}
			if v == "T" {
				return k, "F", true
			}
			return k, "T", true
		}
	case *ast.SelectorExpr:
		if x.Sel.Name == "noEval" || x.Sel.Name == "metadataOnly" {
			return x.Sel.Name, "T", true
		}
	case *ast.Ident:
		if x.Name == "noEval" || x.Name == "metadataOnly" {
			return x.Name, "T", true
		}
		if a, ok := c.aliases[fn][x.Name]; ok && a != nil {
			// the argument expression lives in the caller; option selectors resolve the same way there
			return c.literal(c.aliasCaller[fn+"."+x.Name], a, depth+1)
		}
	}
	return "", "", false
}

// conjuncts of a condition that are option literals; `||` conditions yield nothing
func (c *loadCtx) lits(fn string, e ast.Expr, negate bool) [][2]string {
	e = stripParens(e)
	if b, ok := e.(*ast.BinaryExpr); ok {
		if b.Op == token.LAND && !negate {
			return append(c.lits(fn, b.X, false), c.lits(fn, b.Y, false)...)
		}
		if b.Op == token.LOR && negate { // !(a || b) = !a && !b
			return append(c.lits(fn, b.X, true), c.lits(fn, b.Y, true)...)
		}
		return nil
	}
	k, v, ok := c.literal(fn, e, 0)
	if !ok {
		return nil
	}
	if negate {
		if v == "T" {
			v = "F"
		} else {
			v = "T"
		}
	}
	return [][2]string{{k, v}}
}

func terminates(b *ast.BlockStmt) bool {
	if b == nil || len(b.List) == 0 {
		return false
	}
	_, ok := b.List[len(b.List)-1].(*ast.ReturnStmt)
	return ok
}

type siteRow struct {
	fn, callee, kind string
	g                guardSet
}
type edgeRow struct {
	caller, callee string
	g              guardSet
}

// util.SplitCommandWithParse runs back-tick / $(…) substitutions through go-shellwords (`sh -c`): an exec site
var effectCallees = map[string]string{"exec.Command": "exec", "exec.CommandContext": "exec", "os.Setenv": "setenv",
	"util.SplitCommandWithParse": "exec", "shellwords.Parse": "exec",
	"os.Unsetenv": "setenv", "os.Clearenv": "setenv", "os.ExpandEnv": "expand", "syscall.Setenv": "setenv"}

func (c *loadCtx) walkExpr(fn string, e ast.Node, g guardSet, sites *[]siteRow, edges *[]edgeRow) {
	ast.Inspect(e, func(n ast.Node) bool {
		switch x := n.(type) {
		case *ast.FuncLit:
			c.walkBlock(fn, x.Body.List, g, sites, edges)
			return false
		case *ast.CallExpr:
			name := src(x.Fun)
			if k, ok := effectCallees[name]; ok {
				*sites = append(*sites, siteRow{fn, name, k, g})
			}
		case *ast.Ident:
			if _, ok := c.funcs[x.Name]; ok && x.Name != fn {
				*edges = append(*edges, edgeRow{fn, x.Name, g})
			}
			for _, f := range c.vars[x.Name] {
				*edges = append(*edges, edgeRow{fn, f, g})
			}
		case *ast.SelectorExpr:
			if _, ok := c.funcs[x.Sel.Name]; ok && x.Sel.Name != fn {
				// method value / method call on a local receiver (b.buildEnvs, b.stepBuilder.buildStep, c.eval)
				if id, isID := x.X.(*ast.Ident); !isID || (id.Name != "os" && id.Name != "exec" && id.Name != "strings" && id.Name != "util") {
					*edges = append(*edges, edgeRow{fn, x.Sel.Name, g})
				}
			}
			c.walkExpr(fn, x.X, g, sites, edges)
			return false
		}
		return true
	})
}

func (c *loadCtx) walkBlock(fn string, stmts []ast.Stmt, g guardSet, sites *[]siteRow, edges *[]edgeRow) {
	for _, st := range stmts {
		switch s := st.(type) {
		case *ast.IfStmt:
			if s.Init != nil {
				c.walkStmt(fn, s.Init, g, sites, edges)
			}
			c.walkExpr(fn, s.Cond, g, sites, edges)
			c.walkBlock(fn, s.Body.List, g.with(c.lits(fn, s.Cond, false)), sites, edges)
			if s.Else != nil {
				ge := g.with(c.lits(fn, s.Cond, true))
				if b, ok := s.Else.(*ast.BlockStmt); ok {
					c.walkBlock(fn, b.List, ge, sites, edges)
				} else {
					c.walkBlock(fn, []ast.Stmt{s.Else}, ge, sites, edges)
				}
			} else if terminates(s.Body) {
				g = g.with(c.lits(fn, s.Cond, true)) // `if X { return }`: the rest of the block runs under !X
			}
		default:
			c.walkStmt(fn, st, g, sites, edges)
		}
	}
}

func (c *loadCtx) walkStmt(fn string, st ast.Stmt, g guardSet, sites *[]siteRow, edges *[]edgeRow) {
	switch s := st.(type) {
	case *ast.BlockStmt:
		c.walkBlock(fn, s.List, g, sites, edges)
	case *ast.IfStmt:
		c.walkBlock(fn, []ast.Stmt{s}, g, sites, edges)
	case *ast.ForStmt:
		if s.Init != nil {
			c.walkStmt(fn, s.Init, g, sites, edges)
		}
		if s.Cond != nil {
			c.walkExpr(fn, s.Cond, g, sites, edges)
		}
		if s.Post != nil {
			c.walkStmt(fn, s.Post, g, sites, edges)
		}
		c.walkBlock(fn, s.Body.List, g, sites, edges)
	case *ast.RangeStmt:
		c.walkExpr(fn, s.X, g, sites, edges)
		c.walkBlock(fn, s.Body.List, g, sites, edges)
	case *ast.SwitchStmt:
		if s.Init != nil {
			c.walkStmt(fn, s.Init, g, sites, edges)
		}
		if s.Tag != nil {
			c.walkExpr(fn, s.Tag, g, sites, edges)
		}
		for _, cl := range s.Body.List {
			cc := cl.(*ast.CaseClause)
			for _, e := range cc.List {
				c.walkExpr(fn, e, g, sites, edges)
			}
			c.walkBlock(fn, cc.Body, g, sites, edges)
		}
	case *ast.TypeSwitchStmt:
		if s.Init != nil {
			c.walkStmt(fn, s.Init, g, sites, edges)
		}
		c.walkStmt(fn, s.Assign, g, sites, edges)
		for _, cl := range s.Body.List {
			c.walkBlock(fn, cl.(*ast.CaseClause).Body, g, sites, edges)
		}
	case *ast.SelectStmt:
		for _, cl := range s.Body.List {
			c.walkBlock(fn, cl.(*ast.CommClause).Body, g, sites, edges)
		}
	case *ast.LabeledStmt:
		c.walkStmt(fn, s.Stmt, g, sites, edges)
	case nil:
	default:
		c.walkExpr(fn, st, g, sites, edges)
	}
}

func tablesLoad(repo string, out *Out, put func(area, name string, v any), fail func(string)) {
	c := &loadCtx{funcs: map[string]*ast.FuncDecl{}, vars: map[string][]string{}, aliases: map[string]map[string]ast.Expr{},
		params: map[string][]string{}, aliasCaller: map[string]string{}}
	var order []string
	for _, rel := range loadFiles {
		f := parse(repo, rel)
		if f == nil {
			fail("load file " + rel)
			return
		}
		for _, d := range f.Decls {
			if fd, ok := d.(*ast.FuncDecl); ok && fd.Body != nil {
				if _, dup := c.funcs[fd.Name.Name]; dup {
					fail("duplicate function name in loader files: " + fd.Name.Name)
				}
				c.funcs[fd.Name.Name] = fd
				order = append(order, fd.Name.Name)
				for _, p := range fd.Type.Params.List {
					for _, n := range p.Names {
						c.params[fd.Name.Name] = append(c.params[fd.Name.Name], n.Name)
					}
				}
			}
		}
	}
	// package-level vars whose initialiser mentions functions (stepBuilderFuncs)
	for _, rel := range loadFiles {
		for _, d := range parse(repo, rel).Decls {
			gd, ok := d.(*ast.GenDecl)
			if !ok || gd.Tok != token.VAR {
				continue
			}
			for _, sp := range gd.Specs {
				vs := sp.(*ast.ValueSpec)
				for i, n := range vs.Names {
					if i < len(vs.Values) {
						ast.Inspect(vs.Values[i], func(x ast.Node) bool {
							if id, ok := x.(*ast.Ident); ok {
								if _, isF := c.funcs[id.Name]; isF {
									c.vars[n.Name] = append(c.vars[n.Name], id.Name)
								}
							}
							return true
						})
					}
				}
			}
		}
	}
	// bool-parameter aliases: argument at the call sites (must be unique)
	for _, caller := range order {
		ast.Inspect(c.funcs[caller].Body, func(n ast.Node) bool {
			call, ok := n.(*ast.CallExpr)
			if !ok {
				return true
			}
			name := ""
			switch f := call.Fun.(type) {
			case *ast.Ident:
				name = f.Name
			case *ast.SelectorExpr:
				name = f.Sel.Name
			}
			ps, known := c.params[name]
			if _, isF := c.funcs[name]; !isF || !known || len(ps) != len(call.Args) {
				return true
			}
			for i, p := range ps {
				if c.aliases[name] == nil {
					c.aliases[name] = map[string]ast.Expr{}
				}
				if old, seen := c.aliases[name][p]; seen && (old == nil || src(old) != src(call.Args[i])) {
					c.aliases[name][p] = nil
				} else {
					c.aliases[name][p] = call.Args[i]
					c.aliasCaller[name+"."+p] = caller
				}
			}
			return true
		})
	}
	var sites []siteRow
	var edges []edgeRow
	for _, fn := range order {
		c.walkBlock(fn, c.funcs[fn].Body.List, guardSet{}, &sites, &edges)
	}
	var siteRows [][]string
	idx := map[string]int{}
	for _, s := range sites {
		k := s.fn + "/" + s.callee
		siteRows = append(siteRows, []string{s.fn, s.callee, fmt.Sprint(idx[k]), s.kind, s.g.col("noEval"), s.g.col("metadataOnly")})
		idx[k]++
	}
	seen := map[string]bool{}
	var edgeRows [][]string
	for _, e := range edges {
		r := []string{e.caller, e.callee, e.g.col("noEval"), e.g.col("metadataOnly")}
		if k := strings.Join(r, "|"); !seen[k] {
			seen[k] = true
			edgeRows = append(edgeRows, r)
		}
	}
	if len(siteRows) == 0 || len(edgeRows) == 0 {
		fail("loader effect sites")
	}
	put("Load", "effectSites", siteRows)
	put("Load", "callEdges", edgeRows)

	// definition fields read by each builder step
	var bf [][]string
	for _, fn := range order {
		fs := map[string]bool{}
		ast.Inspect(c.funcs[fn].Body, func(n ast.Node) bool {
			if sel, ok := n.(*ast.SelectorExpr); ok {
				if inner, ok := sel.X.(*ast.SelectorExpr); ok && inner.Sel.Name == "def" {
					fs[sel.Sel.Name] = true
				}
				if id, ok := sel.X.(*ast.Ident); ok && id.Name == "def" && fn == "build" {
					fs[sel.Sel.Name] = true
				}
			}
			return true
		})
		var names []string
		for k := range fs {
			names = append(names, k)
		}
		sort.Strings(names)
		for _, k := range names {
			bf = append(bf, []string{fn, k})
		}
	}
	put("Load", "builderFields", bf)

	// entry points: the buildOpts literal
	var eo [][]string
	for _, fn := range order {
		fd := c.funcs[fn]
		if !fd.Name.IsExported() || fd.Recv != nil {
			continue
		}
		ast.Inspect(fd.Body, func(n ast.Node) bool {
			cl, ok := n.(*ast.CompositeLit)
			if !ok || src(cl.Type) != "buildOpts" {
				return true
			}
			mo, ne := "false", "false"
			for _, el := range cl.Elts {
				if kv, ok := el.(*ast.KeyValueExpr); ok {
					switch src(kv.Key) {
					case "metadataOnly":
						mo = src(kv.Value)
					case "noEval":
						ne = src(kv.Value)
					}
				}
			}
			eo = append(eo, []string{fn, mo, ne})
			return false
		})
	}
	if len(eo) == 0 {
		fail("loader entry points")
	}
	put("Load", "entryOpts", eo)

	// definition.go: struct shapes
	df := parse(repo, "internal/dag/definition.go")
	var ds [][]string
	if df != nil {
		for _, d := range df.Decls {
			gd, ok := d.(*ast.GenDecl)
			if !ok {
				continue
			}
			for _, sp := range gd.Specs {
				ts, ok := sp.(*ast.TypeSpec)
				if !ok {
					continue
				}
				st, ok := ts.Type.(*ast.StructType)
				if !ok {
					continue
				}
				for _, f := range st.Fields.List {
					for _, n := range f.Names {
						ds = append(ds, []string{ts.Name.Name, n.Name, src(f.Type)})
					}
				}
			}
		}
	}
	if len(ds) == 0 {
		fail("definition.go structs")
	}
	put("Load", "defStructs", ds)
}
