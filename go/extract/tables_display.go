package main

// Area "Load" (C19), display path: what the code that SHOWS a definition — the client's status / list / search / save
// calls, the placeholder status built by model.NewStatusDefault -> NewStatus -> FromSteps / nodeOrNil -> NewNode, the local
// DAG store and the API handlers with their converters — can reach.
//
//	displayFuncs       : ["pkg.func"]                         every function of the display files
//	displaySites       : [func, callee, idx, kind]            calls of an effect callee (the same list as the loader table:
//	                                                          exec.Command, os.Setenv, util.SplitCommandWithParse, …)
//	displayEdges       : [caller, callee]                     calls / references between functions of the display files
//	displayLoaderCalls : [func, loader function]              calls into internal/dag's loader files (dag.LoadWithoutEval, …)
//
// A function is "pkg.name" (methods by their name alone). A reference `x.M` whose `x` is not an imported package is
// resolved BY NAME to every function called M of the display files (over-approximation: an edge too many can only make
// an effect look reachable, never hide one).

import (
	"fmt"
	"go/ast"
	"path"
	"sort"
	"strconv"
	"strings"
)

var displayFiles = [][2]string{
	{"client", "internal/client/client.go"},
	{"model", "internal/persistence/model/node.go"},
	{"model", "internal/persistence/model/status.go"},
	{"local", "internal/persistence/local/dag_store.go"},
	{"local", "internal/persistence/local/flag_store.go"},
	{"fdag", "internal/frontend/dag/handler.go"},
	{"fdag", "internal/frontend/dag/convert.go"},
}

// import path suffix -> package key of the display files / the loader
var displayPkgOfImport = map[string]string{
	"internal/client":            "client",
	"internal/persistence/model": "model",
	"internal/persistence/local": "local",
	"internal/frontend/dag":      "fdag",
	"internal/dag":               "dag",
}

func tablesDisplay(repo string, put func(area, name string, v any), fail func(string)) {
	type fn struct {
		pkg, name string
		bodies    []*ast.BlockStmt
		file      *ast.File
	}
	funcs := map[string]*fn{}
	byName := map[string][]string{} // bare name -> keys
	var order []string
	for _, pf := range displayFiles {
		f := parse(repo, pf[1])
		if f == nil {
			fail("display file " + pf[1])
			return
		}
		for _, d := range f.Decls {
			fd, ok := d.(*ast.FuncDecl)
			if !ok || fd.Body == nil {
				continue
			}
			k := pf[0] + "." + fd.Name.Name
			if funcs[k] == nil {
				funcs[k] = &fn{pkg: pf[0], name: fd.Name.Name, file: f}
				order = append(order, k)
				byName[fd.Name.Name] = append(byName[fd.Name.Name], k)
			}
			funcs[k].bodies = append(funcs[k].bodies, fd.Body)
		}
	}
	// the functions of the loader files (what a `dag.X` call can enter)
	loaderFuncs := map[string]bool{}
	for _, rel := range loadFiles {
		if f := parse(repo, rel); f != nil {
			for _, d := range f.Decls {
				if fd, ok := d.(*ast.FuncDecl); ok && fd.Recv == nil && fd.Name.IsExported() {
					loaderFuncs[fd.Name.Name] = true
				}
			}
		}
	}
	importsOf := func(f *ast.File) map[string]string { // alias -> package key ("" = a package outside the display files)
		m := map[string]string{}
		for _, im := range f.Imports {
			p, _ := strconv.Unquote(im.Path.Value)
			alias := path.Base(p)
			if im.Name != nil {
				alias = im.Name.Name
			}
			key := ""
			for suf, k := range displayPkgOfImport {
				if strings.HasSuffix(p, "/"+suf) {
					key = k
				}
			}
			m[alias] = key
		}
		return m
	}
	var sites, edges, loaders [][]string
	seenE, seenL := map[string]bool{}, map[string]bool{}
	idx := map[string]int{}
	addEdge := func(a, b string) {
		if a != b && !seenE[a+"|"+b] {
			seenE[a+"|"+b] = true
			edges = append(edges, []string{a, b})
		}
	}
	for _, k := range order {
		f := funcs[k]
		imps := importsOf(f.file)
		// every file of the package has its own import list; methods of one key may come from two files — the aliases of the
		// display files agree (checked: a conflicting alias is reported)
		for _, body := range f.bodies {
			ast.Inspect(body, func(n ast.Node) bool {
				switch x := n.(type) {
				case *ast.CallExpr:
					name := src(x.Fun)
					if kind, ok := effectCallees[name]; ok {
						sk := k + "/" + name
						sites = append(sites, []string{k, name, fmt.Sprint(idx[sk]), kind})
						idx[sk]++
					}
				case *ast.Ident:
					if t := f.pkg + "." + x.Name; funcs[t] != nil {
						addEdge(k, t)
					}
				case *ast.SelectorExpr:
					if id, isID := x.X.(*ast.Ident); isID {
						if pk, isPkg := imps[id.Name]; isPkg {
							switch {
							case pk == "dag":
								if loaderFuncs[x.Sel.Name] && !seenL[k+"|"+x.Sel.Name] {
									seenL[k+"|"+x.Sel.Name] = true
									loaders = append(loaders, []string{k, x.Sel.Name})
								}
							case pk != "":
								if t := pk + "." + x.Sel.Name; funcs[t] != nil {
									addEdge(k, t)
								}
							}
							return false // a package-qualified name: nothing below it
						}
					}
					// a method / field of a value: every function of that name in the display files
					for _, t := range byName[x.Sel.Name] {
						addEdge(k, t)
					}
					// (the receiver expression is walked by Inspect: h.client.GetStatus -> h.client is a field chain)
				}
				return true
			})
		}
	}
	if len(order) == 0 || len(edges) == 0 {
		fail("display-path functions")
	}
	for _, need := range []string{"client.GetStatus", "client.GetLatestStatus", "model.NewStatusDefault", "model.NewNode", "local.GetDetails", "fdag.getDetail"} {
		if funcs[need] == nil {
			fail("display-path function " + need)
		}
	}
	fl := append([]string{}, order...)
	sort.Strings(fl)
	var flRows [][]string
	for _, k := range fl {
		flRows = append(flRows, []string{k})
	}
	if sites == nil {
		sites = [][]string{}
	}
	if loaders == nil {
		loaders = [][]string{}
	}
	put("Load", "displayFuncs", flRows)
	put("Load", "displaySites", sites)
	put("Load", "displayEdges", edges)
	put("Load", "displayLoaderCalls", loaders)
}
