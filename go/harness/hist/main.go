//go:build verif

// History-area harness: drives the REAL jsondb store (through persistence.HistoryStore) over a temp dir.
// One JSON case (a list of operations over several DAG files) per line; after every operation all
// queries are answered for all DAGs and written out in canonical form.
package main

import (
	"bufio"
	"encoding/hex"
	"encoding/json"
	"fmt"
	"io"
	"log"
	"os"
	"path/filepath"
	"runtime"
	"sort"
	"strings"
	"sync"
	"sync/atomic"
	"time"

	"github.com/ErdemOzgen/blackdagger/internal/dag/scheduler"
	"github.com/ErdemOzgen/blackdagger/internal/persistence"
	"github.com/ErdemOzgen/blackdagger/internal/persistence/jsondb"
	"github.com/ErdemOzgen/blackdagger/internal/persistence/model"
)

type op struct {
	Op   string `json:"op"` // open write close update rename removeOld removeAll age crashfile
	K    int    `json:"k"`  // writer instance (one JSONDB per recording process)
	D    int    `json:"d"`  // dag index
	D2   int    `json:"d2"` // rename target
	T    int64  `json:"t"`  // start time, unix ms (open)
	Req  string `json:"req"`
	P    string `json:"p"`    // payload marker
	St   int    `json:"st"`   // scheduler status
	Days int    `json:"days"` // removeOld retention / age
	Big  int    `json:"big"`  // extra bytes in the status (a long log path): status lines across buffer sizes
	// update / write: statuses recorded immediately BEFORE the one with payload P, with no query in between (so that a
	// background reader can be in the middle of re-reading the file when the next line lands); only P survives
	Burst []string `json:"burst,omitempty"`
	// no query after this operation (the next operation follows at once): the answer record only says "skip"
	NoQ bool `json:"noq,omitempty"`
	// start that many reader goroutines (recent history of the DAG, through the long-lived store) right before the
	// operation and stop them right after it: their first read of a file nobody has read yet overlaps the operation
	Spawn int `json:"spawn,omitempty"`
	// microseconds to wait between starting those readers and performing the operation
	DelayUs int `json:"delayUs,omitempty"`
}

type hcase struct {
	ID    string   `json:"id"`
	Dags  []string `json:"dags"` // file names (relative to the dags dir), e.g. "a b.yaml"
	Ops   []op     `json:"ops"`
	Today bool     `json:"today"` // latestStatusToday
	Reqs  []string `json:"reqs"`  // request ids to look up after every op
	Ns    []int    `json:"ns"`    // recent-history sizes to query
	// background readers: goroutines keep asking the long-lived store for the recent / latest status of every DAG
	// while the operations go on (the web server does that while agents write); their answers are not judged - the
	// answers given AFTER each operation are, so a reader that leaves a stale view behind is noticed
	Bg int `json:"bg,omitempty"`
}

type answer struct {
	Err    string              `json:"err,omitempty"` // error class of the operation itself
	Find   map[string]string   `json:"find"`          // "d/req" -> payload | "!notfound" | "!err"
	Latest []string            `json:"latest"`        // per dag: payload | "!nodata" | "!err:<msg class>"
	Recent map[string][]string `json:"recent"`        // "d/n" -> payloads
	Files  []string            `json:"files"`         // data dir listing (relative), sorted
	Skip   bool                `json:"skip,omitempty"`
}

func mkStatus(name, req, p string, st int, big ...int) *model.Status {
	s := &model.Status{RequestID: req, Name: name, Status: scheduler.Status(st), StatusText: scheduler.Status(st).String(),
		PID: model.PID(1234), Params: p, StartedAt: "-", Nodes: []*model.Node{}}
	if len(big) > 0 && big[0] > 0 {
		s.Log = strings.Repeat("x", big[0])
	}
	return s
}

func errClass(err error) string {
	if err == nil {
		return ""
	}
	s := err.Error()
	switch {
	case strings.Contains(s, "no status data"):
		return "!nodata"
	case err == io.EOF || strings.Contains(s, "EOF"):
		return "!err:EOF"
	case strings.Contains(s, "not found"):
		return "!notfound"
	}
	return "!err:" + strings.SplitN(s, ":", 2)[0]
}

func runCase(c hcase) (res []answer, panicked string) {
	defer func() {
		if r := recover(); r != nil {
			panicked = fmt.Sprint(r)
		}
	}()
	root, _ := os.MkdirTemp("", "verif-hist-")
	defer os.RemoveAll(root)
	dataDir := filepath.Join(root, "data")
	dagsDir := filepath.Join(root, "dags")
	paths := make([]string, len(c.Dags))
	for i, d := range c.Dags {
		paths[i] = filepath.Join(dagsDir, d)
	}
	writers := map[int]persistence.HistoryStore{}
	writerDag := map[int]int{}
	reader := jsondb.New(dataDir, c.Today) // one long-lived store answers all queries (its cache is exercised)
	admin := jsondb.New(dataDir, c.Today)
	var bgIters atomic.Int64
	stopBg := make(chan struct{})
	var bgWG sync.WaitGroup
	for g := 0; g < c.Bg; g++ {
		bgWG.Add(1)
		go func(g int) {
			defer bgWG.Done()
			defer func() { _ = recover() }()
			for {
				select {
				case <-stopBg:
					return
				default:
				}
				bgIters.Add(1)
				for d := range c.Dags {
					if (d+g)%2 == 0 {
						reader.ReadStatusRecent(paths[d], 1+g%2*4)
					} else {
						_, _ = reader.ReadStatusToday(paths[d])
					}
				}
			}
		}(g)
	}
	defer func() {
		close(stopBg)
		bgWG.Wait()
		if os.Getenv("VERIF_BG_DEBUG") != "" {
			fmt.Fprintf(os.Stderr, "%s: %d background reader rounds\n", c.ID, bgIters.Load())
		}
	}()
	for _, o := range c.Ops {
		var a answer
		var err error
		var spStop atomic.Bool
		var spWG sync.WaitGroup
		if o.Spawn > 0 {
			dd := o.D
			if o.Op == "write" {
				dd = writerDag[o.K]
			}
			for g := 0; g < o.Spawn; g++ {
				spWG.Add(1)
				go func() {
					defer spWG.Done()
					defer func() { _ = recover() }()
					for !spStop.Load() {
						reader.ReadStatusRecent(paths[dd], 1)
					}
				}()
			}
		}
		if o.DelayUs > 0 {
			t0 := time.Now()
			for time.Since(t0) < time.Duration(o.DelayUs)*time.Microsecond {
				runtime.Gosched()
			}
		}
		switch o.Op {
		case "open":
			w := jsondb.New(dataDir, c.Today)
			writers[o.K] = w
			writerDag[o.K] = o.D
			err = w.Open(paths[o.D], time.UnixMilli(o.T).UTC(), o.Req)
		case "write":
			if w := writers[o.K]; w != nil {
				for _, bp := range o.Burst {
					_ = w.Write(mkStatus(c.Dags[writerDag[o.K]], o.Req, bp, o.St, 0))
				}
				err = w.Write(mkStatus(c.Dags[writerDag[o.K]], o.Req, o.P, o.St, o.Big))
			}
		case "close":
			if w := writers[o.K]; w != nil {
				err = w.Close()
				delete(writers, o.K)
			}
		case "abandon": // the recording process is gone without closing (killed): no compaction
			delete(writers, o.K)
		case "update":
			for _, bp := range o.Burst {
				_ = admin.Update(paths[o.D], o.Req, mkStatus(c.Dags[o.D], o.Req, bp, o.St, 0))
			}
			err = admin.Update(paths[o.D], o.Req, mkStatus(c.Dags[o.D], o.Req, o.P, o.St, o.Big))
		case "rename":
			err = admin.Rename(paths[o.D], paths[o.D2])
		case "removeOld":
			err = admin.RemoveOld(paths[o.D], o.Days)
		case "removeAll":
			err = admin.RemoveAll(paths[o.D])
		case "age":
			// make every history file of dag D look `Days` days older (retention works on mtime)
			filepath.Walk(dataDir, func(p string, info os.FileInfo, e error) error {
				if e == nil && !info.IsDir() && strings.HasPrefix(filepath.Base(filepath.Dir(p)), dirPrefix(c.Dags[o.D])+"-") {
					mt := info.ModTime().Add(-time.Duration(o.Days) * 24 * time.Hour)
					os.Chtimes(p, mt, mt)
				}
				return nil
			})
		}
		spStop.Store(true)
		spWG.Wait()
		a.Err = errClass(err)
		if o.NoQ {
			a.Skip = true
			res = append(res, a)
			continue
		}
		a.Find = map[string]string{}
		a.Recent = map[string][]string{}
		for d := range c.Dags {
			for _, r := range c.Reqs {
				sf, e := reader.FindByRequestID(paths[d], r)
				if e != nil {
					a.Find[fmt.Sprintf("%d/%s", d, r)] = errClass(e)
				} else {
					a.Find[fmt.Sprintf("%d/%s", d, r)] = sf.Status.Params
				}
			}
			st, e := reader.ReadStatusToday(paths[d])
			if e != nil {
				a.Latest = append(a.Latest, errClass(e))
			} else {
				a.Latest = append(a.Latest, st.Params)
			}
			for _, n := range c.Ns {
				var ps []string
				for _, sf := range reader.ReadStatusRecent(paths[d], n) {
					ps = append(ps, sf.Status.Params)
				}
				a.Recent[fmt.Sprintf("%d/%d", d, n)] = ps
			}
		}
		filepath.Walk(dataDir, func(p string, info os.FileInfo, e error) error {
			if e == nil && !info.IsDir() {
				rel, _ := filepath.Rel(dataDir, p)
				a.Files = append(a.Files, rel)
			}
			return nil
		})
		sort.Strings(a.Files)
		res = append(res, a)
	}
	return
}

func dirPrefix(dagFile string) string {
	b := filepath.Base(dagFile)
	return strings.TrimSuffix(b, filepath.Ext(b))
}

// ---- crash modes (C07) ----
// exec  <root> <opsfile> : perform the ops (JSON list) as ONE recording/admin process over <root>/data;
//
//	prints "ack <i>" (unbuffered) after op i has returned. Meant to be killed.
//
// query <root> <casefile>: answer all queries of the case over <root>/data + list files with their parse result.
func execMode(root, opsFile string) {
	runtime.LockOSThread()
	b, err := os.ReadFile(opsFile)
	if err != nil {
		os.Exit(3)
	}
	var c hcase
	if json.Unmarshal(b, &c) != nil {
		os.Exit(3)
	}
	dataDir := filepath.Join(root, "data")
	paths := make([]string, len(c.Dags))
	for i, d := range c.Dags {
		paths[i] = filepath.Join(root, "dags", d)
	}
	writers := map[int]persistence.HistoryStore{}
	writerDag := map[int]int{}
	admin := jsondb.New(dataDir, c.Today)
	for i, o := range c.Ops {
		switch o.Op {
		case "open":
			w := jsondb.New(dataDir, c.Today)
			writers[o.K] = w
			writerDag[o.K] = o.D
			_ = w.Open(paths[o.D], time.UnixMilli(o.T).UTC(), o.Req)
		case "write":
			if w := writers[o.K]; w != nil {
				_ = w.Write(mkStatus(c.Dags[writerDag[o.K]], o.Req, o.P, o.St, o.Big))
			}
		case "close":
			if w := writers[o.K]; w != nil {
				_ = w.Close()
				delete(writers, o.K)
			}
		case "abandon":
			delete(writers, o.K)
		case "update":
			_ = admin.Update(paths[o.D], o.Req, mkStatus(c.Dags[o.D], o.Req, o.P, o.St, o.Big))
		case "rename":
			_ = admin.Rename(paths[o.D], paths[o.D2])
		case "removeOld":
			_ = admin.RemoveOld(paths[o.D], o.Days)
		case "removeAll":
			_ = admin.RemoveAll(paths[o.D])
		case "age":
			ageDag(dataDir, c.Dags[o.D], o.Days)
		}
		os.Stdout.WriteString(fmt.Sprintf("ack %d\n", i))
	}
}

func ageDag(dataDir, dagName string, days int) {
	filepath.Walk(dataDir, func(p string, info os.FileInfo, e error) error {
		if e == nil && !info.IsDir() && strings.HasPrefix(filepath.Base(filepath.Dir(p)), dirPrefix(dagName)+"-") {
			mt := info.ModTime().Add(-time.Duration(days) * 24 * time.Hour)
			os.Chtimes(p, mt, mt)
		}
		return nil
	})
}

type fileInfo struct {
	Rel  string `json:"rel"`
	Last string `json:"last"` // payload of the last parseable status, "" if none
	Req  string `json:"req"`
	Size int64  `json:"size"`
}

func queryMode(root, caseFile string) {
	b, err := os.ReadFile(caseFile)
	if err != nil {
		os.Exit(3)
	}
	var c hcase
	if json.Unmarshal(b, &c) != nil {
		os.Exit(3)
	}
	dataDir := filepath.Join(root, "data")
	paths := make([]string, len(c.Dags))
	for i, d := range c.Dags {
		paths[i] = filepath.Join(root, "dags", d)
	}
	var a answer
	var files []fileInfo
	pan := ""
	func() {
		defer func() {
			if r := recover(); r != nil {
				pan = fmt.Sprint(r)
			}
		}()
		reader := jsondb.New(dataDir, c.Today)
		a.Find = map[string]string{}
		a.Recent = map[string][]string{}
		for d := range c.Dags {
			for _, r := range c.Reqs {
				sf, e := reader.FindByRequestID(paths[d], r)
				if e != nil {
					a.Find[fmt.Sprintf("%d/%s", d, r)] = errClass(e)
				} else {
					a.Find[fmt.Sprintf("%d/%s", d, r)] = sf.Status.Params
				}
			}
			st, e := reader.ReadStatusToday(paths[d])
			if e != nil {
				a.Latest = append(a.Latest, errClass(e))
			} else {
				a.Latest = append(a.Latest, st.Params)
			}
			for _, n := range c.Ns {
				var ps []string
				for _, sf := range reader.ReadStatusRecent(paths[d], n) {
					ps = append(ps, sf.Status.Params)
				}
				a.Recent[fmt.Sprintf("%d/%d", d, n)] = ps
			}
		}
		filepath.Walk(dataDir, func(p string, info os.FileInfo, e error) error {
			if e == nil && !info.IsDir() {
				rel, _ := filepath.Rel(dataDir, p)
				fi := fileInfo{Rel: rel, Size: info.Size()}
				if st, e := jsondb.ParseFile(p); e == nil && st != nil {
					fi.Last, fi.Req = st.Params, st.RequestID
				}
				files = append(files, fi)
			}
			return nil
		})
	}()
	out, _ := json.Marshal(map[string]any{"answer": a, "files": files, "panic": pan})
	os.Stdout.Write(out)
	os.Stdout.WriteString("\n")
}

// match mode: lines `<hex pattern|-> <hex name>`; with pattern "-" the name is a path prefix and the line asks for
// escapeGlob(prefix). Output: `1` / `0` / `err` (filepath.Match), or the hex of the escaped string.
func matchMode() {
	in := bufio.NewReaderSize(os.Stdin, 1<<20)
	out := bufio.NewWriter(os.Stdout)
	defer out.Flush()
	for {
		line, err := in.ReadString('\n')
		f := strings.Fields(line)
		if len(f) == 2 {
			nb, _ := hex.DecodeString(f[1])
			if f[0] == "-" {
				fmt.Fprintln(out, hex.EncodeToString([]byte(jsondb.VerifEscapeGlob(string(nb)))))
			} else {
				pb, _ := hex.DecodeString(f[0])
				ok, e := filepath.Match(string(pb), string(nb))
				switch {
				case e != nil:
					fmt.Fprintln(out, "err")
				case ok:
					fmt.Fprintln(out, "1")
				default:
					fmt.Fprintln(out, "0")
				}
			}
		}
		if err != nil {
			break
		}
	}
}

func main() {
	log.SetOutput(io.Discard)
	if len(os.Args) >= 2 && os.Args[1] == "match" {
		matchMode()
		return
	}
	if len(os.Args) >= 4 && os.Args[1] == "exec" {
		execMode(os.Args[2], os.Args[3])
		return
	}
	if len(os.Args) >= 4 && os.Args[1] == "query" {
		queryMode(os.Args[2], os.Args[3])
		return
	}
	in := bufio.NewReaderSize(os.Stdin, 1<<22)
	out := bufio.NewWriter(os.Stdout)
	defer out.Flush()
	for {
		line, err := in.ReadBytes('\n')
		if len(line) > 1 {
			var c hcase
			if e := json.Unmarshal(line, &c); e != nil {
				fmt.Fprintln(os.Stderr, "bad case", e)
				os.Exit(2)
			}
			res, p := runCase(c)
			b, _ := json.Marshal(map[string]any{"id": c.ID, "answers": res, "panic": p})
			out.Write(b)
			out.WriteByte('\n')
			out.Flush()
		}
		if err != nil {
			break
		}
	}
}
