//go:build verif

// Auth-area harness: the REAL middleware chain (middleware.Setup + SetupGlobalMiddleware) around
// sentinel handlers, driven with generated requests. One JSON case per line in, one result line out.
package main

import (
	"bufio"
	"encoding/hex"
	"encoding/json"
	"fmt"
	"net/http"
	"net/http/httptest"
	"os"

	"github.com/ErdemOzgen/blackdagger/internal/frontend/middleware"
	"github.com/ErdemOzgen/blackdagger/internal/logger"
)

type acase struct {
	ID       string     `json:"id"`
	HasBasic bool       `json:"hasBasic"`
	User     string     `json:"user"` // hex
	Pass     string     `json:"pass"`
	HasToken bool       `json:"hasToken"`
	Token    string     `json:"token"`
	Base     string     `json:"base"`
	Method   string     `json:"method"`
	Extra    [][]string `json:"extra,omitempty"` // [canonical header name, hex value]
	Path     string     `json:"path"`
	HasHdr   bool       `json:"hasHdr"`
	Hdr      string     `json:"hdr"`
}

func unhex(s string) string {
	b, _ := hex.DecodeString(s)
	return string(b)
}

func main() {
	if len(os.Args) > 1 && os.Args[1] == "server" {
		serverMode()
		return
	}
	if len(os.Args) > 1 && os.Args[1] == "paths" {
		pathsMode()
		return
	}
	in := bufio.NewReaderSize(os.Stdin, 1<<20)
	out := bufio.NewWriter(os.Stdout)
	defer out.Flush()
	lg := logger.NewLogger(logger.NewLoggerArgs{Quiet: true})
	for {
		line, err := in.ReadBytes('\n')
		if len(line) > 1 {
			var c acase
			if e := json.Unmarshal(line, &c); e != nil {
				fmt.Fprintln(os.Stderr, "bad case", e)
				os.Exit(2)
			}
			fmt.Fprintf(out, "%s %s\n", c.ID, runOne(c, lg))
		}
		if err != nil {
			break
		}
	}
}

func runOne(c acase, lg logger.Logger) (res string) {
	defer func() {
		if r := recover(); r != nil {
			res = "panic"
		}
	}()
	apiHit, defHit := false, false
	opts := &middleware.Options{
		Handler:  http.HandlerFunc(func(w http.ResponseWriter, r *http.Request) { defHit = true; w.WriteHeader(200) }),
		Logger:   lg,
		BasePath: unhex(c.Base),
	}
	if c.HasBasic {
		opts.AuthBasic = &middleware.AuthBasic{Username: unhex(c.User), Password: unhex(c.Pass)}
	}
	if c.HasToken {
		opts.AuthToken = &middleware.AuthToken{Token: unhex(c.Token)}
	}
	middleware.Setup(opts)
	h := middleware.SetupGlobalMiddleware(http.HandlerFunc(func(w http.ResponseWriter, r *http.Request) {
		apiHit = true
		w.WriteHeader(200)
	}))
	req := httptest.NewRequest(c.Method, "http://x"+unhex(c.Path), nil)
	if c.HasHdr {
		req.Header["Authorization"] = []string{unhex(c.Hdr)}
	}
	// other request headers (CORS pre-flight markers, proxy headers, look-alike credential headers…): none of them
	// is a way of presenting a configured secret
	for _, kv := range c.Extra {
		if len(kv) == 2 {
			req.Header[kv[0]] = append(req.Header[kv[0]], unhex(kv[1]))
		}
	}
	rec := httptest.NewRecorder()
	h.ServeHTTP(rec, req)
	switch {
	case apiHit:
		return "api"
	case defHit:
		return "default"
	case rec.Code == 401:
		return "unauthorized"
	case rec.Code == 303:
		return "redirect"
	case rec.Code == 404:
		return "notFound"
	case rec.Code == 200 && c.Method == "OPTIONS":
		return "api" // CORS pre-flight answered inside the auth chain: auth was passed
	}
	return fmt.Sprintf("code%d", rec.Code)
}
