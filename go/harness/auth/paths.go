//go:build verif

package main

import (
	"bufio"
	"bytes"
	"crypto/sha256"
	"encoding/hex"
	"encoding/json"
	"fmt"
	"io"
	"net"
	"net/http"
	"os"
	"path/filepath"
	"sort"
	"strings"
	"time"
)

// mode "paths": the REAL web server (as in mode "server") with one planted DAG (the canary), driven by a RAW TCP client:
// the request target goes on the wire exactly as generated (dot segments, double slashes, percent escapes, ';', '#',
// absolute form …), nothing cleans it on the way. For every request the harness reports what came back (status, content
// type, Location / WWW-Authenticate, a body prefix, whether any canary string occurs anywhere in the body) and what the
// request DID: the state of the DAGs directory and of the suspend-flag directory is compared before/after each request
// and put back when it changed. Whether that amounts to "an API handler was reached" is decided by the caller.
type pathReq struct {
	ID     string `json:"id"`
	Method string `json:"method"`
	Target string `json:"target"` // hex; "{HOSTPORT}" is replaced by 127.0.0.1:<port>
	HasHdr bool   `json:"hasHdr"`
	Hdr    string `json:"hdr"`  // hex, Authorization value
	Body   string `json:"body"` // hex, sent as application/json when non-empty
}

type pathCase struct {
	srvCase
	Canary  string    `json:"canary"` // DAG name
	Marks   []string  `json:"marks"`  // strings only the API can disclose (name, tag, description word)
	PReqs   []pathReq `json:"preqs"`
	Timeout int       `json:"timeoutMs"`
}

type pathRes struct {
	Code   int      `json:"code"`
	CType  string   `json:"ctype"`
	Loc    string   `json:"loc,omitempty"`
	WWW    string   `json:"www,omitempty"`
	Body   string   `json:"body"`            // first bytes, as a Go-quoted string would lose bytes: hex
	Marks  []string `json:"marks,omitempty"` // which of the canary strings occur anywhere in the body
	Effect string   `json:"effect,omitempty"`
	Err    string   `json:"err,omitempty"`
}

func pathsMode() {
	in := bufio.NewReaderSize(os.Stdin, 1<<24)
	out := bufio.NewWriter(os.Stdout)
	defer out.Flush()
	for {
		line, err := in.ReadBytes('\n')
		if len(line) > 1 {
			var c pathCase
			if e := json.Unmarshal(line, &c); e == nil {
				res, herr := runPaths(c)
				b, _ := json.Marshal(map[string]any{"id": c.ID, "res": res, "err": herr})
				out.Write(b)
				out.WriteByte('\n')
				out.Flush()
			} else {
				fmt.Fprintln(os.Stderr, "bad case", e)
			}
		}
		if err != nil {
			break
		}
	}
}

func canaryYAML(c pathCase) []byte {
	tag, desc := "", ""
	if len(c.Marks) > 1 {
		tag = c.Marks[1]
	}
	if len(c.Marks) > 2 {
		desc = c.Marks[2]
	}
	return []byte(fmt.Sprintf("description: %s\ntags: %s\nsteps:\n  - name: s1\n    command: \"true\"\n", desc, tag))
}

// state of what the API handlers can change: file name -> content digest
func snapshot(ls *liveServer) string {
	var parts []string
	for _, d := range []string{ls.dags, ls.suspend} {
		ents, _ := os.ReadDir(d)
		for _, e := range ents {
			h := ""
			if !e.IsDir() {
				b, _ := os.ReadFile(filepath.Join(d, e.Name()))
				s := sha256.Sum256(b)
				h = hex.EncodeToString(s[:6])
			}
			parts = append(parts, filepath.Base(d)+"/"+e.Name()+":"+h)
		}
	}
	sort.Strings(parts)
	return strings.Join(parts, " ")
}

func plant(ls *liveServer, c pathCase) {
	for _, d := range []string{ls.dags, ls.suspend} {
		ents, _ := os.ReadDir(d)
		for _, e := range ents {
			os.RemoveAll(filepath.Join(d, e.Name()))
		}
		os.MkdirAll(d, 0o755)
	}
	os.WriteFile(filepath.Join(ls.dags, c.Canary+".yaml"), canaryYAML(c), 0o644)
}

func runPaths(c pathCase) (res []pathRes, herr string) {
	defer func() {
		if r := recover(); r != nil {
			herr = fmt.Sprint("panic: ", r)
		}
	}()
	ls := startServer(c.srvCase)
	if ls == nil {
		return nil, "server did not come up"
	}
	defer ls.stop()
	plant(ls, c)
	base := snapshot(ls)
	to := time.Duration(c.Timeout) * time.Millisecond
	if to <= 0 {
		to = 5 * time.Second
	}
	hostport := fmt.Sprintf("127.0.0.1:%d", ls.port)
	for _, r := range c.PReqs {
		pr := rawRequest(hostport, r, c.Marks, to)
		if now := snapshot(ls); now != base {
			pr.Effect = diffState(base, now)
			plant(ls, c)
			base = snapshot(ls)
		}
		res = append(res, pr)
	}
	return res, ""
}

func diffState(a, b string) string {
	as, bs := map[string]bool{}, map[string]bool{}
	for _, x := range strings.Fields(a) {
		as[x] = true
	}
	for _, x := range strings.Fields(b) {
		bs[x] = true
	}
	var d []string
	for x := range as {
		if !bs[x] {
			d = append(d, "-"+x)
		}
	}
	for x := range bs {
		if !as[x] {
			d = append(d, "+"+x)
		}
	}
	sort.Strings(d)
	return strings.Join(d, " ")
}

func rawRequest(hostport string, r pathReq, marks []string, to time.Duration) (pr pathRes) {
	cn, err := net.DialTimeout("tcp", hostport, to)
	if err != nil {
		return pathRes{Code: -4, Err: err.Error()}
	}
	defer cn.Close()
	cn.SetDeadline(time.Now().Add(to))
	target := strings.ReplaceAll(unhex(r.Target), "{HOSTPORT}", hostport)
	var w bytes.Buffer
	fmt.Fprintf(&w, "%s %s HTTP/1.1\r\nHost: %s\r\nConnection: close\r\nAccept: application/json, */*\r\n", r.Method, target, hostport)
	if r.HasHdr {
		fmt.Fprintf(&w, "Authorization: %s\r\n", unhex(r.Hdr))
	}
	body := unhex(r.Body)
	if body != "" {
		fmt.Fprintf(&w, "Content-Type: application/json\r\nContent-Length: %d\r\n", len(body))
	}
	w.WriteString("\r\n")
	w.WriteString(body)
	if _, err := cn.Write(w.Bytes()); err != nil {
		return pathRes{Code: -5, Err: err.Error()}
	}
	resp, err := http.ReadResponse(bufio.NewReader(cn), &http.Request{Method: r.Method})
	if err != nil {
		return pathRes{Code: -6, Err: err.Error()}
	}
	defer resp.Body.Close()
	b, _ := io.ReadAll(io.LimitReader(resp.Body, 4<<20))
	pr = pathRes{Code: resp.StatusCode, CType: resp.Header.Get("Content-Type"), Loc: resp.Header.Get("Location"),
		WWW: resp.Header.Get("Www-Authenticate")}
	for _, m := range marks {
		if m != "" && bytes.Contains(b, []byte(m)) {
			pr.Marks = append(pr.Marks, m)
		}
	}
	if len(b) > 240 {
		b = b[:240]
	}
	pr.Body = hex.EncodeToString(b)
	return pr
}
