//go:build verif

package main

import (
	"bufio"
	"context"
	"encoding/json"
	"fmt"
	"net"
	"net/http"
	"os"
	"path/filepath"
	"time"

	"github.com/ErdemOzgen/blackdagger/internal/client"
	"github.com/ErdemOzgen/blackdagger/internal/config"
	"github.com/ErdemOzgen/blackdagger/internal/frontend"
	"github.com/ErdemOzgen/blackdagger/internal/logger"
	dsclient "github.com/ErdemOzgen/blackdagger/internal/persistence/client"
)

// mode "server": the REAL web server as `blackdagger server` builds it (config.Config -> frontend.New -> Serve) on a
// loopback port; the configured secrets reach the middleware through frontend.New and Server.Serve. One JSON line per
// configuration with its requests; one line of status codes back.
type srvCase struct {
	ID       string  `json:"id"`
	HasBasic bool    `json:"hasBasic"`
	User     string  `json:"user"` // hex
	Pass     string  `json:"pass"`
	HasToken bool    `json:"hasToken"`
	Token    string  `json:"token"`
	Base     string  `json:"base"`
	Reqs     []acase `json:"reqs"`
}

func serverMode() {
	in := bufio.NewReaderSize(os.Stdin, 1<<22)
	out := bufio.NewWriter(os.Stdout)
	defer out.Flush()
	for {
		line, err := in.ReadBytes('\n')
		if len(line) > 1 {
			var c srvCase
			if json.Unmarshal(line, &c) == nil {
				codes := runServer(c)
				b, _ := json.Marshal(map[string]any{"id": c.ID, "codes": codes})
				out.Write(b)
				out.WriteByte('\n')
				out.Flush()
			}
		}
		if err != nil {
			break
		}
	}
}

// startServer brings up the real server for one configuration on a free loopback port; stop() shuts it down and removes
// its directories. dagsDir / suspendDir are the directories the API handlers read and write.
type liveServer struct {
	port               int
	dir, dags, suspend string
	stop               func()
}

func startServer(c srvCase) (ls *liveServer) {
	l, err := net.Listen("tcp", "127.0.0.1:0")
	if err != nil {
		return nil
	}
	port := l.Addr().(*net.TCPAddr).Port
	_ = l.Close()
	dir, _ := os.MkdirTemp("", "verif-auth-srv-")
	cfg := &config.Config{Host: "127.0.0.1", Port: port, DAGs: filepath.Join(dir, "dags"), DataDir: filepath.Join(dir, "data"),
		SuspendFlagsDir: filepath.Join(dir, "suspend"), APIBaseURL: "/api/v1", BasePath: unhex(c.Base),
		IsBasicAuth: c.HasBasic, BasicAuthUsername: unhex(c.User), BasicAuthPassword: unhex(c.Pass),
		IsAuthToken: c.HasToken, AuthToken: unhex(c.Token)}
	lg := logger.NewLogger(logger.NewLoggerArgs{Format: "text", Quiet: true})
	ds := dsclient.NewDataStores(cfg.DAGs, cfg.DataDir, cfg.SuspendFlagsDir, dsclient.DataStoreOptions{LatestStatusToday: true})
	cli := client.New(ds, "", dir, lg)
	svr := frontend.New(cfg, lg, cli)
	ctx, cancel := context.WithCancel(context.Background())
	done := make(chan struct{})
	go func() {
		defer close(done)
		defer func() { _ = recover() }()
		_ = svr.Serve(ctx)
	}()
	stop := func() {
		svr.Shutdown()
		cancel()
		select {
		case <-done:
		case <-time.After(5 * time.Second):
		}
		os.RemoveAll(dir)
	}
	for k := 0; k < 200; k++ {
		cn, err := net.DialTimeout("tcp", fmt.Sprintf("127.0.0.1:%d", port), 200*time.Millisecond)
		if err == nil {
			cn.Close()
			return &liveServer{port: port, dir: dir, dags: cfg.DAGs, suspend: cfg.SuspendFlagsDir, stop: stop}
		}
		time.Sleep(25 * time.Millisecond)
	}
	stop()
	return nil
}

func runServer(c srvCase) (codes []int) {
	defer func() {
		if r := recover(); r != nil {
			codes = append(codes, -2)
		}
	}()
	ls := startServer(c)
	if ls == nil {
		return []int{-1}
	}
	defer ls.stop()
	port := ls.port
	hc := &http.Client{Timeout: 5 * time.Second, CheckRedirect: func(*http.Request, []*http.Request) error { return http.ErrUseLastResponse }}
	for _, r := range c.Reqs {
		req, err := http.NewRequest(r.Method, fmt.Sprintf("http://127.0.0.1:%d%s", port, unhex(r.Path)), nil)
		if err != nil {
			codes = append(codes, -3)
			continue
		}
		if r.HasHdr {
			req.Header["Authorization"] = []string{unhex(r.Hdr)}
		}
		for _, kv := range r.Extra {
			if len(kv) == 2 {
				req.Header[kv[0]] = append(req.Header[kv[0]], unhex(kv[1]))
			}
		}
		resp, err := hc.Do(req)
		if err != nil {
			codes = append(codes, -4)
			continue
		}
		if os.Getenv("VERIF_BODY") != "" {
			b := make([]byte, 120)
			n, _ := resp.Body.Read(b)
			fmt.Fprintf(os.Stderr, "%s %s -> %d %q\n", r.Method, unhex(r.Path), resp.StatusCode, string(b[:n]))
		}
		resp.Body.Close()
		codes = append(codes, resp.StatusCode)
	}
	return codes
}
