//go:build verif

// Load-area harness (C13, C19): the REAL loader entry points (dag.LoadYAML, dag.Load, dag.LoadMetadata,
// dag.LoadWithoutEval, local.NewDAGStore(...).UpdateSpec/GetDetails/List) under recover().
// One JSON case per line in, one JSON result line out.
//
//	{"id","mode":"tree","tree":"<prefix tokens>","eval":bool}   C13 structured stream (same encoding as `driver load`)
//	{"id","mode":"raw","hex":"…"}                               C13 raw-bytes stream (non-evaluating entries only)
//	{"id","mode":"fields","repo":"/repo"}                       C19: enumerate the plantable fields of definition.go
//	{"id","mode":"canary","entry":"LoadYAML","path":"steps[].command","variant":"str","shape":"dq-mid"}   C19 canary
//	{"id","mode":"shapes"}                                      C19: the lexical shapes a canary text is planted in
//	{"id","mode":"display","path","variant","shape","state"}    C19: the same documents through the real client + API (display.go)
//
// Tree encoding (space separated, prefix order): n | t | f | i<dec> | d<yaml float text> | s<hex utf-8> |
// l<count> <tree>*count | m<count> (<key tree> <value tree>)*count
package main

import (
	"bufio"
	"encoding/hex"
	"encoding/json"
	"fmt"
	"go/ast"
	"go/parser"
	"go/token"
	"os"
	"path/filepath"
	"regexp"
	"runtime/debug"
	"sort"
	"strconv"
	"strings"
	"time"
	"unicode"

	"github.com/ErdemOzgen/blackdagger/internal/dag"
	"github.com/ErdemOzgen/blackdagger/internal/dag/scheduler"
	"github.com/ErdemOzgen/blackdagger/internal/persistence/local"
	"github.com/ErdemOzgen/blackdagger/internal/persistence/model"
	"github.com/ErdemOzgen/blackdagger/internal/util"
	"github.com/robfig/cron/v3"
	"golang.org/x/sys/unix"
)

// ---------------------------------------------------------------- tree encoding

type tree struct {
	kind string // n b i d s l m
	b    bool
	txt  string // int / float text, or the string itself
	list []*tree
	keys []*tree
	vals []*tree
}

func parseTree(toks []string, pos *int) (*tree, error) {
	if *pos >= len(toks) {
		return nil, fmt.Errorf("truncated tree")
	}
	t := toks[*pos]
	*pos++
	switch t[0] {
	case 'n':
		return &tree{kind: "n"}, nil
	case 't':
		return &tree{kind: "b", b: true}, nil
	case 'f':
		return &tree{kind: "b"}, nil
	case 'i':
		return &tree{kind: "i", txt: t[1:]}, nil
	case 'd':
		return &tree{kind: "d", txt: t[1:]}, nil
	case 's':
		b, err := hex.DecodeString(t[1:])
		if err != nil {
			return nil, err
		}
		return &tree{kind: "s", txt: string(b)}, nil
	case 'l':
		n, err := strconv.Atoi(t[1:])
		if err != nil {
			return nil, err
		}
		r := &tree{kind: "l"}
		for i := 0; i < n; i++ {
			c, err := parseTree(toks, pos)
			if err != nil {
				return nil, err
			}
			r.list = append(r.list, c)
		}
		return r, nil
	case 'm':
		n, err := strconv.Atoi(t[1:])
		if err != nil {
			return nil, err
		}
		r := &tree{kind: "m"}
		for i := 0; i < n; i++ {
			k, err := parseTree(toks, pos)
			if err != nil {
				return nil, err
			}
			v, err := parseTree(toks, pos)
			if err != nil {
				return nil, err
			}
			r.keys = append(r.keys, k)
			r.vals = append(r.vals, v)
		}
		return r, nil
	}
	return nil, fmt.Errorf("bad token %q", t)
}

func quote(s string) string {
	var b strings.Builder
	b.WriteByte('"')
	for _, r := range s {
		switch {
		case r == '\\':
			b.WriteString(`\\`)
		case r == '"':
			b.WriteString(`\"`)
		case r == '\n':
			b.WriteString(`\n`)
		case r == '\t':
			b.WriteString(`\t`)
		case r < 0x20 || r == 0x7f:
			fmt.Fprintf(&b, `\x%02x`, r)
		case r == 0x85 || r == 0xa0 || r == 0x2028 || r == 0x2029 || r == 0xfeff || !unicode.IsPrint(r):
			if r <= 0xffff {
				fmt.Fprintf(&b, `\u%04x`, r)
			} else {
				fmt.Fprintf(&b, `\U%08x`, r)
			}
		default:
			b.WriteRune(r)
		}
	}
	b.WriteByte('"')
	return b.String()
}

// emit renders the tree as flow-style YAML (every string double-quoted)
func emit(t *tree, b *strings.Builder) {
	switch t.kind {
	case "n":
		b.WriteString("null")
	case "b":
		if t.b {
			b.WriteString("true")
		} else {
			b.WriteString("false")
		}
	case "i", "d":
		b.WriteString(t.txt)
	case "s":
		b.WriteString(quote(t.txt))
	case "l":
		b.WriteByte('[')
		for i, c := range t.list {
			if i > 0 {
				b.WriteString(", ")
			}
			emit(c, b)
		}
		b.WriteByte(']')
	case "m":
		b.WriteByte('{')
		for i := range t.keys {
			if i > 0 {
				b.WriteString(", ")
			}
			emit(t.keys[i], b)
			b.WriteString(": ")
			emit(t.vals[i], b)
		}
		b.WriteByte('}')
	}
}

func allStrings(t *tree, acc map[string]bool) {
	switch t.kind {
	case "s":
		acc[t.txt] = true
	case "l":
		for _, c := range t.list {
			allStrings(c, acc)
		}
	case "m":
		for i := range t.keys {
			allStrings(t.keys[i], acc)
			allStrings(t.vals[i], acc)
		}
	}
}

// ---------------------------------------------------------------- running one entry point

type entryRes struct {
	Cls   string         `json:"cls"` // ok | err | panic
	Site  string         `json:"site,omitempty"`
	Err   string         `json:"err,omitempty"`
	Facts map[string]any `json:"facts,omitempty"`
}

var cronParser = cron.NewParser(cron.Minute | cron.Hour | cron.Dom | cron.Month | cron.Dow)

// panicSite: the first non-runtime function below panic() in the stack
func panicSite(stack string) string {
	lines := strings.Split(stack, "\n")
	seen := false
	for _, l := range lines {
		if strings.HasPrefix(l, "\t") || l == "" {
			continue
		}
		if strings.HasPrefix(l, "panic(") {
			seen = true
			continue
		}
		if !seen || strings.HasPrefix(l, "runtime.") || strings.HasPrefix(l, "runtime/") {
			continue
		}
		fn := l
		if i := strings.LastIndex(fn, "("); i > 0 {
			fn = fn[:i]
		}
		if i := strings.LastIndex(fn, "/"); i >= 0 {
			fn = fn[i+1:]
		}
		if i := strings.LastIndex(fn, "."); i >= 0 {
			fn = fn[i+1:]
		}
		return fn
	}
	return "?"
}

func snapshotEnv() map[string]string {
	m := map[string]string{}
	for _, e := range os.Environ() {
		kv := strings.SplitN(e, "=", 2)
		if len(kv) == 2 {
			m[kv[0]] = kv[1]
		}
	}
	return m
}

func restoreEnv(m map[string]string) {
	os.Clearenv()
	for k, v := range m {
		_ = os.Setenv(k, v)
	}
}

func envDiff(before, after map[string]string) []string {
	var d []string
	for k, v := range after {
		if o, ok := before[k]; !ok {
			d = append(d, "+"+k)
		} else if o != v {
			d = append(d, "~"+k)
		}
	}
	for k := range before {
		if _, ok := after[k]; !ok {
			d = append(d, "-"+k)
		}
	}
	sort.Strings(d)
	return d
}

func hx(s string) string { return hex.EncodeToString([]byte(s)) }

func effCommand(s *dag.Step) string {
	if s.CmdWithArgs != "" {
		return strings.SplitN(s.CmdWithArgs, " ", 2)[0]
	}
	return s.Command
}

func stepFacts(s *dag.Step) map[string]any {
	hasExec := effCommand(s) != "" || s.ExecutorConfig.Type != "" || s.SubWorkflow != nil
	sigOK := s.SignalOnStop == "" || unix.SignalNum(s.SignalOnStop) != 0
	// sigOK: the stop path (scheduler.Node.signal) resolves the STORED spelling with unix.SignalNum and sends
	// the result; 0 would be "signal 0" (nothing delivered). stopSigNum is that number.
	return map[string]any{"name": hx(s.Name), "hasExec": hasExec, "sigOK": sigOK, "type": hx(s.ExecutorConfig.Type),
		"signal": hx(s.SignalOnStop), "stopSigNum": int(unix.SignalNum(s.SignalOnStop))}
}

func safeEval(conds []dag.Condition) (res string) {
	defer func() {
		if r := recover(); r != nil {
			res = "panic:" + panicSite(string(debug.Stack()))
		}
	}()
	// each condition on its own: EvalConditions stops at the first unmet one, and whether an earlier
	// condition is met depends on the environment of the run
	for _, c := range conds {
		_ = dag.EvalConditions([]dag.Condition{c})
	}
	return "ok"
}

func dagFacts(d *dag.DAG, evalConds bool) map[string]any {
	f := map[string]any{"name": hx(d.Name)}
	var steps []map[string]any
	for i := range d.Steps {
		steps = append(steps, stepFacts(&d.Steps[i]))
	}
	f["steps"] = steps
	hs := map[string]any{}
	for k, h := range map[string]*dag.Step{"exit": d.HandlerOn.Exit, "success": d.HandlerOn.Success, "failure": d.HandlerOn.Failure, "cancel": d.HandlerOn.Cancel} {
		if h != nil {
			hs[k] = stepFacts(h)
		}
	}
	f["handlers"] = hs
	f["sched"] = []int{len(d.Schedule), len(d.StopSchedule), len(d.RestartSchedule)}
	exprs := [][]string{{}, {}, {}}
	for i, l := range [][]dag.Schedule{d.Schedule, d.StopSchedule, d.RestartSchedule} {
		for _, sc := range l {
			exprs[i] = append(exprs[i], hx(sc.Expression))
		}
	}
	f["scheds"] = exprs
	cronOK := true
	for _, l := range [][]dag.Schedule{d.Schedule, d.StopSchedule, d.RestartSchedule} {
		for _, s := range l {
			if c, _ := cronClass(s.Expression); c != 0 || s.Parsed == nil {
				cronOK = false
			}
		}
	}
	f["cronOK"] = cronOK
	// status serialisation (history + live-status endpoint)
	func() {
		defer func() {
			if r := recover(); r != nil {
				f["json"] = "panic:" + panicSite(string(debug.Stack()))
			}
		}()
		st := model.NewStatus(d, nil, scheduler.StatusNone, -1, nil, nil)
		js, err := st.ToJSON()
		if err != nil {
			f["json"] = "err:" + err.Error()
			return
		}
		if _, err := model.StatusFromJSON(string(js)); err != nil {
			f["json"] = "err-readback:" + err.Error()
			return
		}
		f["json"] = "ok"
	}()
	if evalConds {
		ev := safeEval(d.Preconditions)
		for i := range d.Steps {
			if r := safeEval(d.Steps[i].Preconditions); r != "ok" {
				ev = r
			}
		}
		for _, h := range []*dag.Step{d.HandlerOn.Exit, d.HandlerOn.Success, d.HandlerOn.Failure, d.HandlerOn.Cancel} {
			if h != nil {
				if r := safeEval(h.Preconditions); r != "ok" {
					ev = r
				}
			}
		}
		f["evalConds"] = ev
	}
	return f
}

func runEntry(fn func() (*dag.DAG, error), evalConds bool) (res entryRes) {
	env := snapshotEnv()
	defer restoreEnv(env)
	defer func() {
		if r := recover(); r != nil {
			res = entryRes{Cls: "panic", Site: panicSite(string(debug.Stack())), Err: fmt.Sprint(r)}
		}
	}()
	d, err := fn()
	if err != nil {
		e := err.Error()
		if len(e) > 300 {
			e = e[:300]
		}
		return entryRes{Cls: "err", Err: e}
	}
	if d == nil {
		return entryRes{Cls: "err", Err: "nil DAG without error"}
	}
	return entryRes{Cls: "ok", Facts: dagFacts(d, evalConds)}
}

// cronClass: 0 parses, 1 error, 2 panic (robfig parser with blackdagger's options)
func cronClass(s string) (c int, site string) {
	defer func() {
		if r := recover(); r != nil {
			c, site = 2, panicSite(string(debug.Stack()))
		}
	}()
	if _, err := cronParser.Parse(s); err != nil {
		return 1, ""
	}
	return 0, ""
}

var tmpDir string

func loadAll(id string, data []byte, withEval, evalConds bool) map[string]entryRes {
	out := map[string]entryRes{}
	file := filepath.Join(tmpDir, "vcase.yaml")
	_ = os.WriteFile(file, data, 0o644)
	out["LoadYAML"] = runEntry(func() (*dag.DAG, error) { return dag.LoadYAML(data) }, evalConds)
	out["LoadMetadata"] = runEntry(func() (*dag.DAG, error) { return dag.LoadMetadata(file) }, evalConds)
	out["LoadWithoutEval"] = runEntry(func() (*dag.DAG, error) { return dag.LoadWithoutEval(file) }, evalConds)
	if withEval {
		out["Load"] = runEntry(func() (*dag.DAG, error) { return dag.Load("", file, "") }, evalConds)
	}
	return out
}

func runTree(c map[string]any) map[string]any {
	toks := strings.Fields(c["tree"].(string))
	pos := 0
	t, err := parseTree(toks, &pos)
	if err != nil || pos != len(toks) {
		return map[string]any{"id": c["id"], "bad": fmt.Sprint("tree encoding: ", err)}
	}
	var b strings.Builder
	emit(t, &b)
	b.WriteByte('\n')
	yamlText := b.String()
	strs := map[string]bool{}
	allStrings(t, strs)
	oracle := map[string][]int{}
	for s := range strs {
		cc, _ := cronClass(s)
		re := 1
		if strings.HasPrefix(s, "re:") {
			if _, err := regexp.Compile(strings.TrimPrefix(s, "re:")); err != nil {
				re = 0
			}
		}
		sig := 0
		if unix.SignalNum(s) != 0 {
			sig = 1
		}
		oracle[hx(s)] = []int{cc, re, sig}
	}
	ev, _ := c["eval"].(bool)
	return map[string]any{"id": c["id"], "yaml": yamlText, "res": loadAll(fmt.Sprint(c["id"]), []byte(yamlText), ev, ev), "oracle": oracle}
}

func runRaw(c map[string]any) map[string]any {
	data, _ := hex.DecodeString(c["hex"].(string))
	// never let arbitrary text reach a shell: before 37ddbbb the logDir field was command-substituted even
	// by the non-evaluating entry points (F23); back-ticks stay neutralised in the raw stream in case that regresses
	for i := range data {
		if data[i] == '`' {
			data[i] = '\''
		}
	}
	done := make(chan map[string]entryRes, 1)
	go func() { done <- loadAll(fmt.Sprint(c["id"]), data, false, false) }()
	select {
	case r := <-done:
		return map[string]any{"id": c["id"], "res": r}
	case <-time.After(20 * time.Second):
		return map[string]any{"id": c["id"], "timeout": true}
	}
}

// ---------------------------------------------------------------- C19: plantable fields from definition.go

type plant struct {
	Path    string `json:"path"`    // e.g. steps[].preconditions[].condition
	Variant string `json:"variant"` // str | list | map | listmap | exec-config | …
	Root    string `json:"root"`    // Go name of the top-level definition field
}

func structTypes(repo string) (map[string]*ast.StructType, error) {
	fset := token.NewFileSet()
	f, err := parser.ParseFile(fset, filepath.Join(repo, "internal/dag/definition.go"), nil, 0)
	if err != nil {
		return nil, err
	}
	m := map[string]*ast.StructType{}
	for _, d := range f.Decls {
		gd, ok := d.(*ast.GenDecl)
		if !ok {
			continue
		}
		for _, s := range gd.Specs {
			if ts, ok := s.(*ast.TypeSpec); ok {
				if st, ok := ts.Type.(*ast.StructType); ok {
					m[ts.Name.Name] = st
				}
			}
		}
	}
	return m, nil
}

func lowerFirst(s string) string {
	if s == "" {
		return s
	}
	if s == strings.ToUpper(s) { // SMTP
		return strings.ToLower(s)
	}
	return strings.ToLower(s[:1]) + s[1:]
}

func enumFields(types map[string]*ast.StructType, name, prefix, root string, depth int, out *[]plant) {
	st := types[name]
	if st == nil || depth > 4 {
		return
	}
	for _, f := range st.Fields.List {
		for _, n := range f.Names {
			p := prefix + lowerFirst(n.Name)
			r := root
			if r == "" {
				r = n.Name
			}
			enumType(types, f.Type, p, r, depth, out)
		}
	}
}

func enumType(types map[string]*ast.StructType, t ast.Expr, p, root string, depth int, out *[]plant) {
	switch x := t.(type) {
	case *ast.Ident:
		switch x.Name {
		case "string":
			*out = append(*out, plant{p, "str", root})
		case "any":
			for _, v := range []string{"str", "list", "map", "listmap"} {
				*out = append(*out, plant{p, v, root})
			}
			if strings.HasSuffix(p, "executor") {
				*out = append(*out, plant{p, "exec-config", root})
			}
		default:
			enumFields(types, x.Name, p+".", root, depth+1, out)
		}
	case *ast.InterfaceType:
		for _, v := range []string{"str", "list", "map", "listmap"} {
			*out = append(*out, plant{p, v, root})
		}
	case *ast.StarExpr:
		enumType(types, x.X, p, root, depth, out)
	case *ast.ArrayType:
		enumType(types, x.Elt, p+"[]", root, depth, out)
	case *ast.MapType:
		*out = append(*out, plant{p, "map", root})
	}
}

func fieldList(repo string) ([]plant, error) {
	types, err := structTypes(repo)
	if err != nil {
		return nil, err
	}
	var out []plant
	enumFields(types, "definition", "", "", 0, &out)
	return out, nil
}

// canaryShapes: every lexical shape in which a command substitution can sit in a string value — the
// parameter syntax (bare, name=value, double-quoted, several items) and the generic ones (embedded in
// text, quoted, indented, `$(…)`), each also carrying a ${VAR} reference. The SAME set is planted in every
// field, so a guard that depends on the shape of the value is exercised wherever it sits.
var canaryShapes = []string{"bare", "named-bare", "dq-start", "dq-mid", "dq-end", "dq-only", "named-dq", "named-dq-escaped",
	"multi", "multi-dq-last", "embedded", "sq", "indented", "dollar-paren", "two-commands", "dq-arg-then-bare", "sq-arg-then-bare"}

func canaryText(shape, file string) string {
	bt := "`touch " + file + "`"
	v := " ${VERIF_CANARY_VAR}"
	switch shape {
	case "bare":
		return bt + v
	case "named-bare":
		return "CANARY=" + bt + v
	case "dq-start":
		return `"` + bt + ` then text` + v + `"`
	case "dq-mid":
		return `"made by ` + bt + ` today` + v + `"`
	case "dq-end":
		return `"` + strings.TrimSpace(v) + ` made by ` + bt + `"`
	case "dq-only":
		return `"` + bt + `"`
	case "named-dq":
		return `MSG="made by ` + bt + ` today"` + v
	case "named-dq-escaped":
		return `MSG="say \"hi\" ` + bt + `"`
	case "multi":
		return `first second K=v ` + bt + ` last` + v
	case "multi-dq-last":
		return `one TWO=2 "three words" Q="made by ` + bt + `"`
	case "embedded":
		return "pre" + bt + "post" + v
	case "sq":
		return "'" + bt + "'" + v
	case "indented":
		return "  \t" + bt + "  "
	case "dollar-paren":
		return "$(touch " + file + ")" + v
	case "two-commands":
		return "`true` and " + bt
	case "dq-arg-then-bare":
		// a command line with a quoted argument AND a substitution outside the quotes (a splitter that treats command
		// lines with quote characters differently — e.g. re-splits them shell-like for display — runs this one)
		return `echo "report for" ` + bt + v
	case "sq-arg-then-bare":
		return `echo 'all done' ` + bt
	}
	return bt + v
}

// canaryDoc builds a definition with the canary planted at path (as flow YAML through the tree emitter)
func str(s string) *tree { return &tree{kind: "s", txt: s} }
func mp(kv ...any) *tree {
	r := &tree{kind: "m"}
	for i := 0; i+1 < len(kv); i += 2 {
		r.keys = append(r.keys, str(kv[i].(string)))
		r.vals = append(r.vals, kv[i+1].(*tree))
	}
	return r
}
func (t *tree) get(k string) *tree {
	for i := range t.keys {
		if t.keys[i].txt == k {
			return t.vals[i]
		}
	}
	return nil
}
func (t *tree) set(k string, v *tree) {
	for i := range t.keys {
		if t.keys[i].txt == k {
			t.vals[i] = v
			return
		}
	}
	t.keys = append(t.keys, str(k))
	t.vals = append(t.vals, v)
}

func planted(variant, canary string) *tree {
	switch variant {
	case "str":
		return str(canary)
	case "list":
		return &tree{kind: "l", list: []*tree{str(canary)}}
	case "map":
		return mp("VERIF_CANARY_KEY", str(canary))
	case "listmap":
		return &tree{kind: "l", list: []*tree{mp("VERIF_CANARY_KEY", str(canary))}}
	case "exec-config":
		return mp("type", str("command"), "config", mp("x", str(canary)))
	}
	return str(canary)
}

func plantAt(node *tree, segs []string, leaf *tree) {
	seg := segs[0]
	isList := strings.HasSuffix(seg, "[]")
	key := strings.TrimSuffix(seg, "[]")
	if len(segs) == 1 {
		if isList {
			node.set(key, &tree{kind: "l", list: []*tree{leaf}})
		} else {
			node.set(key, leaf)
		}
		return
	}
	child := node.get(key)
	if isList {
		if child == nil || child.kind != "l" || len(child.list) == 0 {
			child = &tree{kind: "l", list: []*tree{mp()}}
			node.set(key, child)
		}
		plantAt(child.list[0], segs[1:], leaf)
		return
	}
	if child == nil || child.kind != "m" {
		child = mp()
		node.set(key, child)
	}
	plantAt(child, segs[1:], leaf)
}

// callOf: a valid call of the document's function `fn` (its only parameter is VERIF_CANARY_KEY, so the generic
// map plant {VERIF_CANARY_KEY: <canary>} at `call.args` is a well-formed argument list)
func callOf(arg string) *tree {
	return mp("function", str("fn"), "args", mp("VERIF_CANARY_KEY", str(arg)))
}

func canaryDoc(path, variant, canary string) string {
	doc := mp("name", str("canarydag"),
		"functions", &tree{kind: "l", list: []*tree{mp("name", str("fn"), "params", str("VERIF_CANARY_KEY"), "command", str("echo $VERIF_CANARY_KEY"))}},
		"steps", &tree{kind: "l", list: []*tree{mp("name", str("s1"), "command", str("true"))}})
	segs := strings.Split(path, ".")
	// handler steps and function-call steps need their mandatory companions so that the load gets as far as possible
	if segs[0] == "handlerOn" && len(segs) > 1 {
		doc.set("handlerOn", mp(segs[1], mp("command", str("true"))))
	}
	leaf := planted(variant, canary)
	switch {
	case segs[0] == "functions[]":
		// a function is only evaluated through a step / handler that calls it: both are present
		doc.set("steps", &tree{kind: "l", list: []*tree{mp("name", str("s1"), "call", callOf("x"))}})
		doc.set("handlerOn", mp("exit", mp("call", callOf("y"))))
		if path == "functions[].command" && variant == "str" {
			// the canary sits after the first word of the command template, next to the parameter
			leaf = str("echo $VERIF_CANARY_KEY " + canary)
		}
	case len(segs) >= 2 && segs[len(segs)-2] == "call" || segs[len(segs)-1] == "call":
		// the step (or handler) is a call step: a complete call first, then the plant overwrites its part
		holder := mp("name", str("s1"), "call", callOf("x"))
		if segs[0] == "handlerOn" && len(segs) > 1 {
			holder = mp("call", callOf("x"))
			doc.set("handlerOn", mp(segs[1], holder))
		} else {
			doc.set("steps", &tree{kind: "l", list: []*tree{holder}})
		}
	}
	plantAt(doc, segs, leaf)
	if len(segs) >= 2 && segs[len(segs)-1] == "params" && segs[0] != "functions[]" {
		// the parameters of a sub-workflow step are part of its command line (parseSubWorkflow: "<run> <params>") only
		// when the step runs a sub-workflow: the companion `run:` makes the position a command position
		plantAt(doc, append(append([]string{}, segs[:len(segs)-1]...), "run"), str("subdag"))
	}
	var b strings.Builder
	emit(doc, &b)
	b.WriteByte('\n')
	return b.String()
}

// reachedDAG: the canary text arrived in the loaded DAG (the definition was accepted and the planted value
// flowed into a field of the DAG) — the control that a plant is live even where nothing evaluates it at load time
func reachedDAG(d *dag.DAG, marker string) bool {
	if d == nil {
		return false
	}
	js, err := json.Marshal(d)
	return err == nil && strings.Contains(string(js), marker)
}

// startSplit does to every step and handler what scheduler.Node.setupExec does when the DAG is STARTED:
// util.SplitCommandWithParse(CmdWithArgs), which runs back-tick substitutions (run-time positive control)
func startSplit(d *dag.DAG) {
	steps := []*dag.Step{d.HandlerOn.Exit, d.HandlerOn.Success, d.HandlerOn.Failure, d.HandlerOn.Cancel}
	for i := range d.Steps {
		steps = append(steps, &d.Steps[i])
	}
	for _, st := range steps {
		if st != nil && st.CmdWithArgs != "" {
			_, _ = util.SplitCommandWithParse(st.CmdWithArgs)
		}
	}
}

func runCanary(c map[string]any) map[string]any {
	entry, path, variant := c["entry"].(string), c["path"].(string), c["variant"].(string)
	dir, _ := os.MkdirTemp(tmpDir, "canary")
	defer os.RemoveAll(dir)
	canaryFile := filepath.Join(dir, "fired")
	shape, _ := c["shape"].(string)
	if shape == "" {
		shape = "bare"
	}
	canary := canaryText(shape, canaryFile)
	doc := canaryDoc(path, variant, canary)
	dagsDir := filepath.Join(dir, "dags")
	_ = os.MkdirAll(dagsDir, 0o755)
	file := filepath.Join(dagsDir, "canarydag.yaml")
	_ = os.Setenv("VERIF_CANARY_VAR", "verif-expanded")
	before := snapshotEnv()
	res := map[string]any{"id": c["id"], "entry": entry, "path": path, "variant": variant, "shape": shape, "text": canary}
	outcome := "ok"
	func() {
		defer func() {
			if r := recover(); r != nil {
				outcome = "panic:" + panicSite(string(debug.Stack()))
			}
		}()
		var err error
		var d *dag.DAG
		defer func() { res["reached"] = reachedDAG(d, canaryFile) }()
		switch entry {
		case "LoadYAML":
			d, err = dag.LoadYAML([]byte(doc))
		case "LoadMetadata":
			_ = os.WriteFile(file, []byte(doc), 0o644)
			d, err = dag.LoadMetadata(file)
		case "LoadWithoutEval":
			_ = os.WriteFile(file, []byte(doc), 0o644)
			d, err = dag.LoadWithoutEval(file)
		case "Load":
			_ = os.WriteFile(file, []byte(doc), 0o644)
			d, err = dag.Load("", file, "")
		case "StartSplit":
			// starting the DAG: evaluating load, then the command split of node.setupExec
			_ = os.WriteFile(file, []byte(doc), 0o644)
			d, err = dag.Load("", file, "")
			if err == nil && d != nil {
				startSplit(d)
			}
		case "UpdateSpec":
			_ = os.WriteFile(file, []byte("name: canarydag\nsteps:\n  - name: s\n    command: \"true\"\n"), 0o644)
			before = snapshotEnv()
			err = local.NewDAGStore(&local.NewDAGStoreArgs{Dir: dagsDir}).UpdateSpec("canarydag", []byte(doc))
		case "GetDetails":
			_ = os.WriteFile(file, []byte(doc), 0o644)
			d, err = local.NewDAGStore(&local.NewDAGStoreArgs{Dir: dagsDir}).GetDetails("canarydag")
		case "List":
			_ = os.WriteFile(file, []byte(doc), 0o644)
			var errs []string
			_, errs, err = local.NewDAGStore(&local.NewDAGStoreArgs{Dir: dagsDir}).List()
			if err == nil && len(errs) > 0 {
				err = fmt.Errorf("%s", strings.Join(errs, "; "))
			}
		default:
			err = fmt.Errorf("unknown entry")
			outcome = "bad-entry"
		}
		if err != nil && outcome == "ok" {
			outcome = "err"
		}
	}()
	after := snapshotEnv()
	_, statErr := os.Stat(canaryFile)
	res["outcome"] = outcome
	res["fired"] = statErr == nil
	res["envdiff"] = envDiff(before, after)
	restoreEnv(before)
	return res
}

func main() {
	var err error
	tmpDir, err = os.MkdirTemp("", "verif-load-")
	if err != nil {
		fmt.Fprintln(os.Stderr, err)
		os.Exit(2)
	}
	defer os.RemoveAll(tmpDir)
	in := bufio.NewReaderSize(os.Stdin, 1<<22)
	out := bufio.NewWriter(os.Stdout)
	defer out.Flush()
	for {
		line, rerr := in.ReadBytes('\n')
		if len(line) > 1 {
			var c map[string]any
			if e := json.Unmarshal(line, &c); e != nil {
				fmt.Fprintln(os.Stderr, "bad case", e)
				os.RemoveAll(tmpDir)
				os.Exit(2)
			}
			var r map[string]any
			switch c["mode"] {
			case "tree":
				r = runTree(c)
			case "raw":
				r = runRaw(c)
			case "fields":
				fl, e := fieldList(fmt.Sprint(c["repo"]))
				r = map[string]any{"id": c["id"], "fields": fl}
				if e != nil {
					r["error"] = e.Error()
				}
			case "shapes":
				r = map[string]any{"id": c["id"], "shapes": canaryShapes}
			case "canary":
				r = runCanary(c)
			case "display":
				r = runDisplay(c)
			default:
				r = map[string]any{"id": c["id"], "bad": "mode"}
			}
			js, _ := json.Marshal(r)
			out.Write(js)
			out.WriteByte('\n')
			out.Flush()
		}
		if rerr != nil {
			break
		}
	}
}
