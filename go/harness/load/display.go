//go:build verif

// C19 display stream: the canary documents of the loader stream (canaryDoc: every plantable position of
// definition.go x the lexical shapes) are shown / listed / searched / saved through the REAL long-lived assembly
// behind the web UI — persistence/client.NewDataStores + client.New + frontend/dag.NewHandler configured on the
// generated go-swagger API, requests through the generated router — instead of stopping at the loader's return value.
// One assembly per harness process (its DAG metadata cache and history read cache live as long as a server's do);
// every case has its own DAG id, which is deleted (through the API) at the end of the case.
//
//	{"id","mode":"display","path":"steps[].command","variant":"str","shape":"dq-arg-then-bare","state":"fresh"}
//
// state: fresh    — no recorded status, no live agent: the status shown is the placeholder model.NewStatusDefault
//	       recorded — a status of today is in the history store (its nodes carry the DAG's steps)
//	       old      — the only recorded status is of yesterday (LatestStatusToday: the placeholder again, plus history)
//
// After EVERY call: does the canary's marker file exist (then the call is reported and the marker removed), and the
// diff of os.Environ() against the snapshot taken when the case's world was complete. Last, the positive control: the
// same document is STARTED (dag.Load, evaluating, + the command split of scheduler.Node.setupExec).
package main

import (
	"bytes"
	"encoding/json"
	"fmt"
	"io"
	"net/http"
	"net/http/httptest"
	"net/url"
	"os"
	"path/filepath"
	"runtime/debug"
	"time"

	"github.com/ErdemOzgen/blackdagger/internal/client"
	"github.com/ErdemOzgen/blackdagger/internal/dag"
	"github.com/ErdemOzgen/blackdagger/internal/dag/scheduler"
	fdag "github.com/ErdemOzgen/blackdagger/internal/frontend/dag"
	"github.com/ErdemOzgen/blackdagger/internal/frontend/gen/restapi"
	"github.com/ErdemOzgen/blackdagger/internal/frontend/gen/restapi/operations"
	"github.com/ErdemOzgen/blackdagger/internal/logger"
	"github.com/ErdemOzgen/blackdagger/internal/persistence"
	dsclient "github.com/ErdemOzgen/blackdagger/internal/persistence/client"
	"github.com/ErdemOzgen/blackdagger/internal/persistence/model"
	"github.com/go-openapi/loads"
)

type assembly struct {
	root, dagsDir, dataDir, suspDir string
	ds                              persistence.DataStores
	cli                             client.Client
	http                            http.Handler
	n                               int
	err                             string
}

var asm *assembly

func theAssembly() *assembly {
	if asm != nil {
		return asm
	}
	a := &assembly{}
	asm = a
	root, err := os.MkdirTemp(tmpDir, "display")
	if err != nil {
		a.err = err.Error()
		return a
	}
	a.root, a.dagsDir, a.dataDir, a.suspDir = root, filepath.Join(root, "dags"), filepath.Join(root, "data"), filepath.Join(root, "susp")
	for _, d := range []string{a.dagsDir, a.dataDir, a.suspDir, filepath.Join(root, "home"), filepath.Join(root, "cwd")} {
		_ = os.MkdirAll(d, 0o755)
	}
	_ = os.Setenv("HOME", filepath.Join(root, "home"))
	// the executable the client would spawn for start / retry / restart: never used by this stream, and harmless if it were
	stub := filepath.Join(root, "stub.sh")
	_ = os.WriteFile(stub, []byte("#!/bin/sh\nexit 0\n"), 0o755)
	lg := logger.NewLogger(logger.NewLoggerArgs{Quiet: true})
	a.ds = dsclient.NewDataStores(a.dagsDir, a.dataDir, a.suspDir, dsclient.DataStoreOptions{LatestStatusToday: true})
	a.cli = client.New(a.ds, stub, filepath.Join(root, "cwd"), lg)
	h := fdag.NewHandler(&fdag.NewHandlerArgs{Client: a.cli}, nil, "/api/v1")
	spec, err := loads.Analyzed(restapi.SwaggerJSON, "")
	if err != nil {
		a.err = "spec: " + err.Error()
		return a
	}
	api := operations.NewBlackdaggerAPI(spec)
	api.Logger = func(string, ...interface{}) {}
	h.Configure(api)
	a.http = api.Serve(nil)
	return a
}

// record writes one status of the DAG into the history store, the way a finished run leaves it: the nodes carry the
// DAG's own steps and handlers (built field by field — NOT through model.NewStatus / NewNode, which are code under test)
func (a *assembly) record(loc string, d *dag.DAG, reqID string, at time.Time) error {
	st := &model.Status{RequestID: reqID, Name: "canarydag", Status: scheduler.StatusSuccess, StatusText: scheduler.StatusSuccess.String(),
		PID: model.PID(4242), StartedAt: model.FormatTime(at), FinishedAt: model.FormatTime(at), Log: filepath.Join(a.root, "no-such.log")}
	mk := func(s dag.Step) *model.Node {
		return &model.Node{Step: s, Status: scheduler.NodeStatusSuccess, StatusText: scheduler.NodeStatusSuccess.String(), StartedAt: "-", FinishedAt: "-",
			Log: filepath.Join(a.root, "no-such-step.log")}
	}
	if d != nil {
		st.Name = d.Name
		for _, s := range d.Steps {
			st.Nodes = append(st.Nodes, mk(s))
		}
		for _, p := range []struct {
			h   *dag.Step
			dst **model.Node
		}{{d.HandlerOn.Exit, &st.OnExit}, {d.HandlerOn.Success, &st.OnSuccess}, {d.HandlerOn.Failure, &st.OnFailure}, {d.HandlerOn.Cancel, &st.OnCancel}} {
			if p.h != nil {
				*p.dst = mk(*p.h)
			}
		}
	}
	if len(st.Nodes) == 0 {
		st.Nodes = []*model.Node{mk(dag.Step{Name: "s1", Command: "true", CmdWithArgs: "true"})}
	}
	hs := a.ds.HistoryStore()
	if err := hs.Open(loc, at, reqID); err != nil {
		return err
	}
	if err := hs.Write(st); err != nil {
		_ = hs.Close()
		return err
	}
	return hs.Close()
}

type callOut struct {
	Call    string   `json:"call"`
	Code    int      `json:"code"`              // HTTP status; client-level calls: 0 ok, 1 error, 2 panic
	Fired   bool     `json:"fired,omitempty"`   // the marker file exists after this call
	EnvDiff []string `json:"envdiff,omitempty"` // os.Environ() differs from the snapshot after this call
	Shown   bool     `json:"shown,omitempty"`   // the answer contains the canary text (its marker path)
	Rec     bool     `json:"rec,omitempty"`     // the answer contains the recorded run's request id
	Panic   string   `json:"panic,omitempty"`
}

func runDisplay(c map[string]any) map[string]any {
	path, variant := fmt.Sprint(c["path"]), fmt.Sprint(c["variant"])
	shape, _ := c["shape"].(string)
	if shape == "" {
		shape = "bare"
	}
	state, _ := c["state"].(string)
	if state == "" {
		state = "fresh"
	}
	res := map[string]any{"id": c["id"], "path": path, "variant": variant, "shape": shape, "state": state}
	a := theAssembly()
	if a.err != "" {
		res["error"] = "assembly: " + a.err
		return res
	}
	a.n++
	name := fmt.Sprintf("cd%06d", a.n)
	cdir, _ := os.MkdirTemp(tmpDir, "dcanary")
	defer os.RemoveAll(cdir)
	marker := filepath.Join(cdir, "fired")
	canary := canaryText(shape, marker)
	doc := canaryDoc(path, variant, canary)
	res["text"] = canary
	loc := filepath.Join(a.dagsDir, name+".yaml")
	defer func() {
		// whatever the calls left behind (the DELETE call normally removed all of it)
		_ = os.Remove(loc)
		_ = os.Remove(filepath.Join(a.dagsDir, name+"r.yaml"))
		_ = a.ds.HistoryStore().RemoveAll(loc)
	}()
	_ = os.Setenv("VERIF_CANARY_VAR", "verif-expanded")
	reqID := "verifreq-" + name

	// ---- the world of the case. The file first holds a harmless definition: the canary document arrives through
	// the API's save action (validation on save); if the save is refused the document is put there as a hand-edited
	// file would be, so that the display paths see it in every case.
	if err := os.WriteFile(loc, []byte("name: canarydag\nsteps:\n  - name: s1\n    command: \"true\"\n"), 0o644); err != nil {
		res["error"] = err.Error()
		return res
	}
	before := snapshotEnv()
	var calls []callOut
	observe := func(co callOut, body []byte) {
		if _, err := os.Stat(marker); err == nil {
			co.Fired = true
			_ = os.Remove(marker)
		}
		co.EnvDiff = envDiff(before, snapshotEnv())
		if len(co.EnvDiff) > 0 {
			restoreEnv(before)
		}
		co.Shown = bytes.Contains(body, []byte(marker))
		co.Rec = bytes.Contains(body, []byte(reqID))
		calls = append(calls, co)
	}
	doHTTP := func(label, method, target string, body any) (int, []byte) {
		co := callOut{Call: label}
		var rb []byte
		func() {
			defer func() {
				if r := recover(); r != nil {
					co.Code, co.Panic = -1, panicSite(string(debug.Stack()))+": "+fmt.Sprint(r)
				}
			}()
			var rd io.Reader
			if body != nil {
				jb, _ := json.Marshal(body)
				rd = bytes.NewReader(jb)
			}
			req := httptest.NewRequest(method, "/api/v1"+target, rd)
			req.Header.Set("Content-Type", "application/json")
			req.Header.Set("Accept", "application/json")
			rec := httptest.NewRecorder()
			a.http.ServeHTTP(rec, req)
			co.Code = rec.Code
			rb, _ = io.ReadAll(rec.Body)
		}()
		observe(co, rb)
		return co.Code, rb
	}
	doCli := func(label string, fn func() (any, error)) {
		co := callOut{Call: label}
		var rb []byte
		func() {
			defer func() {
				if r := recover(); r != nil {
					co.Code, co.Panic = 2, panicSite(string(debug.Stack()))+": "+fmt.Sprint(r)
				}
			}()
			v, err := fn()
			if err != nil {
				co.Code = 1
			}
			rb, _ = json.Marshal(v)
		}()
		observe(co, rb)
	}
	q := url.QueryEscape

	// 1. validation on save
	code, _ := doHTTP("POST save", "POST", "/dags/"+name, map[string]any{"action": "save", "value": doc})
	res["saved"] = code == 200
	if code != 200 {
		_ = os.WriteFile(loc, []byte(doc), 0o644)
		// (a definition the loader refuses is still listed — with its error —, displayed and searched)
	}
	// 2. the run history of the state (written with the definition as it loads; the loader is the other stream's subject)
	if state == "recorded" || state == "old" {
		d, _ := dag.LoadWithoutEval(loc)
		at := time.Now()
		if state == "old" {
			at = at.Add(-26 * time.Hour)
		}
		if err := a.record(loc, d, reqID, at); err != nil {
			res["error"] = "record: " + err.Error()
			return res
		}
		if _, err := os.Stat(marker); err == nil {
			res["error"] = "the canary fired while the case's world was being written"
			_ = os.Remove(marker)
		}
		restoreEnv(before)
	}
	var statFile string
	if fs, _ := filepath.Glob(filepath.Join(a.dataDir, name+"-*", name+".*.dat")); len(fs) > 0 {
		statFile = fs[0]
	}

	// 3. list (the DAG table of the UI), with the filters
	doHTTP("GET /dags", "GET", "/dags", nil)
	doHTTP("GET /dags?page&limit", "GET", "/dags?page=1&limit=50", nil)
	doHTTP("GET /dags?searchName", "GET", "/dags?searchName="+q(name), nil)
	doHTTP("GET /dags?searchTag", "GET", "/dags?searchTag=canary", nil)
	// 4. the DAG page: every tab
	doHTTP("GET /dags/{id}", "GET", "/dags/"+name, nil)
	doHTTP("GET /dags/{id}?tab=status", "GET", "/dags/"+name+"?tab=status", nil)
	doHTTP("GET /dags/{id}?tab=spec", "GET", "/dags/"+name+"?tab=spec", nil)
	doHTTP("GET /dags/{id}?tab=history", "GET", "/dags/"+name+"?tab=history", nil)
	doHTTP("GET /dags/{id}?tab=log", "GET", "/dags/"+name+"?tab=log&step=s1", nil)
	doHTTP("GET /dags/{id}?tab=log(handler)", "GET", "/dags/"+name+"?tab=log&step=onExit", nil)
	doHTTP("GET /dags/{id}?tab=scheduler-log", "GET", "/dags/"+name+"?tab=scheduler-log", nil)
	if statFile != "" {
		doHTTP("GET /dags/{id}?tab=log&file", "GET", "/dags/"+name+"?tab=log&step=s1&file="+q(statFile), nil)
		doHTTP("GET /dags/{id}?tab=scheduler-log&file", "GET", "/dags/"+name+"?tab=scheduler-log&file="+q(statFile), nil)
	}
	// 5. search and tags
	doHTTP("GET /search", "GET", "/search?q=canary", nil)
	doHTTP("GET /search(text)", "GET", "/search?q=touch", nil)
	doHTTP("GET /tags", "GET", "/tags", nil)
	// 6. the client behind the handlers, called the way the other front ends do (status command, scheduler, UI list without paging)
	doCli("client.GetStatus", func() (any, error) { return a.cli.GetStatus(name) })
	doCli("client.GetAllStatus", func() (any, error) {
		st, errs, err := a.cli.GetAllStatus()
		return map[string]any{"st": st, "errs": errs}, err
	})
	doCli("client.GetDAGSpec", func() (any, error) { return a.cli.GetDAGSpec(name) })
	doCli("client.GetLatestStatus", func() (any, error) {
		d, err := a.ds.DAGStore().GetDetails(name)
		if err != nil || d == nil {
			d = &dag.DAG{Name: name, Location: loc}
		}
		return a.cli.GetLatestStatus(d)
	})
	doCli("client.GetCurrentStatus", func() (any, error) {
		d, err := a.ds.DAGStore().GetDetails(name)
		if err != nil || d == nil {
			d = &dag.DAG{Name: name, Location: loc}
		}
		return a.cli.GetCurrentStatus(d)
	})
	doCli("client.GetRecentHistory", func() (any, error) {
		return a.cli.GetRecentHistory(&dag.DAG{Name: name, Location: loc}, 10), nil
	})
	// 7. the POST actions that are not a start: each reads the DAG's status first
	doHTTP("POST suspend", "POST", "/dags/"+name, map[string]any{"action": "suspend", "value": "true"})
	doHTTP("POST suspend(off)", "POST", "/dags/"+name, map[string]any{"action": "suspend", "value": "false"})
	doHTTP("POST stop(not running)", "POST", "/dags/"+name, map[string]any{"action": "stop"})
	doHTTP("POST mark-success", "POST", "/dags/"+name, map[string]any{"action": "mark-success", "requestId": reqID, "step": "s1"})
	doHTTP("POST mark-failed", "POST", "/dags/"+name, map[string]any{"action": "mark-failed", "requestId": reqID, "step": "s1"})
	doHTTP("POST save(again)", "POST", "/dags/"+name, map[string]any{"action": "save", "value": doc})
	doHTTP("POST rename", "POST", "/dags/"+name, map[string]any{"action": "rename", "value": name + "r"})
	doHTTP("GET /dags/{id}(renamed)", "GET", "/dags/"+name+"r", nil)
	doHTTP("POST rename(back)", "POST", "/dags/"+name+"r", map[string]any{"action": "rename", "value": name})
	if _, err := os.Stat(loc); err != nil {
		// the rename did not come back (or never happened and the file is elsewhere): the last calls need the file
		_ = os.Rename(filepath.Join(a.dagsDir, name+"r.yaml"), loc)
	}
	doHTTP("GET /dags/{id}(again)", "GET", "/dags/"+name, nil)
	// 8. delete (reads the status, then removes history and file)
	if _, err := os.Stat(loc); err != nil {
		_ = os.WriteFile(loc, []byte(doc), 0o644)
	}
	doHTTP("DELETE /dags/{id}", "DELETE", "/dags/"+name, nil)
	res["calls"] = calls

	// ---- positive control: STARTING the same document does evaluate (dag.Load + the command split of node.setupExec)
	func() {
		defer func() {
			if r := recover(); r != nil {
				res["start"] = "panic:" + panicSite(string(debug.Stack()))
			}
		}()
		sfile := filepath.Join(cdir, "canarydag.yaml")
		_ = os.WriteFile(sfile, []byte(doc), 0o644)
		d, err := dag.Load("", sfile, "")
		if err != nil || d == nil {
			res["start"] = "err"
		} else {
			startSplit(d)
			res["start"] = "ok"
		}
		_, serr := os.Stat(marker)
		res["started_fired"] = serr == nil
		res["started_envdiff"] = envDiff(before, snapshotEnv())
		restoreEnv(before)
	}()
	return res
}
