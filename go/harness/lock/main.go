//go:build verif

// Lock-area harness (C16): REAL `blackdagger start` / `retry` processes of one DAG file, each under
// `strace -f -ttt` restricted to the socket system calls (connect / unlinkat / bind / listen), so
// that the true interleaving of the two start-ups is recorded. The second process is launched at a
// chosen instant of the first one's life. Everything lives in a private temp HOME; the socket path
// (/tmp/@blackdagger-…) is derived from the temp DAG path and removed at the end.
// One JSON case per line in, one JSON result line out (cases run concurrently, results in input order).
package main

import (
	"bufio"
	"bytes"
	"encoding/json"
	"fmt"
	"os"
	"os/exec"
	"path/filepath"
	"regexp"
	"sort"
	"strconv"
	"strings"
	"sync"
	"syscall"
	"time"

	"github.com/ErdemOzgen/blackdagger/internal/client"
	"github.com/ErdemOzgen/blackdagger/internal/dag"
	"github.com/ErdemOzgen/blackdagger/internal/dag/scheduler"
	"github.com/ErdemOzgen/blackdagger/internal/persistence/jsondb"
	"github.com/ErdemOzgen/blackdagger/internal/persistence/local"
	"github.com/ErdemOzgen/blackdagger/internal/sock"
)

type lcase struct {
	ID      string `json:"id"`
	Bin     string `json:"bin"`
	Kind    string `json:"kind"`  // second command: start | retry
	Phase   string `json:"phase"` // together | prelisten | steps | handler | shutdown | closed | after
	AtStep  int    `json:"atStep"`
	DelayUs int    `json:"delayUs"`
	NSteps  int    `json:"nsteps"`
	StepMs  int    `json:"stepMs"`
	HandMs  int    `json:"handMs"`
	InjectA string `json:"injectA"` // strace -e inject=… expression for the first process ("" = none)
	InjectB string `json:"injectB"`
	BStepMs      int `json:"bStepMs"`      // > 0: the second process's steps and handler sleep this long instead
	ThirdAfterMs int `json:"thirdAfterMs"` // > 0: a third `start` (agent C) is launched that long after the second
	Retention    int `json:"retention"`    // >= 0: `histRetentionDays: N` in the DAG (0 = the loader's default, 30 days); -1: not written
	Resave       string `json:"resave"`    // before the second command the DAG file is replaced by a NEW inode: "" | rename | updatespec
	// what the re-saved definition differs in ("" = only a trailing comment): name-added | other-name | name-removed |
	// other-description | step-added | other-params | other-logdir. The first run's definition has `name: <NameBefore>` ("" = no name key)
	ResaveEdit   string `json:"resaveEdit"`
	NameBefore   string `json:"nameBefore"`
	FreezeMs     int    `json:"freezeMs"`  // > 0: the first run's process is SIGSTOPped while the second command runs (resumed when it has exited, at the latest after that long)
	BVia         string `json:"bVia"`      // the second command's path to the SAME file: "" plain | dirlink | filelink | hardlink
	BackdateH    int `json:"backdateH"`    // > 0: just before the second command every file under the data dir gets an mtime that many hours in the past
	// big DAG: that many further steps x0.. (`true <bigPad bytes>`, each depends on the last marked step; no markers): the status
	// document the first run's endpoint answers with grows to bigExtra * (~500 + 2*bigPad) bytes
	BigExtra int `json:"bigExtra"`
	BigPad   int `json:"bigPad"`
}

type event struct {
	T   float64 `json:"t"`
	Te  float64 `json:"te"` // exit time (entry + time spent), 0 if unknown
	Ag  string  `json:"ag"`
	Ev  string  `json:"ev"`
	Res string  `json:"res"`
}

type histRec struct {
	File   string `json:"file"`
	Req    string `json:"req"`
	Status int    `json:"status"`
	Pid    int    `json:"pid"`
	Nodes  []int  `json:"nodes"`
	OnExit int    `json:"onExit"`
	Lines  int    `json:"lines"`
}

type result struct {
	ID          string         `json:"id"`
	Err         string         `json:"err,omitempty"`
	Events      []event        `json:"events"`
	Exit        map[string]int `json:"exit"`
	Pid         map[string]int `json:"pid"`
	Markers     []string       `json:"markers"`
	Hist        []histRec      `json:"hist"`
	R0          string         `json:"r0"`
	SockAtB     bool           `json:"sockAtB"`     // socket file existed when B was launched
	SockAtC     bool           `json:"sockAtC"`     // socket file existed when C was launched
	AnsBeforeB  bool           `json:"ansBeforeB"`  // A's endpoint answered just before B was launched
	AnsAfterB   bool           `json:"ansAfterB"`   // an endpoint answered after B exited (while A alive)
	AnsPidAfter int            `json:"ansPidAfter"` // pid reported by that answer
	AnsT        float64        `json:"ansT"`        // wall-clock time at which that probe was sent
	BExitT      float64        `json:"bExitT"`      // wall-clock time at which the second command had exited
	APid        int            `json:"aPid"`        // pid the first run's endpoint reported before the second command
	ThawedEarly bool           `json:"thawedEarly"` // the safety timer resumed the first run before the second command had exited
	Frozen      bool           `json:"frozen"`      // the first run was stopped during the second command's whole life
	InodeChanged bool          `json:"inodeChanged"` // the DAG path names another inode than when the first run started
	HistBeforeB []string       `json:"histBeforeB"` // history files when the second command was launched (after backdating)
	HistAfterB  []string       `json:"histAfterB"`  // history files right after the second command exited
	StoreReqs   []string       `json:"storeReqs"`   // request ids the REAL history store lists right after the second command exited
	StoreByReq  map[string]bool `json:"storeByReq"`  // FindByRequestID of each run present before, asked right after the second command exited
	AAliveAfter bool           `json:"aAliveAfter"` // A still running when B exited
	StatusCmd   string         `json:"statusCmd"`   // what `blackdagger status` printed after B exited
	SockFile    string         `json:"sockFile"`    // address of the status endpoint FOR THE FILE as it is when the second command is issued (definition loaded again by the real loader)
	AnsFileAfter bool          `json:"ansFileAfter"` // that address answered after B exited (while A alive)
	AnsFilePid  int            `json:"ansFilePid"`  // pid reported by that answer
	ApiStatus   string         `json:"apiStatus"`   // client.GetCurrentStatus of the file as it is now, asked after B exited (while A alive): running | other:<n> | error
	ApiPid      int            `json:"apiPid"`
	QueriesT    float64        `json:"queriesT"`    // wall-clock time at which the last of the status queries after B (endpoint probes, API, `status` command) had returned
	Sock        string         `json:"sock"`
	SockB       string         `json:"sockB"`       // socket address under the second command's spelling of the path
	BSockSeen   bool           `json:"bSockSeen"`   // a socket file existed at that address right after the second command exited / while it ran
	WallMs      int            `json:"wallMs"`
}

func main() {
	in := bufio.NewReaderSize(os.Stdin, 1<<20)
	var cases []lcase
	for {
		line, err := in.ReadBytes('\n')
		if len(bytes.TrimSpace(line)) > 0 {
			var c lcase
			if e := json.Unmarshal(line, &c); e != nil {
				fmt.Fprintln(os.Stderr, "bad case", e)
				os.Exit(2)
			}
			cases = append(cases, c)
		}
		if err != nil {
			break
		}
	}
	par := 6
	if v, err := strconv.Atoi(os.Getenv("VERIF_LOCK_PAR")); err == nil && v > 0 {
		par = v
	}
	results := make([]result, len(cases))
	sem := make(chan struct{}, par)
	var wg sync.WaitGroup
	for i := range cases {
		wg.Add(1)
		sem <- struct{}{}
		go func(i int) {
			defer wg.Done()
			defer func() { <-sem }()
			results[i] = runCase(cases[i])
		}(i)
	}
	wg.Wait()
	out := bufio.NewWriter(os.Stdout)
	defer out.Flush()
	for _, r := range results {
		b, _ := json.Marshal(r)
		out.Write(b)
		out.WriteByte('\n')
	}
}

type proc struct {
	cmd   *exec.Cmd
	trace string
	done  chan struct{}
	code  int
	pid   int // the traced blackdagger process (child of strace)
}

func envFor(home, agent string) []string {
	env := []string{}
	for _, e := range os.Environ() {
		if strings.HasPrefix(e, "HOME=") || strings.HasPrefix(e, "BLACKDAGGER_") || strings.HasPrefix(e, "XDG_") {
			continue
		}
		env = append(env, e)
	}
	return append(env, "HOME="+home, "BLACKDAGGER_HOME="+filepath.Join(home, "bd"),
		"BLACKDAGGER_DAGS_DIR="+filepath.Join(home, "dags"), "BLACKDAGGER_DATA_DIR="+filepath.Join(home, "data"),
		"BLACKDAGGER_LOG_DIR="+filepath.Join(home, "logs"), "BLACKDAGGER_SUSPEND_FLAGS_DIR="+filepath.Join(home, "susp"),
		"BLACKDAGGER_ADMIN_LOG_DIR="+filepath.Join(home, "logs", "admin"), "BLACKDAGGER_WORK_DIR="+home,
		"VERIF_AGENT="+agent, "VERIF_HOME="+home)
}

func launch(c lcase, home, agent, inject string, args ...string) *proc {
	return launchEnv(c, home, agent, inject, nil, args...)
}

func launchEnv(c lcase, home, agent, inject string, extraEnv []string, args ...string) *proc {
	tr := filepath.Join(home, "trace-"+agent+".txt")
	sa := []string{"-f", "-ttt", "-T", "-o", tr, "--seccomp-bpf", "-e", "trace=connect,bind,listen,unlinkat,read,flock,close"}
	if inject != "" {
		sa = append(sa, "-e", "inject="+inject)
	}
	sa = append(sa, c.Bin)
	sa = append(sa, args...)
	cmd := exec.Command("strace", sa...)
	cmd.Env = append(envFor(home, agent), extraEnv...)
	cmd.Dir = home
	cmd.SysProcAttr = &syscall.SysProcAttr{Setpgid: true}
	lf, _ := os.Create(filepath.Join(home, "out-"+agent+".txt"))
	cmd.Stdout, cmd.Stderr = lf, lf
	p := &proc{cmd: cmd, trace: tr, done: make(chan struct{}), code: -99}
	if err := cmd.Start(); err != nil {
		p.code = -98
		close(p.done)
		return p
	}
	for i := 0; i < 100 && p.pid == 0; i++ {
		b, _ := os.ReadFile(fmt.Sprintf("/proc/%d/task/%d/children", cmd.Process.Pid, cmd.Process.Pid))
		if f := strings.Fields(string(b)); len(f) > 0 {
			p.pid, _ = strconv.Atoi(f[0])
			break
		}
		time.Sleep(time.Millisecond)
	}
	go func() {
		err := cmd.Wait()
		lf.Close()
		p.code = 0
		if err != nil {
			if ee, ok := err.(*exec.ExitError); ok {
				p.code = ee.ExitCode()
			} else {
				p.code = -97
			}
		}
		close(p.done)
	}()
	return p
}

func (p *proc) wait(d time.Duration) bool {
	select {
	case <-p.done:
		return true
	case <-time.After(d):
		return false
	}
}

func (p *proc) killGroup() {
	if p.cmd.Process != nil {
		_ = syscall.Kill(-p.cmd.Process.Pid, syscall.SIGKILL)
	}
}

func markers(home string) []string {
	b, _ := os.ReadFile(filepath.Join(home, "markers"))
	var out []string
	for _, l := range strings.Split(string(b), "\n") {
		if l != "" {
			out = append(out, l)
		}
	}
	return out
}

func waitMarker(home, want string, d time.Duration) bool {
	end := time.Now().Add(d)
	for time.Now().Before(end) {
		for _, l := range markers(home) {
			if strings.HasPrefix(l, want) {
				return true
			}
		}
		time.Sleep(2 * time.Millisecond)
	}
	return false
}

type statusJSON struct {
	RequestID string `json:"RequestId"`
	Status    int    `json:"Status"`
	Pid       int    `json:"Pid"`
	Nodes     []struct {
		Status int `json:"Status"`
	} `json:"Nodes"`
	OnExit *struct {
		Status int `json:"Status"`
	} `json:"OnExit"`
}

func readHist(home string) []histRec {
	var out []histRec
	files, _ := filepath.Glob(filepath.Join(home, "data", "*", "*.dat"))
	sort.Strings(files)
	for _, f := range files {
		b, _ := os.ReadFile(f)
		lines := bytes.Split(bytes.TrimSpace(b), []byte("\n"))
		r := histRec{File: filepath.Base(f), Status: -1, OnExit: -1}
		for _, l := range lines {
			if len(bytes.TrimSpace(l)) == 0 {
				continue
			}
			var s statusJSON
			if json.Unmarshal(l, &s) == nil {
				r.Lines++
				r.Req, r.Status, r.Pid = s.RequestID, s.Status, s.Pid
				r.Nodes = nil
				for _, n := range s.Nodes {
					r.Nodes = append(r.Nodes, n.Status)
				}
				if s.OnExit != nil {
					r.OnExit = s.OnExit.Status
				}
			}
		}
		out = append(out, r)
	}
	return out
}

var flockRe = regexp.MustCompile(`^flock\((\d+),`)
var closeRe = regexp.MustCompile(`^close\((\d+)`)
var lineRe = regexp.MustCompile(`^(\d+)\s+(\d+\.\d+)\s+(.*)$`)

// parseTrace extracts the socket-path system calls of one traced agent (all its threads).
func parseTrace(path, agent string, sockKeys []string, dataDir string) (evs []event, pid int) {
	b, _ := os.ReadFile(path)
	pending := map[string]event{} // tid -> unfinished call
	lockFd := ""                  // descriptor the lock is held on
	for _, l := range strings.Split(string(b), "\n") {
		m := lineRe.FindStringSubmatch(l)
		if m == nil {
			continue
		}
		tid, ts, rest := m[1], m[2], m[3]
		if pid == 0 {
			pid, _ = strconv.Atoi(tid)
		}
		t, _ := strconv.ParseFloat(ts, 64)
		// the lock on the DAG file: flock(fd, LOCK_EX|LOCK_NB) and the first close of that descriptor afterwards
		if strings.HasPrefix(rest, "flock(") && strings.Contains(rest, "LOCK_EX") {
			e := event{T: t, Ag: agent, Ev: "flock"}
			if m := flockRe.FindStringSubmatch(rest); m != nil {
				lockFd = m[1]
			}
			if strings.Contains(rest, "<unfinished ...>") {
				pending[tid] = e
				continue
			}
			e.Res = resultOf(rest)
			e.Te = e.T + durOf(rest)
			if e.Res != "0" {
				lockFd = ""
			}
			evs = append(evs, e)
			continue
		}
		if strings.HasPrefix(rest, "close(") {
			if m := closeRe.FindStringSubmatch(rest); m != nil && lockFd != "" && m[1] == lockFd {
				evs = append(evs, event{T: t, Te: t, Ag: agent, Ev: "unlock", Res: "0"})
				lockFd = ""
			}
			continue
		}
		if (strings.HasPrefix(rest, "read(") || strings.HasPrefix(rest, "<... read resumed>")) && strings.Contains(rest, `"HTTP/1.`) {
			// the status endpoint's answer arriving at the probing process
			evs = append(evs, event{T: t, Te: t, Ag: agent, Ev: "response", Res: "0"})
			continue
		}
		if strings.HasPrefix(rest, "<... ") {
			if e, ok := pending[tid]; ok {
				delete(pending, tid)
				e.Res = resultOf(rest)
				e.Te = e.T + durOf(rest)
				evs = append(evs, e)
			}
			continue
		}
		if dataDir != "" && strings.HasPrefix(rest, "unlinkat(") && strings.Contains(rest, dataDir) && !strings.Contains(rest, "AT_REMOVEDIR") {
			// a history file being removed (retention clean-up, or the compaction at the end of a run)
			evs = append(evs, event{T: t, Te: t + durOf(rest), Ag: agent, Ev: "histunlink", Res: resultOf(rest)})
			continue
		}
		if !isSock(rest, sockKeys) {
			continue
		}
		name := rest[:strings.Index(rest, "(")]
		if name == "unlinkat" && strings.Contains(rest, "AT_REMOVEDIR") {
			continue
		}
		e := event{T: t, Ag: agent, Ev: name}
		if strings.Contains(rest, "<unfinished ...>") {
			pending[tid] = e
			continue
		}
		e.Res = resultOf(rest)
		e.Te = e.T + durOf(rest)
		evs = append(evs, e)
	}
	return
}

// isSock: the traced call names a blackdagger socket whose address carries one of the location keys
func isSock(rest string, keys []string) bool {
	if !strings.Contains(rest, "/tmp/@blackdagger-") {
		return false
	}
	for _, k := range keys {
		if strings.Contains(rest, k) {
			return true
		}
	}
	return false
}

var durRe = regexp.MustCompile(`<(\d+\.\d+)>\s*$`)

func durOf(rest string) float64 {
	if m := durRe.FindStringSubmatch(rest); m != nil {
		d, _ := strconv.ParseFloat(m[1], 64)
		return d
	}
	return 0
}

func resultOf(rest string) string {
	i := strings.LastIndex(rest, " = ")
	if i < 0 {
		return "?"
	}
	f := strings.Fields(rest[i+3:])
	if len(f) == 0 {
		return "?"
	}
	if f[0] == "0" {
		return "0"
	}
	if len(f) > 1 {
		return f[1]
	}
	return f[0]
}

// listenOf finds the `listen(fd)` line that follows the bind on the socket path in one agent's trace.
func listenEvents(path, agent string, sockKeys []string) []event {
	b, _ := os.ReadFile(path)
	var out []event
	bound := false
	for _, l := range strings.Split(string(b), "\n") {
		m := lineRe.FindStringSubmatch(l)
		if m == nil {
			continue
		}
		rest := m[3]
		if strings.HasPrefix(rest, "bind(") && isSock(rest, sockKeys) {
			bound = true
			continue
		}
		if bound && (strings.HasPrefix(rest, "listen(") || strings.HasPrefix(rest, "<... listen resumed")) {
			t, _ := strconv.ParseFloat(m[2], 64)
			out = append(out, event{T: t, Ag: agent, Ev: "listen", Res: resultOf(rest)})
			bound = false
		}
	}
	return out
}

// sockOfFile: the status endpoint's address for a DAG file = SockAddr() of the definition loaded by the real loader
// (what `blackdagger start/status/...` and the API client use); a file the loader rejects: of the bare location
func sockOfFile(file string) string {
	if d, err := dag.LoadMetadata(file); err == nil && d != nil {
		return d.SockAddr()
	}
	return (&dag.DAG{Location: file}).SockAddr()
}

// sockKey: the part of a socket address that depends on the file's location only (md5 of the spelled path)
func sockKey(file string) string {
	a := (&dag.DAG{Location: file}).SockAddr()
	i := strings.LastIndex(a, "-")
	return a[i:]
}

func probe(sockPath string) (bool, int) {
	body, err := sock.NewClient(sockPath).Request("GET", "/status")
	if err != nil {
		return false, 0
	}
	var s statusJSON
	_ = json.Unmarshal([]byte(body), &s)
	return true, s.Pid
}

func runCase(c lcase) (res result) {
	t0 := time.Now()
	res.ID = c.ID
	res.Exit = map[string]int{}
	res.Pid = map[string]int{}
	defer func() {
		if r := recover(); r != nil {
			res.Err = fmt.Sprint("panic: ", r)
		}
		res.WallMs = int(time.Since(t0).Milliseconds())
	}()
	home, err := os.MkdirTemp("", "bdlock-")
	if err != nil {
		res.Err = err.Error()
		return
	}
	defer os.RemoveAll(home)
	for _, d := range []string{"dags", "data", "logs", "susp", "bd"} {
		_ = os.MkdirAll(filepath.Join(home, d), 0755)
	}
	script := `#!/bin/sh
echo "$1 start $VERIF_AGENT $(date +%s.%N) $DAG_REQUEST_ID" >> "$VERIF_HOME/markers"
sleep "${VERIF_SLP:-$(cat "$VERIF_HOME/slp_$1" 2>/dev/null || cat "$VERIF_HOME/slp" 2>/dev/null || echo 0)}"
echo "$1 end $VERIF_AGENT $(date +%s.%N) $DAG_REQUEST_ID" >> "$VERIF_HOME/markers"
if [ "$2" = "last" ] && [ -f "$VERIF_HOME/fail" ]; then exit 1; fi
exit 0
`
	_ = os.WriteFile(filepath.Join(home, "mark.sh"), []byte(script), 0755)
	// the definition; `edit` = what a later save of the file changes in it
	spec := func(name, edit string) string {
		var y strings.Builder
		if name != "" {
			fmt.Fprintf(&y, "name: %s\n", name)
		}
		switch edit {
		case "other-description":
			y.WriteString("description: saved again with another description\n")
		case "other-params":
			y.WriteString("params: \"p1 p2\"\n")
		case "other-logdir":
			fmt.Fprintf(&y, "logDir: %s\n", filepath.Join(home, "logs2"))
		}
		if c.Retention >= 0 {
			fmt.Fprintf(&y, "histRetentionDays: %d\n", c.Retention)
		}
		y.WriteString("steps:\n")
		n := c.NSteps
		if edit == "step-added" {
			n++
		}
		for i := 1; i <= n; i++ {
			last := ""
			if i == c.NSteps {
				last = " last"
			}
			fmt.Fprintf(&y, "  - name: s%d\n    command: sh %s/mark.sh s%d%s\n", i, home, i, last)
			if i > 1 {
				fmt.Fprintf(&y, "    depends:\n      - s%d\n", i-1)
			}
		}
		for j := 0; j < c.BigExtra; j++ {
			fmt.Fprintf(&y, "  - name: x%d\n    command: \"true %s\"\n    depends:\n      - s%d\n", j, strings.Repeat("x", c.BigPad), c.NSteps)
		}
		if c.HandMs >= 0 {
			fmt.Fprintf(&y, "handlerOn:\n  exit:\n    command: sh %s/mark.sh hx\n", home)
		}
		return y.String()
	}
	dagFile := filepath.Join(home, "dags", "d.yaml")
	_ = os.WriteFile(dagFile, []byte(spec(c.NameBefore, "")), 0644)
	// the address the first run will listen on: SockAddr of the definition as the real loader reads it NOW
	sockPath := sockOfFile(dagFile)
	res.Sock = sockPath
	defer os.Remove(sockPath)
	// the same file under another spelling of its path
	bDagFile := dagFile
	switch c.BVia {
	case "dirlink":
		_ = os.Symlink(filepath.Join(home, "dags"), filepath.Join(home, "dagslink"))
		bDagFile = filepath.Join(home, "dagslink", "d.yaml")
	case "filelink":
		_ = os.MkdirAll(filepath.Join(home, "alt"), 0755)
		bDagFile = filepath.Join(home, "alt", "d.yaml")
		_ = os.Symlink(dagFile, bDagFile)
	case "hardlink":
		_ = os.MkdirAll(filepath.Join(home, "alt"), 0755)
		bDagFile = filepath.Join(home, "alt", "d.yaml")
		if err := os.Link(dagFile, bDagFile); err != nil {
			res.Err = "hard link: " + err.Error()
			return
		}
	}
	bSock := sockOfFile(bDagFile)
	res.SockB = bSock
	defer os.Remove(bSock)
	defer os.Remove(strings.TrimSuffix(sockPath, ".sock") + ".lock")
	defer os.Remove(strings.TrimSuffix(bSock, ".sock") + ".lock")
	setSleep := func(ms int) {
		_ = os.WriteFile(filepath.Join(home, "slp"), []byte(fmt.Sprintf("%d.%03d", ms/1000, ms%1000)), 0644)
	}

	var procs []*proc
	defer func() {
		for _, p := range procs {
			select {
			case <-p.done:
			default:
				p.killGroup()
				p.wait(2 * time.Second)
			}
		}
	}()

	// an earlier, failed run R0 for the retry variant (no sleeps; last step fails)
	bArgs := []string{"start", "-q", bDagFile}
	if c.Kind == "retry" {
		setSleep(0)
		_ = os.WriteFile(filepath.Join(home, "fail"), []byte("x"), 0644)
		p0 := launch(c, home, "R", "", "start", "-q", bDagFile)
		procs = append(procs, p0)
		if !p0.wait(20 * time.Second) {
			res.Err = "R0 did not finish"
			return
		}
		_ = os.Remove(filepath.Join(home, "fail"))
		h := readHist(home)
		if len(h) != 1 || h[0].Req == "" {
			res.Err = fmt.Sprintf("R0 history unexpected: %+v", h)
			return
		}
		res.R0 = h[0].Req
		bArgs = []string{"retry", "--req=" + res.R0, bDagFile}
	}
	setSleep(c.StepMs)
	_ = os.WriteFile(filepath.Join(home, "slp_hx"), []byte(fmt.Sprintf("%d.%03d", c.HandMs/1000, c.HandMs%1000)), 0644)

	pa := launch(c, home, "A", c.InjectA, "start", "-q", dagFile)
	procs = append(procs, pa)
	switch c.Phase {
	case "together":
	case "prelisten":
		time.Sleep(time.Duration(c.DelayUs) * time.Microsecond)
	case "steps":
		if !waitMarker(home, fmt.Sprintf("s%d start A", c.AtStep), 15*time.Second) {
			res.Err = "A never reached the step"
			return
		}
		time.Sleep(time.Duration(c.DelayUs) * time.Microsecond)
	case "handler":
		if !waitMarker(home, "hx start A", 20*time.Second) {
			res.Err = "A never reached the handler"
			return
		}
		time.Sleep(time.Duration(c.DelayUs) * time.Microsecond)
	case "shutdown":
		if !waitMarker(home, "hx end A", 20*time.Second) {
			res.Err = "A never finished the handler"
			return
		}
		time.Sleep(time.Duration(c.DelayUs) * time.Microsecond)
	case "closed":
		// the first run has finished its handler and its socket file is gone (listener closed), the process still lives
		if !waitMarker(home, "hx end A", 20*time.Second) {
			res.Err = "A never finished the handler"
			return
		}
		for i := 0; i < 4000; i++ {
			if _, e := os.Lstat(sockPath); e != nil {
				break
			}
			time.Sleep(time.Millisecond)
		}
		time.Sleep(time.Duration(c.DelayUs) * time.Microsecond)
	case "after":
		if !pa.wait(30 * time.Second) {
			res.Err = "A did not finish"
			return
		}
	}
	if c.Phase != "together" {
		_, e := os.Lstat(sockPath)
		res.SockAtB = e == nil
		if c.Phase == "steps" || c.Phase == "handler" {
			res.AnsBeforeB, res.APid = probe(sockPath)
		}
	}
	if c.Resave != "" {
		// the file is saved again the way the web UI / editors do it: a new file renamed over the old one
		ino := func() uint64 {
			var st syscall.Stat_t
			_ = syscall.Stat(dagFile, &st)
			return st.Ino
		}
		before := ino()
		saved, _ := os.ReadFile(dagFile)
		switch c.ResaveEdit {
		case "":
		case "name-added", "other-name":
			saved = []byte(spec(c.NameBefore+"-batch", ""))
			if c.NameBefore == "" {
				saved = []byte(spec("nightly", ""))
			}
		case "name-removed":
			saved = []byte(spec("", ""))
		default:
			saved = []byte(spec(c.NameBefore, c.ResaveEdit))
		}
		saved = append(saved, []byte("# saved again\n")...)
		if c.Resave == "updatespec" {
			if err := local.NewDAGStore(&local.NewDAGStoreArgs{Dir: filepath.Join(home, "dags")}).UpdateSpec("d", saved); err != nil {
				res.Err = "UpdateSpec: " + err.Error()
				return
			}
		} else {
			tmp := dagFile + ".tmp"
			_ = os.WriteFile(tmp, saved, 0644)
			if err := os.Rename(tmp, dagFile); err != nil {
				res.Err = "rename: " + err.Error()
				return
			}
		}
		res.InodeChanged = ino() != before
	}
	// the status endpoint's address FOR THE FILE as it is from now on (what `status`, the API client and the second
	// command's own probe derive from the definition they load)
	res.SockFile = sockOfFile(dagFile)
	defer os.Remove(res.SockFile)
	thaw := func() {}
	if c.FreezeMs > 0 && res.APid > 0 {
		pid := res.APid
		if err := syscall.Kill(pid, syscall.SIGSTOP); err == nil {
			res.Frozen = true
			var once sync.Once
			thaw = func() { once.Do(func() { _ = syscall.Kill(pid, syscall.SIGCONT) }) }
			defer thaw()
			timer := time.AfterFunc(time.Duration(c.FreezeMs)*time.Millisecond, func() { res.ThawedEarly = true; thaw() })
			defer timer.Stop()
		}
	}
	histFiles := func() []string {
		fs, _ := filepath.Glob(filepath.Join(home, "data", "*", "*.dat"))
		var out []string
		for _, f := range fs {
			out = append(out, filepath.Base(f))
		}
		sort.Strings(out)
		return out
	}
	var reqsBefore []string
	if c.BackdateH > 0 {
		// the active run's current step "has been quiet" for that long: nothing was written to the history meanwhile
		old := time.Now().Add(-time.Duration(c.BackdateH) * time.Hour)
		_ = filepath.Walk(filepath.Join(home, "data"), func(p string, fi os.FileInfo, err error) error {
			if err == nil && !fi.IsDir() {
				_ = os.Chtimes(p, old, old)
			}
			return nil
		})
	}
	if c.Phase != "together" {
		res.HistBeforeB = histFiles()
		for _, h := range readHist(home) {
			reqsBefore = append(reqsBefore, h.Req)
		}
	}
	var bEnv []string
	if c.BStepMs > 0 {
		bEnv = []string{fmt.Sprintf("VERIF_SLP=%d.%03d", c.BStepMs/1000, c.BStepMs%1000)}
	}
	pb := launchEnv(c, home, "B", c.InjectB, bEnv, bArgs...)
	procs = append(procs, pb)
	var pc *proc
	if c.ThirdAfterMs > 0 {
		time.Sleep(time.Duration(c.ThirdAfterMs) * time.Millisecond)
		res.SockAtC = func() bool { _, e := os.Lstat(sockPath); return e == nil }()
		pc = launch(c, home, "C", "", "start", "-q", dagFile)
		procs = append(procs, pc)
		if !pc.wait(40 * time.Second) {
			res.Err = "C did not finish"
			return
		}
	}
	if !pb.wait(40 * time.Second) {
		res.Err = "B did not finish"
		return
	}
	res.BExitT = float64(time.Now().UnixNano()) / 1e9
	if res.Frozen {
		early := res.ThawedEarly
		thaw()
		res.ThawedEarly = early
		time.Sleep(200 * time.Millisecond)
	}
	if c.Phase != "together" {
		res.HistAfterB = histFiles()
		// what the real store (jsondb) says at this moment
		db := jsondb.New(filepath.Join(home, "data"), true)
		for _, sf := range db.ReadStatusRecent(dagFile, 20) {
			if sf != nil && sf.Status != nil {
				res.StoreReqs = append(res.StoreReqs, sf.Status.RequestID)
			}
		}
		res.StoreByReq = map[string]bool{}
		for _, q := range reqsBefore {
			if q == "" {
				continue
			}
			sf, err := db.FindByRequestID(dagFile, q)
			if (err != nil || sf == nil) && bDagFile != dagFile {
				sf, err = db.FindByRequestID(bDagFile, q) // recorded under the other spelling
			}
			res.StoreByReq[q] = err == nil && sf != nil
		}
	}
	select {
	case <-pa.done:
	default:
		res.AAliveAfter = true
		res.AnsT = float64(time.Now().UnixNano()) / 1e9
		res.AnsAfterB, res.AnsPidAfter = probe(sockPath)
		if c.Resave != "" {
			// is the active run still reached THROUGH THE FILE: the raw endpoint at the address of the definition as saved
			// now, and the API's status query (client.GetCurrentStatus of the freshly loaded definition)
			res.AnsFileAfter, res.AnsFilePid = probe(res.SockFile)
			res.ApiStatus = "error"
			if d, err := dag.LoadMetadata(dagFile); err == nil {
				if st, err := client.New(nil, "", "", nil).GetCurrentStatus(d); err == nil && st != nil {
					res.ApiPid = int(st.PID)
					if st.Status == scheduler.StatusRunning {
						res.ApiStatus = "running"
					} else {
						res.ApiStatus = fmt.Sprintf("other:%d", int(st.Status))
					}
				}
			}
		}
		if c.Phase == "steps" {
			cmd := exec.Command(c.Bin, "status", dagFile)
			cmd.Env = envFor(home, "S")
			o, _ := cmd.CombinedOutput()
			switch {
			case bytes.Contains(o, []byte("status=running")):
				res.StatusCmd = "running"
			case bytes.Contains(o, []byte("status=")):
				res.StatusCmd = "other"
			default:
				res.StatusCmd = "error"
			}
		}
		res.QueriesT = float64(time.Now().UnixNano()) / 1e9
	}
	if !pa.wait(40 * time.Second) {
		res.Err = "A did not finish"
		return
	}
	res.Exit["A"], res.Exit["B"] = pa.code, pb.code
	type np struct {
		n string
		p *proc
	}
	all := []np{{"A", pa}, {"B", pb}}
	if pc != nil {
		res.Exit["C"] = pc.code
		all = append(all, np{"C", pc})
	}
	for _, x := range all {
		// (each traced process touches only the socket of its own spelling of the path)
		// (the socket paths of this case's file under either spelling, whatever the readable part of the name is)
		keys := []string{sockKey(dagFile), sockKey(bDagFile)}
		evs, _ := parseTrace(x.p.trace, x.n, keys, filepath.Join(home, "data")+"/")
		evs = append(evs, listenEvents(x.p.trace, x.n, keys)...)
		res.Events = append(res.Events, evs...)
		res.Pid[x.n] = x.p.pid
	}
	sort.SliceStable(res.Events, func(i, j int) bool { return res.Events[i].T < res.Events[j].T })
	res.Markers = markers(home)
	res.Hist = readHist(home)
	return
}
