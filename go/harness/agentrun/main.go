//go:build verif

// Agent-area harness (C08): the REAL agent (agent.New(...).Run) over real data stores with scripted
// in-process executors. At every quiescent point of the run it records
//
//	live  : what client.GetLatestStatus reports (status socket of the running agent),
//	dead  : what the same client path reports once the socket is gone, from what is persisted NOW:
//	        HistoryStore.ReadStatusToday + CorrectRunningStatus (= GetLatestStatus without a socket),
//	truth : which steps the scripted executors have started / ended and how.
package main

import (
	"bufio"
	"context"
	"encoding/json"
	"errors"
	"fmt"
	"io"
	"log"
	"math/rand"
	"net/http"
	"net/url"
	"os"
	"path/filepath"
	"runtime/debug"
	"sort"
	"strings"
	"sync"
	"syscall"
	"time"

	"github.com/ErdemOzgen/blackdagger/internal/agent"
	"github.com/ErdemOzgen/blackdagger/internal/client"
	"github.com/ErdemOzgen/blackdagger/internal/dag"
	"github.com/ErdemOzgen/blackdagger/internal/dag/executor"
	"github.com/ErdemOzgen/blackdagger/internal/logger"
	dsclient "github.com/ErdemOzgen/blackdagger/internal/persistence/client"
	"github.com/ErdemOzgen/blackdagger/internal/persistence/jsondb"
	"github.com/ErdemOzgen/blackdagger/internal/persistence/model"
	"github.com/ErdemOzgen/blackdagger/internal/util"
)

type world struct {
	mu       sync.Mutex
	nEvents  int
	inflight map[int]*scriptExec
	attempts map[int]int
	started  map[int]int
	lastOK   map[int]int // 1 ok, 2 fail (last finished attempt)
	sigs     map[int][]int
}

var W *world
var autoMode bool
var autoCase *acase

func autoOK(idx, att int) bool {
	if idx >= 1000 {
		return autoCase.Handlers[idx-1000] != 2
	}
	f := autoCase.Nodes[idx].Fails
	return !(f < 0 || att < f)
}

type scriptExec struct {
	idx, att int
	release  chan bool
	obeys    bool
	dead     bool
}

func (e *scriptExec) SetStdout(io.Writer) {}
func (e *scriptExec) SetStderr(io.Writer) {}
func (e *scriptExec) Kill(sig os.Signal) error {
	s := 0
	if ss, ok := sig.(syscall.Signal); ok {
		s = int(ss)
	}
	w := W
	w.mu.Lock()
	w.sigs[e.idx] = append(w.sigs[e.idx], s)
	fire := !e.dead && (e.obeys || s == 9)
	if fire {
		e.dead = true
	}
	w.mu.Unlock()
	if fire {
		select {
		case e.release <- false:
		default:
		}
	}
	return nil
}
func (e *scriptExec) Run() error {
	w := W
	w.mu.Lock()
	w.nEvents++
	w.inflight[e.idx] = e
	w.started[e.idx]++
	w.mu.Unlock()
	var ok bool
	if autoMode {
		ok = autoOK(e.idx, e.att) // free-running stream: nobody releases, the scripted outcome is immediate
	} else {
		ok = <-e.release
	}
	w.mu.Lock()
	delete(w.inflight, e.idx)
	w.nEvents++
	if ok {
		w.lastOK[e.idx] = 1
	} else {
		w.lastOK[e.idx] = 2
	}
	w.mu.Unlock()
	if ok {
		return nil
	}
	return errors.New("scripted failure")
}

// freeExec: the filler steps of a big DAG (acase.Extra): they succeed at once and are not part of the scripted world
type freeExec struct{}

func (freeExec) SetStdout(io.Writer)  {}
func (freeExec) SetStderr(io.Writer)  {}
func (freeExec) Kill(os.Signal) error { return nil }
func (freeExec) Run() error           { return nil }

func init() {
	executor.Register("verifscript", func(_ context.Context, step dag.Step) (executor.Executor, error) {
		if v, ok := step.ExecutorConfig.Config["free"].(bool); ok && v {
			return freeExec{}, nil
		}
		idx := int(step.ExecutorConfig.Config["idx"].(float64))
		w := W
		w.mu.Lock()
		att := w.attempts[idx]
		w.attempts[idx] = att + 1
		w.mu.Unlock()
		obeys := true
		if v, ok := step.ExecutorConfig.Config["obeys"].(bool); ok {
			obeys = v
		}
		return &scriptExec{idx: idx, att: att, release: make(chan bool, 2), obeys: obeys}, nil
	})
}

type nodeCase struct {
	Deps     []int  `json:"deps"`
	ContFail bool   `json:"cf"`
	ContSkip bool   `json:"cs"`
	Limit    int    `json:"limit"`
	Pre      int    `json:"pre"`
	Fails    int    `json:"fails"`
	Obeys    *bool  `json:"obeys,omitempty"`
	Sig      string `json:"sig,omitempty"` // signalOnStop
}

type acase struct {
	ID        string     `json:"id"`
	Nodes     []nodeCase `json:"nodes"`
	MaxActive int        `json:"maxActive"`
	Handlers  [4]int     `json:"handlers"`
	Seed      int64      `json:"seed"`
	Ops       []string   `json:"ops,omitempty"`
	// stop stream (C05): after that many releases a stop is requested through the agent's own entry
	// points (API: HandleHTTP POST /stop = signal(SIGTERM, allowOverride); OS: Signal(SIGTERM))
	StopAfter int    `json:"stopAfter"`
	StopVia   string `json:"stopVia,omitempty"` // "api" | "os"
	CleanupMs int    `json:"cleanupMs,omitempty"`
	Auto      bool   `json:"auto,omitempty"` // free-running: executors return at once (stress of the final record)
	// big DAG: `extra` filler steps x0.. (each depends on s0, succeeds at once, not scripted) whose definition carries `pad`
	// bytes of command text: the status document the agent's socket answers with grows to extra * (~500 + pad) bytes
	Extra int `json:"extra,omitempty"`
	Pad   int `json:"pad,omitempty"`
}

type stopReport struct {
	InFlight []int            `json:"inflight"`
	Sigs     map[string][]int `json:"sigs"`
	EndedMs  int64            `json:"endedMs"` // -1: did not end within the wait
	Overall  string           `json:"overall"`
	St       []string         `json:"st"`
	Handlers map[string]int   `json:"handlers"` // handler idx -> starts
}

type respW struct{ code int }

func (r *respW) Header() http.Header         { return http.Header{} }
func (r *respW) Write(b []byte) (int, error) { return len(b), nil }
func (r *respW) WriteHeader(c int)           { r.code = c }

type view struct {
	Overall string   `json:"ov"`
	St      []string `json:"st"`
	Retry   []int    `json:"rc"`
	Done    []int    `json:"dc"`
	Err     string   `json:"err,omitempty"`
	Bad     []string `json:"bad,omitempty"` // per-node consistency complaints (start after finish, no log …)
}

type point struct {
	Live   view           `json:"live"`
	Dead   view           `json:"dead"`
	Flight []int          `json:"fl"`
	Ended  map[string]int `json:"ended"` // node -> 1 ok / 2 fail (last finished attempt)
	Starts map[string]int `json:"starts"`
	Doc    int            `json:"doc,omitempty"` // big DAG: bytes of the status document behind the live view
}

type result struct {
	ID     string      `json:"id"`
	Ops    []string    `json:"ops"`
	Points []point     `json:"points"`
	Final  *point      `json:"final"`
	RunErr bool        `json:"runErr"`
	Hang   bool        `json:"hang"`
	Panic  string      `json:"panic,omitempty"`
	Stop   *stopReport `json:"stop,omitempty"`
}

func toView(st *model.Status, err error, n int) view {
	var v view
	if err != nil {
		v.Err = err.Error()
	}
	if st == nil {
		return v
	}
	v.Overall = st.Status.String()
	for i, nd := range st.Nodes {
		if i >= n {
			break
		}
		v.St = append(v.St, nd.Status.String())
		v.Retry = append(v.Retry, nd.RetryCount)
		v.Done = append(v.Done, nd.DoneCount)
		if nd.StartedAt != "-" && nd.FinishedAt != "-" && nd.StartedAt != "" && nd.FinishedAt != "" {
			s, e1 := util.ParseTime(nd.StartedAt)
			f, e2 := util.ParseTime(nd.FinishedAt)
			if e1 == nil && e2 == nil && f.Before(s) {
				v.Bad = append(v.Bad, fmt.Sprintf("node %d finished %s before it started %s", i, nd.FinishedAt, nd.StartedAt))
			}
		}
	}
	return v
}

func runCase(c acase) (res result) {
	res.ID = c.ID
	defer func() {
		if r := recover(); r != nil {
			res.Panic = fmt.Sprint(r) + " @ " + string(debug.Stack())
		}
	}()
	W = &world{inflight: map[int]*scriptExec{}, attempts: map[int]int{}, started: map[int]int{}, lastOK: map[int]int{}, sigs: map[int][]int{}}
	rng := rand.New(rand.NewSource(c.Seed))
	autoMode, autoCase = c.Auto, &c
	root, _ := os.MkdirTemp("", "verif-agent-")
	defer os.RemoveAll(root)
	dagsDir, dataDir := filepath.Join(root, "dags"), filepath.Join(root, "data")
	os.MkdirAll(dagsDir, 0o755)
	lg := logger.NewLogger(logger.NewLoggerArgs{Quiet: true})
	ds := dsclient.NewDataStores(dagsDir, dataDir, filepath.Join(root, "suspend"), dsclient.DataStoreOptions{})
	cli := client.New(ds, "/bin/true", root, lg)
	d := &dag.DAG{Name: "v" + c.ID, Location: filepath.Join(dagsDir, "v"+c.ID+".yaml"), MaxActiveRuns: c.MaxActive,
		LogDir: filepath.Join(root, "log"), HistRetentionDays: 30, MaxCleanUpTime: time.Duration(max(c.CleanupMs, 2000)) * time.Millisecond,
		SMTP: &dag.SMTPConfig{}, MailOn: &dag.MailOn{}, ErrorMail: &dag.MailConfig{}, InfoMail: &dag.MailConfig{}}
	os.WriteFile(d.Location, []byte("steps: []\n"), 0o644)
	for i, nc := range c.Nodes {
		s := dag.Step{Name: fmt.Sprintf("s%d", i),
			ExecutorConfig: dag.ExecutorConfig{Type: "verifscript", Config: map[string]any{"idx": float64(i), "obeys": nc.Obeys == nil || *nc.Obeys}},
			ContinueOn:     dag.ContinueOn{Failure: nc.ContFail, Skipped: nc.ContSkip}, SignalOnStop: nc.Sig}
		for _, dd := range nc.Deps {
			s.Depends = append(s.Depends, fmt.Sprintf("s%d", dd))
		}
		if nc.Limit > 0 {
			s.RetryPolicy = &dag.RetryPolicy{Limit: nc.Limit}
		}
		if nc.Pre != 0 {
			key := fmt.Sprintf("VERIF_PRE_%d", i)
			v := "1"
			if nc.Pre == 2 {
				v = "0"
			}
			os.Setenv(key, v)
			s.Preconditions = []dag.Condition{{Condition: "$" + key, Expected: "1"}}
			// same flavours as go/harness/sched (nodeCase.Pre): 4 / 5 the condition cannot be evaluated (failing command
			// substitution), 6 / 7 / 8 `re:` pattern that matches / does not match / is invalid
			switch nc.Pre {
			case 4:
				s.Preconditions[0].Condition = "`false`"
			case 5:
				s.Preconditions[0].Condition = "`/nonexistent/verif-no-such-command`"
			case 6:
				s.Preconditions[0].Expected = "re:^[1-9]$"
			case 7:
				s.Preconditions[0].Expected = "re:^[2-9]$"
			case 8:
				s.Preconditions[0].Expected = "re:[1"
			}
		}
		d.Steps = append(d.Steps, s)
	}
	for j := 0; j < c.Extra && len(c.Nodes) > 0; j++ {
		pad := strings.Repeat("x", c.Pad)
		d.Steps = append(d.Steps, dag.Step{Name: fmt.Sprintf("x%d", j), Depends: []string{"s0"},
			Command: "true", Args: []string{pad}, CmdWithArgs: "true " + pad,
			ExecutorConfig: dag.ExecutorConfig{Type: "verifscript", Config: map[string]any{"free": true}}})
	}
	hs := func(h int) *dag.Step {
		if c.Handlers[h] == 0 {
			return nil
		}
		return &dag.Step{Name: []string{"onSuccess", "onFailure", "onCancel", "onExit"}[h],
			ExecutorConfig: dag.ExecutorConfig{Type: "verifscript", Config: map[string]any{"idx": float64(1000 + h)}}}
	}
	d.HandlerOn = dag.HandlerOn{Success: hs(0), Failure: hs(1), Cancel: hs(2), Exit: hs(3)}
	logDir := filepath.Join(root, "log")
	os.MkdirAll(logDir, 0o755)
	ag := agent.New("req-"+c.ID, d, lg, logDir, filepath.Join(logDir, "agent.log"), cli, ds, &agent.Options{})
	finished := make(chan struct{})
	var runErr error
	go func() {
		defer func() {
			if r := recover(); r != nil {
				res.Panic = fmt.Sprint(r) + " @ " + string(debug.Stack())
			}
			close(finished)
		}()
		runErr = ag.Run(context.Background())
	}()
	n := len(c.Nodes)
	observe := func() point {
		var p point
		st, err := cli.GetLatestStatus(d)
		p.Live = toView(st, err, n)
		if c.Extra > 0 && st != nil {
			if b, e := st.ToJSON(); e == nil {
				p.Doc = len(b)
			}
		}
		// what is persisted right now, read the way GetLatestStatus reads it when no socket answers
		ps, perr := jsondb.New(dataDir, false).ReadStatusToday(d.Location)
		if ps != nil {
			ps.CorrectRunningStatus()
		}
		p.Dead = toView(ps, perr, n)
		W.mu.Lock()
		p.Ended, p.Starts = map[string]int{}, map[string]int{}
		for i := range W.inflight {
			p.Flight = append(p.Flight, i)
		}
		for i, v := range W.lastOK {
			p.Ended[fmt.Sprint(i)] = v
		}
		for i, v := range W.started {
			p.Starts[fmt.Sprint(i)] = v
		}
		W.mu.Unlock()
		sort.Ints(p.Flight)
		return p
	}
	quiesce := func() bool { // true when Run returned
		last, since := -1, time.Now()
		deadline := time.Now().Add(6 * time.Second)
		for {
			select {
			case <-finished:
				return true
			default:
			}
			W.mu.Lock()
			ne := W.nEvents
			W.mu.Unlock()
			if ne != last {
				last, since = ne, time.Now()
			} else if time.Since(since) > 280*time.Millisecond {
				return false
			}
			if time.Now().After(deadline) {
				return false
			}
			time.Sleep(10 * time.Millisecond)
		}
	}
	opIdx := 0
	for {
		if c.Auto {
			select {
			case <-finished:
			case <-time.After(20 * time.Second):
				res.Hang = true
			}
			break
		}
		if quiesce() {
			break
		}
		p := observe()
		if len(p.Flight) == 0 {
			// nothing in flight and not finished: between two steps / handlers (the scheduler polls every
			// 100 ms and the machine may be busy), or a genuine hang: wait up to ~6 s before calling it one
			fin := false
			for k := 0; k < 20 && len(p.Flight) == 0 && !fin; k++ {
				fin = quiesce()
				if !fin {
					p = observe()
				}
			}
			if fin {
				break
			}
			if len(p.Flight) == 0 {
				res.Hang = true
				res.Points = append(res.Points, p)
				break
			}
		}
		res.Points = append(res.Points, p)
		if c.StopVia != "" && len(res.Ops) >= c.StopAfter {
			// stop now, through the agent's own entry point, and watch the escalation
			rep := &stopReport{InFlight: p.Flight, Sigs: map[string][]int{}, Handlers: map[string]int{}, EndedMs: -1}
			t0 := time.Now()
			res.Ops = append(res.Ops, "stop")
			if c.StopVia == "api" {
				go ag.HandleHTTP(&respW{}, &http.Request{Method: "POST", URL: &url.URL{Path: "/stop"}})
			} else {
				go ag.Signal(syscall.SIGTERM)
			}
			wait := time.Duration(max(c.CleanupMs, 2000))*time.Millisecond + 4*time.Second
			deadline := time.Now().Add(wait)
			ended := false
			for time.Now().Before(deadline) && !ended {
				select {
				case <-finished:
					ended = true
				default:
					// handlers started after the stop are scripted executors too: let them succeed
					W.mu.Lock()
					for i, e := range W.inflight {
						if i >= 1000 {
							select {
							case e.release <- true:
							default:
							}
						}
					}
					W.mu.Unlock()
					time.Sleep(10 * time.Millisecond)
				}
			}
			if ended {
				rep.EndedMs = time.Since(t0).Milliseconds()
			}
			W.mu.Lock()
			for i, v := range W.sigs {
				rep.Sigs[fmt.Sprint(i)] = append([]int{}, v...)
			}
			for i, v := range W.started {
				if i >= 1000 {
					rep.Handlers[fmt.Sprint(i-1000)] = v
				}
			}
			W.mu.Unlock()
			if !ended {
				res.Hang = true
			}
			fp := observe()
			rep.Overall, rep.St = fp.Dead.Overall, fp.Dead.St
			res.Stop = rep
			break
		}
		var i int
		var ok bool
		if c.Ops != nil {
			if opIdx >= len(c.Ops) {
				res.Hang = true
				break
			}
			fmt.Sscanf(c.Ops[opIdx], "rel %d %t", &i, &ok)
			opIdx++
		} else {
			i = p.Flight[rng.Intn(len(p.Flight))]
			W.mu.Lock()
			e := W.inflight[i]
			W.mu.Unlock()
			ok = true
			if i < 1000 {
				f := c.Nodes[i].Fails
				ok = !(f < 0 || e.att < f)
			} else {
				ok = c.Handlers[i-1000] != 2
			}
		}
		res.Ops = append(res.Ops, fmt.Sprintf("rel %d %v", i, ok))
		W.mu.Lock()
		e := W.inflight[i]
		W.mu.Unlock()
		if e == nil {
			res.Hang = true
			break
		}
		e.release <- ok
	}
	if res.Hang {
		W.mu.Lock()
		for _, e := range W.inflight {
			select {
			case e.release <- false:
			default:
			}
		}
		W.mu.Unlock()
		select {
		case <-finished:
		case <-time.After(3 * time.Second):
		}
	}
	res.RunErr = runErr != nil
	fp := observe()
	res.Final = &fp
	return
}

// ---- real-process stop stream (C05): real `sh` steps run by the real agent and the real command executor ----
type rcase struct {
	ID        string   `json:"id"`
	Cmds      []string `json:"cmds"`    // one independent step per shell command
	Sigs      []string `json:"sigs"`    // signalOnStop per step ("" = none)
	StopVia   string   `json:"stopVia"` // api | os
	CleanupMs int      `json:"cleanupMs"`
	DelayMs   int      `json:"delayMs"` // stop that long after the start
	// the signalOnStop of step 0 goes through the LOADER first: a one-step YAML definition with this spelling is
	// loaded with dag.LoadYAML; rejected => nothing runs (result.rejected); accepted => the step gets what the loader stored
	YamlSig string `json:"yamlSig,omitempty"`
	// stopVia == "timeout": nobody asks for a stop; the DAG's own Timeout (timeoutMs) elapses while the steps run. endedMs is
	// then counted from the instant the timeout elapses (start of Agent.Run + timeoutMs).
	TimeoutMs int `json:"timeoutMs,omitempty"`
	MaxActive int `json:"maxActive,omitempty"` // DAG.MaxActiveRuns (0 = unlimited)
	// extra steps that can only start after the stop/timeout: `late` steps depend on step 0, `queued` steps are independent
	// (held back by maxActive). Each appends its name to a file when its process really starts.
	Late   int `json:"late,omitempty"`
	Queued int `json:"queued,omitempty"`
	WaitMs int `json:"waitMs,omitempty"` // give up waiting for the end of the run cleanupMs + waitMs after the stop/timeout (default 8000)
}

type rresult struct {
	ID       string   `json:"id"`
	EndedMs  int64    `json:"endedMs"` // after the stop; -1 = still alive at the end of the wait
	Overall  string   `json:"overall"`
	St       []string `json:"st"`
	Left     int      `json:"left"` // step processes (carrying the case token) still alive 300 ms after the run ended
	Handlers []string `json:"handlers"`
	Panic    string   `json:"panic,omitempty"`
	Rejected bool     `json:"rejected,omitempty"`
	Stored   string   `json:"stored,omitempty"` // signalOnStop as the loader stored it
	// timeout leg
	Started   []string `json:"started,omitempty"`   // late/queued steps whose process really started: "<name>@<ms after the start of Agent.Run>"
	LeftGroup []string `json:"leftGroup,omitempty"` // live processes in the process groups of the steps 300 ms after the run ended / the wait gave up
	RunErr    string   `json:"runErr,omitempty"`    // what Agent.Run returned
	TotalMs   int64    `json:"totalMs,omitempty"`   // start of Agent.Run -> its return
	LeftAtEnd int      `json:"leftAtEnd,omitempty"` // live processes in the steps' process groups at the instant the run ended (or the wait gave up)
	Names     []string `json:"names,omitempty"`     // step names, parallel to st
}

func countToken(tok string) int {
	n := 0
	ents, _ := os.ReadDir("/proc")
	for _, e := range ents {
		if e.Name()[0] < '0' || e.Name()[0] > '9' {
			continue
		}
		b, err := os.ReadFile("/proc/" + e.Name() + "/cmdline")
		if err == nil && strings.Contains(string(b), tok) {
			n++
		}
	}
	return n
}

// procStat: state, parent, pgrp of a pid ("" / 0 when it is gone)
func procStat(pid string) (string, int, int) {
	b, err := os.ReadFile("/proc/" + pid + "/stat")
	if err != nil {
		return "", 0, 0
	}
	t := string(b)
	if i := strings.LastIndex(t, ")"); i >= 0 {
		f := strings.Fields(t[i+1:])
		if len(f) >= 3 {
			var pp, g int
			fmt.Sscan(f[1], &pp)
			fmt.Sscan(f[2], &g)
			return f[0], pp, g
		}
	}
	return "", 0, 0
}

// groupWatch: every step is started in its own process group (Setpgid); its leader is a child of this process (the agent runs
// in-process) and carries the case token in its command line until it execs something else; children forked by the shell
// (`sleep 30`) do NOT carry it. The watch collects the groups of all children of this process and of all token processes while
// the run goes on, so that the members of those groups can be counted (and killed) after the leader is gone.
type groupWatch struct {
	mu   sync.Mutex
	tok  string
	pg   map[int]bool
	stop chan struct{}
}

func newGroupWatch(tok string) *groupWatch {
	w := &groupWatch{tok: tok, pg: map[int]bool{}, stop: make(chan struct{})}
	go func() {
		for {
			w.scan()
			select {
			case <-w.stop:
				return
			case <-time.After(40 * time.Millisecond):
			}
		}
	}()
	return w
}

func (w *groupWatch) scan() {
	ents, _ := os.ReadDir("/proc")
	own, me := syscall.Getpgrp(), os.Getpid()
	for _, e := range ents {
		if e.Name()[0] < '0' || e.Name()[0] > '9' {
			continue
		}
		_, pp, g := procStat(e.Name())
		if g <= 1 || g == own {
			continue
		}
		hit := pp == me
		if !hit {
			b, err := os.ReadFile("/proc/" + e.Name() + "/cmdline")
			hit = err == nil && strings.Contains(string(b), w.tok)
		}
		if hit {
			w.mu.Lock()
			w.pg[g] = true
			w.mu.Unlock()
		}
	}
}

// alive: live (non-zombie) processes in the collected groups, as "pid:cmdline"
func (w *groupWatch) alive() []string {
	w.mu.Lock()
	defer w.mu.Unlock()
	var out []string
	ents, _ := os.ReadDir("/proc")
	for _, e := range ents {
		if e.Name()[0] < '0' || e.Name()[0] > '9' {
			continue
		}
		st, _, g := procStat(e.Name())
		if st != "" && st != "Z" && st != "X" && w.pg[g] {
			b, _ := os.ReadFile("/proc/" + e.Name() + "/cmdline")
			c := strings.TrimSpace(strings.ReplaceAll(string(b), "\x00", " "))
			if len(c) > 60 {
				c = c[:60]
			}
			out = append(out, e.Name()+":"+c)
		}
	}
	return out
}

func (w *groupWatch) killAll() {
	close(w.stop)
	w.scan()
	w.mu.Lock()
	defer w.mu.Unlock()
	for g := range w.pg {
		syscall.Kill(-g, syscall.SIGKILL)
	}
}

func killToken(tok string) {
	ents, _ := os.ReadDir("/proc")
	for _, e := range ents {
		if e.Name()[0] < '0' || e.Name()[0] > '9' {
			continue
		}
		b, err := os.ReadFile("/proc/" + e.Name() + "/cmdline")
		if err == nil && strings.Contains(string(b), tok) {
			var pid int
			fmt.Sscan(e.Name(), &pid)
			syscall.Kill(pid, syscall.SIGKILL)
		}
	}
}

func runReal(c rcase) (res rresult) {
	res.ID = c.ID
	res.EndedMs = -1
	defer func() {
		if r := recover(); r != nil {
			res.Panic = fmt.Sprint(r)
		}
	}()
	root, _ := os.MkdirTemp("", "verif-real-")
	defer os.RemoveAll(root)
	tok := "VERIFTOK" + filepath.Base(root)
	defer killToken(tok)
	gw := newGroupWatch(tok)
	defer gw.killAll()
	dagsDir, dataDir := filepath.Join(root, "dags"), filepath.Join(root, "data")
	os.MkdirAll(dagsDir, 0o755)
	lg := logger.NewLogger(logger.NewLoggerArgs{Quiet: true})
	ds := dsclient.NewDataStores(dagsDir, dataDir, filepath.Join(root, "suspend"), dsclient.DataStoreOptions{})
	cli := client.New(ds, "/bin/true", root, lg)
	d := &dag.DAG{Name: "r" + c.ID, Location: filepath.Join(dagsDir, "r"+c.ID+".yaml"),
		LogDir: filepath.Join(root, "log"), HistRetentionDays: 30, MaxCleanUpTime: time.Duration(c.CleanupMs) * time.Millisecond,
		SMTP: &dag.SMTPConfig{}, MailOn: &dag.MailOn{}, ErrorMail: &dag.MailConfig{}, InfoMail: &dag.MailConfig{}}
	os.WriteFile(d.Location, []byte("steps: []\n"), 0o644)
	marks := filepath.Join(root, "handlers.txt")
	if c.YamlSig != "" {
		y := "steps:\n  - name: s0\n    command: \"true\"\n    signalOnStop: \"" + c.YamlSig + "\"\n"
		ld, err := dag.LoadYAML([]byte(y))
		if err != nil || ld == nil || len(ld.Steps) != 1 {
			res.Rejected = true
			res.EndedMs = 0
			return
		}
		res.Stored = ld.Steps[0].SignalOnStop
		if len(c.Sigs) == 0 {
			c.Sigs = []string{""}
		}
		c.Sigs[0] = ld.Steps[0].SignalOnStop
	}
	for i, cmd := range c.Cmds {
		// the token rides in the command line of every process of the step (sh -c '<cmd>' <token>)
		st := dag.Step{Name: fmt.Sprintf("s%d", i), Command: "sh", Args: []string{"-c", cmd, tok}}
		if i < len(c.Sigs) {
			st.SignalOnStop = c.Sigs[i]
		}
		d.Steps = append(d.Steps, st)
	}
	startedFile := filepath.Join(root, "started.txt")
	for i := 0; i < c.Late; i++ {
		n := fmt.Sprintf("late%d", i)
		d.Steps = append(d.Steps, dag.Step{Name: n, Command: "sh", Args: []string{"-c", "echo " + n + "@$(date +%s%N) >> " + startedFile + "; sleep 1", tok}, Depends: []string{"s0"}})
	}
	for i := 0; i < c.Queued; i++ {
		n := fmt.Sprintf("queued%d", i)
		d.Steps = append(d.Steps, dag.Step{Name: n, Command: "sh", Args: []string{"-c", "echo " + n + "@$(date +%s%N) >> " + startedFile + "; sleep 1", tok}})
	}
	if c.TimeoutMs > 0 {
		d.Timeout = time.Duration(c.TimeoutMs) * time.Millisecond
	}
	d.MaxActiveRuns = c.MaxActive
	mk := func(name string) *dag.Step {
		return &dag.Step{Name: name, Command: "sh", Args: []string{"-c", "echo " + name + " >> " + marks}}
	}
	d.HandlerOn = dag.HandlerOn{Success: mk("onSuccess"), Failure: mk("onFailure"), Cancel: mk("onCancel"), Exit: mk("onExit")}
	logDir := filepath.Join(root, "log")
	os.MkdirAll(logDir, 0o755)
	ag := agent.New("req-"+c.ID, d, lg, logDir, filepath.Join(logDir, "agent.log"), cli, ds, &agent.Options{})
	finished := make(chan struct{})
	var runErr error
	tStart := time.Now()
	go func() {
		defer func() {
			if r := recover(); r != nil {
				res.Panic = fmt.Sprint(r)
			}
			close(finished)
		}()
		runErr = ag.Run(context.Background())
	}()
	var t0 time.Time
	waitMs := 8000
	if c.WaitMs > 0 {
		waitMs = c.WaitMs
	}
	if c.StopVia == "timeout" {
		t0 = tStart.Add(time.Duration(c.TimeoutMs) * time.Millisecond)
		time.Sleep(time.Until(t0))
	} else {
		time.Sleep(time.Duration(c.DelayMs) * time.Millisecond)
		t0 = time.Now()
		if c.StopVia == "api" {
			go ag.HandleHTTP(&respW{}, &http.Request{Method: "POST", URL: &url.URL{Path: "/stop"}})
		} else {
			go ag.Signal(syscall.SIGTERM)
		}
	}
	select {
	case <-finished:
		res.EndedMs = time.Since(t0).Milliseconds()
		res.TotalMs = time.Since(tStart).Milliseconds()
		if runErr != nil {
			res.RunErr = runErr.Error()
		}
	case <-time.After(time.Until(t0.Add(time.Duration(c.CleanupMs+waitMs) * time.Millisecond))):
	}
	res.LeftAtEnd = len(gw.alive())
	time.Sleep(300 * time.Millisecond)
	res.LeftGroup = gw.alive()
	res.Left = countToken(tok)
	if ps, err := jsondb.New(dataDir, false).ReadStatusToday(d.Location); err == nil && ps != nil {
		res.Overall = ps.Status.String()
		for _, nd := range ps.Nodes {
			res.St = append(res.St, nd.Status.String())
			res.Names = append(res.Names, nd.Step.Name)
		}
	}
	if b, err := os.ReadFile(marks); err == nil {
		res.Handlers = strings.Fields(string(b))
	}
	if b, err := os.ReadFile(startedFile); err == nil {
		for _, f := range strings.Fields(string(b)) {
			var ns int64
			if i := strings.Index(f, "@"); i >= 0 {
				fmt.Sscan(f[i+1:], &ns)
				f = fmt.Sprintf("%s@%d", f[:i], (ns-tStart.UnixNano())/1e6)
			}
			res.Started = append(res.Started, f)
		}
	}
	return
}

// latest <dagsDir> <dataDir> <dagfile>: what client.GetLatestStatus reports for a DAG (used after a real
// `blackdagger start` process was killed)
func latestMode(dagsDir, dataDir, file string) {
	lg := logger.NewLogger(logger.NewLoggerArgs{Quiet: true})
	ds := dsclient.NewDataStores(dagsDir, dataDir, filepath.Join(dataDir, "..", "suspend"), dsclient.DataStoreOptions{})
	cli := client.New(ds, "/bin/true", dagsDir, lg)
	d, err := dag.LoadMetadata(file)
	if err != nil {
		fmt.Println(`{"err":"load"}`)
		return
	}
	st, err := cli.GetLatestStatus(d)
	v := toView(st, err, 100)
	b, _ := json.Marshal(v)
	fmt.Println(string(b))
}

func main() {
	log.SetOutput(io.Discard)
	if len(os.Args) >= 5 && os.Args[1] == "latest" {
		latestMode(os.Args[2], os.Args[3], os.Args[4])
		return
	}
	if len(os.Args) >= 2 && os.Args[1] == "realstop" {
		in := bufio.NewReaderSize(os.Stdin, 1<<20)
		out := bufio.NewWriter(os.Stdout)
		defer out.Flush()
		for {
			line, err := in.ReadBytes('\n')
			if len(line) > 1 {
				var c rcase
				if e := json.Unmarshal(line, &c); e == nil {
					b, _ := json.Marshal(runReal(c))
					out.Write(b)
					out.WriteByte('\n')
					out.Flush()
				}
			}
			if err != nil {
				break
			}
		}
		return
	}
	in := bufio.NewReaderSize(os.Stdin, 1<<20)
	out := bufio.NewWriter(os.Stdout)
	defer out.Flush()
	for {
		line, err := in.ReadBytes('\n')
		if len(line) > 1 {
			var c acase
			if e := json.Unmarshal(line, &c); e != nil {
				fmt.Fprintln(os.Stderr, "bad case:", e)
				os.Exit(2)
			}
			r := runCase(c)
			b, _ := json.Marshal(r)
			out.Write(b)
			out.WriteByte('\n')
			out.Flush()
		}
		if err != nil {
			break
		}
	}
}
