//go:build verif

// Retry-command harness (shared leg of C01 / C10, lib/x_retry_cmd.py).
//
//	--cli <args…>   : the REAL command line of package cmd (`start`, `retry --req`, …) exactly as main runs it
//	                  (cmd hook VerifExecute = rootCmd.Execute); one process per command, started by the Python side
//	                  with a private HOME and the BLACKDAGGER_* directories of the case.
//	--hist <json>   : {"dags","data","suspend","files":[…]} -> for every file path the runs the REAL history store
//	                  (persistence/client.NewDataStores(...).HistoryStore().ReadStatusRecent) finds under that path
//	                  string, newest first: request id, status, params, and per node the recorded STEP (name, command,
//	                  args, depends) and the recorded state.
package main

import (
	"encoding/json"
	"fmt"
	"os"

	"github.com/ErdemOzgen/blackdagger/cmd"
	dsclient "github.com/ErdemOzgen/blackdagger/internal/persistence/client"
)

type histReq struct {
	Dags    string   `json:"dags"`
	Data    string   `json:"data"`
	Suspend string   `json:"suspend"`
	Files   []string `json:"files"`
}

func main() {
	if len(os.Args) >= 2 && os.Args[1] == "--cli" {
		if err := cmd.VerifExecute(os.Args[2:]); err != nil {
			os.Exit(1)
		}
		return
	}
	if len(os.Args) >= 3 && os.Args[1] == "--hist" {
		hist(os.Args[2])
		return
	}
	fmt.Fprintln(os.Stderr, "usage: retrycmd --cli <args…> | --hist <json>")
	os.Exit(2)
}

func hist(arg string) {
	out := map[string]any{}
	defer func() {
		if r := recover(); r != nil {
			out["panic"] = fmt.Sprint(r)
		}
		b, _ := json.Marshal(out)
		fmt.Println(string(b))
	}()
	var q histReq
	if err := json.Unmarshal([]byte(arg), &q); err != nil {
		out["harness_err"] = err.Error()
		return
	}
	ds := dsclient.NewDataStores(q.Dags, q.Data, q.Suspend, dsclient.DataStoreOptions{})
	runs := map[string]any{}
	for _, f := range q.Files {
		recs := []any{}
		for _, sf := range ds.HistoryStore().ReadStatusRecent(f, 20) {
			st := sf.Status
			nodes := []any{}
			for _, n := range st.Nodes {
				nodes = append(nodes, map[string]any{
					"name": n.Step.Name, "command": n.Step.Command, "args": n.Step.Args, "cmdwithargs": n.Step.CmdWithArgs,
					"depends": n.Step.Depends, "status": n.Status.String(), "started": n.StartedAt, "finished": n.FinishedAt,
					"retry": n.RetryCount, "done": n.DoneCount, "error": n.Error, "log": n.Log,
				})
			}
			recs = append(recs, map[string]any{
				"req": st.RequestID, "name": st.Name, "status": st.Status.String(), "params": st.Params,
				"started": st.StartedAt, "finished": st.FinishedAt, "file": sf.File, "nodes": nodes,
			})
		}
		runs[f] = recs
	}
	out["runs"] = runs
}
