//go:build verif

// Execs-area harness (C03, "other executors" stream).  Small graphs whose steps are run by the executors that can
// be exercised offline -- http (internal/dag/executor/http.go), jq (jq.go), sub-workflow (sub.go) and, as
// neighbours / failing dependencies, the command executor -- through the REAL scheduler (scheduler.New +
// NewExecutionGraph + Schedule), with and without a retryPolicy.
//
// What "the step's action was executed" means here, measured OUTSIDE blackdagger:
//   - http: a request that reached the local listener on the step's own path (/<case>/<step>).  The listener counts
//     the requests per path and answers the k-th request of a path with the k-th behaviour of the step's plan:
//     ok (200 at once) | s201 | s204 | late (answers only after the step's `timeout` has expired and the client
//     has gone) | close (reads the request, closes the connection without an answer) | reset (the same, with RST) |
//     partial (headers + a truncated body, then close) | s404 | s500 | s503 | redirect (302 to <path>/moved) |
//     r307 (307 to <path>/moved; the request is sent again THERE, which is the server's instruction and is counted
//     separately).
//   - sub-workflow: sub.go starts `os.Executable() start --params=... <location>`; the executable is this harness,
//     which in that mode appends one line to <location>.hits and exits with the k-th exit code of <location>.plan.
//   - jq: the number of copies of the step's (unique) result in its `stdout:` file (opened O_APPEND by the node).
//   - command: `sh -c` that appends a line to a counter file and exits with the k-th code of the plan.
//
// The harness only measures; the monitor of the property is in lib/x_execs.py.
// One JSON case per line on stdin, one JSON result per line on stdout.
package main

import (
	"bufio"
	"bytes"
	"context"
	"encoding/json"
	"fmt"
	"io"
	"net"
	"net/http"
	"os"
	"path/filepath"
	"strconv"
	"strings"
	"sync"
	"time"

	"github.com/ErdemOzgen/blackdagger/internal/dag"
	"github.com/ErdemOzgen/blackdagger/internal/dag/scheduler"
	"github.com/ErdemOzgen/blackdagger/internal/logger"
)

type stepCase struct {
	Name    string   `json:"name"`
	Exec    string   `json:"exec"`    // http | jq | sub | cmd
	Plan    []string `json:"plan"`    // http: behaviour of the k-th request (last one repeats); sub/cmd: "0"/"1"… exit codes; jq: ["ok"] or ["badquery"] / ["badinput"]
	Limit   int      `json:"limit"`   // retryPolicy.limit (0 = no retryPolicy)
	Policy0 bool     `json:"policy0"` // give a retryPolicy even when limit == 0
	Depends []string `json:"depends"`
	Cont    bool     `json:"cont"`    // continueOn.failure
	Method  string   `json:"method"`  // http
	Timeout int      `json:"timeout"` // http executor config `timeout` (seconds; 0 = none)
	Script  bool     `json:"script"`  // http: config given as `script:` JSON instead of executor config
	JSON    bool     `json:"json"`    // http: `json: true`
	Silent  bool     `json:"silent"`
	Body    string   `json:"body"`
}

type ecase struct {
	ID       string     `json:"id"`
	Steps    []stepCase `json:"steps"`
	Done     bool       `json:"done"`    // hand a drained done channel to Schedule, as the agent does
	TimeoutS int        `json:"timeout"` // harness-side limit for the whole run
}

type hit struct {
	K      int    `json:"k"`
	Beh    string `json:"beh"`
	Method string `json:"method"`
	TMs    int64  `json:"t_ms"`
	Body   int    `json:"body"`
}

type pathRec struct {
	mu    sync.Mutex
	plan  []string
	hits  []hit
	moved []hit
	t0    time.Time
}

var (
	regMu sync.Mutex
	reg   = map[string]*pathRec{}
	stray int
)

func behaviour(plan []string, k int) string {
	if len(plan) == 0 {
		return "ok"
	}
	if k >= len(plan) {
		k = len(plan) - 1
	}
	return plan[k]
}

func hijackClose(w http.ResponseWriter, partial bool, rst bool) {
	hj, ok := w.(http.Hijacker)
	if !ok {
		return
	}
	conn, buf, err := hj.Hijack()
	if err != nil {
		return
	}
	if partial {
		_, _ = buf.WriteString("HTTP/1.1 200 OK\r\nContent-Type: text/plain\r\nContent-Length: 64\r\n\r\ntrunc")
		_ = buf.Flush()
	}
	if rst {
		if tc, ok := conn.(*net.TCPConn); ok {
			_ = tc.SetLinger(0)
		}
	}
	_ = conn.Close()
}

func serve(w http.ResponseWriter, r *http.Request) {
	body, _ := io.ReadAll(r.Body)
	p := r.URL.Path
	moved := false
	if strings.HasSuffix(p, "/moved") {
		moved = true
		p = strings.TrimSuffix(p, "/moved")
	}
	regMu.Lock()
	rec := reg[p]
	if rec == nil {
		stray++
	}
	regMu.Unlock()
	if rec == nil {
		w.WriteHeader(http.StatusGone)
		return
	}
	rec.mu.Lock()
	h := hit{Method: r.Method, TMs: time.Since(rec.t0).Milliseconds(), Body: len(body)}
	if moved {
		h.K, h.Beh = len(rec.moved), "moved-ok"
		rec.moved = append(rec.moved, h)
		rec.mu.Unlock()
		w.WriteHeader(http.StatusOK)
		_, _ = w.Write([]byte(`{"moved":true}`))
		return
	}
	h.K = len(rec.hits)
	h.Beh = behaviour(rec.plan, h.K)
	rec.hits = append(rec.hits, h)
	rec.mu.Unlock()
	switch h.Beh {
	case "ok":
		w.WriteHeader(http.StatusOK)
		_, _ = w.Write([]byte(fmt.Sprintf(`{"done":%d}`, h.K)))
	case "s201":
		w.WriteHeader(http.StatusCreated)
		_, _ = w.Write([]byte(`{"created":true}`))
	case "s204":
		w.WriteHeader(http.StatusNoContent)
	case "late":
		// the answer is ready 1.3 s after the request came in and leaves only once the client (whose `timeout`
		// is 1 s) has given up the connection -- so it ALWAYS arrives after the step's timeout, on any machine load
		time.Sleep(1300 * time.Millisecond)
		select {
		case <-r.Context().Done():
		case <-time.After(6 * time.Second):
		}
		w.WriteHeader(http.StatusOK)
		_, _ = w.Write([]byte(`{"late":true}`))
	case "close":
		hijackClose(w, false, false)
	case "reset":
		hijackClose(w, false, true)
	case "partial":
		hijackClose(w, true, false)
	case "s404":
		w.WriteHeader(http.StatusNotFound)
		_, _ = w.Write([]byte(`{"error":"not found"}`))
	case "s500":
		w.WriteHeader(http.StatusInternalServerError)
		_, _ = w.Write([]byte(`{"error":"internal"}`))
	case "s503":
		w.Header().Set("Retry-After", "0")
		w.WriteHeader(http.StatusServiceUnavailable)
		_, _ = w.Write([]byte(`{"error":"unavailable"}`))
	case "redirect":
		w.Header().Set("Location", r.URL.Path+"/moved")
		w.WriteHeader(http.StatusFound)
	case "r307":
		w.Header().Set("Location", r.URL.Path+"/moved")
		w.WriteHeader(http.StatusTemporaryRedirect)
	default:
		w.WriteHeader(http.StatusTeapot)
	}
}

// childMain is the "sub-workflow": sub.go runs `<this executable> start --params="…" <location>`.
func childMain() {
	loc := os.Args[len(os.Args)-1]
	prev, _ := os.ReadFile(loc + ".hits")
	k := bytes.Count(prev, []byte("\n"))
	f, err := os.OpenFile(loc+".hits", os.O_APPEND|os.O_CREATE|os.O_WRONLY, 0o644)
	if err != nil {
		os.Exit(97)
	}
	_, _ = f.WriteString(strings.Join(os.Args[1:], "\x1f") + "\n")
	_ = f.Close()
	var plan []string
	b, _ := os.ReadFile(loc + ".plan")
	_ = json.Unmarshal(b, &plan)
	code, _ := strconv.Atoi(behaviour(plan, k))
	if behaviour(plan, k) == "ok" {
		code = 0
	}
	fmt.Printf("sub-workflow run %d exit %d\n", k, code)
	os.Exit(code)
}

type finder struct{ dir string }

func (f finder) Find(name string) (*dag.DAG, error) {
	return &dag.DAG{Name: name, Location: filepath.Join(f.dir, name+".yaml")}, nil
}

var quietLg = logger.NewLogger(logger.NewLoggerArgs{Quiet: true})

func main() {
	if len(os.Args) > 1 && os.Args[1] == "start" {
		childMain()
		return
	}
	ln, err := net.Listen("tcp", "127.0.0.1:0")
	if err != nil {
		fmt.Fprintln(os.Stderr, "listen:", err)
		os.Exit(2)
	}
	srv := &http.Server{Handler: http.HandlerFunc(serve)}
	go func() { _ = srv.Serve(ln) }()
	base := "http://" + ln.Addr().String()

	in := bufio.NewReaderSize(os.Stdin, 1<<24)
	out := bufio.NewWriter(os.Stdout)
	var mu sync.Mutex
	var cases []ecase
	for {
		line, err := in.ReadBytes('\n')
		if len(bytes.TrimSpace(line)) > 0 {
			var c ecase
			if e := json.Unmarshal(line, &c); e != nil {
				fmt.Fprintln(os.Stderr, "bad case", e)
				os.Exit(2)
			}
			cases = append(cases, c)
		}
		if err != nil {
			break
		}
	}
	par := 16
	if v, e := strconv.Atoi(os.Getenv("VERIF_PAR")); e == nil && v > 0 && v <= 64 {
		par = v
	}
	sem := make(chan struct{}, par)
	var wg sync.WaitGroup
	for _, c := range cases {
		wg.Add(1)
		sem <- struct{}{}
		go func(c ecase) {
			defer func() { <-sem; wg.Done() }()
			r := runOne(base, c)
			b, _ := json.Marshal(r)
			mu.Lock()
			out.Write(b)
			out.WriteByte('\n')
			out.Flush()
			mu.Unlock()
		}(c)
	}
	wg.Wait()
	_ = srv.Close()
}

func runOne(base string, c ecase) (res map[string]any) {
	res = map[string]any{"id": c.ID}
	defer func() {
		if r := recover(); r != nil {
			res["panic"] = fmt.Sprint(r)
		}
	}()
	tmp, err := os.MkdirTemp("", "verif_c03x_")
	if err != nil {
		res["harness_err"] = err.Error()
		return
	}
	defer os.RemoveAll(tmp)
	logDir := filepath.Join(tmp, "logs")
	_ = os.MkdirAll(logDir, 0o755)
	t0 := time.Now()
	var steps []dag.Step
	recs := map[string]*pathRec{}
	defer func() {
		regMu.Lock()
		for _, sc := range c.Steps {
			delete(reg, "/"+c.ID+"/"+sc.Name)
		}
		regMu.Unlock()
	}()
	for _, sc := range c.Steps {
		st := dag.Step{Name: sc.Name, Dir: tmp, Depends: sc.Depends, OutputVariables: &dag.SyncMap{}}
		st.ContinueOn.Failure = sc.Cont
		if sc.Limit > 0 || sc.Policy0 {
			st.RetryPolicy = &dag.RetryPolicy{Limit: sc.Limit, Interval: 2 * time.Millisecond}
		}
		switch sc.Exec {
		case "http":
			path := "/" + c.ID + "/" + sc.Name
			rec := &pathRec{plan: sc.Plan, t0: t0}
			recs[sc.Name] = rec
			regMu.Lock()
			reg[path] = rec
			regMu.Unlock()
			m := sc.Method
			if m == "" {
				m = "POST"
			}
			st.Command, st.Args = m, []string{base + path}
			st.ExecutorConfig.Type = "http"
			cfg := map[string]any{"silent": sc.Silent, "json": sc.JSON}
			if sc.Timeout > 0 {
				cfg["timeout"] = sc.Timeout
			}
			if sc.Body != "" {
				cfg["body"] = sc.Body
			}
			if sc.Script {
				b, _ := json.Marshal(cfg)
				st.Script = string(b)
			} else {
				st.ExecutorConfig.Config = cfg
			}
		case "jq":
			st.ExecutorConfig.Type = "jq"
			st.ExecutorConfig.Config = map[string]any{"raw": false}
			st.Script = fmt.Sprintf(`{"tag": "JQ-%s-%s-MARK", "n": 7}`, c.ID, sc.Name)
			st.CmdWithArgs = ".tag"
			switch behaviour(sc.Plan, 0) {
			case "badquery":
				st.CmdWithArgs = ".tag |"
			case "badinput":
				st.Script = `{"tag": `
			}
			st.Stdout = filepath.Join(tmp, sc.Name+".out")
		case "sub":
			st.ExecutorConfig.Type = dag.ExecutorTypeSubWorkflow
			st.SubWorkflow = &dag.SubWorkflow{Name: "sub_" + sc.Name, Params: "p=" + sc.Name}
			st.Command, st.Args = "run", []string{"sub_" + sc.Name, "p=" + sc.Name}
			b, _ := json.Marshal(sc.Plan)
			_ = os.WriteFile(filepath.Join(tmp, "sub_"+sc.Name+".yaml.plan"), b, 0o644)
		case "cmd":
			cnt := filepath.Join(tmp, sc.Name+".cnt")
			var sh strings.Builder
			sh.WriteString("k=$(wc -l < " + cnt + " 2>/dev/null || echo 0); echo x >> " + cnt + "; case $k in ")
			for k, b := range sc.Plan {
				code := b
				if b == "ok" {
					code = "0"
				}
				sh.WriteString(fmt.Sprintf("%d) exit %s;; ", k, code))
			}
			last := behaviour(sc.Plan, len(sc.Plan))
			if last == "ok" {
				last = "0"
			}
			sh.WriteString("*) exit " + last + ";; esac")
			_ = os.WriteFile(filepath.Join(tmp, sc.Name+".sh"), []byte(sh.String()+"\n"), 0o755)
			st.CmdWithArgs = "sh " + filepath.Join(tmp, sc.Name+".sh")
		default:
			res["harness_err"] = "unknown exec " + sc.Exec
			return
		}
		steps = append(steps, st)
	}
	g, err := scheduler.NewExecutionGraph(quietLg, steps...)
	if err != nil {
		res["harness_err"] = "graph: " + err.Error()
		return
	}
	s := scheduler.New(&scheduler.Config{LogDir: logDir, Logger: quietLg, ReqID: "c03xreq0"})
	scheduler.VerifSetPause(s, 3*time.Millisecond)
	var done chan *scheduler.Node
	events := 0
	var evMu sync.Mutex
	if c.Done {
		done = make(chan *scheduler.Node)
		go func() {
			for range done {
				evMu.Lock()
				events++
				evMu.Unlock()
			}
		}()
	}
	fin := make(chan error, 1)
	go func() {
		defer func() {
			if r := recover(); r != nil {
				fin <- fmt.Errorf("panic in Schedule: %v", r)
			}
		}()
		fin <- s.Schedule(dag.NewContext(context.Background(), &dag.DAG{Name: "c03x"}, finder{tmp}, "c03xreq0", ""), g, done)
	}()
	to := time.Duration(c.TimeoutS) * time.Second
	if to <= 0 {
		to = 40 * time.Second
	}
	select {
	case e := <-fin:
		if e != nil {
			res["sched_err"] = e.Error()
		}
	case <-time.After(to):
		res["timeout"] = true
		s.Signal(g, os.Kill, nil, false)
		select {
		case <-fin:
		case <-time.After(3 * time.Second):
		}
	}
	if done != nil {
		close(done)
	}
	res["wall_ms"] = time.Since(t0).Milliseconds()
	res["graph_status"] = s.Status(g).String()
	evMu.Lock()
	res["events"] = events
	evMu.Unlock()
	// a late answer may still be under way: give the listener a moment so that every request that was sent is counted
	time.Sleep(20 * time.Millisecond)
	outSteps := map[string]any{}
	for _, nd := range g.Nodes() {
		d := nd.Data()
		name := d.Step.Name
		r := map[string]any{"status": d.State.Status.String(), "retry_count": d.State.RetryCount, "done_count": d.State.DoneCount}
		if d.State.Error != nil {
			e := d.State.Error.Error()
			if len(e) > 200 {
				e = e[:200]
			}
			r["error"] = e
		}
		var sc stepCase
		for _, x := range c.Steps {
			if x.Name == name {
				sc = x
			}
		}
		switch sc.Exec {
		case "http":
			rec := recs[name]
			rec.mu.Lock()
			r["hits"] = append([]hit{}, rec.hits...)
			r["moved"] = append([]hit{}, rec.moved...)
			rec.mu.Unlock()
		case "jq":
			b, _ := os.ReadFile(filepath.Join(tmp, name+".out"))
			r["runs"] = bytes.Count(b, []byte(fmt.Sprintf("JQ-%s-%s-MARK", c.ID, name)))
			r["out_len"] = len(b)
		case "sub":
			b, _ := os.ReadFile(filepath.Join(tmp, "sub_"+name+".yaml.hits"))
			lines := []string{}
			for _, l := range strings.Split(string(b), "\n") {
				if l != "" {
					lines = append(lines, strings.ReplaceAll(l, "\x1f", " "))
				}
			}
			r["runs"] = len(lines)
			r["argv"] = lines
		case "cmd":
			b, _ := os.ReadFile(filepath.Join(tmp, name+".cnt"))
			r["runs"] = bytes.Count(b, []byte("\n"))
		}
		outSteps[name] = r
	}
	res["steps"] = outSteps
	regMu.Lock()
	res["stray"] = stray
	regMu.Unlock()
	return
}
