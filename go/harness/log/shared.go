//go:build verif

// Shared-file cases of the Log-area harness (C12): several steps — of ONE run, executing concurrently, or of
// several runs (schedulers) one after the other / at the same time — name the SAME `stdout:` / `stderr:` file.
// Every attempt of every step prints fixed-length lines made of ITS OWN marker byte (plus '\n'), so what each
// attempt contributed to a shared file is simply the number of its marker bytes in that file, however the
// writers' chunks interleave.  The harness only runs the real scheduler and counts; the verdict is the check's.
package main

import (
	"bytes"
	"context"
	"fmt"
	"os"
	"path/filepath"
	"strconv"
	"strings"
	"sync"
	"time"

	"github.com/ErdemOzgen/blackdagger/internal/dag"
	"github.com/ErdemOzgen/blackdagger/internal/dag/scheduler"
)

type shAttempt struct {
	Mo string `json:"mo"` // marker byte of this attempt's stdout lines
	No int    `json:"no"` // stdout lines
	Me string `json:"me"` // marker byte of this attempt's stderr lines
	Ne int    `json:"ne"` // stderr lines
}

type shStep struct {
	Name     string      `json:"name"`
	Out      string      `json:"out"` // key of the shared file named by `stdout:` ("" = none)
	Err      string      `json:"err"` // key of the shared file named by `stderr:` ("" = none)
	Ou       bool        `json:"ou"`
	Sc       bool        `json:"sc"`
	Limit    int         `json:"limit"`
	FailAt   []int       `json:"fail_at"`  // attempt numbers (counted over all runs of this step name) that exit 1
	Attempts []shAttempt `json:"attempts"` // attempt k (counted over all runs of this step name)
	SleepMs  int         `json:"sleep_ms"` // before the first byte: every concurrent step is set up by then
	Parts    int         `json:"parts"`    // the lines are printed in this many portions …
	GapMs    int         `json:"gap_ms"`   // … with this pause in between
}

type sharedCase struct {
	Flavour  string         `json:"flavour"`
	LineLen  int            `json:"line_len"` // bytes per line including '\n'
	Pre      map[string]int `json:"pre"`      // file key → lines of '#' present beforehand (-1: the file does not exist)
	Groups   [][]shStep     `json:"groups"`   // one scheduler run per group
	Parallel bool           `json:"parallel"` // the groups' schedulers run at the same time (else one after the other)
	Active   int            `json:"max_active"`
}

type shCount struct {
	Exists bool           `json:"exists"`
	Len    int            `json:"len"`
	Counts map[string]int `json:"counts"` // byte → occurrences (as a one-character string)
	Torn   int            `json:"torn"`   // lines that are not LineLen-1 equal bytes: interleaving below line granularity
	HdrOK  bool           `json:"hdr_ok"` // the content present beforehand is still the file's prefix
}

func countFile(path string, lineLen int, hdr []byte) shCount {
	b, err := os.ReadFile(path)
	if err != nil {
		return shCount{Counts: map[string]int{}}
	}
	r := shCount{Exists: true, Len: len(b), Counts: map[string]int{}, HdrOK: bytes.HasPrefix(b, hdr)}
	var cnt [256]int
	for _, x := range b {
		cnt[x]++
	}
	for i, n := range cnt {
		if n > 0 {
			r.Counts[string(rune(i))] = n
		}
	}
	for _, ln := range bytes.Split(b, []byte{'\n'}) {
		if len(ln) == 0 {
			continue
		}
		if len(ln) != lineLen-1 || bytes.Count(ln, ln[:1]) != len(ln) {
			r.Torn++
		}
	}
	return r
}

func shLines(marker string, n, lineLen int) []byte {
	if n <= 0 || marker == "" {
		return nil
	}
	line := append(bytes.Repeat([]byte(marker[:1]), lineLen-1), '\n')
	return bytes.Repeat(line, n)
}

func runShared(c lcase) (res map[string]any) {
	res = map[string]any{"id": c.ID}
	defer func() {
		if r := recover(); r != nil {
			res["panic"] = fmt.Sprint(r)
		}
	}()
	sh := c.Shared
	if sh.LineLen < 2 {
		sh.LineLen = 32
	}
	tmp, err := os.MkdirTemp("", "verif_c12s_")
	if err != nil {
		res["harness_err"] = err.Error()
		return
	}
	defer os.RemoveAll(tmp)
	logDir := filepath.Join(tmp, "logs")
	_ = os.MkdirAll(logDir, 0o755)
	fpath := func(key string) string { return filepath.Join(tmp, "shared_"+key+".txt") }
	hdrs := map[string][]byte{}
	keys := map[string]bool{}
	for k, n := range sh.Pre {
		keys[k] = true
		if n >= 0 {
			hdrs[k] = shLines("#", n, sh.LineLen)
			_ = os.WriteFile(fpath(k), hdrs[k], 0o644)
		}
	}
	// the step scripts: attempt number from a counter file per step NAME (it goes on counting over the runs)
	mkStep := func(s shStep) dag.Step {
		var body strings.Builder
		body.WriteString("d=" + tmp + "\nk=$(cat $d/count_" + s.Name + " 2>/dev/null || echo 0)\necho $((k+1)) > $d/count_" + s.Name + "\n")
		if s.SleepMs > 0 {
			body.WriteString(fmt.Sprintf("sleep %d.%03d\n", s.SleepMs/1000, s.SleepMs%1000))
		}
		body.WriteString("case $k in\n")
		parts := s.Parts
		if parts < 1 {
			parts = 1
		}
		for a, at := range s.Attempts {
			body.WriteString(fmt.Sprintf(" %d)\n", a))
			for p := 0; p < parts; p++ {
				// portion p of the stdout lines, then portion p of the stderr lines
				for _, x := range []struct {
					m   string
					n   int
					red string
					sfx string
				}{{at.Mo, at.No, "", "o"}, {at.Me, at.Ne, " >&2", "e"}} {
					lo, hi := x.n*p/parts, x.n*(p+1)/parts
					if hi > lo && x.m != "" {
						f := filepath.Join(tmp, fmt.Sprintf("seg_%s_%d_%d%s", s.Name, a, p, x.sfx))
						_ = os.WriteFile(f, shLines(x.m, hi-lo, sh.LineLen), 0o644)
						body.WriteString("  cat " + f + x.red + "\n")
					}
				}
				if s.GapMs > 0 && p+1 < parts {
					body.WriteString(fmt.Sprintf("  sleep %d.%03d\n", s.GapMs/1000, s.GapMs%1000))
				}
			}
			body.WriteString("  ;;\n")
		}
		body.WriteString("esac\ncase $k in\n")
		for _, a := range s.FailAt {
			body.WriteString(fmt.Sprintf(" %d) exit 1 ;;\n", a))
		}
		body.WriteString("esac\nexit 0\n")
		st := dag.Step{Name: s.Name, Dir: tmp}
		if s.Sc {
			st.Script = body.String()
			st.CmdWithArgs = "sh"
		} else {
			f := filepath.Join(tmp, "body_"+s.Name+".sh")
			_ = os.WriteFile(f, []byte(body.String()), 0o755)
			st.CmdWithArgs = "sh " + f
		}
		if s.Out != "" {
			st.Stdout = fpath(s.Out)
			keys[s.Out] = true
		}
		if s.Err != "" {
			st.Stderr = fpath(s.Err)
			keys[s.Err] = true
		}
		if s.Ou {
			st.Output = "VERIF_C12S_" + strings.ToUpper(s.Name)
		}
		if s.Limit > 0 {
			st.RetryPolicy = &dag.RetryPolicy{Limit: s.Limit, Interval: 2 * time.Millisecond}
		}
		return st
	}
	to := time.Duration(c.TimeoutS) * time.Second
	if to <= 0 {
		to = 60 * time.Second
	}
	type runRes struct {
		graph *scheduler.ExecutionGraph
		err   error
		tmo   bool
	}
	runGroup := func(gi int) runRes {
		var steps []dag.Step
		for _, s := range sh.Groups[gi] {
			steps = append(steps, mkStep(s))
		}
		g, err := scheduler.NewExecutionGraph(quietLg, steps...)
		if err != nil {
			return runRes{err: fmt.Errorf("graph: %w", err)}
		}
		req := fmt.Sprintf("c12rq%03d", gi)
		sc := scheduler.New(&scheduler.Config{LogDir: logDir, Logger: quietLg, ReqID: req, MaxActiveRuns: sh.Active})
		scheduler.VerifSetPause(sc, 3*time.Millisecond)
		fin := make(chan error, 1)
		go func() { fin <- sc.Schedule(dag.NewContext(context.Background(), &dag.DAG{}, nil, req, ""), g, nil) }()
		select {
		case e := <-fin:
			return runRes{graph: g, err: e}
		case <-time.After(to):
			killByDir(tmp)
			return runRes{graph: g, tmo: true}
		}
	}
	snapshot := func(after string, graphs []*scheduler.ExecutionGraph, errs []string) map[string]any {
		steps := map[string]any{}
		for _, g := range graphs {
			if g == nil {
				continue
			}
			for _, nd := range g.Nodes() {
				st := nd.State()
				name := nd.Data().Step.Name
				cnt, _ := os.ReadFile(filepath.Join(tmp, "count_"+name))
				ran, _ := strconv.Atoi(strings.TrimSpace(string(cnt)))
				steps[name] = map[string]any{"status": st.Status.String(), "attempts_run": ran, "retry_count": st.RetryCount,
					"log": countFile(st.Log, sh.LineLen, nil)}
			}
		}
		files := map[string]any{}
		for k := range keys {
			files[k] = countFile(fpath(k), sh.LineLen, hdrs[k])
		}
		return map[string]any{"after": after, "steps": steps, "files": files, "sched_errs": errs}
	}
	var snaps []map[string]any
	if sh.Parallel {
		rr := make([]runRes, len(sh.Groups))
		var wg sync.WaitGroup
		for gi := range sh.Groups {
			wg.Add(1)
			go func(gi int) { defer wg.Done(); rr[gi] = runGroup(gi) }(gi)
		}
		wg.Wait()
		var gs []*scheduler.ExecutionGraph
		var errs []string
		for _, r := range rr {
			if r.tmo {
				res["timeout"] = true
				return
			}
			if r.graph == nil {
				res["harness_err"] = r.err.Error()
				return
			}
			if r.err != nil {
				errs = append(errs, r.err.Error())
			}
			gs = append(gs, r.graph)
		}
		snaps = append(snaps, snapshot("all", gs, errs))
	} else {
		for gi := range sh.Groups {
			r := runGroup(gi)
			if r.tmo {
				res["timeout"] = true
				return
			}
			if r.graph == nil {
				res["harness_err"] = r.err.Error()
				return
			}
			var errs []string
			if r.err != nil {
				errs = append(errs, r.err.Error())
			}
			snaps = append(snaps, snapshot(strconv.Itoa(gi), []*scheduler.ExecutionGraph{r.graph}, errs))
		}
	}
	res["snaps"] = snaps
	return
}
