//go:build verif

// "Retry, then retention" cases of the Log-area harness (C12): a SEQUENCE of runs of one DAG through the REAL agent
// (agent.New(...).Run, the real jsondb history store in a scratch directory, the DAG loaded by dag.Load from a YAML
// file with `histRetentionDays`), the way `start` / `retry` drive it: phases
//
//	run    a fresh start of the DAG (every start calls HistoryStore.RemoveOld in Agent.setupDatabase)
//	retry  agent.Options.RetryTarget = the record FindByRequestID returns for an earlier phase
//	age    os.Chtimes of an earlier phase's history file by N days into the past (as go/harness/hist op `age`)
//
// Every step / handler is `sh <dir>/<name>.sh`; the harness rewrites these scripts before every phase, so each
// phase's attempt of each step prints ITS OWN marker byte (fixed-length lines) and fails or not as the case says.
// At the end the harness reads what the history store still reports (ReadStatusRecent) and, for every node of every
// retained record, whether the log file NAMED there exists and how many of each byte it holds.  No verdict here:
// the check (lib/x_c12_retention.py) judges.
package main

import (
	"context"
	"fmt"
	"os"
	"path/filepath"
	"strings"
	"time"

	"github.com/ErdemOzgen/blackdagger/internal/agent"
	"github.com/ErdemOzgen/blackdagger/internal/client"
	"github.com/ErdemOzgen/blackdagger/internal/dag"
	"github.com/ErdemOzgen/blackdagger/internal/logger"
	dsclient "github.com/ErdemOzgen/blackdagger/internal/persistence/client"
	"github.com/ErdemOzgen/blackdagger/internal/persistence/model"
)

type rtEmit struct {
	No   int    `json:"no"` // stdout lines
	Mo   string `json:"mo"` // marker byte of the stdout lines
	Ne   int    `json:"ne"`
	Me   string `json:"me"`
	Fail bool   `json:"fail"` // exit 1 after printing
}

type rtStep struct {
	Name string   `json:"name"`
	Deps []string `json:"deps"`
}

type rtPhase struct {
	Op     string            `json:"op"`      // run | retry | age
	Of     int               `json:"of"`      // retry / age: index of the phase whose record is retried / aged
	ByDays int               `json:"by_days"` // age
	Emit   map[string]rtEmit `json:"emit"`    // run / retry: step or handler name → what its attempt in this phase does
}

type retentionCase struct {
	Flavour  string    `json:"flavour"`
	Days     int       `json:"days"` // histRetentionDays
	LineLen  int       `json:"line_len"`
	Steps    []rtStep  `json:"steps"`
	Handlers []string  `json:"handlers"` // subset of exit, success, failure
	Phases   []rtPhase `json:"phases"`
}

func rtNode(n *model.Node, handler bool) map[string]any {
	m := map[string]any{"name": n.Step.Name, "status": n.StatusText, "log": n.Log, "handler": handler, "exists": false, "len": 0,
		"counts": map[string]int{}}
	if n.Log == "" {
		return m
	}
	b, err := os.ReadFile(n.Log)
	if err != nil {
		m["read_err"] = err.Error()
		return m
	}
	cnt := map[string]int{}
	for _, x := range b {
		if x != '\n' {
			cnt[string(rune(x))]++
		}
	}
	m["exists"], m["len"], m["counts"] = true, len(b), cnt
	return m
}

func rtRecord(st *model.Status, file string) map[string]any {
	rec := map[string]any{"req": st.RequestID, "status": st.StatusText, "file": filepath.Base(file), "run_log": st.Log}
	_, e := os.Stat(st.Log)
	rec["run_log_exists"] = e == nil
	var nodes []map[string]any
	for _, n := range st.Nodes {
		nodes = append(nodes, rtNode(n, false))
	}
	for _, n := range []*model.Node{st.OnExit, st.OnSuccess, st.OnFailure, st.OnCancel} {
		if n != nil {
			nodes = append(nodes, rtNode(n, true))
		}
	}
	rec["nodes"] = nodes
	return rec
}

func runRetention(c lcase) (res map[string]any) {
	res = map[string]any{"id": c.ID}
	done := make(chan map[string]any, 1)
	tmp, err := os.MkdirTemp("", "verif_c12r_")
	if err != nil {
		res["harness_err"] = err.Error()
		return
	}
	defer os.RemoveAll(tmp)
	go func() {
		r := map[string]any{"id": c.ID}
		defer func() {
			if p := recover(); p != nil {
				r["panic"] = fmt.Sprint(p)
			}
			done <- r
		}()
		retentionBody(c, tmp, r)
	}()
	to := c.TimeoutS
	if to <= 0 {
		to = 60
	}
	select {
	case r := <-done:
		return r
	case <-time.After(time.Duration(to) * time.Second):
		killByDir(tmp)
		res["timeout"] = true
		return
	}
}

func retentionBody(c lcase, tmp string, res map[string]any) {
	rc := c.Retention
	if rc.LineLen < 2 {
		rc.LineLen = 32
	}
	dagsDir, dataDir, logDir := filepath.Join(tmp, "dags"), filepath.Join(tmp, "data"), filepath.Join(tmp, "logs")
	for _, d := range []string{dagsDir, dataDir, logDir} {
		_ = os.MkdirAll(d, 0o755)
	}
	script := func(name string) string { return filepath.Join(tmp, name+".sh") }
	var y strings.Builder
	y.WriteString(fmt.Sprintf("histRetentionDays: %d\nsteps:\n", rc.Days))
	for _, s := range rc.Steps {
		y.WriteString(fmt.Sprintf("  - name: %s\n    command: sh %s\n", s.Name, script(s.Name)))
		if len(s.Deps) > 0 {
			y.WriteString("    depends:\n")
			for _, d := range s.Deps {
				y.WriteString("      - " + d + "\n")
			}
		}
	}
	if len(rc.Handlers) > 0 {
		y.WriteString("handlerOn:\n")
		for _, h := range rc.Handlers {
			y.WriteString(fmt.Sprintf("  %s:\n    command: sh %s\n", h, script("on_"+h)))
		}
	}
	spec := filepath.Join(dagsDir, "c12r_"+c.ID+".yaml")
	if err := os.WriteFile(spec, []byte(y.String()), 0o644); err != nil {
		res["harness_err"] = err.Error()
		return
	}
	d, err := dag.Load("", spec, "")
	if err != nil {
		res["harness_err"] = "dag.Load: " + err.Error()
		return
	}
	res["hist_retention_days"] = d.HistRetentionDays
	lg := logger.NewLogger(logger.NewLoggerArgs{Quiet: true})
	ds := dsclient.NewDataStores(dagsDir, dataDir, filepath.Join(tmp, "suspend"), dsclient.DataStoreOptions{})
	cli := client.New(ds, "/bin/true", tmp, lg)
	hist := ds.HistoryStore()

	names := []string{}
	for _, s := range rc.Steps {
		names = append(names, s.Name)
	}
	for _, h := range rc.Handlers {
		names = append(names, "on_"+h)
	}
	line := func(m string) string { return strings.Repeat(m, rc.LineLen-1) }
	reqs := make([]string, len(rc.Phases))
	files := make([]string, len(rc.Phases))
	logsOf := make([][]string, len(rc.Phases)) // the log files the record of a phase named right after that phase
	var phases []map[string]any
	for pi, ph := range rc.Phases {
		pr := map[string]any{"op": ph.Op}
		switch ph.Op {
		case "age":
			if files[ph.Of] == "" {
				pr["err"] = "no history file known for phase " + fmt.Sprint(ph.Of)
				break
			}
			info, e := os.Stat(files[ph.Of])
			if e != nil {
				pr["err"] = e.Error()
				break
			}
			mt := info.ModTime().Add(-time.Duration(ph.ByDays) * 24 * time.Hour)
			if e := os.Chtimes(files[ph.Of], mt, mt); e != nil {
				pr["err"] = e.Error()
			}
		case "run", "retry":
			trace := filepath.Join(tmp, fmt.Sprintf("trace_%d", pi))
			for _, n := range names {
				em := ph.Emit[n] // steps by name, handlers as on_exit / on_success / on_failure
				var b strings.Builder
				b.WriteString("echo " + n + " >> " + trace + "\n")
				if em.No > 0 {
					b.WriteString(fmt.Sprintf("i=0; while [ $i -lt %d ]; do echo %s; i=$((i+1)); done\n", em.No, line(em.Mo)))
				}
				if em.Ne > 0 {
					b.WriteString(fmt.Sprintf("i=0; while [ $i -lt %d ]; do echo %s >&2; i=$((i+1)); done\n", em.Ne, line(em.Me)))
				}
				if em.Fail {
					b.WriteString("exit 1\n")
				} else {
					b.WriteString("exit 0\n")
				}
				_ = os.WriteFile(script(n), []byte(b.String()), 0o755)
			}
			opts := &agent.Options{}
			if ph.Op == "retry" {
				sf, e := hist.FindByRequestID(d.Location, reqs[ph.Of])
				if e != nil {
					pr["err"] = "retry target: " + e.Error()
					break
				}
				opts.RetryTarget = sf.Status
			}
			req := fmt.Sprintf("req-%s-%d", c.ID, pi)
			reqs[pi] = req
			runLog := filepath.Join(logDir, fmt.Sprintf("agent_%d.log", pi))
			_ = os.WriteFile(runLog, []byte("run log of phase "+fmt.Sprint(pi)+"\n"), 0o644)
			ag := agent.New(req, d, lg, logDir, runLog, cli, ds, opts)
			if e := ag.Run(context.Background()); e != nil {
				pr["run_err"] = e.Error()
			}
			pr["req"] = req
			tb, _ := os.ReadFile(trace)
			pr["ran"] = strings.Fields(string(tb))
			if sf, e := hist.FindByRequestID(d.Location, req); e == nil {
				files[pi] = sf.File
				pr["status"] = sf.Status.StatusText
				for _, n := range append(append([]*model.Node{}, sf.Status.Nodes...), sf.Status.OnExit, sf.Status.OnSuccess, sf.Status.OnFailure,
					sf.Status.OnCancel) {
					if n != nil && n.Log != "" {
						logsOf[pi] = append(logsOf[pi], n.Log)
					}
				}
			} else {
				pr["err"] = "own record: " + e.Error()
			}
		default:
			pr["err"] = "unknown op"
		}
		phases = append(phases, pr)
	}
	// what the history store reports NOW
	var recs []map[string]any
	for _, sf := range hist.ReadStatusRecent(d.Location, 50) {
		recs = append(recs, rtRecord(sf.Status, sf.File))
	}
	res["records"] = recs
	for pi := range rc.Phases {
		if reqs[pi] == "" {
			continue
		}
		_, e := hist.FindByRequestID(d.Location, reqs[pi])
		phases[pi]["record_found"] = e == nil
		kept := 0
		for _, l := range logsOf[pi] {
			if _, e := os.Stat(l); e == nil {
				kept++
			}
		}
		phases[pi]["logs_named"], phases[pi]["logs_on_disk"] = len(logsOf[pi]), kept
	}
	res["phases"] = phases
}
