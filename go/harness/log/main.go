//go:build verif

// Log-area harness (C12).  One step run by the REAL scheduler (scheduler.New + NewExecutionGraph +
// Schedule) with the real command executor and a real `sh` that emits position-coded bytes on
// stdout / stderr, fails its first k attempts (counter file) and is retried by the step's retry policy.
// After Schedule returned: status, log path from Node.State(), and length + sha256 of the log file,
// the `stdout:` file and the `stderr:` file; plus a Go-side monitor of the property itself
// (does the log hold every byte of the LAST attempt, does the stdout file hold every stdout byte).
package main

import (
	"bufio"
	"bytes"
	"context"
	"crypto/sha256"
	"encoding/hex"
	"encoding/json"
	"fmt"
	"os"
	"path/filepath"
	"strconv"
	"strings"
	"sync"
	"syscall"
	"time"

	"github.com/ErdemOzgen/blackdagger/internal/dag"
	"github.com/ErdemOzgen/blackdagger/internal/dag/scheduler"
	"github.com/ErdemOzgen/blackdagger/internal/logger"
)

type seg struct {
	E bool `json:"e"` // to stderr
	N int  `json:"n"` // bytes
}

type lcase struct {
	ID       string  `json:"id"`
	So       bool    `json:"so"` // `stdout:` file
	Se       bool    `json:"se"` // `stderr:` file
	Ou       bool    `json:"ou"` // `output:` variable
	Sc       bool    `json:"sc"` // `script:`
	Arr      bool    `json:"arr"` // the command is given in array form (`command: [sh]`): Command/Args set, no CmdWithArgs
	Limit    int     `json:"limit"`
	Fails    int     `json:"fails"`    // the first `fails` attempts exit 1
	Attempts [][]seg `json:"attempts"` // what attempt k prints (k = 0 …)
	Done     bool    `json:"done"`     // hand a (drained) done channel to Schedule, as the agent does
	TimeoutS int     `json:"timeout"`
	// slow status consumer, as in the agent (status + history write + report per event): the reader of the done
	// channel sleeps SlowMs per received node; a first step `pre` keeps it busy while the retried step fails, so the
	// failed attempt's worker is parked in `done <- node` while the loop already runs the next attempt, whose LAST
	// attempt waits LastSleepMs before it prints (it must still be running when the parked worker gets out).
	SlowMs      int `json:"slow_ms"`
	LastSleepMs int `json:"last_sleep_ms"`
	// several steps / runs writing the SAME `stdout:` / `stderr:` file (shared.go)
	Shared *sharedCase `json:"shared"`
	// a sequence of runs through the real agent + history store: run, retry, age, run (retention.go)
	Retention *retentionCase `json:"retention"`
}

// Pat is the position code: byte at position pos of stream strm in attempt att.
func Pat(att, strm, pos int) byte {
	return byte(1 + (pos*131+(pos>>8)*31+att*17+strm*101+7)%250) // never NUL, never > 250
}

func gen(att, strm, from, n int) []byte {
	b := make([]byte, n)
	for i := 0; i < n; i++ {
		b[i] = Pat(att, strm, from+i)
	}
	return b
}

type fileRep struct {
	Exists bool   `json:"exists"`
	Len    int    `json:"len"`
	Sha    string `json:"sha"`
}

func rep(path string) (fileRep, []byte) {
	b, err := os.ReadFile(path)
	if err != nil {
		return fileRep{}, nil
	}
	h := sha256.Sum256(b)
	return fileRep{Exists: true, Len: len(b), Sha: hex.EncodeToString(h[:])}, b
}

var quietLg = logger.NewLogger(logger.NewLoggerArgs{Quiet: true})

func main() {
	in := bufio.NewReaderSize(os.Stdin, 1<<24)
	out := bufio.NewWriter(os.Stdout)
	var mu sync.Mutex
	var cases []lcase
	for {
		line, err := in.ReadBytes('\n')
		if len(bytes.TrimSpace(line)) > 0 {
			var c lcase
			if e := json.Unmarshal(line, &c); e != nil {
				fmt.Fprintln(os.Stderr, "bad case", e)
				os.Exit(2)
			}
			cases = append(cases, c)
		}
		if err != nil {
			break
		}
	}
	par := 6
	if v, e := strconv.Atoi(os.Getenv("VERIF_PAR")); e == nil && v > 0 && v <= 16 {
		par = v // never more than 16 schedulers (one sh child each) at once
	}
	sem := make(chan struct{}, par)
	var wg sync.WaitGroup
	for _, c := range cases {
		wg.Add(1)
		sem <- struct{}{}
		go func(c lcase) {
			defer func() { <-sem; wg.Done() }()
			r := runOne(c)
			b, _ := json.Marshal(r)
			mu.Lock()
			out.Write(b)
			out.WriteByte('\n')
			out.Flush()
			mu.Unlock()
		}(c)
	}
	wg.Wait()
}

// killByDir kills every process whose command line mentions the scratch directory (step processes run in
// their own process groups, so killing the harness child's group does not reach them).
func killByDir(dir string) {
	ents, _ := os.ReadDir("/proc")
	self := os.Getpid()
	for _, e := range ents {
		pid, err := strconv.Atoi(e.Name())
		if err != nil || pid == self || pid <= 1 {
			continue
		}
		b, err := os.ReadFile(filepath.Join("/proc", e.Name(), "cmdline"))
		if err == nil && bytes.Contains(b, []byte(dir)) {
			_ = syscall.Kill(pid, syscall.SIGKILL)
		}
	}
}

func runOne(c lcase) (res map[string]any) {
	if c.Shared != nil {
		return runShared(c)
	}
	if c.Retention != nil {
		return runRetention(c)
	}
	res = map[string]any{"id": c.ID}
	defer func() {
		if r := recover(); r != nil {
			res["panic"] = fmt.Sprint(r)
		}
	}()
	tmp, err := os.MkdirTemp("", "verif_c12_")
	if err != nil {
		res["harness_err"] = err.Error()
		return
	}
	defer os.RemoveAll(tmp)
	logDir := filepath.Join(tmp, "logs")
	_ = os.MkdirAll(logDir, 0o755)
	// segment files + script body
	var body strings.Builder
	body.WriteString("d=" + tmp + "\nk=$(cat $d/count 2>/dev/null || echo 0)\necho $((k+1)) > $d/count\ncase $k in\n")
	for a, segs := range c.Attempts {
		body.WriteString(fmt.Sprintf(" %d)\n", a))
		if c.LastSleepMs > 0 && a == len(c.Attempts)-1 {
			body.WriteString(fmt.Sprintf("  sleep %d.%03d\n", c.LastSleepMs/1000, c.LastSleepMs%1000))
		}
		po, pe := 0, 0
		for i, s := range segs {
			f := filepath.Join(tmp, fmt.Sprintf("seg_%d_%d", a, i))
			if s.E {
				_ = os.WriteFile(f, gen(a, 1, pe, s.N), 0o644)
				pe += s.N
				body.WriteString("  cat " + f + " >&2\n")
			} else {
				_ = os.WriteFile(f, gen(a, 0, po, s.N), 0o644)
				po += s.N
				body.WriteString("  cat " + f + "\n")
			}
		}
		body.WriteString("  ;;\n")
	}
	body.WriteString("esac\n")
	body.WriteString(fmt.Sprintf("if [ $k -lt %d ]; then exit 1; fi\nexit 0\n", c.Fails))
	step := dag.Step{Name: "s", Dir: tmp}
	if c.Sc {
		step.Script = body.String()
		if c.Arr {
			step.Command, step.Args = "sh", []string{}
		} else {
			step.CmdWithArgs = "sh"
		}
	} else {
		_ = os.WriteFile(filepath.Join(tmp, "body.sh"), []byte(body.String()), 0o755)
		if c.Arr {
			step.Command, step.Args = "sh", []string{filepath.Join(tmp, "body.sh")}
		} else {
			step.CmdWithArgs = "sh " + filepath.Join(tmp, "body.sh")
		}
	}
	outF, errF := filepath.Join(tmp, "out.txt"), filepath.Join(tmp, "err.txt")
	if c.So {
		step.Stdout = outF
	}
	if c.Se {
		step.Stderr = errF
	}
	if c.Ou {
		step.Output = "VERIF_C12_OUT"
	}
	if c.Limit > 0 {
		step.RetryPolicy = &dag.RetryPolicy{Limit: c.Limit, Interval: 2 * time.Millisecond}
	}
	steps := []dag.Step{step}
	if c.SlowMs > 0 {
		steps = []dag.Step{{Name: "pre", CmdWithArgs: "true", Dir: tmp}, step}
		steps[1].Depends = []string{"pre"}
	}
	g, err := scheduler.NewExecutionGraph(quietLg, steps...)
	if err != nil {
		res["harness_err"] = "graph: " + err.Error()
		return
	}
	sc := scheduler.New(&scheduler.Config{LogDir: logDir, Logger: quietLg, ReqID: "c12req00"})
	scheduler.VerifSetPause(sc, 3*time.Millisecond)
	var done chan *scheduler.Node
	if c.Done || c.SlowMs > 0 {
		done = make(chan *scheduler.Node)
		go func() {
			for range done {
				if c.SlowMs > 0 {
					time.Sleep(time.Duration(c.SlowMs) * time.Millisecond)
				}
			}
		}()
	}
	fin := make(chan error, 1)
	go func() {
		fin <- sc.Schedule(dag.NewContext(context.Background(), &dag.DAG{}, nil, "c12req00", ""), g, done)
	}()
	to := time.Duration(c.TimeoutS) * time.Second
	if to <= 0 {
		to = 60 * time.Second
	}
	select {
	case e := <-fin:
		if e != nil {
			res["sched_err"] = e.Error()
		}
	case <-time.After(to):
		res["timeout"] = true
		killByDir(tmp) // the step's sh / cat processes
		return
	}
	if done != nil {
		close(done)
	}
	node := g.Nodes()[0]
	for _, nd := range g.Nodes() {
		if nd.Data().Step.Name == "s" {
			node = nd
		}
	}
	st := node.State()
	res["status"] = st.Status.String()
	res["retry_count"] = st.RetryCount
	cnt, _ := os.ReadFile(filepath.Join(tmp, "count"))
	ran, _ := strconv.Atoi(strings.TrimSpace(string(cnt)))
	res["attempts_run"] = ran
	logRep, logB := rep(st.Log)
	outRep, outB := rep(outF)
	errRep, errB := rep(errF)
	res["log"], res["out"], res["err"] = logRep, outRep, errRep
	logs, _ := filepath.Glob(filepath.Join(logDir, "s.*.log"))
	res["log_files"] = len(logs)
	// script files left behind
	left, _ := filepath.Glob(filepath.Join(tmp, "blackdagger_script-*"))
	res["scripts_left"] = len(left)
	// ---- Go-side monitor of the property, on the LAST attempt that ran
	if ran >= 1 && ran <= len(c.Attempts) {
		last := c.Attempts[ran-1]
		var wantLog, wantErr []byte
		var outSegs [][]byte
		po, pe := 0, 0
		for _, s := range last {
			if s.E {
				b := gen(ran-1, 1, pe, s.N)
				pe += s.N
				if c.Se {
					wantErr = append(wantErr, b...)
				} else {
					wantLog = append(wantLog, b...)
				}
			} else {
				b := gen(ran-1, 0, po, s.N)
				po += s.N
				wantLog = append(wantLog, b...)
				outSegs = append(outSegs, b)
			}
		}
		res["m_log_has_all"] = bytes.Contains(logB, wantLog)
		if c.Se {
			res["m_err_has_all"] = bytes.Contains(errB, wantErr)
		}
		if c.So {
			ok := true
			rest := outB
			for _, sg := range outSegs {
				i := bytes.Index(rest, sg)
				if i < 0 {
					ok = false
					break
				}
				rest = rest[i+len(sg):]
			}
			res["m_out_has_all"] = ok
		}
		res["want_log_len"] = len(wantLog)
	}
	return
}
