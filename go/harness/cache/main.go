//go:build verif

// Read-cache harness: drives the REAL filecache.Cache[*model.Status] exactly as jsondb does
// (LoadLatest(file, func() { return jsondb.ParseFile(file) })) over real files in a temp directory.
// Input: the same op lines the Lean driver (`driver cache`) reads; one answer line per op line:
//
//	case <id>                       fresh directory + fresh cache
//	create f grow dt data           new file of `grow` bytes (0 = empty), mtime = dt (unix seconds)
//	append f grow dt data           O_APPEND one status line of grow+1 bytes, mtime += dt (dt 0 = same second)
//	remove f | invalidate f | evict f
//	load f <pre> <post>             LoadLatest; the loader performs the `pre` appends, reads, performs `post`
//	loadrm f <pre>                  LoadLatest; the loader performs `pre`, the file is unlinked, then it reads
//	race f <millis>                 4 goroutines LoadLatest(f) against 1 goroutine Invalidate(f) and 1 goroutine running
//	                                the real evict() on f, on a cache of its own, for that long; the file is not touched.
//	                                Answer `race panics=<n> wrong=<m>` (wrong = neither the file's status nor an error).
//	                                The model's hit path is atomic; this op samples the real interleavings.
//
// Appends are `grow:dt:data;…` or `-`. mtimes are set with os.Chtimes (plus a sub-second part, which
// `ModTime().Unix()` must drop), so "the same second" is deterministic.
package main

import (
	"bufio"
	"encoding/json"
	"errors"
	"fmt"
	"io"
	"io/fs"
	"log"
	"os"
	"path/filepath"
	"strconv"
	"strings"
	"sync"
	"sync/atomic"
	"time"

	"github.com/ErdemOzgen/blackdagger/internal/dag/scheduler"
	"github.com/ErdemOzgen/blackdagger/internal/persistence/filecache"
	"github.com/ErdemOzgen/blackdagger/internal/persistence/jsondb"
	"github.com/ErdemOzgen/blackdagger/internal/persistence/model"
)

type write struct {
	grow, dt int64
	data     string
}

func parseWrites(s string) ([]write, bool) {
	if s == "-" || s == "" {
		return nil, true
	}
	var ws []write
	for _, p := range strings.Split(s, ";") {
		q := strings.Split(p, ":")
		if len(q) != 3 {
			return nil, false
		}
		g, e1 := strconv.ParseInt(q[0], 10, 64)
		dt, e2 := strconv.ParseInt(q[1], 10, 64)
		if e1 != nil || e2 != nil {
			return nil, false
		}
		ws = append(ws, write{g, dt, q[2]})
	}
	return ws, true
}

// one status line (with its newline) of exactly n bytes whose payload marker is data
func statusLine(data string, n int64) ([]byte, error) {
	st := &model.Status{RequestID: "req-" + data, Name: "cache", Status: scheduler.Status(1), StatusText: "running",
		PID: model.PID(1234), Params: data, StartedAt: "-", Nodes: []*model.Node{}}
	b, err := json.Marshal(st)
	if err != nil {
		return nil, err
	}
	pad := n - 1 - int64(len(b))
	if pad < 0 {
		return nil, fmt.Errorf("line of %d bytes is too short (minimum %d)", n, len(b)+1)
	}
	st.Log = strings.Repeat("x", int(pad))
	b, err = json.Marshal(st)
	if err != nil {
		return nil, err
	}
	return append(b, '\n'), nil
}

const subSecond = 730 * int64(time.Millisecond)

func setMtime(path string, sec int64) error {
	t := time.Unix(sec, subSecond)
	return os.Chtimes(path, t, t)
}

// O_APPEND without O_CREATE: a writer whose file was unlinked adds nothing under that name
func appendLine(path string, w write) error {
	fi, err := os.Stat(path)
	if err != nil {
		return nil
	}
	line, err := statusLine(w.data, w.grow+1)
	if err != nil {
		return err
	}
	f, err := os.OpenFile(path, os.O_WRONLY|os.O_APPEND, 0644)
	if err != nil {
		return err
	}
	if _, err := f.Write(line); err != nil {
		f.Close()
		return err
	}
	if err := f.Close(); err != nil {
		return err
	}
	return setMtime(path, fi.ModTime().Unix()+w.dt)
}

func createFile(path string, w write) error {
	tmp := path + ".new"
	var content []byte
	if w.grow > 0 {
		line, err := statusLine(w.data, w.grow)
		if err != nil {
			return err
		}
		content = line
	}
	if err := os.WriteFile(tmp, content, 0644); err != nil {
		return err
	}
	if err := setMtime(tmp, w.dt); err != nil {
		return err
	}
	return os.Rename(tmp, path) // a fresh inode under the name (replaces a file of that name)
}

type env struct {
	dir   string
	cache *filecache.Cache[*model.Status]
}

func (e *env) path(f string) string { return filepath.Join(e.dir, "f"+f+".dat") }

func (e *env) load(f string, pre, post []write, rm bool) (out string) {
	defer func() {
		if r := recover(); r != nil {
			fmt.Fprintf(os.Stderr, "cache harness: LoadLatest panicked: %v\n", r)
			out = "panic"
		}
	}()
	p := e.path(f)
	var bad error
	st, err := e.cache.LoadLatest(p, func() (*model.Status, error) {
		for _, w := range pre {
			if err := appendLine(p, w); err != nil {
				bad = err
			}
		}
		if rm {
			if err := os.Remove(p); err != nil {
				bad = err
			}
		}
		st, err := jsondb.ParseFile(p) // the loader jsondb passes
		for _, w := range post {
			if err := appendLine(p, w); err != nil {
				bad = err
			}
		}
		return st, err
	})
	switch {
	case bad != nil:
		return "bad-op:" + bad.Error()
	case err == nil && st == nil:
		return "data <nil>"
	case err == nil:
		return "data " + st.Params
	case strings.Contains(err.Error(), "failed to stat file"):
		return "err stat"
	case errors.Is(err, fs.ErrNotExist):
		return "err load"
	case errors.Is(err, io.EOF):
		return "err empty"
	}
	return "err other:" + err.Error()
}

func (e *env) race(f string, ms int64) string {
	p := e.path(f)
	cur, err := jsondb.ParseFile(p)
	if err != nil || cur == nil {
		return "race panics=0 wrong=0" // nothing to query
	}
	c := filecache.New[*model.Status](300, 3*time.Hour)
	var panics, wrong atomic.Int64
	stop := make(chan struct{})
	var wg sync.WaitGroup
	loop := func(body func()) {
		wg.Add(1)
		go func() {
			defer wg.Done()
			for {
				select {
				case <-stop:
					return
				default:
				}
				func() {
					defer func() {
						if r := recover(); r != nil {
							if panics.Add(1) == 1 {
								fmt.Fprintf(os.Stderr, "cache harness: race: %v\n", r)
							}
						}
					}()
					body()
				}()
			}
		}()
	}
	for g := 0; g < 4; g++ {
		loop(func() {
			st, err := c.LoadLatest(p, func() (*model.Status, error) { return jsondb.ParseFile(p) })
			if err == nil && (st == nil || st.Params != cur.Params) {
				wrong.Add(1)
			}
		})
	}
	loop(func() { c.Invalidate(p) })
	loop(func() { filecache.VerifExpireAndEvict(c, p) })
	time.Sleep(time.Duration(ms) * time.Millisecond)
	close(stop)
	wg.Wait()
	return fmt.Sprintf("race panics=%d wrong=%d", panics.Load(), wrong.Load())
}

func (e *env) state(f string) string {
	p := e.path(f)
	fl := "-"
	if fi, err := os.Stat(p); err == nil {
		d := "-"
		if fi.Size() > 0 {
			if st, err := jsondb.ParseFile(p); err == nil && st != nil {
				d = st.Params
			} else {
				d = "?"
			}
		}
		fl = fmt.Sprintf("%d,%d,%s", fi.Size(), fi.ModTime().Unix(), d)
	}
	en := "-"
	if d, ok := e.cache.Load(p); ok {
		ent := e.cache.Entry(p)
		ds := "<nil>"
		if d != nil {
			ds = d.Params
		}
		en = fmt.Sprintf("%s,%d,%d", ds, ent.Size, ent.LastModified)
	}
	return " file=" + fl + " entry=" + en
}

func (e *env) reset() {
	if e.dir != "" {
		os.RemoveAll(e.dir)
	}
	e.dir, _ = os.MkdirTemp("", "verif-cache-")
	// as jsondb.New builds it (the eviction ticker is not started: evictions are explicit ops)
	e.cache = filecache.New[*model.Status](300, 3*time.Hour)
}

func (e *env) do(ws []string) (res string) {
	defer func() {
		if r := recover(); r != nil {
			res = fmt.Sprintf("harness-panic:%v", r)
		}
	}()
	okOr := func(err error) string {
		if err != nil {
			return "bad-op:" + err.Error()
		}
		return "ok"
	}
	mk := func(g, dt, d string) (write, bool) {
		gi, e1 := strconv.ParseInt(g, 10, 64)
		di, e2 := strconv.ParseInt(dt, 10, 64)
		return write{gi, di, d}, e1 == nil && e2 == nil
	}
	switch {
	case len(ws) == 5 && ws[0] == "create":
		w, ok := mk(ws[2], ws[3], ws[4])
		if !ok {
			return "bad-line"
		}
		return okOr(createFile(e.path(ws[1]), w)) + e.state(ws[1])
	case len(ws) == 5 && ws[0] == "append":
		w, ok := mk(ws[2], ws[3], ws[4])
		if !ok {
			return "bad-line"
		}
		return okOr(appendLine(e.path(ws[1]), w)) + e.state(ws[1])
	case len(ws) == 2 && ws[0] == "remove":
		err := os.Remove(e.path(ws[1]))
		if errors.Is(err, fs.ErrNotExist) {
			err = nil
		}
		return okOr(err) + e.state(ws[1])
	case len(ws) == 2 && ws[0] == "invalidate":
		e.cache.Invalidate(e.path(ws[1]))
		return "ok" + e.state(ws[1])
	case len(ws) == 2 && ws[0] == "evict":
		filecache.VerifExpireAndEvict(e.cache, e.path(ws[1]))
		return "ok" + e.state(ws[1])
	case len(ws) == 4 && ws[0] == "load":
		pre, ok1 := parseWrites(ws[2])
		post, ok2 := parseWrites(ws[3])
		if !ok1 || !ok2 {
			return "bad-line"
		}
		return e.load(ws[1], pre, post, false) + e.state(ws[1])
	case len(ws) == 3 && ws[0] == "race":
		ms, err := strconv.ParseInt(ws[2], 10, 64)
		if err != nil || ms < 0 || ms > 10000 {
			return "bad-line"
		}
		return e.race(ws[1], ms) + e.state(ws[1])
	case len(ws) == 3 && ws[0] == "loadrm":
		pre, ok := parseWrites(ws[2])
		if !ok {
			return "bad-line"
		}
		return e.load(ws[1], pre, nil, true) + e.state(ws[1])
	}
	return "bad-line"
}

func main() {
	log.SetOutput(io.Discard) // ParseFile logs a failed open
	in := bufio.NewReaderSize(os.Stdin, 1<<20)
	out := bufio.NewWriter(os.Stdout)
	defer out.Flush()
	e := &env{}
	e.reset()
	defer func() { os.RemoveAll(e.dir) }()
	for {
		line, err := in.ReadString('\n')
		ws := strings.Fields(line)
		if len(ws) == 2 && ws[0] == "case" {
			e.reset()
			fmt.Fprintln(out, "case "+ws[1])
		} else if len(ws) > 0 {
			fmt.Fprintln(out, e.do(ws))
		}
		out.Flush()
		if err != nil {
			break
		}
	}
}
