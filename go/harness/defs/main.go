//go:build verif

// Definitions-area harness (C18): the REAL local DAG store + client (create / save / rename / delete /
// list) over temp dirs, interleaved with recorded runs in the real history store. One JSON case per
// line; after every operation the whole world is dumped in canonical form.
//   execsave <dagsDir> <name> <textfile> : perform one UpdateSpec (meant to be killed by strace)
package main

import (
	"bufio"
	"crypto/sha256"
	"encoding/hex"
	"encoding/json"
	"fmt"
	"io"
	"log"
	"os"
	"path/filepath"
	"sort"
	"time"

	"github.com/ErdemOzgen/blackdagger/internal/client"
	"github.com/ErdemOzgen/blackdagger/internal/dag"
	"github.com/ErdemOzgen/blackdagger/internal/dag/scheduler"
	"github.com/ErdemOzgen/blackdagger/internal/logger"
	"github.com/ErdemOzgen/blackdagger/internal/persistence/local"
	dsclient "github.com/ErdemOzgen/blackdagger/internal/persistence/client"
	"github.com/ErdemOzgen/blackdagger/internal/persistence/model"
)

type op struct {
	Op   string `json:"op"` // create save rename delete list run
	N    int    `json:"n"`
	N2   int    `json:"n2"`
	Text int    `json:"text"` // index into texts
	Req  string `json:"req"`
	T    int64  `json:"t"`
	P    string `json:"p"`
}

type dcase struct {
	ID    string   `json:"id"`
	Names []string `json:"names"`
	Texts []string `json:"texts"`
	Ops   []op     `json:"ops"`
}

type dump struct {
	Err   string     `json:"err"`
	Defs  []string   `json:"defs"`  // per name: "-" | "t<i>" | "tmpl" | "?<sha8>"
	Hist  [][]string `json:"hist"`  // per name: payloads of recent(20), newest first
	Stray []string   `json:"stray"` // files in the DAGs dir that are not <name>.yaml
	List  int        `json:"list"`  // number of DAGs listed (-1 if not a list op)
}

func sha8(b []byte) string { h := sha256.Sum256(b); return hex.EncodeToString(h[:4]) }

func runCase(c dcase, valid []bool) (res []dump, pan string) {
	defer func() {
		if r := recover(); r != nil {
			pan = fmt.Sprint(r)
		}
	}()
	root, _ := os.MkdirTemp("", "verif-defs-")
	defer os.RemoveAll(root)
	dagsDir := filepath.Join(root, "dags")
	ds := dsclient.NewDataStores(dagsDir, filepath.Join(root, "data"), filepath.Join(root, "suspend"), dsclient.DataStoreOptions{})
	cli := client.New(ds, "/bin/true", root, logger.NewLogger(logger.NewLoggerArgs{Quiet: true}))
	tmplSeen := ""
	loc := func(i int) string { return filepath.Join(dagsDir, c.Names[i]+".yaml") }
	for _, o := range c.Ops {
		var d dump
		d.List = -1
		var err error
		switch o.Op {
		case "create":
			_, err = cli.CreateDAG(c.Names[o.N])
			if err == nil && tmplSeen == "" {
				if b, e := os.ReadFile(loc(o.N)); e == nil {
					tmplSeen = string(b)
				}
			}
		case "save":
			err = cli.UpdateDAG(c.Names[o.N], c.Texts[o.Text])
		case "rename":
			err = cli.Rename(c.Names[o.N], c.Names[o.N2])
		case "delete":
			err = cli.DeleteDAG(c.Names[o.N], loc(o.N))
		case "list":
			l, _, e := ds.DAGStore().List()
			err = e
			d.List = len(l)
		case "run":
			hs := ds.HistoryStore()
			if e := hs.Open(loc(o.N), time.UnixMilli(o.T).UTC(), o.Req); e != nil {
				err = e
			} else {
				st := &model.Status{RequestID: o.Req, Name: c.Names[o.N], Status: scheduler.StatusSuccess, StatusText: "finished",
					PID: model.PID(1), Params: o.P, StartedAt: "-", Nodes: []*model.Node{}}
				err = hs.Write(st)
				if e := hs.Close(); err == nil {
					err = e
				}
			}
		}
		if err != nil {
			d.Err = "err"
		}
		for i := range c.Names {
			b, e := os.ReadFile(loc(i))
			switch {
			case e != nil:
				d.Defs = append(d.Defs, "-")
			case tmplSeen != "" && string(b) == tmplSeen:
				d.Defs = append(d.Defs, "tmpl")
			default:
				tag := "?" + sha8(b)
				for k, t := range c.Texts {
					if t == string(b) {
						tag = fmt.Sprintf("t%d", k)
						break
					}
				}
				d.Defs = append(d.Defs, tag)
			}
			var ps []string
			for _, sf := range ds.HistoryStore().ReadStatusRecent(loc(i), 20) {
				ps = append(ps, sf.Status.Params)
			}
			d.Hist = append(d.Hist, ps)
		}
		ents, _ := os.ReadDir(dagsDir)
		known := map[string]bool{}
		for _, n := range c.Names {
			known[n+".yaml"] = true
		}
		for _, e := range ents {
			if !known[e.Name()] {
				d.Stray = append(d.Stray, e.Name())
			}
		}
		sort.Strings(d.Stray)
		res = append(res, d)
	}
	return
}

func main() {
	log.SetOutput(io.Discard)
	if len(os.Args) >= 5 && os.Args[1] == "execsave" {
		st := local.NewDAGStore(&local.NewDAGStoreArgs{Dir: os.Args[2]})
		b, err := os.ReadFile(os.Args[4])
		if err != nil {
			os.Exit(3)
		}
		if err := st.UpdateSpec(os.Args[3], b); err != nil {
			os.Stdout.WriteString("err\n")
			return
		}
		os.Stdout.WriteString("ack\n")
		return
	}
	in := bufio.NewReaderSize(os.Stdin, 1<<24)
	out := bufio.NewWriter(os.Stdout)
	defer out.Flush()
	for {
		line, err := in.ReadBytes('\n')
		if len(line) > 1 {
			var c dcase
			if e := json.Unmarshal(line, &c); e != nil {
				fmt.Fprintln(os.Stderr, "bad case", e)
				os.Exit(2)
			}
			valid := make([]bool, len(c.Texts))
			for i, t := range c.Texts {
				func() {
					defer func() { recover() }()
					_, e := dag.LoadYAML([]byte(t))
					valid[i] = e == nil
				}()
			}
			res, p := runCase(c, valid)
			b, _ := json.Marshal(map[string]any{"id": c.ID, "dumps": res, "panic": p, "valid": valid})
			out.Write(b)
			out.WriteByte('\n')
			out.Flush()
		}
		if err != nil {
			break
		}
	}
}
