//go:build verif

// Definitions-area harness (C18): the REAL local DAG store + client (create / save / rename / delete /
// list) over temp dirs, interleaved with recorded runs in the real history store. One JSON case per
// line; after every operation the whole world is dumped in canonical form.
//   execsave <dagsDir> <name> <textfile> : perform one UpdateSpec (meant to be killed by strace)
package main

import (
	"bufio"
	"crypto/sha256"
	"encoding/hex"
	"encoding/json"
	"fmt"
	"io"
	"log"
	"os"
	"path/filepath"
	"sort"
	"time"

	"github.com/ErdemOzgen/blackdagger/internal/client"
	"github.com/ErdemOzgen/blackdagger/internal/dag"
	"github.com/ErdemOzgen/blackdagger/internal/dag/scheduler"
	"github.com/ErdemOzgen/blackdagger/internal/logger"
	"github.com/ErdemOzgen/blackdagger/internal/persistence/local"
	dsclient "github.com/ErdemOzgen/blackdagger/internal/persistence/client"
	"github.com/ErdemOzgen/blackdagger/internal/persistence/model"
)

type op struct {
	Op   string `json:"op"` // create save rename delete list run
	N    int    `json:"n"`
	N2   int    `json:"n2"`
	Text int    `json:"text"` // index into texts
	Req  string `json:"req"`
	T    int64  `json:"t"`
	P    string `json:"p"`
}

type dcase struct {
	ID    string   `json:"id"`
	Names []string `json:"names"`
	Files []string `json:"files"` // per name: the file in the DAGs dir that the MONITOR says the name denotes (absent: <name>.yaml)
	Texts []string `json:"texts"`
	Ops   []op     `json:"ops"`
}

type dump struct {
	Err   string     `json:"err"`
	Defs  []string   `json:"defs"`  // per name: "-" | "t<i>" | "tmpl" | "?<sha8>"
	Hist  [][]string `json:"hist"`  // per name: payloads of recent(20), newest first
	Stray []string   `json:"stray"` // files in the DAGs dir that are not the file of any name
	Dir   [][]string `json:"dir"`   // EVERY entry of the DAGs dir: [file name, tag of its bytes], sorted by name
	List  int        `json:"list"`  // number of DAGs listed (-1 if not a list op)
}

func sha8(b []byte) string { h := sha256.Sum256(b); return hex.EncodeToString(h[:4]) }

func runCase(c dcase, valid []bool) (res []dump, pan string) {
	defer func() {
		if r := recover(); r != nil {
			pan = fmt.Sprint(r)
		}
	}()
	root, _ := os.MkdirTemp("", "verif-defs-")
	defer os.RemoveAll(root)
	dagsDir := filepath.Join(root, "dags")
	ds := dsclient.NewDataStores(dagsDir, filepath.Join(root, "data"), filepath.Join(root, "suspend"), dsclient.DataStoreOptions{})
	cli := client.New(ds, "/bin/true", root, logger.NewLogger(logger.NewLoggerArgs{Quiet: true}))
	tmplSeen := ""
	file := func(i int) string {
		if i < len(c.Files) && c.Files[i] != "" {
			return c.Files[i]
		}
		return c.Names[i] + ".yaml"
	}
	loc := func(i int) string { return filepath.Join(dagsDir, file(i)) }
	tagOf := func(b []byte) string {
		if tmplSeen != "" && string(b) == tmplSeen {
			return "tmpl"
		}
		for k, t := range c.Texts {
			if t == string(b) {
				return fmt.Sprintf("t%d", k)
			}
		}
		return "?" + sha8(b)
	}
	for _, o := range c.Ops {
		var d dump
		d.List = -1
		var err error
		switch o.Op {
		case "create":
			_, err = cli.CreateDAG(c.Names[o.N])
			if err == nil && tmplSeen == "" {
				if b, e := os.ReadFile(loc(o.N)); e == nil {
					tmplSeen = string(b)
				}
			}
		case "save":
			err = cli.UpdateDAG(c.Names[o.N], c.Texts[o.Text])
		case "rename":
			err = cli.Rename(c.Names[o.N], c.Names[o.N2])
		case "delete":
			err = cli.DeleteDAG(c.Names[o.N], loc(o.N))
		case "list":
			l, _, e := ds.DAGStore().List()
			err = e
			d.List = len(l)
		case "run":
			hs := ds.HistoryStore()
			if e := hs.Open(loc(o.N), time.UnixMilli(o.T).UTC(), o.Req); e != nil {
				err = e
			} else {
				st := &model.Status{RequestID: o.Req, Name: c.Names[o.N], Status: scheduler.StatusSuccess, StatusText: "finished",
					PID: model.PID(1), Params: o.P, StartedAt: "-", Nodes: []*model.Node{}}
				err = hs.Write(st)
				if e := hs.Close(); err == nil {
					err = e
				}
			}
		}
		if err != nil {
			d.Err = "err"
		}
		for i := range c.Names {
			b, e := os.ReadFile(loc(i))
			switch {
			case e != nil:
				d.Defs = append(d.Defs, "-")
			default:
				d.Defs = append(d.Defs, tagOf(b))
			}
			var ps []string
			for _, sf := range ds.HistoryStore().ReadStatusRecent(loc(i), 20) {
				ps = append(ps, sf.Status.Params)
			}
			d.Hist = append(d.Hist, ps)
		}
		ents, _ := os.ReadDir(dagsDir)
		known := map[string]bool{}
		for i := range c.Names {
			known[file(i)] = true
		}
		for _, e := range ents {
			if !known[e.Name()] {
				d.Stray = append(d.Stray, e.Name())
			}
			if b, re := os.ReadFile(filepath.Join(dagsDir, e.Name())); re == nil {
				d.Dir = append(d.Dir, []string{e.Name(), tagOf(b)})
			} else {
				d.Dir = append(d.Dir, []string{e.Name(), "unreadable"})
			}
		}
		sort.Strings(d.Stray)
		sort.Slice(d.Dir, func(a, b int) bool { return d.Dir[a][0] < d.Dir[b][0] })
		res = append(res, d)
	}
	return
}

// denotes observes, for every name of the case, which file of the DAGs directory the name DENOTES in the store
// under test: in an empty directory the DAG is created under that name and the directory is listed (no use of the
// store's own "does it exist" answer). "!" + reason when that does not yield exactly one file.
var denCache = map[string]string{}

func denotes(c dcase) (out []string) {
	for _, n := range c.Names {
		if r, ok := denCache[n]; ok {
			out = append(out, r)
			continue
		}
		out = append(out, func() (r string) {
			defer func() { denCache[n] = r }()
			defer func() {
				if p := recover(); p != nil {
					r = "!panic"
				}
			}()
			dir, _ := os.MkdirTemp("", "verif-defs-n-")
			defer os.RemoveAll(dir)
			st := local.NewDAGStore(&local.NewDAGStoreArgs{Dir: dir})
			if _, err := st.Create(n, []byte("steps:\n  - name: p\n    command: true\n")); err != nil {
				return "!refused"
			}
			ents, _ := os.ReadDir(dir)
			if len(ents) != 1 {
				return fmt.Sprintf("!%d-files", len(ents))
			}
			return ents[0].Name()
		}())
	}
	return
}

func main() {
	log.SetOutput(io.Discard)
	if len(os.Args) >= 5 && os.Args[1] == "execsave" {
		st := local.NewDAGStore(&local.NewDAGStoreArgs{Dir: os.Args[2]})
		b, err := os.ReadFile(os.Args[4])
		if err != nil {
			os.Exit(3)
		}
		if err := st.UpdateSpec(os.Args[3], b); err != nil {
			os.Stdout.WriteString("err\n")
			return
		}
		os.Stdout.WriteString("ack\n")
		return
	}
	in := bufio.NewReaderSize(os.Stdin, 1<<24)
	out := bufio.NewWriter(os.Stdout)
	defer out.Flush()
	for {
		line, err := in.ReadBytes('\n')
		if len(line) > 1 {
			var c dcase
			if e := json.Unmarshal(line, &c); e != nil {
				fmt.Fprintln(os.Stderr, "bad case", e)
				os.Exit(2)
			}
			valid := make([]bool, len(c.Texts))
			for i, t := range c.Texts {
				func() {
					defer func() { recover() }()
					_, e := dag.LoadYAML([]byte(t))
					valid[i] = e == nil
				}()
			}
			res, p := runCase(c, valid)
			b, _ := json.Marshal(map[string]any{"id": c.ID, "dumps": res, "panic": p, "valid": valid, "denotes": denotes(c)})
			out.Write(b)
			out.WriteByte('\n')
			out.Flush()
		}
		if err != nil {
			break
		}
	}
}
