//go:build verif

// File-name / timestamp layer of the history store: drives the REAL jsondb functions newFile, Compact, timestamp,
// filterLatest, latestToday, prefixWithDirectory. One request per line (space separated; strings are hex of their
// bytes, "-" = empty), one answer line per request:
//
//	stamp <path>                                   -> timestamp(path)
//	free <pre>                                     -> 1 when timestamp(pre + ".") == "" else 0
//	render <unix ms>                               -> the time part of newFile(.., time.UnixMilli(ms).UTC(), ..)
//	name <loc> <dagFile> <pwd> <ms> <req> <0|1>    -> newFile(...) ; with 1: the name a REAL Compact gives the file
//	latest <n> <name>...                           -> filterLatest(names, n)
//	today <loc> <dagFile> <pwd> <day ms> <path>... -> latestToday(dagFile, day, true) over these (really created) files
//
// <pwd> is what the caller believes prefixWithDirectory(dagFile) to be for a store at <loc>; it is checked.
package main

import (
	"bufio"
	"encoding/hex"
	"fmt"
	"io"
	"log"
	"os"
	"path/filepath"
	"strconv"
	"strings"
	"time"

	"github.com/ErdemOzgen/blackdagger/internal/dag/scheduler"
	"github.com/ErdemOzgen/blackdagger/internal/persistence/jsondb"
	"github.com/ErdemOzgen/blackdagger/internal/persistence/model"
)

func unhex(s string) string {
	if s == "-" {
		return ""
	}
	b, err := hex.DecodeString(s)
	if err != nil {
		panic("bad hex " + s)
	}
	return string(b)
}

func hx(s string) string {
	if s == "" {
		return "-"
	}
	return hex.EncodeToString([]byte(s))
}

func hxs(l []string) string {
	if len(l) == 0 {
		return "-"
	}
	out := make([]string, len(l))
	for i, s := range l {
		out[i] = hx(s)
	}
	return strings.Join(out, " ")
}

func tmpRoot() string {
	// ends in a letter: the digits os.MkdirTemp inserts cannot run into what follows
	d, err := os.MkdirTemp("", "vstamp*x")
	if err != nil {
		panic(err)
	}
	return d
}

func checkPwd(loc, dagFile, pwd string) string {
	got := jsondb.VerifPrefixWithDirectory(jsondb.VerifStampStore(loc), dagFile)
	if got != pwd {
		return "pwd-mismatch:" + hx(got)
	}
	return ""
}

func answer(w []string) (res string) {
	defer func() {
		if r := recover(); r != nil {
			res = "panic:" + strings.ReplaceAll(fmt.Sprint(r), " ", "_")
		}
	}()
	if len(w) == 0 {
		return "bad-line"
	}
	switch {
	case w[0] == "stamp" && len(w) == 2:
		return hx(jsondb.VerifTimestamp(unhex(w[1])))
	case w[0] == "free" && len(w) == 2:
		if jsondb.VerifTimestamp(unhex(w[1])+".") == "" {
			return "1"
		}
		return "0"
	case w[0] == "render" && len(w) == 2:
		ms, _ := strconv.ParseInt(w[1], 10, 64)
		db := jsondb.VerifStampStore("/L")
		f, err := jsondb.VerifNewFile(db, "/d/x.yaml", time.UnixMilli(ms).UTC(), "r")
		if err != nil {
			return "err"
		}
		pre := jsondb.VerifPrefixWithDirectory(db, "/d/x.yaml") + "."
		if !strings.HasPrefix(f, pre) || !strings.HasSuffix(f, ".r.dat") {
			return "shape:" + hx(f)
		}
		return hx(strings.TrimSuffix(strings.TrimPrefix(f, pre), ".r.dat"))
	case w[0] == "name" && len(w) == 7:
		loc, dagFile, pwd, req := unhex(w[1]), unhex(w[2]), unhex(w[3]), unhex(w[5])
		ms, _ := strconv.ParseInt(w[4], 10, 64)
		t := time.UnixMilli(ms).UTC()
		if m := checkPwd(loc, dagFile, pwd); m != "" {
			return m
		}
		if w[6] != "1" {
			f, err := jsondb.VerifNewFile(jsondb.VerifStampStore(loc), dagFile, t, req)
			if err != nil {
				return "err"
			}
			return hx(f)
		}
		// the compacted twin: record one status through the real store under a scratch root, compact, look
		root := tmpRoot()
		defer os.RemoveAll(root)
		db := jsondb.VerifStampStore(filepath.Join(root, loc))
		if err := db.Open(dagFile, t, req); err != nil {
			return "err-open"
		}
		orig, _ := jsondb.VerifNewFile(db, dagFile, t, req)
		st := &model.Status{RequestID: req, Name: "n", Status: scheduler.Status(4), StatusText: scheduler.Status(4).String(),
			PID: model.PID(1), Params: "p", StartedAt: "-", Nodes: []*model.Node{}}
		if err := db.Write(st); err != nil {
			return "err-write"
		}
		if err := jsondb.VerifCloseWriter(db); err != nil {
			return "err-close"
		}
		if err := db.Compact(orig); err != nil {
			return "err-compact"
		}
		ents, err := os.ReadDir(filepath.Dir(orig))
		if err != nil || len(ents) != 1 {
			return fmt.Sprintf("err-dir:%d", len(ents))
		}
		return hx(strings.TrimPrefix(filepath.Join(filepath.Dir(orig), ents[0].Name()), root))
	case w[0] == "latest" && len(w) >= 2:
		n, _ := strconv.Atoi(w[1])
		names := make([]string, 0, len(w)-2)
		for _, h := range w[2:] {
			names = append(names, unhex(h))
		}
		return hxs(jsondb.VerifFilterLatest(names, n))
	case w[0] == "today" && len(w) >= 5:
		loc, dagFile, pwd := unhex(w[1]), unhex(w[2]), unhex(w[3])
		ms, _ := strconv.ParseInt(w[4], 10, 64)
		if m := checkPwd(loc, dagFile, pwd); m != "" {
			return m
		}
		root := tmpRoot()
		defer os.RemoveAll(root)
		for _, h := range w[5:] {
			p := filepath.Join(root, unhex(h))
			if err := os.MkdirAll(filepath.Dir(p), 0o755); err != nil {
				return "err-mkdir"
			}
			if err := os.WriteFile(p, nil, 0o644); err != nil {
				return "err-create"
			}
		}
		db := jsondb.VerifStampStore(filepath.Join(root, loc))
		got, err := jsondb.VerifLatestToday(db, dagFile, time.UnixMilli(ms).UTC(), true)
		if err != nil {
			return "-"
		}
		out := make([]string, len(got))
		for i, g := range got {
			out[i] = strings.TrimPrefix(g, root)
		}
		return hxs(out)
	}
	return "bad-line"
}

func main() {
	log.SetOutput(io.Discard)
	in := bufio.NewReaderSize(os.Stdin, 1<<22)
	out := bufio.NewWriter(os.Stdout)
	defer out.Flush()
	for {
		line, err := in.ReadString('\n')
		if strings.TrimSpace(line) != "" {
			out.WriteString(answer(strings.Fields(line)))
			out.WriteByte('\n')
			out.Flush()
		}
		if err != nil {
			break
		}
	}
}
