//go:build verif

// Api-area harness (C20): the REAL API handler (frontend/dag.NewHandler → Configure on the generated
// go-swagger API; requests go through the generated router + binder, or straight into the configured
// operation handler for bodies the binder would reject) over REAL stores in a temp directory
// (local DAG store, jsondb history store, flag store) and the real client, whose executable is a stub
// script that records its argv. A live run is a real sock.Server on the DAG's socket address that
// answers `running`. After every action the whole world is dumped.
// One JSON case per line in, one JSON result line out.
package main

import (
	"bufio"
	"bytes"
	"crypto/sha1"
	"encoding/hex"
	"encoding/json"
	"fmt"
	"io"
	"net"
	"net/http"
	"net/http/httptest"
	"os"
	"path/filepath"
	"sort"
	"strings"
	"sync"
	"time"

	"github.com/ErdemOzgen/blackdagger/internal/client"
	"github.com/ErdemOzgen/blackdagger/internal/dag"
	"github.com/ErdemOzgen/blackdagger/internal/dag/scheduler"
	fdag "github.com/ErdemOzgen/blackdagger/internal/frontend/dag"
	"github.com/ErdemOzgen/blackdagger/internal/frontend/gen/restapi"
	"github.com/ErdemOzgen/blackdagger/internal/frontend/gen/restapi/operations"
	"github.com/ErdemOzgen/blackdagger/internal/frontend/gen/restapi/operations/dags"
	"github.com/ErdemOzgen/blackdagger/internal/logger"
	dsclient "github.com/ErdemOzgen/blackdagger/internal/persistence/client"
	"github.com/ErdemOzgen/blackdagger/internal/persistence/model"
	"github.com/ErdemOzgen/blackdagger/internal/sock"
	"github.com/go-openapi/loads"
	"github.com/go-openapi/runtime"
)

type nodeIn struct {
	Name   string `json:"name"`
	Status int    `json:"status"`
}
type runIn struct {
	Ago    int      `json:"ago"` // seconds before now
	Req    string   `json:"req"`
	Status int      `json:"status"`
	Nodes  []nodeIn `json:"nodes"`
	Params string   `json:"params"`
}
type dagIn struct {
	Name string  `json:"name"`
	Spec string  `json:"spec"`
	Susp bool    `json:"susp"`
	Runs []runIn `json:"runs"`
	Live string  `json:"live"`
}
type opIn struct {
	Op        string  `json:"op"` // post | live
	Dag       string  `json:"dag"`
	Via       string  `json:"via"` // http | direct
	Action    *string `json:"action"`
	Value     string  `json:"value"`
	RequestID string  `json:"requestId"`
	Step      string  `json:"step"`
	Params    string  `json:"params"`
	Req       string  `json:"req"` // live: request id ("" = the run goes away)
}
type caseIn struct {
	ID   string   `json:"id"`
	Pool []string `json:"pool"`
	Dags []dagIn  `json:"dags"`
	Ops  []opIn   `json:"ops"`
}

type nodeOut struct {
	Name   string `json:"name"`
	Status int    `json:"status"`
	Text   string `json:"text"`
}
type runOut struct {
	File   string    `json:"file"`
	Req    string    `json:"req"`
	Status int       `json:"status"`
	Text   string    `json:"text"`
	Nodes  []nodeOut `json:"nodes"`
	Rest   string    `json:"rest"`
	Lines  int       `json:"lines"`
}
type dagOut struct {
	Exists bool     `json:"exists"`
	Sha    string   `json:"sha"`
	Susp   bool     `json:"susp"`
	Hist   []runOut `json:"hist"`
}
// what the long-lived client (the one behind the API handlers, with its history store and read cache) ANSWERS for a
// recorded run, next to what the files hold (dagOut.Hist)
type viewRun struct {
	Req    string `json:"req"`
	Status int    `json:"status"`
	Nodes  []int  `json:"nodes"`
	Err    string `json:"err,omitempty"`
}
type dagView struct {
	ByReq  []viewRun `json:"byreq"`  // GetStatusByRequestID for every run on file, newest file first
	Recent []viewRun `json:"recent"` // GetRecentHistory(10)
}
type dump struct {
	View  map[string]dagView `json:"view,omitempty"`
	Dags  map[string]dagOut `json:"dags"`
	Argv  [][]string        `json:"argv"`
	Stops []string          `json:"stops"`
	Extra []string          `json:"extra"` // files in the DAG directory that are not <pool name>.yaml
}
type stepOut struct {
	Code     int    `json:"code"`
	NewDagID string `json:"newDagId"`
	Dump     dump   `json:"dump"`
}
type caseOut struct {
	ID    string    `json:"id"`
	Err   string    `json:"err,omitempty"`
	Init  dump      `json:"init"`
	Steps []stepOut `json:"steps"`
}

func main() {
	in := bufio.NewReaderSize(os.Stdin, 1<<22)
	out := bufio.NewWriter(os.Stdout)
	defer out.Flush()
	for {
		line, err := in.ReadBytes('\n')
		if len(bytes.TrimSpace(line)) > 0 {
			var c caseIn
			if e := json.Unmarshal(line, &c); e != nil {
				fmt.Fprintln(os.Stderr, "bad case", e)
				os.Exit(2)
			}
			r := runCase(c)
			b, _ := json.Marshal(r)
			out.Write(b)
			out.WriteByte('\n')
			out.Flush()
		}
		if err != nil {
			break
		}
	}
}

type liveRun struct {
	srv *sock.Server
	req string
	ln  net.Listener // "!hung": a socket that accepts and never answers (a frozen agent)
}

type env struct {
	cli client.Client
	root, dagsDir, dataDir, suspDir, stubLog string
	pool                                     []string
	live                                     map[string]*liveRun
	mu                                       sync.Mutex
	stops                                    []string
	lg                                       logger.Logger
}

func (e *env) loc(name string) string { return filepath.Join(e.dagsDir, name+".yaml") }

func (e *env) setLive(name, req string) error {
	if l := e.live[name]; l != nil && l.ln != nil {
		_ = l.ln.Close()
		delete(e.live, name)
		_ = os.Remove((&dag.DAG{Location: e.loc(name)}).SockAddr())
	} else if l != nil {
		_ = l.srv.Shutdown()
		delete(e.live, name)
		time.Sleep(5 * time.Millisecond)
		_ = os.Remove((&dag.DAG{Location: e.loc(name)}).SockAddr())
	}
	if req == "" {
		return nil
	}
	addr := (&dag.DAG{Location: e.loc(name)}).SockAddr()
	if req == "!hung" {
		_ = os.Remove(addr)
		ln, err := net.Listen("unix", addr)
		if err != nil {
			return err
		}
		go func() {
			var held []net.Conn
			for {
				c, err := ln.Accept()
				if err != nil {
					for _, h := range held {
						_ = h.Close()
					}
					return
				}
				held = append(held, c)
			}
		}()
		e.live[name] = &liveRun{req: req, ln: ln}
		return nil
	}
	st := &model.Status{RequestID: req, Name: name, Status: scheduler.StatusRunning,
		StatusText: scheduler.StatusRunning.String(), PID: model.PID(os.Getpid())}
	srv, err := sock.NewServer(addr, func(w http.ResponseWriter, r *http.Request) {
		if r.Method == http.MethodPost {
			e.mu.Lock()
			e.stops = append(e.stops, name)
			e.mu.Unlock()
			w.WriteHeader(200)
			_, _ = w.Write([]byte("OK"))
			return
		}
		b, _ := st.ToJSON()
		w.WriteHeader(200)
		_, _ = w.Write(b)
	}, e.lg)
	if err != nil {
		return err
	}
	ch := make(chan error, 1)
	go func() { _ = srv.Serve(ch) }()
	if err := <-ch; err != nil {
		return err
	}
	e.live[name] = &liveRun{srv: srv, req: req}
	return nil
}

func (e *env) argv() [][]string {
	b, _ := os.ReadFile(e.stubLog)
	var out [][]string
	for _, rec := range bytes.Split(b, []byte("\x00\n\x00")) {
		if len(rec) == 0 {
			continue
		}
		var a []string
		for _, f := range bytes.Split(rec, []byte{0}) {
			a = append(a, string(f))
		}
		out = append(out, a)
	}
	return out
}

func restHash(line []byte) string {
	var m map[string]any
	if json.Unmarshal(line, &m) != nil {
		return "unparsable"
	}
	delete(m, "Status")
	delete(m, "StatusText")
	if ns, ok := m["Nodes"].([]any); ok {
		for _, n := range ns {
			if nm, ok := n.(map[string]any); ok {
				delete(nm, "Status")
				delete(nm, "StatusText")
			}
		}
	}
	b, _ := json.Marshal(m)
	h := sha1.Sum(b)
	return hex.EncodeToString(h[:6])
}

func (e *env) dump() dump {
	d := dump{Dags: map[string]dagOut{}, Argv: e.argv()}
	e.mu.Lock()
	d.Stops = append([]string{}, e.stops...)
	e.mu.Unlock()
	inPool := map[string]bool{}
	for _, name := range e.pool {
		inPool[name+".yaml"] = true
		var o dagOut
		if b, err := os.ReadFile(e.loc(name)); err == nil {
			o.Exists = true
			h := sha1.Sum(b)
			o.Sha = hex.EncodeToString(h[:6])
		}
		if _, err := os.Stat(filepath.Join(e.suspDir, name+".suspend")); err == nil {
			o.Susp = true
		}
		files, _ := filepath.Glob(filepath.Join(e.dataDir, name+"-*", name+".*.dat"))
		sort.Slice(files, func(i, j int) bool { return filepath.Base(files[i]) > filepath.Base(files[j]) })
		for _, f := range files {
			b, _ := os.ReadFile(f)
			r := runOut{File: filepath.Base(f), Status: -1}
			for _, l := range bytes.Split(b, []byte("\n")) {
				if len(bytes.TrimSpace(l)) == 0 {
					continue
				}
				var s model.Status
				if json.Unmarshal(l, &s) != nil {
					continue
				}
				r.Lines++
				r.Req, r.Status, r.Text = s.RequestID, int(s.Status), s.StatusText
				r.Nodes = nil
				for _, n := range s.Nodes {
					r.Nodes = append(r.Nodes, nodeOut{Name: n.Step.Name, Status: int(n.Status), Text: n.StatusText})
				}
				r.Rest = restHash(l)
			}
			o.Hist = append(o.Hist, r)
		}
		d.Dags[name] = o
	}
	if e.cli != nil {
		d.View = map[string]dagView{}
		for _, name := range e.pool {
			o := d.Dags[name]
			if l := e.live[name]; len(o.Hist) == 0 || (l != nil && l.ln != nil) {
				continue // (a frozen agent: every answer would cost the socket timeout)
			}
			w := &dag.DAG{Location: e.loc(name), Name: name}
			var v dagView
			mk := func(st *model.Status) viewRun {
				r := viewRun{Req: st.RequestID, Status: int(st.Status)}
				for _, n := range st.Nodes {
					r.Nodes = append(r.Nodes, int(n.Status))
				}
				return r
			}
			for _, h := range o.Hist {
				if h.Req == "" {
					continue
				}
				st, err := e.cli.GetStatusByRequestID(w, h.Req)
				if err != nil || st == nil {
					v.ByReq = append(v.ByReq, viewRun{Req: h.Req, Status: -1, Err: fmt.Sprint(err)})
				} else {
					v.ByReq = append(v.ByReq, mk(st))
				}
			}
			for _, sf := range e.cli.GetRecentHistory(w, 10) {
				if sf != nil && sf.Status != nil {
					v.Recent = append(v.Recent, mk(sf.Status))
				}
			}
			d.View[name] = v
		}
	}
	if fis, err := os.ReadDir(e.dagsDir); err == nil {
		for _, fi := range fis {
			if !inPool[fi.Name()] {
				d.Extra = append(d.Extra, fi.Name())
			}
		}
	}
	return d
}

func runCase(c caseIn) (res caseOut) {
	res.ID = c.ID
	defer func() {
		if r := recover(); r != nil {
			res.Err = fmt.Sprint("panic: ", r)
		}
	}()
	root, err := os.MkdirTemp("", "bdapi-")
	if err != nil {
		res.Err = err.Error()
		return
	}
	defer os.RemoveAll(root)
	e := &env{root: root, dagsDir: filepath.Join(root, "dags"), dataDir: filepath.Join(root, "data"),
		suspDir: filepath.Join(root, "susp"), stubLog: filepath.Join(root, "argv.log"), pool: c.Pool,
		live: map[string]*liveRun{}, lg: logger.NewLogger(logger.NewLoggerArgs{Quiet: true})}
	for _, d := range []string{e.dagsDir, e.dataDir, e.suspDir, filepath.Join(root, "cwd"), filepath.Join(root, "home")} {
		_ = os.MkdirAll(d, 0755)
	}
	_ = os.Setenv("HOME", filepath.Join(root, "home"))
	_ = os.Setenv("VERIF_STUB_LOG", e.stubLog)
	_ = os.Chdir(filepath.Join(root, "cwd"))
	stub := filepath.Join(root, "stub.sh")
	_ = os.WriteFile(stub, []byte("#!/bin/sh\n{ for a in \"$@\"; do printf '%s\\0' \"$a\"; done; printf '\\n\\0'; } >> \"$VERIF_STUB_LOG\"\nexit 0\n"), 0755)
	defer func() {
		for name := range e.live {
			_ = e.setLive(name, "")
		}
		for _, name := range append(append([]string{}, c.Pool...), "zz") {
			_ = os.Remove((&dag.DAG{Location: e.loc(name)}).SockAddr())
		}
	}()

	ds := dsclient.NewDataStores(e.dagsDir, e.dataDir, e.suspDir, dsclient.DataStoreOptions{LatestStatusToday: true})
	cli := client.New(ds, stub, root, e.lg)
	e.cli = cli
	h := fdag.NewHandler(&fdag.NewHandlerArgs{Client: cli}, nil, "/api/v1")
	swaggerSpec, err := loads.Analyzed(restapi.SwaggerJSON, "")
	if err != nil {
		res.Err = "spec: " + err.Error()
		return
	}
	api := operations.NewBlackdaggerAPI(swaggerSpec)
	api.Logger = func(string, ...interface{}) {}
	h.Configure(api)
	httpHandler := api.Serve(nil)

	// ---- initial world, written through the real stores
	now := time.Now()
	for _, d := range c.Dags {
		if err := os.WriteFile(e.loc(d.Name), []byte(d.Spec), 0644); err != nil {
			res.Err = err.Error()
			return
		}
		if d.Susp {
			_ = ds.FlagStore().ToggleSuspend(d.Name, true)
		}
		for _, r := range d.Runs {
			hs := ds.HistoryStore()
			st := &model.Status{RequestID: r.Req, Name: d.Name, Status: scheduler.Status(r.Status),
				StatusText: scheduler.Status(r.Status).String(), PID: model.PID(4242), Params: r.Params,
				StartedAt: model.FormatTime(now.Add(-time.Duration(r.Ago) * time.Second)), Log: "/nonexistent/log"}
			for _, n := range r.Nodes {
				st.Nodes = append(st.Nodes, &model.Node{Step: dag.Step{Name: n.Name, Command: "true"},
					Status: scheduler.NodeStatus(n.Status), StatusText: scheduler.NodeStatus(n.Status).String(), StartedAt: "-", FinishedAt: "-"})
			}
			if err := hs.Open(e.loc(d.Name), now.Add(-time.Duration(r.Ago)*time.Second), r.Req); err != nil {
				res.Err = "hist open: " + err.Error()
				return
			}
			if err := hs.Write(st); err != nil {
				res.Err = "hist write: " + err.Error()
				return
			}
			if err := hs.Close(); err != nil {
				res.Err = "hist close: " + err.Error()
				return
			}
		}
		if d.Live != "" {
			if err := e.setLive(d.Name, d.Live); err != nil {
				res.Err = "live: " + err.Error()
				return
			}
		}
	}
	res.Init = e.dump()

	for _, op := range c.Ops {
		var so stepOut
		switch op.Op {
		case "live":
			if err := e.setLive(op.Dag, op.Req); err != nil {
				res.Err = "live: " + err.Error()
				return
			}
		case "post":
			nArgv := len(e.argv())
			body := dags.PostDagActionBody{Action: op.Action, Value: op.Value, RequestID: op.RequestID, Step: op.Step, Params: op.Params}
			rec := httptest.NewRecorder()
			if op.Via == "http" {
				jb, _ := json.Marshal(body)
				req := httptest.NewRequest("POST", "/api/v1/dags/"+op.Dag, bytes.NewReader(jb))
				req.Header.Set("Content-Type", "application/json")
				req.Header.Set("Accept", "application/json")
				httpHandler.ServeHTTP(rec, req)
			} else {
				params := dags.PostDagActionParams{HTTPRequest: httptest.NewRequest("POST", "/api/v1/dags/"+op.Dag, nil), Body: body, DagID: op.Dag}
				api.DagsPostDagActionHandler.Handle(params).WriteResponse(rec, runtime.JSONProducer())
			}
			so.Code = rec.Code
			rb, _ := io.ReadAll(rec.Body)
			var m map[string]any
			if json.Unmarshal(rb, &m) == nil {
				for k, v := range m {
					if strings.EqualFold(k, "newDagID") {
						so.NewDagID, _ = v.(string)
					}
				}
			}
			if so.Code == 200 && op.Action != nil && *op.Action == "start" {
				// StartAsync: wait for the stub to have been executed
				for i := 0; i < 600 && len(e.argv()) == nArgv; i++ {
					time.Sleep(5 * time.Millisecond)
				}
			}
		}
		so.Dump = e.dump()
		res.Steps = append(res.Steps, so)
	}
	return
}
