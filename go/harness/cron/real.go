//go:build verif

// "real" cases of the cron harness: the daemon's start / stop guards answered by the REAL client
// (client.New over the real data stores: jsondb history written through the real store by a separate
// store instance = the agent process, real flag store) — no agent socket exists for any DAG.  The real
// scheduler.New → entry reader → jobImpl.Start/Stop run for ONE tick at the current wall-clock minute
// (jsondb's "today" is the wall clock's); a thin wrapper around the real client records which of
// Start/Stop/Restart the jobs reach, Start is passed on to the real client with a stub executable that
// records its argv.  No logic of its own beyond laying down the situation and reading back.
package main

import (
	"encoding/json"
	"fmt"
	"os"
	"os/exec"
	"path/filepath"
	"sort"
	"strings"
	"sync"
	"syscall"
	"time"

	"github.com/ErdemOzgen/blackdagger/internal/client"
	"github.com/ErdemOzgen/blackdagger/internal/config"
	"github.com/ErdemOzgen/blackdagger/internal/dag"
	dagscheduler "github.com/ErdemOzgen/blackdagger/internal/dag/scheduler"
	dsclient "github.com/ErdemOzgen/blackdagger/internal/persistence/client"
	"github.com/ErdemOzgen/blackdagger/internal/persistence/jsondb"
	"github.com/ErdemOzgen/blackdagger/internal/persistence/model"
	"github.com/ErdemOzgen/blackdagger/internal/scheduler"
)

type realRun struct {
	Ago    int64  `json:"ago"`    // the run started `ago` seconds before the case's now; -1: at the first second of the tick's minute
	Status string `json:"status"` // last record: running | finished | failed | canceled | none
	Pid    string `json:"pid"`    // recorded pid: dead | self | init | zero
	Big    int    `json:"big"`    // > 0: the record carries that many bytes of parameters (one JSON line beyond the size)
}

type realSit struct {
	Name string    `json:"name"`
	Susp bool      `json:"susp"`
	Runs []realRun `json:"runs"` // oldest first
}

type realSpec struct {
	LatestToday bool      `json:"ltoday"`
	Sits        []realSit `json:"sits"`
}

// recordingClient is the real client; only the three requests a job can issue are noted on the way through.
type recordingClient struct {
	client.Client
	mu    sync.Mutex
	calls map[string][]string
}

func (c *recordingClient) note(kind string, w *dag.DAG) {
	c.mu.Lock()
	c.calls[fidOf(w)] = append(c.calls[fidOf(w)], kind)
	c.mu.Unlock()
}
func (c *recordingClient) Start(w *dag.DAG, o client.StartOptions) error {
	c.note("S", w)
	return c.Client.Start(w, o) // the stub executable records its argv
}
func (c *recordingClient) Stop(w *dag.DAG) error {
	c.note("T", w)
	return c.Client.Stop(w) // no socket: fails at once
}
func (c *recordingClient) Restart(w *dag.DAG, o client.RestartOptions) error {
	c.note("R", w)
	return nil
}

// deadPid: the pid of a child that has exited and been reaped.
func deadPid() int {
	for i := 0; i < 20; i++ {
		cmd := exec.Command("/bin/true")
		if cmd.Start() != nil {
			continue
		}
		pid := cmd.Process.Pid
		_ = cmd.Wait()
		if err := syscall.Kill(pid, 0); err == syscall.ESRCH {
			return pid
		}
	}
	return 0x3ffffe
}

func realCase(c kase) {
	var spec realSpec
	if err := json.Unmarshal(c.Real, &spec); err != nil {
		say("%s real {\"error\":%q}", c.ID, err.Error())
		return
	}
	root, err := os.MkdirTemp("", "verif-cronreal-")
	if err != nil {
		panic(err)
	}
	defer os.RemoveAll(root)
	dagsDir, dataDir, flagsDir := filepath.Join(root, "dags"), filepath.Join(root, "data"), filepath.Join(root, "suspend")
	_ = os.MkdirAll(dagsDir, 0o755)
	_ = os.MkdirAll(flagsDir, 0o755)
	callsFile := filepath.Join(root, "argv.log")
	exe := filepath.Join(root, "stub.sh")
	_ = os.WriteFile(exe, []byte("#!/bin/sh\necho \"$@\" >> "+callsFile+"\n"), 0o755)

	now := time.Now().UTC().Truncate(time.Second)
	if now.Second() >= 55 { // keep the whole case inside one wall-clock minute
		time.Sleep(time.Duration(61-now.Second()) * time.Second)
		now = time.Now().UTC().Truncate(time.Second)
	}
	m := now.Truncate(time.Minute)
	dead := deadPid()

	type sitOut struct {
		Name     string   `json:"name"`
		Calls    []string `json:"calls"`
		Argv     []string `json:"argv"`
		Status   string   `json:"status"`
		Pid      int      `json:"pid"`
		Started  string   `json:"started"`
		Err      string   `json:"err"`
		Sock     bool     `json:"sock"`
		Runs     []int64  `json:"runs"` // start of each laid-down run, Unix seconds
		Bytes    []int    `json:"bytes"`
		LaidErr  string   `json:"laid_err"`
		CloseErr string   `json:"close_err"`
	}
	outs := make([]*sitOut, len(spec.Sits))
	wfs := make([]*dag.DAG, len(spec.Sits))
	for i, s := range spec.Sits {
		o := &sitOut{Name: s.Name, Calls: []string{}, Argv: []string{}, Runs: []int64{}, Bytes: []int{}}
		outs[i] = o
		file := filepath.Join(dagsDir, fmt.Sprintf("d%d.yaml", i+1))
		_ = os.WriteFile(file, []byte("schedule:\n  start: \"* * * * *\"\n  stop: \"* * * * *\"\nsteps:\n  - name: a\n    command: \"true\"\n"), 0o644)
		wf, err := dag.LoadMetadata(file)
		if err != nil {
			o.LaidErr = err.Error()
			continue
		}
		wfs[i] = wf
		for k, r := range s.Runs {
			start := now.Add(-time.Duration(r.Ago) * time.Second)
			if r.Ago < 0 {
				start = m
			}
			pid := map[string]int{"dead": dead, "self": os.Getpid(), "init": 1, "zero": 0}[r.Pid]
			st := model.NewStatus(wf, nil, dagscheduler.StatusRunning, pid, &start, nil)
			st.RequestID = fmt.Sprintf("real-%d-%d", i+1, k)
			if r.Big > 0 {
				st.Params = strings.Repeat("p", r.Big)
			}
			agent := jsondb.New(dataDir, true) // the agent was another process: a store of its own
			if err := agent.Open(wf.Location, start, st.RequestID); err != nil {
				o.LaidErr = err.Error()
				break
			}
			if err := agent.Write(st); err != nil {
				o.LaidErr = err.Error()
			}
			fin := map[string]dagscheduler.Status{"finished": dagscheduler.StatusSuccess, "failed": dagscheduler.StatusError,
				"canceled": dagscheduler.StatusCancel, "none": dagscheduler.StatusNone}
			if f, ok := fin[r.Status]; ok {
				end := start.Add(2 * time.Second)
				st.Status, st.StatusText = f, f.String()
				st.FinishedAt = model.NewStatus(wf, nil, f, pid, &start, &end).FinishedAt
				if err := agent.Write(st); err != nil {
					o.LaidErr = err.Error()
				}
				if err := agent.Close(); err != nil {
					o.CloseErr = err.Error() // the agent only logs this; the records are in the file
				}
			} // running: the agent died hard — nothing more is written, the file is never closed
			js, _ := st.ToJSON()
			o.Runs = append(o.Runs, start.Unix())
			o.Bytes = append(o.Bytes, len(js))
		}
		_, statErr := os.Stat(wf.SockAddr())
		o.Sock = statErr == nil
	}

	// the daemon, wired as cmd/scheduler.go wires it
	cfg := &config.Config{DAGs: dagsDir, DataDir: dataDir, SuspendFlagsDir: flagsDir, WorkDir: root, Executable: exe,
		LogDir: filepath.Join(root, "logs"), LatestStatusToday: spec.LatestToday}
	ds := dsclient.NewDataStores(cfg.DAGs, cfg.DataDir, cfg.SuspendFlagsDir, dsclient.DataStoreOptions{LatestStatusToday: cfg.LatestStatusToday})
	lg := &countLogger{}
	cli := &recordingClient{Client: client.New(ds, cfg.Executable, cfg.WorkDir, lg), calls: map[string][]string{}}
	for i, s := range spec.Sits {
		if s.Susp {
			_ = cli.ToggleSuspend(fmt.Sprintf("d%d", i+1), true) // the real flag store, by file id
		}
	}
	scheduler.VerifSetClock(now)
	defer scheduler.VerifSetClock(time.Time{})
	sch := scheduler.New(cfg, lg, cli)
	drained := scheduler.VerifTick(sch, m, 10*time.Millisecond, 8*time.Second)

	// what the daemon's guards were told (asked again after the tick; nothing changed in between)
	for i := range spec.Sits {
		o := outs[i]
		if wfs[i] == nil {
			continue
		}
		st, err := cli.GetLatestStatus(wfs[i])
		if err != nil {
			o.Err = err.Error()
		}
		if st != nil {
			o.Status, o.Pid, o.Started = st.Status.String(), int(st.PID), st.StartedAt
		}
		cli.mu.Lock()
		o.Calls = append(o.Calls, cli.calls[fmt.Sprintf("%d", i+1)]...)
		cli.mu.Unlock()
		sort.Strings(o.Calls)
	}
	if b, err := os.ReadFile(callsFile); err == nil {
		for _, l := range strings.Split(strings.TrimSpace(string(b)), "\n") {
			for i := range spec.Sits {
				if strings.HasSuffix(l, fmt.Sprintf("/d%d.yaml", i+1)) {
					outs[i].Argv = append(outs[i].Argv, strings.Replace(l, dagsDir+"/", "", 1))
				}
			}
		}
	}
	res, _ := json.Marshal(map[string]any{"now": now.Unix(), "minute": m.Unix(), "end": time.Now().Unix(), "drained": drained,
		"dead_pid": dead, "self_pid": os.Getpid(), "sits": outs})
	say("%s real %s", c.ID, res)
}
