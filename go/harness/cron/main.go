//go:build verif

// Cron-area harness: drives the REAL daemon code of internal/scheduler (New → newEntryReader/initDags →
// real dag.LoadMetadata over real files; run(t) per tick through the hook; the real loop start() for tick
// sequences; the real directory watcher) with a recording fake client.Client whose status answers are
// scripted per DAG per tick, a real flag store for suspension and a fixed clock.  A second stream asks
// robfig/cron's parser and Next directly.  One JSON case per line in; one line per observation out.
package main

import (
	"bufio"
	"encoding/hex"
	"encoding/json"
	"errors"
	"fmt"
	"os"
	"path/filepath"
	"sort"
	"strconv"
	"strings"
	"sync"
	"sync/atomic"
	"time"

	"github.com/ErdemOzgen/blackdagger/internal/client"
	"github.com/ErdemOzgen/blackdagger/internal/config"
	"github.com/ErdemOzgen/blackdagger/internal/dag"
	dagscheduler "github.com/ErdemOzgen/blackdagger/internal/dag/scheduler"
	"github.com/ErdemOzgen/blackdagger/internal/frontend/gen/restapi/operations/dags"
	"github.com/ErdemOzgen/blackdagger/internal/logger"
	"github.com/ErdemOzgen/blackdagger/internal/persistence"
	"github.com/ErdemOzgen/blackdagger/internal/persistence/local"
	"github.com/ErdemOzgen/blackdagger/internal/persistence/local/storage"
	"github.com/ErdemOzgen/blackdagger/internal/persistence/model"
	"github.com/ErdemOzgen/blackdagger/internal/scheduler"
	"github.com/robfig/cron/v3"
)

var out *bufio.Writer

func say(format string, a ...any) {
	fmt.Fprintf(out, format+"\n", a...)
	out.Flush()
}

// ------------------------------------------------------------------ logger that counts watcher events

type countLogger struct{ events atomic.Int64 }

func (l *countLogger) note(msg string) {
	switch msg {
	case "Workflow load failed", "Workflow added/updated", "Workflow removed":
		l.events.Add(1)
	}
}
func (l *countLogger) Debug(msg string, tags ...any)       {}
func (l *countLogger) Info(msg string, tags ...any)        { l.note(msg) }
func (l *countLogger) Warn(msg string, tags ...any)        {}
func (l *countLogger) Error(msg string, tags ...any)       { l.note(msg) }
func (l *countLogger) Fatal(msg string, tags ...any)       {}
func (l *countLogger) Debugf(format string, v ...any)      {}
func (l *countLogger) Infof(format string, v ...any)       {}
func (l *countLogger) Warnf(format string, v ...any)       {}
func (l *countLogger) Errorf(format string, v ...any)      {}
func (l *countLogger) Fatalf(format string, v ...any)      {}
func (l *countLogger) With(attrs ...any) logger.Logger     { return l }
func (l *countLogger) WithGroup(name string) logger.Logger { return l }
func (l *countLogger) Write(string)                        {}

// ------------------------------------------------------------------ recording fake client

type fakeClient struct {
	mu     sync.Mutex
	flags  persistence.FlagStore
	script map[string]string // file base name -> status code for the current tick
	calls  []string
}

func fidOf(w *dag.DAG) string {
	b := filepath.Base(w.Location)
	return strings.TrimPrefix(strings.TrimSuffix(b, filepath.Ext(b)), "d")
}

func (c *fakeClient) record(kind string, w *dag.DAG) {
	c.mu.Lock()
	c.calls = append(c.calls, kind+fidOf(w))
	c.mu.Unlock()
}

func (c *fakeClient) GetLatestStatus(w *dag.DAG) (*model.Status, error) {
	c.mu.Lock()
	code := c.script[fidOf(w)]
	c.mu.Unlock()
	st := model.NewStatusDefault(w) // Status none, StartedAt ""
	parts := strings.Split(code, ":")
	fmtT := func(s string, legacy bool) string {
		sec, _ := strconv.ParseInt(s, 10, 64)
		if legacy {
			return time.Unix(sec, 0).UTC().Format("2006-01-02 15:04:05")
		}
		return time.Unix(sec, 0).UTC().Format(time.RFC3339)
	}
	switch parts[0] {
	case "", "n":
	case "z":
		st.StartedAt = "-"
		st.Status = dagscheduler.StatusSuccess
	case "e":
		return st, errors.New("scripted status error")
	case "r":
		st.Status = dagscheduler.StatusRunning
		st.StartedAt = fmtT(parts[1], false)
	case "f":
		st.Status = dagscheduler.StatusSuccess
		st.StartedAt = fmtT(parts[1], false)
	case "c": // stopped: the latest run ended canceled
		st.Status = dagscheduler.StatusCancel
		st.StartedAt = fmtT(parts[1], false)
	case "o": // a start time but no final label (status none)
		st.Status = dagscheduler.StatusNone
		st.StartedAt = fmtT(parts[1], false)
	case "x": // finished with error, legacy time format
		st.Status = dagscheduler.StatusError
		st.StartedAt = fmtT(parts[1], true)
	}
	st.StatusText = st.Status.String()
	return st, nil
}
func (c *fakeClient) Start(w *dag.DAG, _ client.StartOptions) error     { c.record("S", w); return nil }
func (c *fakeClient) Stop(w *dag.DAG) error                             { c.record("T", w); return nil }
func (c *fakeClient) Restart(w *dag.DAG, _ client.RestartOptions) error { c.record("R", w); return nil }
func (c *fakeClient) IsSuspended(id string) bool                        { return c.flags.IsSuspended(id) }
func (c *fakeClient) ToggleSuspend(id string, s bool) error             { return c.flags.ToggleSuspend(id, s) }

func (c *fakeClient) CreateDAG(string) (string, error)  { return "", errors.New("n/a") }
func (c *fakeClient) GetDAGSpec(string) (string, error) { return "", errors.New("n/a") }
func (c *fakeClient) Grep(string) ([]*persistence.GrepResult, []string, error) {
	return nil, nil, errors.New("n/a")
}
func (c *fakeClient) Rename(string, string) error                  { return errors.New("n/a") }
func (c *fakeClient) StartAsync(w *dag.DAG, _ client.StartOptions) { c.record("A", w) }
func (c *fakeClient) Retry(w *dag.DAG, _ string) error             { c.record("Y", w); return nil }
func (c *fakeClient) GetCurrentStatus(w *dag.DAG) (*model.Status, error) {
	return c.GetLatestStatus(w)
}
func (c *fakeClient) GetStatusByRequestID(*dag.DAG, string) (*model.Status, error) {
	return nil, errors.New("n/a")
}
func (c *fakeClient) GetRecentHistory(*dag.DAG, int) []*model.StatusFile { return nil }
func (c *fakeClient) UpdateStatus(*dag.DAG, *model.Status) error         { return errors.New("n/a") }
func (c *fakeClient) UpdateDAG(string, string) error                     { return errors.New("n/a") }
func (c *fakeClient) DeleteDAG(string, string) error                     { return errors.New("n/a") }
func (c *fakeClient) GetAllStatus() ([]*client.DAGStatus, []string, error) {
	return nil, nil, errors.New("n/a")
}
func (c *fakeClient) GetAllStatusPagination(dags.ListDagsParams) ([]*client.DAGStatus, *client.DagListPaginationSummaryResult, error) {
	return nil, nil, errors.New("n/a")
}
func (c *fakeClient) GetStatus(string) (*client.DAGStatus, error) { return nil, errors.New("n/a") }
func (c *fakeClient) GetTagList() ([]string, []string, error)     { return nil, nil, errors.New("n/a") }

var _ client.Client = (*fakeClient)(nil)

// ------------------------------------------------------------------ cases

type op struct {
	Op   string            `json:"op"`
	Fid  int               `json:"fid"`
	Yaml string            `json:"yaml"` // hex of the file content
	Now0 int64             `json:"now0"`
	Kind string            `json:"kind"`
	Late int64             `json:"late"` // how far the wall clock is past the tick when it runs (late / bunched ticks)
	Susp []int             `json:"susp"`
	St   map[string]string `json:"st"`
}

type kase struct {
	K    string          `json:"k"`
	ID   string          `json:"id"`
	Min  int64           `json:"min"`
	Sec  int64           `json:"sec"`
	Day  int64           `json:"day"`
	Spec string          `json:"spec"`
	Now0 int64           `json:"now0"`
	Nows []int64         `json:"nows"`
	Ops  []op            `json:"ops"`
	Real json.RawMessage `json:"real"` // k = "real": see real.go
}

var cronParser = cron.NewParser(cron.Minute | cron.Hour | cron.Dom | cron.Month | cron.Dow) // = internal/dag/parser.go

func unhex(s string) string {
	b, _ := hex.DecodeString(s)
	return string(b)
}

func parseSpec(spec string) (s cron.Schedule, res string) {
	defer func() {
		if r := recover(); r != nil {
			s, res = nil, "panic"
		}
	}()
	p, err := cronParser.Parse(spec)
	if err != nil {
		return nil, "err"
	}
	return p, "ok"
}

func specCase(c kase) {
	s, res := parseSpec(unhex(c.Spec))
	if res != "ok" {
		say("%s %s", c.ID, res)
		return
	}
	ss, ok := s.(*cron.SpecSchedule)
	if !ok {
		say("%s other", c.ID)
		return
	}
	if ss.Location != time.Local && ss.Location != time.UTC {
		say("%s zone", c.ID)
		return
	}
	t := time.Unix(c.Min*60, 0).UTC()
	fires := 0
	if ss.Next(t.Add(-time.Second)).Equal(t) {
		fires = 1
	}
	say("%s ok %d %d %d %d %d %d", c.ID, ss.Minute, ss.Hour, ss.Dom, ss.Month, ss.Dow, fires)
}

func nextCase(c kase) {
	s, res := parseSpec(unhex(c.Spec))
	if res != "ok" {
		say("%s noparse", c.ID)
		return
	}
	t := time.Unix(c.Sec, 0).UTC()
	var outs []string
	dead := false
	for i := 0; i < 3; i++ {
		if dead {
			outs = append(outs, "0")
			continue
		}
		n := s.Next(t)
		if n.IsZero() {
			dead = true
			outs = append(outs, "0")
			continue
		}
		outs = append(outs, strconv.FormatInt(n.Unix(), 10))
		t = n
	}
	say("%s %s", c.ID, strings.Join(outs, " "))
}

func civilCase(c kase) {
	t := time.Unix(c.Day*86400, 0).UTC()
	say("%s %d %d %d %d", c.ID, t.Year(), int(t.Month()), t.Day(), int(t.Weekday()))
}

// ------------------------------------------------------------------ daemon

type daemon struct {
	dir, flagDir string
	cli          *fakeClient
	lg           *countLogger
	s            *scheduler.Scheduler
	done         chan any
	t            time.Time
	alive        bool
}

func newDaemonDirs() (*daemon, func()) {
	root, err := os.MkdirTemp("", "verif-cron-")
	if err != nil {
		panic(err)
	}
	d := &daemon{dir: filepath.Join(root, "dags"), flagDir: filepath.Join(root, "suspend")}
	_ = os.MkdirAll(d.dir, 0o755)
	_ = os.MkdirAll(d.flagDir, 0o755)
	d.lg = &countLogger{}
	d.cli = &fakeClient{flags: local.NewFlagStore(storage.NewStorage(d.flagDir)), script: map[string]string{}}
	return d, func() {
		if d.done != nil {
			close(d.done)
			d.done = nil
		}
		_ = os.RemoveAll(root)
	}
}

func (d *daemon) fileName(fid int) string { return filepath.Join(d.dir, fmt.Sprintf("d%d.yaml", fid)) }

func (d *daemon) writeAtomically(fid int, content []byte) {
	tmp := filepath.Join(d.dir, fmt.Sprintf("d%d.tmp", fid))
	_ = os.WriteFile(tmp, content, 0o644)
	_ = os.Rename(tmp, d.fileName(fid))
}

func (d *daemon) boot(now0 int64) (res string) {
	if d.done != nil {
		close(d.done)
		d.done = nil
		time.Sleep(2 * time.Millisecond)
	}
	d.alive = false
	defer func() {
		if r := recover(); r != nil {
			res = "boot dead"
		}
	}()
	now := time.Unix(now0, 0).UTC()
	scheduler.VerifSetClock(now)
	cfg := &config.Config{DAGs: d.dir, WorkDir: d.dir, LogDir: d.dir, Executable: "/bin/false"}
	d.s = scheduler.New(cfg, d.lg, d.cli) // newEntryReader → initDags → dag.LoadMetadata per file
	d.done = make(chan any)
	scheduler.VerifStartWatcher(d.s, d.done)
	time.Sleep(5 * time.Millisecond)                 // let the watcher register the directory
	d.t = scheduler.VerifNow().Truncate(time.Minute) // first line of start()
	d.alive = true
	var names []string
	for _, n := range scheduler.VerifLoaded(d.s) {
		names = append(names, strings.TrimPrefix(strings.TrimSuffix(n, ".yaml"), "d"))
	}
	sort.Strings(names)
	if len(names) == 0 {
		return "boot ok -"
	}
	return "boot ok " + strings.Join(names, ",")
}

func (d *daemon) waitEvent(before int64) bool {
	deadline := time.Now().Add(1500 * time.Millisecond)
	for time.Now().Before(deadline) {
		if d.lg.events.Load() > before {
			return true
		}
		time.Sleep(200 * time.Microsecond)
	}
	return false
}

func (d *daemon) tick(o op) string {
	// suspension through the real flag store
	want := map[string]bool{}
	for _, f := range o.Susp {
		want[fmt.Sprintf("d%d", f)] = true
	}
	ents, _ := os.ReadDir(d.flagDir)
	for _, e := range ents {
		id := strings.TrimSuffix(e.Name(), ".suspend")
		if !want[id] {
			_ = d.cli.ToggleSuspend(id, false)
		}
	}
	for id := range want {
		_ = d.cli.ToggleSuspend(id, true)
	}
	d.cli.mu.Lock()
	d.cli.script = o.St
	if d.cli.script == nil {
		d.cli.script = map[string]string{}
	}
	d.cli.calls = nil
	d.cli.mu.Unlock()
	scheduler.VerifSetClock(d.t.Add(time.Duration(o.Late)*time.Second + 137*time.Millisecond))
	drained := scheduler.VerifTick(d.s, d.t, 10*time.Millisecond, 3*time.Second) // the real run(t): Read(t-1s), sort, invoke in goroutines
	d.cli.mu.Lock()
	calls := append([]string(nil), d.cli.calls...)
	d.cli.mu.Unlock()
	sort.Strings(calls)
	res := fmt.Sprintf("tick %d ", d.t.Unix())
	if len(calls) == 0 {
		res += "-"
	} else {
		res += strings.Join(calls, " ")
	}
	if !drained {
		res += " !drain-timeout"
	}
	d.t = scheduler.VerifNextTick(d.s, d.t)
	return res
}

func simCase(c kase) {
	d, cleanup := newDaemonDirs()
	defer cleanup()
	staged := map[int][]byte{}
	for _, o := range c.Ops {
		switch o.Op {
		case "file":
			b, _ := hex.DecodeString(o.Yaml)
			staged[o.Fid] = b
		case "rm":
			delete(staged, o.Fid)
		case "boot":
			// make the directory equal to the staged files
			ents, _ := os.ReadDir(d.dir)
			for _, e := range ents {
				_ = os.Remove(filepath.Join(d.dir, e.Name()))
			}
			for fid, b := range staged {
				_ = os.WriteFile(d.fileName(fid), b, 0o644)
			}
			say("%s %s", c.ID, d.boot(o.Now0))
		case "ev":
			if !d.alive {
				say("%s ev dead", c.ID)
				continue
			}
			// a panic in the watcher goroutine kills this process: the check treats missing lines as dead
			ok := false
			for attempt := 0; attempt < 3 && !ok; attempt++ {
				before := d.lg.events.Load()
				if o.Kind == "write" {
					d.writeAtomically(o.Fid, staged[o.Fid]) // idempotent: a lost event is provoked again
				} else {
					_ = os.Remove(d.fileName(o.Fid))
				}
				ok = d.waitEvent(before)
			}
			if ok {
				say("%s ev ok", c.ID)
			} else {
				say("%s ev timeout", c.ID)
			}
		case "tick":
			if !d.alive {
				say("%s tick dead", c.ID)
				continue
			}
			say("%s %s", c.ID, d.tick(o))
		}
	}
}

// ticksCase runs the REAL loop start() with a scripted clock: nows[k] is what now() answers when the
// loop re-arms its timer after the k-th tick (every reading is at or after the next tick: late / bunched
// ticks fire at once, so no real waiting is involved).
func ticksCase(c kase) {
	d, cleanup := newDaemonDirs()
	defer cleanup()
	scheduler.VerifSetClock(time.Unix(c.Now0, 0).UTC())
	cfg := &config.Config{DAGs: d.dir, WorkDir: d.dir, LogDir: d.dir, Executable: "/bin/false"}
	s := scheduler.New(cfg, d.lg, d.cli)
	var ticks []string
	k := 0
	finished := make(chan struct{})
	go func() {
		defer close(finished)
		scheduler.VerifLoop(s, func(read time.Time) {
			ticks = append(ticks, strconv.FormatInt(read.Add(time.Second).Unix(), 10))
			if k < len(c.Nows) {
				scheduler.VerifSetClock(time.Unix(c.Nows[k], 0).UTC())
			}
			k++
			if k >= len(c.Nows) {
				// last scripted iteration: park the clock far in the past (timer waits for hours), then stop
				scheduler.VerifSetClock(read.Add(-10000 * time.Hour))
				go s.Stop()
			}
		})
	}()
	select {
	case <-finished:
	case <-time.After(10 * time.Second):
		say("%s timeout %s", c.ID, strings.Join(ticks, " "))
		return
	}
	say("%s %s", c.ID, strings.Join(ticks, " "))
}

func runCase(c kase) {
	defer func() {
		if r := recover(); r != nil {
			say("%s harness-panic %v", c.ID, r)
		}
	}()
	switch c.K {
	case "spec":
		specCase(c)
	case "next":
		nextCase(c)
	case "civil":
		civilCase(c)
	case "ticks":
		ticksCase(c)
	case "sim":
		simCase(c)
	case "real":
		realCase(c)
	default:
		say("%s bad-kind", c.ID)
	}
}

func main() {
	time.Local = time.UTC // the property is stated for UTC
	in := bufio.NewReaderSize(os.Stdin, 1<<22)
	out = bufio.NewWriterSize(os.Stdout, 1<<16)
	defer out.Flush()
	for {
		line, err := in.ReadBytes('\n')
		if len(line) > 1 {
			var c kase
			if e := json.Unmarshal(line, &c); e != nil {
				fmt.Fprintln(os.Stderr, "bad case", e)
				os.Exit(2)
			}
			runCase(c)
		}
		if err != nil {
			break
		}
	}
	scheduler.VerifSetClock(time.Time{})
}
