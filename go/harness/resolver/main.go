//go:build verif

// Configuration resolver: what the REAL config.Load() answers in a given process environment / home directory.
// One JSON case per line on stdin:
//
//	{"id": n, "env": {"HOME": "H", "BLACKDAGGER_HOME": "H/bdhome", ...}, "dirs": ["H/.blackdagger", ...],
//	 "config_file": "H/flagdir/admin.yaml" (optional: what cmd/root.go stores in config.ConfigFile for `--config FILE`),
//	 "files": {"H/.blackdagger/config.yaml": "baseConfig: %H%/custom/base.yaml\n"}}
//
// A leading component `H` of a path (and `%H%` in a file's text) is the private temporary home of the case. The resolver
// reads the process environment and viper is global state, so every case is answered by a CHILD process (this binary with
// the argument `child`) whose environment is exactly PATH + the case's variables. One answer line per case:
//
//	<id> <cfg.BaseConfig> <cfg.DAGs>         (the temporary home written `H` again; `=` for the empty string)
//	<id> ERR <message>
package main

import (
	"bufio"
	"encoding/json"
	"fmt"
	"os"
	"os/exec"
	"path/filepath"
	"strings"

	"github.com/ErdemOzgen/blackdagger/internal/config"
)

type tcase struct {
	ID    int               `json:"id"`
	Env   map[string]string `json:"env"`
	Dirs  []string          `json:"dirs"`
	Files map[string]string `json:"files"`
	CfgF  string            `json:"config_file"`
}

func child() {
	defer func() {
		if r := recover(); r != nil {
			fmt.Printf("ERR panic %v\n", r)
		}
	}()
	config.ConfigFile = os.Getenv("VERIF_CONFIG_FILE")
	os.Unsetenv("VERIF_CONFIG_FILE")
	cfg, err := config.Load()
	if err != nil {
		fmt.Printf("ERR %s\n", strings.ReplaceAll(err.Error(), "\n", " "))
		return
	}
	fmt.Printf("OK\t%s\t%s\n", cfg.BaseConfig, cfg.DAGs)
}

func abs(home, p string) string {
	if p == "H" {
		return home
	}
	if strings.HasPrefix(p, "H/") {
		return filepath.Join(home, p[2:])
	}
	return p
}

func rel(home, p string) string {
	if p == "" {
		return "="
	}
	if p == home {
		return "H"
	}
	if strings.HasPrefix(p, home+"/") {
		return "H" + p[len(home):]
	}
	return p
}

func one(self string, c tcase) (res string) {
	defer func() {
		if r := recover(); r != nil {
			res = fmt.Sprintf("ERR panic %v", r)
		}
	}()
	home, err := os.MkdirTemp("", "verif-resolver-")
	if err != nil {
		return "ERR " + err.Error()
	}
	defer os.RemoveAll(home)
	if h, err := filepath.EvalSymlinks(home); err == nil {
		home = h
	}
	for _, d := range c.Dirs {
		if err := os.MkdirAll(abs(home, d), 0o755); err != nil {
			return "ERR " + err.Error()
		}
	}
	for f, text := range c.Files {
		p := abs(home, f)
		if err := os.MkdirAll(filepath.Dir(p), 0o755); err != nil {
			return "ERR " + err.Error()
		}
		if err := os.WriteFile(p, []byte(strings.ReplaceAll(text, "%H%", home)), 0o644); err != nil {
			return "ERR " + err.Error()
		}
	}
	cmd := exec.Command(self, "child")
	cmd.Dir = home
	cmd.Env = []string{"PATH=" + os.Getenv("PATH")}
	for k, v := range c.Env {
		cmd.Env = append(cmd.Env, k+"="+abs(home, v))
	}
	if c.CfgF != "" {
		cmd.Env = append(cmd.Env, "VERIF_CONFIG_FILE="+abs(home, c.CfgF))
	}
	out, err := cmd.Output()
	if err != nil {
		return "ERR child: " + err.Error()
	}
	for _, l := range strings.Split(string(out), "\n") {
		if strings.HasPrefix(l, "OK\t") {
			f := strings.Split(l, "\t")
			if len(f) == 3 {
				return rel(home, f[1]) + " " + rel(home, f[2])
			}
		}
		if strings.HasPrefix(l, "ERR ") {
			return l
		}
	}
	return "ERR no answer: " + strings.ReplaceAll(string(out), "\n", " ")
}

func main() {
	if len(os.Args) > 1 && os.Args[1] == "child" {
		child()
		return
	}
	self, err := os.Executable()
	if err != nil {
		fmt.Println("ERR", err)
		os.Exit(2)
	}
	in := bufio.NewReaderSize(os.Stdin, 1<<20)
	w := bufio.NewWriter(os.Stdout)
	defer w.Flush()
	for {
		line, err := in.ReadString('\n')
		if strings.TrimSpace(line) != "" {
			var c tcase
			if e := json.Unmarshal([]byte(line), &c); e != nil {
				fmt.Fprintf(w, "-1 ERR bad case %v\n", e)
			} else {
				fmt.Fprintf(w, "%d %s\n", c.ID, one(self, c))
			}
			w.Flush()
		}
		if err != nil {
			return
		}
	}
}
