//go:build verif

// Params-area harness (C11).  One JSON case per line on stdin, one JSON result per line on stdout.
//
//	mode "static": the REAL parameter code on one string: parseParamValue (hook), LoadYAML (default
//	               params, no evaluation), Load(base, file, params) (params given at start, evaluating),
//	               model.Params (the recorded string), removeQuotes / escapeArg (hooks).
//	mode "dyn"   : a DAG run by the REAL command line of package cmd (`start`, then `retry --req`, optionally `restart`, each in
//	               a process of its own through the cmd hook VerifExecute = rootCmd.Execute) with real `sh` steps; the
//	               values seen by real child processes at every consumer position (adjacent step, distant
//	               step, handlers, and a later retry of the run built exactly as cmd/retry.go builds it)
//	               are read back from probe files.  Every dyn case runs in a fresh child process of this
//	               binary under a timeout (a step that never ends is reported as "timeout").
//	mode "dyn" with "kill": "KILL"|"TERM" (runKilled): producer -> [consumers] -> blocker -> consumers; the real `start` process is
//	               SIGKILLed (or SIGTERMed: control) from outside as soon as the history RECORDS the producer as finished and the
//	               blocker runs; its step processes are killed too; then the real `retry --req=<id>` in a fresh process.
//	--probe <pos> <dir> : internal; the consumer-position probe: dumps its environment to a file.
package main

import (
	"bufio"
	"bytes"
	"encoding/hex"
	"encoding/json"
	"fmt"
	"os"
	"os/exec"
	"path/filepath"
	"sort"
	"strconv"
	"strings"
	"sync"
	"syscall"
	"time"

	"github.com/ErdemOzgen/blackdagger/cmd"
	"github.com/ErdemOzgen/blackdagger/internal/client"
	"github.com/ErdemOzgen/blackdagger/internal/dag"
	"github.com/ErdemOzgen/blackdagger/internal/logger"
	dsclient "github.com/ErdemOzgen/blackdagger/internal/persistence/client"
	"github.com/ErdemOzgen/blackdagger/internal/persistence/model"
)

type pcase struct {
	ID   string `json:"id"`
	Mode string `json:"mode"`
	// static
	P      string `json:"p"`      // hex of the parameter string
	EvalOK bool   `json:"evalok"` // no '`' / '$' inside: the evaluating Load may be called
	// dyn
	Params    string   `json:"params"`  // hex: `params:` of the DAG (default parameters)
	Start     string   `json:"start"`   // hex: parameters given at start ("" = none)
	ViaClient bool     `json:"via"`     // wrap as client.Start does ("…" + escapeArg) before removeQuotes
	Out       string   `json:"out"`     // hex: bytes the producer prints on stdout
	ErrOut    string   `json:"errout"`  // hex: bytes the producer prints on stderr
	OutName   string     `json:"outname"` // name of the producer's output variable (default OUT)
	Envs      [][2]string `json:"envs"`    // DAG-level `env:` entries (name, value)
	PreOut    bool       `json:"preout"`  // an earlier step captures an output under the same name
	Restart   bool       `json:"restart"` // a third leg: `restart` after the retry
	PFails    int      `json:"pfails"`  // the producer's first PFails attempts print something else and exit 1 (retryPolicy limit = PFails)
	Want      []string `json:"want"`    // hex names of the variables to report
	TimeoutMs int      `json:"timeout"` // per run of the child
	// dyn, "killed run, then retry" leg (runKilled): the `start` process is ended from outside once the producer is RECORDED finished
	Kill      string `json:"kill"`      // "" = the ordinary legs; "KILL" = SIGKILL (no final record is written); "TERM" = SIGTERM (an orderly stop: control)
	KillEarly bool   `json:"killearly"` // the blocker follows the producer directly (no consumer finishes in the first run)
	Dir       string   `json:"dir"`     // (internal) scratch directory handed to the child
}

func unhex(s string) string {
	b, _ := hex.DecodeString(s)
	return string(b)
}
func hx(s string) string { return hex.EncodeToString([]byte(s)) }
func hxs(l []string) []string {
	out := make([]string, 0, len(l))
	for _, s := range l {
		out = append(out, hx(s))
	}
	return out
}

var baseEnv []string
var quietLg = logger.NewLogger(logger.NewLoggerArgs{Quiet: true})

func main() {
	if len(os.Args) >= 4 && os.Args[1] == "--probe" {
		probe(os.Args[2], os.Args[3])
		return
	}
	if len(os.Args) >= 4 && os.Args[1] == "--probearg" {
		probeArg(os.Args[2], os.Args[3], os.Args[4:])
		return
	}
	if len(os.Args) >= 2 && os.Args[1] == "--cli" {
		if err := cmd.VerifExecute(os.Args[2:]); err != nil {
			os.Exit(1)
		}
		return
	}
	if len(os.Args) >= 2 && os.Args[1] == "--child" {
		child()
		return
	}
	baseEnv = os.Environ()
	in := bufio.NewReaderSize(os.Stdin, 1<<24)
	out := bufio.NewWriter(os.Stdout)
	var mu sync.Mutex
	emit := func(v any) {
		b, _ := json.Marshal(v)
		mu.Lock()
		out.Write(b)
		out.WriteByte('\n')
		out.Flush()
		mu.Unlock()
	}
	var dyn []pcase
	for {
		line, err := in.ReadBytes('\n')
		if len(bytes.TrimSpace(line)) > 0 {
			var c pcase
			if e := json.Unmarshal(line, &c); e != nil {
				fmt.Fprintln(os.Stderr, "bad case", e)
				os.Exit(2)
			}
			if c.Mode == "dyn" {
				dyn = append(dyn, c)
			} else {
				emit(static(c))
			}
		}
		if err != nil {
			break
		}
	}
	par := 8
	if v, e := strconv.Atoi(os.Getenv("VERIF_PAR")); e == nil && v > 0 && v <= 16 {
		par = v // never more than 16 agent processes at once
	}
	sem := make(chan struct{}, par)
	var wg sync.WaitGroup
	for _, c := range dyn {
		wg.Add(1)
		sem <- struct{}{}
		go func(c pcase) {
			defer func() { <-sem; wg.Done() }()
			emit(runChild(c))
		}(c)
	}
	wg.Wait()
}

// ---------------------------------------------------------------- static

func static(c pcase) (res map[string]any) {
	res = map[string]any{"id": c.ID}
	defer func() {
		if r := recover(); r != nil {
			res["panic"] = fmt.Sprint(r)
		}
	}()
	p := unhex(c.P)
	ps, err := dag.VerifParseParamValue(p, false)
	if err != nil {
		res["err"] = err.Error()
	}
	pairs := [][2]string{}
	strs := []string{}
	for _, q := range ps {
		pairs = append(pairs, [2]string{hx(q[0]), hx(q[1])})
		strs = append(strs, dag.VerifStringifyParam(q[0], q[1]))
	}
	res["pairs"] = pairs
	rec := model.Params(strs)
	res["joined"] = hx(rec)
	ps2, _ := dag.VerifParseParamValue(rec, false)
	pairs2 := [][2]string{}
	for _, q := range ps2 {
		pairs2 = append(pairs2, [2]string{hx(q[0]), hx(q[1])})
	}
	res["repairs"] = pairs2
	res["rq"] = hx(cmd.VerifRemoveQuotes(p))
	// `start -p <p>`: what dag.Load receives from cmd/start.go, parsed
	ps3, _ := dag.VerifParseParamValue(cmd.VerifRemoveQuotes(p), false)
	pairs3 := [][2]string{}
	for _, q := range ps3 {
		pairs3 = append(pairs3, [2]string{hx(q[0]), hx(q[1])})
	}
	res["rq_pairs"] = pairs3
	res["ea"] = hx(client.VerifEscapeArg(p))
	res["via"] = hx(cmd.VerifRemoveQuotes(fmt.Sprintf(`"%s"`, client.VerifEscapeArg(p))))
	// default parameters through the YAML loader (no evaluation)
	q, _ := json.Marshal(p)
	y := "params: " + string(q) + "\nsteps:\n  - name: s\n    command: \"true\"\n"
	d, err := dag.LoadYAML([]byte(y))
	if err != nil {
		res["yaml_err"] = err.Error()
	} else {
		res["yaml_params"] = hxs(d.Params)
		res["yaml_default"] = hx(d.DefaultParams)
	}
	if c.EvalOK {
		tmp, _ := os.MkdirTemp("", "verif_c11s_")
		defer os.RemoveAll(tmp)
		f := filepath.Join(tmp, "d.yaml")
		_ = os.WriteFile(f, []byte("params: zz_default\nsteps:\n  - name: s\n    command: \"true\"\n"), 0o644)
		d2, err := dag.Load("", f, p)
		if err != nil {
			res["load_err"] = err.Error()
		} else {
			res["load_params"] = hxs(d2.Params)
			res["load_env"] = hxs(d2.Env)
			pos := []string{}
			for i := range d2.Params {
				pos = append(pos, hx(os.Getenv(strconv.Itoa(i+1))))
			}
			res["load_pos"] = pos
			named := map[string]string{}
			for _, pr := range ps {
				if pr[0] != "" {
					named[hx(pr[0])] = hx(os.Getenv(pr[0]))
				}
			}
			res["load_named"] = named
		}
	}
	return res
}

// ---------------------------------------------------------------- dyn: parent side

func runChild(c pcase) map[string]any {
	tmp, err := os.MkdirTemp("", "verif_c11d_")
	if err != nil {
		return map[string]any{"id": c.ID, "harness_err": err.Error()}
	}
	defer os.RemoveAll(tmp)
	c.Dir = tmp
	js, _ := json.Marshal(c)
	cm := exec.Command(os.Args[0], "--child")
	cm.Stdin = bytes.NewReader(js)
	var so, se bytes.Buffer
	cm.Stdout, cm.Stderr = &so, &se
	cm.Env = append(append([]string{}, baseEnv...), "HOME="+tmp)
	cm.SysProcAttr = &syscall.SysProcAttr{Setpgid: true}
	if err := cm.Start(); err != nil {
		return map[string]any{"id": c.ID, "harness_err": err.Error()}
	}
	done := make(chan error, 1)
	go func() { done <- cm.Wait() }()
	to := 3*time.Duration(c.TimeoutMs)*time.Millisecond + 10*time.Second // the child bounds each of its (up to 3) CLI phases by TimeoutMs
	if c.TimeoutMs <= 0 {
		to = 200 * time.Second
	}
	timedOut := false
	select {
	case <-done:
	case <-time.After(to):
		timedOut = true
		_ = syscall.Kill(-cm.Process.Pid, syscall.SIGKILL)
		killByDir(tmp)
		<-done
	}
	// unix sockets of killed agents
	if m, _ := filepath.Glob("/tmp/@blackdagger-c11dag-*"); len(m) > 0 && timedOut {
		for _, f := range m {
			if st, e := os.Stat(f); e == nil && time.Since(st.ModTime()) > 2*time.Minute {
				_ = os.Remove(f)
			}
		}
	}
	if timedOut {
		// which phase was reached
		ph, _ := os.ReadFile(filepath.Join(tmp, "phase"))
		sock := dagSock(tmp)
		_ = os.Remove(sock)
		return map[string]any{"id": c.ID, "timeout": true, "phase": string(ph), "probes": collect(tmp, c.Want), "argprobes": collectArgs(tmp)}
	}
	var res map[string]any
	if e := json.Unmarshal(so.Bytes(), &res); e != nil {
		return map[string]any{"id": c.ID, "harness_err": "child output: " + e.Error() + " / " + tail(se.String(), 600) + tail(so.String(), 300)}
	}
	return res
}

// killByDir kills every process whose command line mentions the scratch directory (step processes run in
// their own process groups, so killing the harness child's group does not reach them).
func killByDir(dir string) {
	ents, _ := os.ReadDir("/proc")
	self := os.Getpid()
	for _, e := range ents {
		pid, err := strconv.Atoi(e.Name())
		if err != nil || pid == self || pid <= 1 {
			continue
		}
		b, err := os.ReadFile(filepath.Join("/proc", e.Name(), "cmdline"))
		if err == nil && bytes.Contains(b, []byte(dir)) {
			_ = syscall.Kill(pid, syscall.SIGKILL)
		}
	}
}

func tail(s string, n int) string {
	if len(s) > n {
		return s[len(s)-n:]
	}
	return s
}

func dagSock(tmp string) string {
	d := &dag.DAG{Location: filepath.Join(tmp, "dags", "c11dag.yaml")}
	return d.SockAddr()
}

// ---------------------------------------------------------------- dyn: probe

func probe(pos, dir string) {
	ph, _ := os.ReadFile(filepath.Join(dir, "phase"))
	var b bytes.Buffer
	for _, e := range os.Environ() {
		b.WriteString(e)
		b.WriteByte(0)
	}
	_ = os.WriteFile(filepath.Join(dir, "probe."+strings.TrimSpace(string(ph))+"."+pos+".env"), b.Bytes(), 0o644)
}

// probeArg is the consumer whose `command:` names $OUT: blackdagger itself expands the variable (from ITS process
// environment) into the argument list; the arguments received are written down.
func probeArg(pos, dir string, args []string) {
	ph, _ := os.ReadFile(filepath.Join(dir, "phase"))
	var b bytes.Buffer
	for _, a := range args {
		b.WriteString(a)
		b.WriteByte(0)
	}
	_ = os.WriteFile(filepath.Join(dir, "probearg."+strings.TrimSpace(string(ph))+"."+pos), b.Bytes(), 0o644)
}

// collectArgs: position -> hex arguments received by the command-line consumers
func collectArgs(dir string) map[string][]string {
	out := map[string][]string{}
	files, _ := filepath.Glob(filepath.Join(dir, "probearg.*"))
	for _, f := range files {
		b, err := os.ReadFile(f)
		if err != nil {
			continue
		}
		args := []string{}
		parts := bytes.Split(b, []byte{0})
		for i, a := range parts {
			if i == len(parts)-1 && len(a) == 0 {
				break
			}
			args = append(args, hx(string(a)))
		}
		out[strings.TrimPrefix(filepath.Base(f), "probearg.")] = args
	}
	return out
}

func collect(dir string, want []string) map[string]map[string]*string {
	out := map[string]map[string]*string{}
	files, _ := filepath.Glob(filepath.Join(dir, "probe.*.env"))
	sort.Strings(files)
	for _, f := range files {
		b, err := os.ReadFile(f)
		if err != nil {
			continue
		}
		env := map[string]string{}
		for _, e := range bytes.Split(b, []byte{0}) {
			if len(e) == 0 {
				continue
			}
			k, v, _ := strings.Cut(string(e), "=")
			env[k] = v
		}
		name := strings.TrimSuffix(strings.TrimPrefix(filepath.Base(f), "probe."), ".env")
		m := map[string]*string{}
		for _, w := range want {
			if v, ok := env[unhex(w)]; ok {
				h := hx(v)
				m[w] = &h
			} else {
				m[w] = nil
			}
		}
		out[name] = m
	}
	return out
}

// ---------------------------------------------------------------- dyn: child side

func child() {
	var c pcase
	if err := json.NewDecoder(os.Stdin).Decode(&c); err != nil {
		fmt.Println(`{"harness_err":"bad child case"}`)
		return
	}
	res := map[string]any{"id": c.ID}
	func() {
		defer func() {
			if r := recover(); r != nil {
				res["panic"] = fmt.Sprint(r)
			}
		}()
		if c.Kill != "" {
			runKilled(c, res)
		} else {
			runDyn(c, res)
		}
	}()
	b, _ := json.Marshal(res)
	fmt.Println(string(b))
}

func yq(s string) string { b, _ := json.Marshal(s); return string(b) }

func runDyn(c pcase, res map[string]any) {
	tmp := c.Dir
	self, _ := os.Executable()
	dags, data, logs := filepath.Join(tmp, "dags"), filepath.Join(tmp, "data"), filepath.Join(tmp, "logs")
	for _, d := range []string{dags, data, logs, filepath.Join(tmp, "suspend"), filepath.Join(tmp, "config")} {
		_ = os.MkdirAll(d, 0o755)
	}
	outName := c.OutName
	if outName == "" {
		outName = "OUT"
	}
	_ = os.WriteFile(filepath.Join(tmp, "payload.bin"), []byte(unhex(c.Out)), 0o644)
	_ = os.WriteFile(filepath.Join(tmp, "errpayload.bin"), []byte(unhex(c.ErrOut)), 0o644)
	_ = os.WriteFile(filepath.Join(tmp, "emit.sh"), []byte("d=\"$(dirname \"$0\")\"\nk=$(cat \"$d/pcount\" 2>/dev/null || echo 0)\necho $((k+1)) > \"$d/pcount\"\n"+
		fmt.Sprintf("if [ $k -lt %d ]; then printf 'early-attempt-%%s-output = not the value\\n' $k; exit 1; fi\n", c.PFails)+
		"cat \"$d/payload.bin\"\ncat \"$d/errpayload.bin\" >&2\n"), 0o755)
	_ = os.WriteFile(filepath.Join(tmp, "pre2.sh"), []byte("printf 'earlier output under the same name\\n'\n"), 0o755)
	_ = os.WriteFile(filepath.Join(tmp, "failer.sh"), []byte("d=\"$(dirname \"$0\")\"\nif [ -f \"$d/failed_once\" ]; then exit 0; fi\n: > \"$d/failed_once\"\nexit 1\n"), 0o755)
	pr := func(pos string) string { return yq(self + " --probe " + pos + " " + tmp) }
	pa := func(pos string) string { return yq(self + " --probearg " + pos + " " + tmp + " $" + outName) }
	retryPol := ""
	if c.PFails > 0 {
		retryPol = fmt.Sprintf("    retryPolicy:\n      limit: %d\n      intervalSec: 0\n", c.PFails)
	}
	var y strings.Builder
	if len(c.Envs) > 0 {
		y.WriteString("env:\n")
		for _, e := range c.Envs {
			y.WriteString("  - " + e[0] + ": " + yq(e[1]) + "\n")
		}
	}
	if c.Params != "" {
		y.WriteString("params: " + yq(unhex(c.Params)) + "\n")
	}
	y.WriteString("steps:\n")
	y.WriteString("  - name: before\n    command: " + pr("before") + "\n")
	prodDep := "before"
	if c.PreOut {
		// another step captured an output under the SAME name earlier
		y.WriteString("  - name: pre2\n    command: " + yq("sh "+filepath.Join(tmp, "pre2.sh")) + "\n    output: " + outName + "\n    depends: [before]\n")
		prodDep = "pre2"
	}
	y.WriteString("  - name: producer\n    command: " + yq("sh "+filepath.Join(tmp, "emit.sh")) + "\n    output: " + outName + "\n    depends: [" + prodDep + "]\n" + retryPol)
	y.WriteString("  - name: adjacent\n    command: " + pr("adjacent") + "\n    depends: [producer]\n")
	y.WriteString("  - name: adjacentarg\n    command: " + pa("adjacentarg") + "\n    depends: [producer]\n")
	y.WriteString("  - name: middle\n    command: \"true\"\n    depends: [adjacent]\n")
	y.WriteString("  - name: distant\n    command: " + pr("distant") + "\n    depends: [middle]\n")
	y.WriteString("  - name: failer\n    command: " + yq("sh "+filepath.Join(tmp, "failer.sh")) + "\n    depends: [distant]\n")
	y.WriteString("  - name: afterfail\n    command: " + pr("afterfail") + "\n    depends: [failer]\n")
	y.WriteString("  - name: afterfailarg\n    command: " + pa("afterfailarg") + "\n    depends: [failer]\n")
	y.WriteString("handlerOn:\n")
	y.WriteString("  success:\n    command: " + pr("onsuccess") + "\n")
	y.WriteString("  failure:\n    command: " + pr("onfailure") + "\n")
	y.WriteString("  exit:\n    command: " + pr("onexit") + "\n")
	file := filepath.Join(dags, "c11dag.yaml")
	_ = os.WriteFile(file, []byte(y.String()), 0o644)

	// the REAL command line in processes of their own (`blackdagger start|retry|restart`, package cmd through the hook)
	cliEnv := append(os.Environ(),
		"BLACKDAGGER_DAGS_DIR="+dags, "BLACKDAGGER_WORK_DIR="+tmp, "BLACKDAGGER_BASE_CONFIG="+filepath.Join(tmp, "config", "base.yaml"),
		"BLACKDAGGER_LOG_DIR="+logs, "BLACKDAGGER_DATA_DIR="+data, "BLACKDAGGER_SUSPEND_FLAGS_DIR="+filepath.Join(tmp, "suspend"),
		"BLACKDAGGER_ADMIN_LOG_DIR="+filepath.Join(logs, "admin"))
	to := time.Duration(c.TimeoutMs) * time.Millisecond
	if to <= 0 {
		to = 60 * time.Second
	}
	cli := func(phase string, args ...string) (timedOut bool) {
		_ = os.WriteFile(filepath.Join(tmp, "phase"), []byte(phase), 0o644)
		cm := exec.Command(self, append([]string{"--cli"}, args...)...)
		cm.Env = cliEnv
		cm.Dir = tmp
		cm.SysProcAttr = &syscall.SysProcAttr{Setpgid: true}
		var eb bytes.Buffer
		cm.Stderr = &eb
		if err := cm.Start(); err != nil {
			res[phase+"_cli_err"] = err.Error()
			return false
		}
		done := make(chan error, 1)
		go func() { done <- cm.Wait() }()
		select {
		case err := <-done:
			if err != nil {
				res[phase+"_exit"] = err.Error()
			}
		case <-time.After(to):
			_ = syscall.Kill(-cm.Process.Pid, syscall.SIGKILL)
			killByDir(tmp)
			<-done
			return true
		}
		return false
	}
	ds := dsclient.NewDataStores(dags, data, filepath.Join(tmp, "suspend"), dsclient.DataStoreOptions{})
	latest := func(not ...string) *model.Status {
		for _, sf := range ds.HistoryStore().ReadStatusRecent(file, 5) {
			skip := false
			for _, n := range not {
				if sf.Status.RequestID == n {
					skip = true
				}
			}
			if !skip {
				return sf.Status
			}
		}
		return nil
	}
	finish := func() {
		res["probes"] = collect(tmp, c.Want)
		res["argprobes"] = collectArgs(tmp)
	}

	// ---- run 1: `start [-p <what the user / the API client puts on the command line>] -q file`
	args := []string{"start", "-q"}
	if start := unhex(c.Start); start != "" {
		if c.ViaClient {
			start = fmt.Sprintf(`"%s"`, client.VerifEscapeArg(start)) // client.Start's argument
		}
		args = append(args, "-p", start)
	}
	if cli("run1", append(args, file)...) {
		res["timeout"], res["phase"] = true, "run1"
		finish()
		return
	}
	st1 := latest()
	if st1 == nil {
		res["load_err"] = fmt.Sprint("start left no record: ", res["run1_exit"])
		finish()
		return
	}
	res["run1_status"] = st1.Status.String()
	res["run1_nodes"] = nodeStatuses(st1)
	res["recorded_params"] = hx(st1.Params)
	if b, e := os.ReadFile(filepath.Join(tmp, "pcount")); e == nil {
		res["producer_attempts"] = strings.TrimSpace(string(b))
	}

	// ---- run 2: `retry --req=<id> file`
	if cli("run2", "retry", "--req="+st1.RequestID, file) {
		res["timeout"], res["phase"] = true, "run2"
		finish()
		return
	}
	st2 := latest(st1.RequestID)
	if st2 == nil {
		res["load2_err"] = fmt.Sprint("retry left no record: ", res["run2_exit"])
		finish()
		return
	}
	res["run2_status"] = st2.Status.String()
	res["run2_nodes"] = nodeStatuses(st2)
	res["recorded_params2"] = hx(st2.Params)

	// ---- run 3: `restart -q file` (re-uses the parameters of the latest run)
	if c.Restart {
		if cli("run3", "restart", "-q", file) {
			res["timeout"], res["phase"] = true, "run3"
			finish()
			return
		}
		if st3 := latest(st1.RequestID, st2.RequestID); st3 != nil {
			res["run3_status"] = st3.Status.String()
			res["run3_nodes"] = nodeStatuses(st3)
			res["recorded_params3"] = hx(st3.Params)
		} else {
			res["load3_err"] = fmt.Sprint("restart left no record: ", res["run3_exit"])
		}
	}
	finish()
}

func nodeStatuses(st *model.Status) map[string]string {
	m := map[string]string{}
	for _, n := range st.Nodes {
		m[n.Step.Name] = n.Status.String()
	}
	return m
}

// ---------------------------------------------------------------- dyn: a run that is killed (or stopped) from outside, then retried

// sessionPids: every process whose session id is sid (/proc/<pid>/stat, 6th field; the command name may hold anything).
func sessionPids(sid int) []int {
	var out []int
	ents, _ := os.ReadDir("/proc")
	for _, e := range ents {
		pid, err := strconv.Atoi(e.Name())
		if err != nil || pid <= 1 {
			continue
		}
		b, err := os.ReadFile(filepath.Join("/proc", e.Name(), "stat"))
		if err != nil {
			continue
		}
		i := bytes.LastIndexByte(b, ')')
		if i < 0 {
			continue
		}
		f := strings.Fields(string(b[i+1:])) // state ppid pgrp session …
		if len(f) >= 4 && f[3] == strconv.Itoa(sid) {
			out = append(out, pid)
		}
	}
	return out
}

// killSession SIGKILLs every process of the session (the agent and its step processes, which live in process groups of their own).
func killSession(sid int) {
	if sid <= 1 {
		return
	}
	for round := 0; round < 3; round++ {
		pids := sessionPids(sid)
		if len(pids) == 0 {
			return
		}
		for _, p := range pids {
			_ = syscall.Kill(p, syscall.SIGKILL)
		}
		time.Sleep(10 * time.Millisecond)
	}
}

func runKilled(c pcase, res map[string]any) {
	tmp := c.Dir
	self, _ := os.Executable()
	dags, data, logs := filepath.Join(tmp, "dags"), filepath.Join(tmp, "data"), filepath.Join(tmp, "logs")
	for _, d := range []string{dags, data, logs, filepath.Join(tmp, "suspend"), filepath.Join(tmp, "config")} {
		_ = os.MkdirAll(d, 0o755)
	}
	outName := c.OutName
	if outName == "" {
		outName = "OUT"
	}
	_ = os.WriteFile(filepath.Join(tmp, "payload.bin"), []byte(unhex(c.Out)), 0o644)
	// the producer: one line in `pcount` per execution (the marker the verdict counts), then the payload
	_ = os.WriteFile(filepath.Join(tmp, "emit.sh"), []byte("d=\"$(dirname \"$0\")\"\necho x >> \"$d/pcount\"\ncat \"$d/payload.bin\"\n"), 0o755)
	// the blocker: blocks in the first run only (until FLAG exists; at most 30 s); short sleeps, so nothing outlives its shell for long
	_ = os.WriteFile(filepath.Join(tmp, "block.sh"), []byte("d=\"$(dirname \"$0\")\"\necho $$ >> \"$d/blocker.pids\"\ni=0\n"+
		"while [ ! -f \"$d/FLAG\" ] && [ $i -lt 300 ]; do sleep 0.1; i=$((i+1)); done\n[ -f \"$d/FLAG\" ]\n"), 0o755)
	pr := func(pos string) string { return yq(self + " --probe " + pos + " " + tmp) }
	pa := func(pos string) string { return yq(self + " --probearg " + pos + " " + tmp + " $" + outName) }
	var y strings.Builder
	if c.Params != "" {
		y.WriteString("params: " + yq(unhex(c.Params)) + "\n")
	}
	y.WriteString("steps:\n")
	y.WriteString("  - name: producer\n    command: " + yq("sh "+filepath.Join(tmp, "emit.sh")) + "\n    output: " + outName + "\n")
	blockDep := "producer"
	if !c.KillEarly {
		// consumers that finish in the first run (they are not re-executed by the retry)
		y.WriteString("  - name: first\n    command: " + pr("first") + "\n    depends: [producer]\n")
		y.WriteString("  - name: firstarg\n    command: " + pa("firstarg") + "\n    depends: [producer]\n")
		blockDep = "first, firstarg"
	}
	y.WriteString("  - name: blocker\n    command: " + yq("sh "+filepath.Join(tmp, "block.sh")) + "\n    depends: [" + blockDep + "]\n")
	y.WriteString("  - name: afterblock\n    command: " + pr("afterblock") + "\n    depends: [blocker]\n")
	y.WriteString("  - name: afterblockarg\n    command: " + pa("afterblockarg") + "\n    depends: [blocker]\n")
	y.WriteString("  - name: distant\n    command: " + pr("distant") + "\n    depends: [afterblock]\n")
	y.WriteString("handlerOn:\n")
	y.WriteString("  success:\n    command: " + pr("onsuccess") + "\n")
	y.WriteString("  failure:\n    command: " + pr("onfailure") + "\n")
	y.WriteString("  cancel:\n    command: " + pr("oncancel") + "\n")
	y.WriteString("  exit:\n    command: " + pr("onexit") + "\n")
	file := filepath.Join(dags, "c11dag.yaml")
	_ = os.WriteFile(file, []byte(y.String()), 0o644)

	cliEnv := append(os.Environ(),
		"BLACKDAGGER_DAGS_DIR="+dags, "BLACKDAGGER_WORK_DIR="+tmp, "BLACKDAGGER_BASE_CONFIG="+filepath.Join(tmp, "config", "base.yaml"),
		"BLACKDAGGER_LOG_DIR="+logs, "BLACKDAGGER_DATA_DIR="+data, "BLACKDAGGER_SUSPEND_FLAGS_DIR="+filepath.Join(tmp, "suspend"),
		"BLACKDAGGER_ADMIN_LOG_DIR="+filepath.Join(logs, "admin"))
	to := time.Duration(c.TimeoutMs) * time.Millisecond
	if to <= 0 {
		to = 30 * time.Second
	}
	var sessions []int
	defer func() {
		// nothing of this case is left behind, whatever happened
		for _, sid := range sessions {
			killSession(sid)
		}
		killByDir(tmp)
		_ = os.Remove(dagSock(tmp))
	}()
	// the REAL command line in a process (and session) of its own
	launch := func(phase string, args ...string) (*exec.Cmd, chan error, error) {
		_ = os.WriteFile(filepath.Join(tmp, "phase"), []byte(phase), 0o644)
		cm := exec.Command(self, append([]string{"--cli"}, args...)...)
		cm.Env = cliEnv
		cm.Dir = tmp
		cm.SysProcAttr = &syscall.SysProcAttr{Setsid: true}
		var eb bytes.Buffer
		cm.Stderr = &eb
		if err := cm.Start(); err != nil {
			res[phase+"_cli_err"] = err.Error()
			return nil, nil, err
		}
		sessions = append(sessions, cm.Process.Pid)
		done := make(chan error, 1)
		go func() { done <- cm.Wait() }()
		return cm, done, nil
	}
	ds := dsclient.NewDataStores(dags, data, filepath.Join(tmp, "suspend"), dsclient.DataStoreOptions{})
	finish := func() {
		res["probes"] = collect(tmp, c.Want)
		res["argprobes"] = collectArgs(tmp)
		n := 0
		if b, e := os.ReadFile(filepath.Join(tmp, "pcount")); e == nil {
			n = bytes.Count(b, []byte("\n"))
		}
		res["producer_runs"] = n
	}
	nodeStatus := func(st *model.Status, name string) string {
		for _, n := range st.Nodes {
			if n.Step.Name == name {
				return n.Status.String()
			}
		}
		return ""
	}

	// ---- run 1: `start -q file`, ended from outside
	args := []string{"start", "-q"}
	if start := unhex(c.Start); start != "" {
		args = append(args, "-p", start)
	}
	cm, done, err := launch("run1", append(args, file)...)
	if err != nil {
		res["harness_err"] = "start: " + err.Error()
		return
	}
	// wait until the history (read through the real store) RECORDS the producer as finished and the blocker is running
	deadline := time.Now().Add(to)
	var st1 *model.Status
	exited := false
	for st1 == nil && time.Now().Before(deadline) && !exited {
		select {
		case e := <-done:
			exited = true
			res["run1_exit"] = fmt.Sprint(e)
		case <-time.After(15 * time.Millisecond):
		}
		if b, e := os.ReadFile(filepath.Join(tmp, "blocker.pids")); e != nil || len(bytes.TrimSpace(b)) == 0 {
			continue
		}
		rec := ds.HistoryStore().ReadStatusRecent(file, 1)
		if len(rec) == 1 && nodeStatus(rec[0].Status, "producer") == "finished" {
			st1 = rec[0].Status
		}
	}
	if st1 == nil || exited {
		if exited {
			res["harness_err"] = fmt.Sprint("the run ended before it reached the blocker: ", res["run1_exit"])
		} else {
			res["timeout"], res["phase"] = true, "run1"
		}
		finish()
		return
	}
	res["seen_before_kill_nodes"] = nodeStatuses(st1)
	if c.Kill == "TERM" {
		// an orderly stop: the agent passes the signal on to the steps, runs the handlers and writes its final record
		_ = syscall.Kill(cm.Process.Pid, syscall.SIGTERM)
		select {
		case <-done:
		case <-time.After(to):
			res["timeout"], res["phase"] = true, "run1-stop"
			finish()
			return
		}
	} else {
		// the agent dies on the spot (as under the OOM killer / a power loss); so do its steps
		_ = syscall.Kill(cm.Process.Pid, syscall.SIGKILL)
		<-done
	}
	killSession(cm.Process.Pid)
	// the record the retry is going to read: the LAST one written, final or not
	sf, ferr := ds.HistoryStore().FindByRequestID(file, st1.RequestID)
	if ferr != nil {
		res["find_err"] = ferr.Error()
		finish()
		return
	}
	last := sf.Status
	res["run1_status"] = last.Status.String()
	res["run1_nodes"] = nodeStatuses(last)
	res["recorded_params"] = hx(last.Params)
	// (diagnostic) does that record carry the captured variable?
	carried := false
	for _, n := range last.Nodes {
		if n.Step.OutputVariables != nil {
			if _, ok := n.Step.OutputVariables.Load(outName); ok {
				carried = true
			}
		}
	}
	res["record_carries_output"] = carried

	// ---- run 2: `retry --req=<id> file`, the blocker lets go
	_ = os.WriteFile(filepath.Join(tmp, "FLAG"), nil, 0o644)
	cm2, done2, err := launch("run2", "retry", "--req="+st1.RequestID, file)
	if err != nil {
		res["harness_err"] = "retry: " + err.Error()
		finish()
		return
	}
	select {
	case e := <-done2:
		if e != nil {
			res["run2_exit"] = e.Error()
		}
	case <-time.After(to):
		killSession(cm2.Process.Pid)
		<-done2
		res["timeout"], res["phase"] = true, "run2"
		finish()
		return
	}
	for _, s := range ds.HistoryStore().ReadStatusRecent(file, 5) {
		if s.Status.RequestID != st1.RequestID {
			res["run2_status"] = s.Status.Status.String()
			res["run2_nodes"] = nodeStatuses(s.Status)
			res["recorded_params2"] = hx(s.Status.Params)
			break
		}
	}
	if _, ok := res["run2_status"]; !ok {
		res["load2_err"] = fmt.Sprint("retry left no record: ", res["run2_exit"])
	}
	finish()
}
