//go:build verif

package main

import (
	"bufio"
	"context"
	"encoding/json"
	"fmt"
	"os"
	"path/filepath"
	"sort"
	"strings"

	"github.com/ErdemOzgen/blackdagger/internal/agent"
	"github.com/ErdemOzgen/blackdagger/internal/client"
	"github.com/ErdemOzgen/blackdagger/internal/dag"
	"github.com/ErdemOzgen/blackdagger/internal/dag/scheduler"
	dsclient "github.com/ErdemOzgen/blackdagger/internal/persistence/client"
)

// mode "yamlaccept" (C14): is a definition WRITTEN IN YAML admitted to execution?
// The text is loaded with the real loader (dag.LoadYAML; dag.Load from a file when the case is also run), the loaded
// steps are handed to scheduler.NewExecutionGraph exactly as agent.setupGraph does, and - for cases with "run" - the
// real agent (agent.New(...).Run) runs the loaded DAG over real data stores in a private directory. Every step and
// handler command of the generated definitions is `touch @M@/<k>`; "@M@" in the text is replaced by the marker
// directory, so afterwards the files in it are exactly the steps / handlers that executed.
type yaCase struct {
	ID   string `json:"id"`
	YAML string `json:"yaml"`
	Run  bool   `json:"run"`
}

type yaStep struct {
	Name    string   `json:"name"`
	Depends []string `json:"depends"`
}

type yaResult struct {
	ID      string   `json:"id"`
	Load    string   `json:"load"` // ok | err | panic
	LoadErr string   `json:"loadErr,omitempty"`
	Steps   []yaStep `json:"steps,omitempty"`
	Graph   string   `json:"graph,omitempty"` // ok | cycle | notfound | err | panic
	GraphEr string   `json:"graphErr,omitempty"`
	Ran     bool     `json:"ran"`
	RunErr  string   `json:"runErr,omitempty"`
	Markers []string `json:"markers"` // files in the marker directory after the run
	Hist    int      `json:"hist"`    // files under the history directory after the run
	Logs    int      `json:"logs"`    // files under the log directory after the run
}

func countFiles(dir string) int {
	n := 0
	_ = filepath.Walk(dir, func(_ string, info os.FileInfo, err error) error {
		if err == nil && !info.IsDir() {
			n++
		}
		return nil
	})
	return n
}

func yamlAcceptCase(line []byte, out *bufio.Writer) {
	var c yaCase
	if json.Unmarshal(line, &c) != nil {
		return
	}
	res := yaResult{ID: c.ID, Markers: []string{}}
	root, _ := os.MkdirTemp("", "verif-yacc-")
	defer os.RemoveAll(root)
	mdir := filepath.Join(root, "m")
	_ = os.MkdirAll(mdir, 0o755)
	text := strings.ReplaceAll(c.YAML, "@M@", mdir)
	var d *dag.DAG
	func() {
		defer func() {
			if r := recover(); r != nil {
				res.Load, res.LoadErr = "panic", fmt.Sprint(r)
			}
		}()
		var err error
		if c.Run {
			dagsDir := filepath.Join(root, "dags")
			_ = os.MkdirAll(dagsDir, 0o755)
			fp := filepath.Join(dagsDir, "c14-"+c.ID+".yaml")
			_ = os.WriteFile(fp, []byte(text), 0o644)
			d, err = dag.Load("", fp, "")
		} else {
			d, err = dag.LoadYAML([]byte(text))
		}
		if err != nil {
			res.Load, res.LoadErr = "err", err.Error()
			d = nil
			return
		}
		res.Load = "ok"
	}()
	if d != nil {
		for _, s := range d.Steps {
			res.Steps = append(res.Steps, yaStep{Name: s.Name, Depends: append([]string{}, s.Depends...)})
		}
		func() {
			defer func() {
				if r := recover(); r != nil {
					res.Graph, res.GraphEr = "panic", fmt.Sprint(r)
				}
			}()
			_, err := scheduler.NewExecutionGraph(quietLg, d.Steps...)
			switch {
			case err == nil:
				res.Graph = "ok"
			case contains(err.Error(), "cycle"):
				res.Graph = "cycle"
			case contains(err.Error(), "not found"):
				res.Graph = "notfound"
			default:
				res.Graph = "err"
			}
			if err != nil {
				res.GraphEr = err.Error()
			}
		}()
		if c.Run {
			func() {
				defer func() {
					if r := recover(); r != nil {
						res.RunErr = "panic: " + fmt.Sprint(r)
					}
				}()
				dataDir, logDir := filepath.Join(root, "data"), filepath.Join(root, "log")
				_ = os.MkdirAll(logDir, 0o755)
				ds := dsclient.NewDataStores(filepath.Join(root, "dags"), dataDir, filepath.Join(root, "suspend"), dsclient.DataStoreOptions{})
				cli := client.New(ds, "/bin/true", root, quietLg)
				ag := agent.New("req-"+c.ID, d, quietLg, logDir, filepath.Join(logDir, "agent.log"), cli, ds, &agent.Options{})
				res.Ran = true
				if err := ag.Run(context.Background()); err != nil {
					res.RunErr = err.Error()
				}
				res.Hist = countFiles(dataDir)
				res.Logs = countFiles(logDir)
			}()
		}
	}
	if es, err := os.ReadDir(mdir); err == nil {
		for _, e := range es {
			res.Markers = append(res.Markers, e.Name())
		}
		sort.Strings(res.Markers)
	}
	b, _ := json.Marshal(res)
	out.Write(b)
	out.WriteByte('\n')
	out.Flush()
}
