//go:build verif

package main

import (
	"bufio"
	"encoding/json"
	"fmt"

	"github.com/ErdemOzgen/blackdagger/internal/dag"
	"github.com/ErdemOzgen/blackdagger/internal/dag/scheduler"
	"github.com/ErdemOzgen/blackdagger/internal/logger"
)

// graph case: {"id":..., "deps":[[names of deps of step 0],...]}; step i is named "s<i>"; a dependency
// name "x<k>" is dangling. Output: "<id> ok|cycle|notfound oracle=ok|cycle|notfound"
type gcase struct {
	ID   string     `json:"id"`
	Deps [][]string `json:"deps"`
}

var quietLg = logger.NewLogger(logger.NewLoggerArgs{Quiet: true})

func graphCase(line []byte, out *bufio.Writer) {
	var c gcase
	if err := json.Unmarshal(line, &c); err != nil {
		fmt.Fprintln(out, "bad")
		return
	}
	var steps []dag.Step
	for i, ds := range c.Deps {
		steps = append(steps, dag.Step{Name: fmt.Sprintf("s%d", i), Depends: ds})
	}
	verdict := "ok"
	func() {
		defer func() {
			if r := recover(); r != nil {
				verdict = "panic"
			}
		}()
		_, err := scheduler.NewExecutionGraph(quietLg, steps...)
		if err != nil {
			switch {
			case contains(err.Error(), "cycle"):
				verdict = "cycle"
			case contains(err.Error(), "not found"):
				verdict = "notfound"
			default:
				verdict = "err"
			}
		}
	}()
	fmt.Fprintf(out, "%s %s oracle=%s\n", c.ID, verdict, oracle(c))
}

func contains(s, sub string) bool {
	for i := 0; i+len(sub) <= len(s); i++ {
		if s[i:i+len(sub)] == sub {
			return true
		}
	}
	return false
}

// independent oracle: name resolution + DFS three-colour cycle search
func oracle(c gcase) string {
	n := len(c.Deps)
	idx := map[string]int{}
	for i := 0; i < n; i++ {
		idx[fmt.Sprintf("s%d", i)] = i
	}
	adj := make([][]int, n) // dependent -> dependency
	for i, ds := range c.Deps {
		for _, d := range ds {
			j, ok := idx[d]
			if !ok {
				return "notfound"
			}
			adj[i] = append(adj[i], j)
		}
	}
	col := make([]int, n)
	var dfs func(int) bool
	dfs = func(u int) bool {
		col[u] = 1
		for _, v := range adj[u] {
			if col[v] == 1 {
				return true
			}
			if col[v] == 0 && dfs(v) {
				return true
			}
		}
		col[u] = 2
		return false
	}
	for i := 0; i < n; i++ {
		if col[i] == 0 && dfs(i) {
			return "cycle"
		}
	}
	return "ok"
}
