//go:build verif

package main

import "fmt"

// Go-side monitors: check the PROPERTIES THEMSELVES on the observed trace of the real scheduler
// (independent of the Lean model). Each verdict is "<property>:<signature>:<detail>".

func licensed(st string, nc nodeCase) bool {
	return st == "finished" || (st == "failed" && nc.ContFail) || (st == "skipped" && nc.ContSkip)
}
func blocker(st string, nc nodeCase) bool {
	return (st == "failed" && !nc.ContFail) || st == "canceled" || (st == "skipped" && !nc.ContSkip)
}

// preUnmet: the step's own precondition does not let it run, whenever it is evaluated. C02: such a step is SKIPPED
// (never executed, never labelled failed). A precondition that cannot be evaluated at all (its command substitution
// fails: Pre 4, 5, controlled answer 4) is not met either: the property knows met / not met only, and a step whose
// command was never started has not failed.
func preUnmet(nc nodeCase) bool {
	switch nc.Pre {
	case 2, 4, 5, 7, 8:
		return true
	case 3:
		return nc.PreVal == 2 || nc.PreVal == 4
	}
	return false
}

// preEvalError: the flavours of preUnmet where the evaluation itself fails
func preEvalError(nc nodeCase) bool {
	return nc.Pre == 4 || nc.Pre == 5 || (nc.Pre == 3 && (nc.PreVal == 4 || nc.PreVal == 5))
}

func monitor(c schedCase, r *result, stopped bool) []string {
	var v []string
	add := func(f string, a ...any) { v = append(v, fmt.Sprintf(f, a...)) }
	n := len(c.Nodes)
	if r.Panic != "" {
		add("C02:panic:%s", r.Panic)
		return v
	}
	if len(r.Snaps) == 0 {
		return v
	}
	final := r.Snaps[len(r.Snaps)-1]
	starts := make([]int, n)
	stopSeq := -1
	for _, e := range r.Events {
		if e.Kind == "stop" {
			stopSeq = e.Seq
		}
	}
	// ---- C01: order ----
	open := map[int]bool{}
	ended, endedOK := map[int]bool{}, map[int]bool{}
	lastStart := map[int]int{}
	for _, e := range r.Events {
		if e.Node >= 1000 {
			continue
		}
		switch e.Kind {
		case "start":
			starts[e.Node]++
			lastStart[e.Node] = e.Seq
			for _, d := range c.Nodes[e.Node].Deps {
				// whatever LABEL the dependency carries: its last execution must have ended, and ended well
				// unless it has continueOn.failure (fresh runs, non-repeating dependencies)
				// (a dependency that failed and was then skipped by its own re-checked precondition is licensed by the
				//  skip rule; the clause is about a dependency that is LABELLED finished)
				if len(c.Init) == 0 && !c.Dry && !c.Nodes[d].Rep && d < len(e.St) && e.St[d] == "finished" && ended[d] && !endedOK[d] {
					add("C01:start-after-dependency-whose-last-execution-failed:node=%d dep=%d", e.Node, d)
				}
				if c.Nodes[d].Rep {
					// repeatPolicy is outside C01's quantifier: a repeating step with continueOn.failure keeps
					// the label 'failed' while it goes on iterating (DESIGN 5/C01, observation O1)
					continue
				}
				if open[d] {
					add("C01:start-while-dependency-running:node=%d dep=%d", e.Node, d)
				}
				if d < len(e.St) && !licensed(e.St[d], c.Nodes[d]) && !c.Dry {
					add("C01:start-with-unlicensed-dependency:node=%d dep=%d depstatus=%s", e.Node, d, e.St[d])
				}
			}
			if open[e.Node] {
				add("C03:double-start:node=%d", e.Node)
			}
			open[e.Node] = true
		case "end":
			open[e.Node] = false
			ended[e.Node] = true
			endedOK[e.Node] = e.OK
		}
	}
	for i := 0; i < n; i++ {
		for _, d := range c.Nodes[i].Deps {
			if starts[i] > 0 && starts[d] > 0 && !c.Nodes[d].Rep {
				// first start of i must be after last start of d
				first := -1
				for _, e := range r.Events {
					if e.Kind == "start" && e.Node == i {
						first = e.Seq
						break
					}
				}
				if lastStart[d] > first {
					add("C01:dependency-executes-after-dependent-started:node=%d dep=%d", i, d)
				}
			}
		}
	}
	// ---- C15: concurrency ----
	repCF := false
	for _, nc := range c.Nodes {
		if nc.Rep && nc.ContFail {
			repCF = true // same corner as O1: such a step is labelled failed while still executing
		}
	}
	if c.MaxActive > 0 && !repCF {
		cur, hw := 0, 0
		for _, e := range r.Events {
			if e.Node >= 1000 {
				continue
			}
			if e.Kind == "start" {
				cur++
				if cur > hw {
					hw = cur
				}
			} else if e.Kind == "end" {
				cur--
			}
		}
		if hw > c.MaxActive {
			add("C15:limit-exceeded:max=%d observed=%d", c.MaxActive, hw)
		}
	}
	if r.Hang && !stopped {
		add("C15:run-does-not-complete:maxActive=%d", c.MaxActive)
		// C02: the run has to end with every step labelled; a step still `not started` although none of its
		// dependencies can change any more has been left behind by the loop
		if len(r.Snaps) > 0 {
			last := r.Snaps[len(r.Snaps)-1]
			term := func(st string) bool { return st == "finished" || st == "failed" || st == "canceled" || st == "skipped" }
			for i := 0; i < n && i < len(last.St); i++ {
				if last.St[i] != "not started" {
					continue
				}
				all := true
				for _, d := range c.Nodes[i].Deps {
					if d >= len(last.St) || !term(last.St[d]) {
						all = false
					}
				}
				if all {
					add("C02:run-does-not-end:step-left-not-started-with-all-dependencies-final:node=%d", i)
				}
			}
		}
		return v
	}
	if c.Dry {
		for i := 0; i < n; i++ {
			if starts[i] > 0 {
				add("C03:dry-run-executed:node=%d", i)
			}
		}
		for _, e := range r.Events {
			if e.Node >= 1000 && e.Kind == "start" {
				add("C03:dry-run-executed-handler:%d", e.Node-1000)
			}
		}
		return v
	}
	if !r.Finished {
		if stopped {
			add("C05:run-does-not-end-after-stop:")
		}
		return v
	}
	// ---- a step reported finished has executed its command successfully (C04's outcome and C05's "a stop never turns
	//      an unexecuted step into a finished one" rest on it), in stopped runs too; fresh runs, non-repeating steps
	if len(c.Init) == 0 && !c.Dry {
		lastOK := map[int]bool{}
		for _, e := range r.Events {
			if e.Node < 1000 && e.Kind == "end" {
				lastOK[e.Node] = e.OK
			}
		}
		for i := 0; i < n; i++ {
			if final.St[i] == "finished" && !c.Nodes[i].Rep && !lastOK[i] {
				add("C04:step-reported-finished-without-a-successful-execution:node=%d starts=%d", i, starts[i])
				add("C05:step-reported-finished-without-a-successful-execution:node=%d starts=%d", i, starts[i])
			}
		}
	}
	allSucc := true
	anyFailed := false
	for i := 0; i < n; i++ {
		st := final.St[i]
		if st != "finished" && st != "skipped" {
			allSucc = false
		}
		if st == "failed" {
			anyFailed = true
		}
	}
	if !stopped {
		// ---- C02 / C03: final states ----
		for i := 0; i < n; i++ {
			nc := c.Nodes[i]
			st := final.St[i]
			if st == "not started" || st == "running" {
				add("C02:non-terminal-final-state:node=%d status=%s", i, st)
				continue
			}
			allLic, anyBlock := true, false
			for _, d := range nc.Deps {
				if !licensed(final.St[d], c.Nodes[d]) {
					allLic = false
				}
				if blocker(final.St[d], c.Nodes[d]) {
					anyBlock = true
				}
			}
			if anyBlock {
				if starts[i] != 0 || (st != "canceled" && st != "skipped") {
					add("C02:executed-or-mislabelled-downstream-of-blocker:node=%d status=%s starts=%d", i, st, starts[i])
				}
				continue
			}
			if allLic && !nc.Rep {
				if preUnmet(nc) {
					if st != "skipped" || starts[i] != 0 {
						kind := ""
						if preEvalError(nc) {
							kind = " (the precondition cannot be evaluated: its command fails)"
						}
						add("C02:unmet-precondition-not-skipped:node=%d status=%s starts=%d pre=%d%s", i, st, starts[i], nc.Pre, kind)
					}
					continue
				}
				if nc.Pre == 3 && (nc.PreVal == 3 || nc.PreVal == 5) {
					// met once, unmet ever after: one execution at most; a failed first attempt that is handed back
					// for a retry finds the precondition unmet and is skipped
					w := "finished"
					if nc.Fails != 0 {
						w = "failed"
						if nc.Limit > 0 {
							w = "skipped"
						}
					}
					if starts[i] > 1 {
						add("C02:step-executed-although-its-precondition-was-unmet-when-it-was-due:node=%d starts=%d", i, starts[i])
					} else if st != w {
						add("C02:state-does-not-match-outcome:node=%d status=%s want=%s (precondition met once, then unmet)", i, st, w)
					}
					continue
				}
				wantAttempts := nc.Limit + 1
				wantSt := "failed"
				if nc.Fails >= 0 && nc.Fails <= nc.Limit {
					wantAttempts = nc.Fails + 1
					wantSt = "finished"
				}
				if st != wantSt {
					add("C02:state-does-not-match-outcome:node=%d status=%s want=%s", i, st, wantSt)
				}
				if starts[i] != wantAttempts {
					add("C03:wrong-number-of-executions:node=%d starts=%d want=%d", i, starts[i], wantAttempts)
				}
				if final.Retry[i] != wantAttempts-1 {
					add("C03:retry-count-mismatch:node=%d retryCount=%d want=%d", i, final.Retry[i], wantAttempts-1)
				}
			}
		}
		// ---- C04: outcome ----
		want := "finished"
		if anyFailed {
			want = "failed"
		} else if !allSucc {
			want = "?" // canceled nodes without a failed node cannot happen in an unstopped run
		}
		if final.Overall != want {
			why := ""
			for i := 0; i < n; i++ {
				if final.St[i] == "failed" && starts[i] == 0 {
					// a step can be labelled failed without its command having been started (set-up failure, a
					// precondition that could not be evaluated, ...): the label counts, whatever put it there
					why += fmt.Sprintf(" node=%d labelled failed without an execution (pre=%d)", i, c.Nodes[i].Pre)
				}
			}
			var hs []int
			for _, e := range r.Events {
				if e.Node >= 1000 && e.Kind == "start" {
					hs = append(hs, e.Node-1000)
				}
			}
			add("C04:overall-status-mismatch:overall=%s want=%s steps=%v handlers-run=%v%s", final.Overall, want, final.St, hs, why)
		}
	} else {
		// ---- C05 ----
		for _, e := range r.Events {
			if e.Kind == "start" && e.Node < 1000 && stopSeq >= 0 && e.Seq > stopSeq {
				add("C05:step-started-after-stop:node=%d", e.Node)
			}
		}
		// every step in flight at the stop must have been sent the stop signal
		if stopSeq >= 0 {
			openAt := map[int]bool{}
			for _, e := range r.Events {
				if e.Seq > stopSeq {
					break
				}
				if e.Node < 1000 {
					if e.Kind == "start" {
						openAt[e.Node] = true
					} else if e.Kind == "end" {
						openAt[e.Node] = false
					}
				}
			}
			for i, o := range openAt {
				if !o || c.Nodes[i].Rep {
					continue
				}
				want := 15
				if c.Nodes[i].Sig != "" {
					want = sigNum(c.Nodes[i].Sig)
				}
				got := -1
				for _, e := range r.Events {
					if e.Kind == "kill" && e.Node == i && e.Seq > stopSeq {
						got = e.Sig
						break
					}
				}
				if got != want {
					add("C05:stop-signal-not-delivered:node=%d want=%d got=%d", i, want, got)
				}
			}
		}
		killSeq := -1
		for _, e := range r.Events {
			if e.Kind == "killall" {
				killSeq = e.Seq
			}
		}
		if killSeq >= 0 {
			openAt := map[int]bool{}
			for _, e := range r.Events {
				if e.Seq > killSeq {
					break
				}
				if e.Node >= 0 && e.Node < 1000 {
					if e.Kind == "start" {
						openAt[e.Node] = true
					} else if e.Kind == "end" {
						openAt[e.Node] = false
					}
				}
			}
			for i, o := range openAt {
				if !o {
					continue
				}
				got := false
				for _, e := range r.Events {
					if e.Kind == "kill" && e.Node == i && e.Seq > killSeq && e.Sig == 9 {
						got = true
					}
				}
				if !got {
					kind := "step-ignoring-the-stop-signal"
					if c.Nodes[i].Rep {
						kind = "repeating-step"
					}
					add("C05:sigkill-not-delivered-%s:node=%d", kind, i)
				}
			}
		}
		want := "canceled"
		if allSucc {
			want = "finished"
		}
		// a stop that arrives when every step has already ended cancels nothing: the outcome is that of the
		// steps (decided when the last one finished). If the first handler had started before the stop the
		// outcome was certainly decided; otherwise the stop may still have been seen first (either is right).
		stepsOpenOrLeft, handlerBeforeStop := true, false
		for _, e := range r.Events {
			if stopSeq >= 0 && e.Seq > stopSeq {
				break
			}
			if e.Node >= 1000 && e.Kind == "start" {
				handlerBeforeStop = true
			}
		}
		// the quiescent snapshot taken right before the stop: had every step already reached a final label?
		for k, op := range r.Ops {
			if op == "stop" && k < len(r.Snaps) {
				pre := r.Snaps[k]
				stepsOpenOrLeft = false
				for i := 0; i < n && i < len(pre.St); i++ {
					if pre.St[i] == "not started" || pre.St[i] == "running" {
						stepsOpenOrLeft = true
					}
				}
				for _, f := range pre.Flight {
					if f < 1000 {
						stepsOpenOrLeft = true
					}
				}
				if len(pre.Pending) > 0 {
					stepsOpenOrLeft = true
				}
			}
		}
		late := stopSeq >= 0 && !stepsOpenOrLeft
		unstopped := "finished"
		if anyFailed {
			unstopped = "failed"
		}
		ok := final.Overall == want
		if late {
			ok = final.Overall == unstopped || (!handlerBeforeStop && final.Overall == want)
		}
		if !ok {
			if late {
				want = unstopped
			}
			add("C04:overall-status-mismatch-after-stop:overall=%s want=%s", final.Overall, want)
		}
		for i := 0; i < n; i++ {
			if final.St[i] == "running" {
				add("C05:node-left-running-after-stop:node=%d", i)
			}
			if final.St[i] == "finished" && starts[i] == 0 {
				add("C04:never-executed-step-reported-finished:node=%d", i)
			}
		}
	}
	// ---- C04: handlers ----
	// the handler that ran must be the one matching the outcome the run REPORTS in the end: the outcome is
	// decided when the last step has finished; a stop arriving later (during the handlers) cancels nothing
	// and must not turn a failed run into a canceled one after its onFailure handler ran (finding F44)
	ovSel := final.Overall
	var wantH []int
	switch ovSel {
	case "finished":
		wantH = append(wantH, 0)
	case "failed":
		wantH = append(wantH, 1)
	case "canceled":
		wantH = append(wantH, 2)
	}
	wantH = append(wantH, 3)
	var wantCfg []int
	for _, h := range wantH {
		if c.Handlers[h] != 0 {
			wantCfg = append(wantCfg, h)
		}
	}
	var gotH []int
	lastStepSeq := -1
	firstHSeq := -1
	for _, e := range r.Events {
		if e.Node < 1000 && (e.Kind == "start" || e.Kind == "end") {
			lastStepSeq = e.Seq
		}
		if e.Node >= 1000 && e.Kind == "start" {
			gotH = append(gotH, e.Node-1000)
			if firstHSeq < 0 {
				firstHSeq = e.Seq
			}
		}
	}
	if fmt.Sprint(gotH) != fmt.Sprint(wantCfg) {
		add("C04:wrong-handlers-run:got=%v want=%v overall=%s", gotH, wantCfg, ovSel)
	}
	if firstHSeq >= 0 && lastStepSeq > firstHSeq {
		add("C04:handler-before-last-step-event:")
	}
	return v
}

func sigNum(s string) int {
	switch s {
	case "SIGINT":
		return 2
	case "SIGQUIT":
		return 3
	case "SIGKILL":
		return 9
	case "SIGUSR1":
		return 10
	case "SIGUSR2":
		return 12
	case "SIGTERM":
		return 15
	}
	return -1
}
