//go:build verif

package main

import (
	"fmt"

	"github.com/ErdemOzgen/blackdagger/internal/dag"
	"github.com/ErdemOzgen/blackdagger/internal/dag/scheduler"
	"github.com/ErdemOzgen/blackdagger/internal/logger"
)

// retry mode (C10): the graph is built by the REAL NewExecutionGraphForRetry from recorded node states.

func at(a []int, i int) int {
	if i < len(a) {
		return a[i]
	}
	return 0
}

func statusOf(s string) scheduler.NodeStatus {
	switch s {
	case "running":
		return scheduler.NodeStatusRunning
	case "failed":
		return scheduler.NodeStatusError
	case "canceled":
		return scheduler.NodeStatusCancel
	case "finished":
		return scheduler.NodeStatusSuccess
	case "skipped":
		return scheduler.NodeStatusSkipped
	}
	return scheduler.NodeStatusNone
}

func retryGraph(c schedCase, steps []dag.Step) (*scheduler.ExecutionGraph, error) {
	var nodes []*scheduler.Node
	for i, st := range steps {
		ns := scheduler.NodeState{Status: statusOf(c.Init[i])}
		if i < len(c.InitRC) {
			ns.RetryCount = c.InitRC[i]
		}
		if i < len(c.InitDC) {
			ns.DoneCount = c.InitDC[i]
		}
		nodes = append(nodes, scheduler.NewNode(st, ns))
	}
	return scheduler.NewExecutionGraphForRetry(logger.NewLogger(logger.NewLoggerArgs{Quiet: true}), nodes...)
}

// monitorRetry: the property C10 itself, read independently of the Lean model.
//
//	T := steps recorded failed / canceled / running / not started, plus everything downstream of one
//	- the retry terminates
//	- a step outside T is never executed and keeps its recorded state
//	- a step in T is re-executed as soon as its dependencies let it (never left with its stale label)
//	- every start happens after all dependencies finished (dependency order)
func monitorRetry(c schedCase, r *result, stopped bool) []string {
	var v []string
	add := func(f string, a ...any) { v = append(v, fmt.Sprintf(f, a...)) }
	n := len(c.Nodes)
	if r.Panic != "" {
		add("C10:panic:%s", r.Panic)
		return v
	}
	inT := make([]bool, n)
	for i := 0; i < n; i++ {
		switch c.Init[i] {
		case "failed", "canceled", "running", "not started":
			inT[i] = true
		}
	}
	for ch := true; ch; {
		ch = false
		for i := 0; i < n; i++ {
			if inT[i] {
				continue
			}
			for _, d := range c.Nodes[i].Deps {
				if inT[d] {
					inT[i] = true
					ch = true
				}
			}
		}
	}
	if r.Hang || !r.Finished {
		run := ""
		for i := 0; i < n; i++ {
			if c.Init[i] == "running" {
				run = ":recorded-running-step"
			}
		}
		add("C10:retry-does-not-terminate%s", run)
		return v
	}
	if len(r.Snaps) == 0 {
		return v
	}
	final := r.Snaps[len(r.Snaps)-1]
	starts := make([]int, n)
	open := map[int]bool{}
	for _, e := range r.Events {
		if e.Node >= 1000 || e.Node < 0 {
			continue
		}
		switch e.Kind {
		case "start":
			starts[e.Node]++
			open[e.Node] = true
			for _, d := range c.Nodes[e.Node].Deps {
				if open[d] {
					add("C10:order:start-while-dependency-running:node=%d dep=%d", e.Node, d)
				}
				if d < len(e.St) && !licensed(e.St[d], c.Nodes[d]) {
					add("C10:order:start-with-unlicensed-dependency:node=%d dep=%d depstatus=%s", e.Node, d, e.St[d])
				}
			}
		case "end":
			delete(open, e.Node)
		}
	}
	for i := 0; i < n; i++ {
		if !inT[i] {
			if starts[i] != 0 {
				add("C10:kept-step-executed:node=%d recorded=%s", i, c.Init[i])
			}
			if final.St[i] != c.Init[i] {
				add("C10:kept-step-state-changed:node=%d recorded=%s now=%s", i, c.Init[i], final.St[i])
			}
			continue
		}
		if stopped {
			continue
		}
		allLic, blocked := true, false
		for _, d := range c.Nodes[i].Deps {
			if !licensed(final.St[d], c.Nodes[d]) {
				allLic = false
			}
			if final.St[d] == "failed" && !c.Nodes[d].ContFail || final.St[d] == "canceled" || final.St[d] == "skipped" && !c.Nodes[d].ContSkip {
				blocked = true
			}
		}
		if allLic && starts[i] == 0 && !(final.St[i] == "skipped" && preUnmet(c.Nodes[i])) && !c.Dry {
			add("C10:unfinished-step-not-reexecuted:node=%d recorded=%s now=%s", i, c.Init[i], final.St[i])
		}
		if blocked && starts[i] != 0 {
			add("C10:executed-downstream-of-blocker:node=%d", i)
		}
		if final.St[i] == "not started" || final.St[i] == "running" {
			add("C10:step-left-unfinished:node=%d now=%s", i, final.St[i])
		}
		// a step that is reset (recorded failed / canceled / running, or downstream of one) is executed from
		// scratch: with its full retry budget, and its recorded retry count = the extra attempts of THIS run
		// (a step recorded `not started` runs for the first time in the recorded run's terms: same clause)
		reset := c.Init[i] == "failed" || c.Init[i] == "canceled" || c.Init[i] == "running" || c.Init[i] == "not started" || (i < len(r.St0) && r.St0[i] == "not started")
		if reset && starts[i] > 0 && !c.Dry {
			f, lim := c.Nodes[i].Fails, c.Nodes[i].Limit
			want := f + 1
			if f < 0 || f > lim {
				want = lim + 1
			}
			if starts[i] != want {
				add("C10:reexecuted-step-wrong-number-of-attempts:node=%d attempts=%d want=%d (limit %d, fails first %d, recorded retry count %d)", i, starts[i], want, lim, f, at(c.InitRC, i))
			} else if final.Retry[i] != starts[i]-1 {
				add("C10:reexecuted-step-retry-count-wrong:node=%d attempts=%d recorded=%d", i, starts[i], final.Retry[i])
			}
		}
	}
	return v
}
