//go:build verif

package main

import "bufio"

func retryCase(line []byte, out *bufio.Writer) {}
