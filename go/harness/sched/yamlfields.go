//go:build verif

package main

import (
	"bufio"
	"encoding/json"
	"os"
	"path/filepath"

	"github.com/ErdemOzgen/blackdagger/internal/dag"
)

// mode "yaml": what the LOADER makes of a definition, for the settings the scheduler properties rest on
// (depends, continueOn, retryPolicy, repeatPolicy, preconditions, signalOnStop, output, handlers, maxActiveRuns, …).
// The scheduler harness builds its steps in Go; this mode checks that a definition written in YAML arrives as the same
// dag.Step / dag.DAG values.
type yamlCase struct {
	ID   string `json:"id"`
	YAML string `json:"yaml"`
	// base configuration (the file every DAG inherits from): when given, both texts are written to files and loaded
	// with dag.Load(base, file, "") as start / retry / restart do
	Base string `json:"base,omitempty"`
}

type yStep struct {
	Name    string   `json:"name"`
	Depends []string `json:"depends"`
	CF      bool     `json:"cf"`
	CS      bool     `json:"cs"`
	HasRP   bool     `json:"hasRetry"`
	Limit   int      `json:"limit"`
	RIntS   int      `json:"retryIntervalSec"`
	Repeat  bool     `json:"repeat"`
	RepIntS int      `json:"repeatIntervalSec"`
	Pre     []string `json:"pre"` // condition|expected
	Sig     string   `json:"sig"`
	Output  string   `json:"output"`
	Cmd     string   `json:"cmd"`
	Args    []string `json:"args"`
}

type yResult struct {
	ID        string            `json:"id"`
	Err       string            `json:"err,omitempty"`
	MaxActive int               `json:"maxActive"`
	TimeoutS  int               `json:"timeoutSec"`
	DelayS    int               `json:"delaySec"`
	CleanupS  int               `json:"maxCleanUpSec"`
	Handlers  map[string]string `json:"handlers"` // success/failure/cancel/exit -> command
	Pre       []string          `json:"pre"`
	Steps     []yStep           `json:"steps"`
}

func yamlCaseRun(line []byte, out *bufio.Writer) {
	var c yamlCase
	if json.Unmarshal(line, &c) != nil {
		return
	}
	res := yResult{ID: c.ID, Handlers: map[string]string{}}
	func() {
		defer func() {
			if r := recover(); r != nil {
				res.Err = "panic"
			}
		}()
		var d *dag.DAG
		var err error
		if c.Base != "" {
			dir, _ := os.MkdirTemp("", "verif-yaml-")
			defer os.RemoveAll(dir)
			bp, fp := filepath.Join(dir, "base.yaml"), filepath.Join(dir, "d.yaml")
			_ = os.WriteFile(bp, []byte(c.Base), 0o644)
			_ = os.WriteFile(fp, []byte(c.YAML), 0o644)
			d, err = dag.Load(bp, fp, "")
		} else {
			d, err = dag.LoadYAML([]byte(c.YAML))
		}
		if err != nil {
			res.Err = "error"
			return
		}
		res.MaxActive = d.MaxActiveRuns
		res.TimeoutS = int(d.Timeout.Seconds())
		res.DelayS = int(d.Delay.Seconds())
		res.CleanupS = int(d.MaxCleanUpTime.Seconds())
		for _, p := range d.Preconditions {
			res.Pre = append(res.Pre, p.Condition+"|"+p.Expected)
		}
		h := func(k string, s *dag.Step) {
			if s != nil {
				res.Handlers[k] = s.Command
			}
		}
		h("success", d.HandlerOn.Success)
		h("failure", d.HandlerOn.Failure)
		h("cancel", d.HandlerOn.Cancel)
		h("exit", d.HandlerOn.Exit)
		for _, s := range d.Steps {
			ys := yStep{Name: s.Name, Depends: s.Depends, CF: s.ContinueOn.Failure, CS: s.ContinueOn.Skipped,
				Repeat: s.RepeatPolicy.Repeat, RepIntS: int(s.RepeatPolicy.Interval.Seconds()), Sig: s.SignalOnStop,
				Output: s.Output, Cmd: s.Command, Args: s.Args}
			if s.RetryPolicy != nil {
				ys.HasRP = true
				ys.Limit = s.RetryPolicy.Limit
				ys.RIntS = int(s.RetryPolicy.Interval.Seconds())
			}
			for _, p := range s.Preconditions {
				ys.Pre = append(ys.Pre, p.Condition+"|"+p.Expected)
			}
			res.Steps = append(res.Steps, ys)
		}
	}()
	b, _ := json.Marshal(res)
	out.Write(b)
	out.WriteByte('\n')
	out.Flush()
}
