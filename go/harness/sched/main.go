//go:build verif

// Scheduler-area harness: drives the REAL internal/dag/scheduler in-process with scripted executors.
//
//	sched  : cases (JSON lines on stdin) -> one JSON result line per case (ops performed, quiescent
//	         snapshots, event trace, verdicts of the Go-side property monitors)
//	graph  : step lists -> verdict of NewExecutionGraph + independent DFS oracle
package main

import (
	"bufio"
	"context"
	"encoding/json"
	"errors"
	"fmt"
	"io"
	"log"
	"math/rand"
	"os"
	"strings"
	"sync"
	"syscall"
	"time"

	"github.com/ErdemOzgen/blackdagger/internal/dag"
	"github.com/ErdemOzgen/blackdagger/internal/dag/executor"
	"github.com/ErdemOzgen/blackdagger/internal/dag/scheduler"
	"github.com/ErdemOzgen/blackdagger/internal/logger"
)

// ---------- scripted executor ----------

type event struct {
	Seq  int    `json:"seq"`
	Kind string `json:"k"` // start end kill
	Node int    `json:"n"` // step index; handlers: 1000 + h
	Att  int    `json:"a,omitempty"`
	OK   bool   `json:"ok,omitempty"`
	Sig  int    `json:"sig,omitempty"`
	// statuses of all nodes sampled at a start event (for the C01 monitor)
	St []string `json:"st,omitempty"`
}

type world struct {
	mu        sync.Mutex
	events    []event
	inflight  map[int]*scriptExec // by node index
	attempts  map[int]int
	g         *scheduler.ExecutionGraph
	highWater int
}

var W *world

type scriptExec struct {
	idx     int
	att     int
	release chan bool // outcome
	obeys   bool
	killed  bool
}

func (e *scriptExec) SetStdout(io.Writer) {}
func (e *scriptExec) SetStderr(io.Writer) {}
func (e *scriptExec) Kill(sig os.Signal) error {
	w := W
	w.mu.Lock()
	s := 0
	if ss, ok := sig.(syscall.Signal); ok {
		s = int(ss)
	}
	w.events = append(w.events, event{Seq: len(w.events), Kind: "kill", Node: e.idx, Att: e.att, Sig: s})
	fire := !e.killed && (e.obeys || s == 9)
	if fire {
		e.killed = true
	}
	w.mu.Unlock()
	if fire {
		e.release <- false
	}
	return nil
}
func (e *scriptExec) Run() error {
	w := W
	var st []string
	if w.g != nil { // never hold w.mu while taking a node lock (the creator runs under the node lock)
		for _, n := range w.g.Nodes() {
			st = append(st, n.State().Status.String())
		}
	}
	w.mu.Lock()
	w.events = append(w.events, event{Seq: len(w.events), Kind: "start", Node: e.idx, Att: e.att, St: st})
	w.inflight[e.idx] = e
	if len(w.inflight) > w.highWater {
		w.highWater = len(w.inflight)
	}
	w.mu.Unlock()
	ok := <-e.release
	w.mu.Lock()
	delete(w.inflight, e.idx)
	w.events = append(w.events, event{Seq: len(w.events), Kind: "end", Node: e.idx, Att: e.att, OK: ok})
	w.mu.Unlock()
	if ok {
		return nil
	}
	return errors.New("scripted failure")
}

func init() {
	executor.Register("verifscript", func(_ context.Context, step dag.Step) (executor.Executor, error) {
		idx := int(step.ExecutorConfig.Config["idx"].(float64))
		obeys := step.ExecutorConfig.Config["obeys"].(bool)
		w := W
		w.mu.Lock()
		att := w.attempts[idx]
		w.attempts[idx] = att + 1
		w.mu.Unlock()
		if att > 60 {
			runaway = idx + 1
			return nil, errors.New("verif: runaway re-execution")
		}
		return &scriptExec{idx: idx, att: att, release: make(chan bool, 2), obeys: obeys}, nil
	})
}

// ---------- cases ----------

type nodeCase struct {
	Deps     []int  `json:"deps"`
	ContFail bool   `json:"cf"`
	ContSkip bool   `json:"cs"`
	Limit    int    `json:"limit"`
	// 0 none, 1 met, 2 unmet, 3 harness-controlled (PreVal);
	// 4 CANNOT BE EVALUATED: the command substitution of the condition exits with an error ("`false`"),
	// 5 cannot be evaluated: the command of the substitution cannot be started at all,
	// 6 `expected: re:<regexp>` that matches the value (met), 7 `re:` that does not match (unmet),
	// 8 `re:` with an invalid regexp (patternutil.MatchPattern logs and drops the pattern: nothing matches = unmet,
	//   NOT an evaluation error). See preUnmet in monitor.go.
	Pre      int    `json:"pre"`
	Fails    int    `json:"fails"`         // fail the first k attempts; -1 = always
	Out      bool   `json:"out,omitempty"` // the step declares `output:`
	Obeys    bool   `json:"obeys"`
	Sig      string `json:"sig"` // signalOnStop
	Rep      bool   `json:"rep"` // repeatPolicy.repeat
	// Pre == 3: the precondition is a command that blocks on a fifo until the harness answers it
	// (op "pre i"); PreVal 1 = met, 2 = unmet, 3 = met at the first evaluation and unmet at every later one
	// (what the precondition reads changes while the run goes on: a retried step is re-checked when it is handed back)
	// PreVal 4 = the evaluation FAILS (the condition's command exits 3 once the harness has answered), 5 = met at the
	// first evaluation, evaluation error at every later one
	PreVal int `json:"prev"`
}

type schedCase struct {
	ID        string     `json:"id"`
	Nodes     []nodeCase `json:"nodes"`
	MaxActive int        `json:"maxActive"`
	Handlers  [4]int     `json:"handlers"`  // success failure cancel exit: 0 absent, 1 ok, 2 fails
	StopAfter int        `json:"stopAfter"` // stop after that many releases; -1 never
	Seed      int64      `json:"seed"`
	Dry       bool       `json:"dry"`
	Ops       []string   `json:"ops,omitempty"` // replay: explicit op list instead of PRNG choices
	// retry mode (C10): recorded per-step state of the run that is retried
	Init   []string `json:"init,omitempty"`
	InitRC []int    `json:"irc,omitempty"`
	InitDC []int    `json:"idc,omitempty"`
	// the listener on the done channel (the agent's: it writes the status to the history store, reports
	// to the socket) takes that long before it accepts each report: every worker's hand-over blocks meanwhile
	SlowDone int `json:"slowDone,omitempty"`
	// repeat interval of the repeating steps (ms); with it the stop can be placed INSIDE the sleep between two
	// iterations (op "relstop i": the iteration of step i ends, then the stop arrives while its worker sleeps)
	RepInt int `json:"repInt,omitempty"`
}

type snap struct {
	St      []string `json:"st"`
	Retry   []int    `json:"rc"`
	Done    []int    `json:"dc"`
	Flight  []int    `json:"fl"`
	Overall string   `json:"ov"`
	Pending []int    `json:"pp"` // steps whose (controlled) precondition is being evaluated right now
}

type result struct {
	ID        string    `json:"id"`
	Ops       []string  `json:"ops"`
	Snaps     []snap    `json:"snaps"`
	Events    []event   `json:"events"`
	Finished  bool      `json:"finished"`
	Err       bool      `json:"err"`
	Hang      bool      `json:"hang"`
	HighWater int       `json:"hw"`
	HandlerSt [4]string `json:"hst"`
	Monitor   []string  `json:"monitor"`
	Panic     string    `json:"panic,omitempty"`
	St0       []string  `json:"st0,omitempty"` // retry mode: statuses right after NewExecutionGraphForRetry
	RC0       []int     `json:"rc0,omitempty"`
}

var pause = time.Millisecond

// retry mode: steps recorded as running that NewExecutionGraphForRetry did not reset have no worker
var exemptRunning = map[int]bool{}
var curCase schedCase

func stepOf(cid string, i int, nc nodeCase) dag.Step {
	s := dag.Step{
		Name:           fmt.Sprintf("s%d", i),
		ExecutorConfig: dag.ExecutorConfig{Type: "verifscript", Config: map[string]any{"idx": float64(i), "obeys": nc.Obeys}},
		ContinueOn:     dag.ContinueOn{Failure: nc.ContFail, Skipped: nc.ContSkip},
		SignalOnStop:   nc.Sig,
	}
	for _, d := range nc.Deps {
		s.Depends = append(s.Depends, fmt.Sprintf("s%d", d))
	}
	if nc.Limit > 0 {
		s.RetryPolicy = &dag.RetryPolicy{Limit: nc.Limit}
	}
	if nc.Out {
		// `output:` makes Node.Execute go through the capture path (pipe, environment variable) after the command
		s.Output = fmt.Sprintf("VERIF_OUT_%s_%d", strings.ToUpper(strings.Map(func(r rune) rune {
			if r >= 'a' && r <= 'z' || r >= '0' && r <= '9' {
				return r
			}
			return '_'
		}, cid)), i)
	}
	if nc.Rep {
		s.RepeatPolicy = dag.RepeatPolicy{Repeat: true, Interval: time.Duration(curCase.RepInt) * time.Millisecond}
	}
	if nc.Pre == 3 {
		p := fifoPath(i)
		_ = syscall.Mkfifo(p, 0o600)
		cond := "`cat " + p + "`"
		if nc.PreVal >= 4 {
			// the harness can also make the evaluation FAIL: answer "e" = the condition's command exits with status 3
			// (the reader on the fifo is still a `cat <fifo>` process, which is what pendingPre looks for)
			sh := fmt.Sprintf("%s/pre-%d.sh", fifoDir, i)
			_ = os.WriteFile(sh, []byte("#!/bin/sh\nv=$(cat "+p+")\n[ \"$v\" = e ] && exit 3\necho \"$v\"\n"), 0o700)
			cond = "`" + sh + "`"
		}
		s.Preconditions = []dag.Condition{{Condition: cond, Expected: "1"}}
	} else if nc.Pre != 0 {
		s.Preconditions = []dag.Condition{staticCondition(i, nc.Pre)}
	}
	return s
}

// staticCondition: the precondition of flavour `pre` (see nodeCase.Pre) for step i
func staticCondition(i, pre int) dag.Condition {
	key := fmt.Sprintf("VERIF_PRE_%d", i)
	os.Setenv(key, "1")
	switch pre {
	case 2:
		os.Setenv(key, "0")
	case 4:
		return dag.Condition{Condition: "`false`", Expected: "1"}
	case 5:
		return dag.Condition{Condition: "`/nonexistent/verif-no-such-command`", Expected: "1"}
	case 6:
		return dag.Condition{Condition: "$" + key, Expected: "re:^[1-9]$"}
	case 7:
		return dag.Condition{Condition: "$" + key, Expected: "re:^[2-9]$"}
	case 8:
		return dag.Condition{Condition: "$" + key, Expected: "re:[1"}
	}
	return dag.Condition{Condition: "$" + key, Expected: "1"}
}

var fifoDir string

func fifoPath(i int) string { return fmt.Sprintf("%s/pre-%d.fifo", fifoDir, i) }

// pendingPre: which fifo has a reader blocked on it (a `cat <fifo>` child of ours exists)
func pendingPre(c schedCase) []int {
	var want []int
	for i, nc := range c.Nodes {
		if nc.Pre == 3 {
			want = append(want, i)
		}
	}
	if len(want) == 0 {
		return nil
	}
	var out []int
	count := map[int]int{}
	catPids = catPids[:0]
	ents, _ := os.ReadDir("/proc")
	for _, e := range ents {
		n := e.Name()
		if n[0] < '0' || n[0] > '9' {
			continue
		}
		b, err := os.ReadFile("/proc/" + n + "/cmdline")
		if err != nil || len(b) == 0 {
			continue
		}
		for _, i := range want {
			if string(b) == "cat\x00"+fifoPath(i)+"\x00" {
				if count[i] == 0 {
					out = append(out, i)
				}
				count[i]++
				var pid int
				fmt.Sscan(n, &pid)
				catPids = append(catPids, pid)
				if count[i] > 8 {
					// the same precondition is being evaluated many times at once: the step is being
					// launched again and again (a runaway that would fork without bound)
					runaway = i + 1
				}
			}
		}
	}
	sortInts(out)
	return out
}

var catPids []int
var runaway int // node index + 1 whose precondition is evaluated by more than 8 processes at once

func handlerStep(h int, mode int) *dag.Step {
	if mode == 0 {
		return nil
	}
	return &dag.Step{
		Name:           []string{"onSuccess", "onFailure", "onCancel", "onExit"}[h],
		ExecutorConfig: dag.ExecutorConfig{Type: "verifscript", Config: map[string]any{"idx": float64(1000 + h), "obeys": true}},
	}
}

func takeSnap(sc *scheduler.Scheduler, g *scheduler.ExecutionGraph) snap {
	var s snap
	s.Pending = pendingPre(curCase)
	for _, n := range g.Nodes() {
		st := n.State()
		s.St = append(s.St, st.Status.String())
		s.Retry = append(s.Retry, st.RetryCount)
		s.Done = append(s.Done, st.DoneCount)
	}
	W.mu.Lock()
	for i := range W.inflight {
		s.Flight = append(s.Flight, i)
	}
	W.mu.Unlock()
	sortInts(s.Flight)
	s.Overall = sc.Status(g).String()
	return s
}

func sortInts(a []int) {
	for i := 1; i < len(a); i++ {
		for j := i; j > 0 && a[j] < a[j-1]; j-- {
			a[j], a[j-1] = a[j-1], a[j]
		}
	}
}

func sameSnap(a, b snap) bool {
	x, _ := json.Marshal(a)
	y, _ := json.Marshal(b)
	return string(x) == string(y)
}

// quiesce waits until nothing moves: no event for `quiet`, two equal snapshots, every running node is
// blocked inside its executor; returns false if Schedule returned meanwhile
var slowDone time.Duration

func quiesce(sc *scheduler.Scheduler, g *scheduler.ExecutionGraph, finished chan struct{}, quiet time.Duration) (snap, bool) {
	deadline := time.Now().Add(3 * time.Second)
	lastN := -1
	var last snap
	stableSince := time.Now()
	for {
		select {
		case <-finished:
			return takeSnap(sc, g), true
		default:
		}
		W.mu.Lock()
		n := len(W.events)
		W.mu.Unlock()
		s := takeSnap(sc, g)
		if runaway != 0 {
			return s, false
		}
		blocked := true
		for i, st := range s.St {
			if st == "running" && !exemptRunning[i] {
				in := false
				for _, f := range s.Flight {
					if f == i {
						in = true
					}
				}
				if !in {
					blocked = false
				}
			}
		}
		if n != lastN || !sameSnap(s, last) || !blocked {
			lastN, last, stableSince = n, s, time.Now()
		} else {
			need := quiet
			if curCase.RepInt > 0 {
				// a repeating step's worker may be asleep between two iterations (labelled failed / running,
				// nothing in flight): wait it out
				need += time.Duration(curCase.RepInt) * time.Millisecond * 3 / 2
			}
			if slowDone > 0 && len(s.Flight) == 0 && len(s.Pending) == 0 {
				// nothing for the harness to act on: the run is about to end or to start a handler, but only
				// after every worker's report was accepted by the (slow) listener
				need += slowDone * time.Duration(len(s.St)+1)
			}
			if time.Since(stableSince) >= need {
				return s, false
			}
		}
		if time.Now().After(deadline) {
			return s, false
		}
		time.Sleep(pause / 2)
	}
}

func runCase(c schedCase, quiet time.Duration) (res result) {
	res.ID = c.ID
	defer func() {
		if r := recover(); r != nil {
			res.Panic = fmt.Sprint(r)
		}
	}()
	W = &world{inflight: map[int]*scriptExec{}, attempts: map[int]int{}}
	rng := rand.New(rand.NewSource(c.Seed))
	curCase = c
	exemptRunning = map[int]bool{}
	runaway = 0
	fifoDir, _ = os.MkdirTemp("", "verif-fifo-")
	defer os.RemoveAll(fifoDir)
	var steps []dag.Step
	for i, nc := range c.Nodes {
		steps = append(steps, stepOf(c.ID, i, nc))
	}
	var g *scheduler.ExecutionGraph
	var err error
	if c.Init != nil {
		g, err = retryGraph(c, steps)
	} else {
		g, err = scheduler.NewExecutionGraph(logger.NewLogger(logger.NewLoggerArgs{Quiet: true}), steps...)
	}
	if err != nil {
		res.Monitor = append(res.Monitor, "graph-rejected:"+err.Error())
		return
	}
	W.g = g
	if c.Init != nil {
		for _, n := range g.Nodes() {
			res.St0 = append(res.St0, n.State().Status.String())
			res.RC0 = append(res.RC0, n.State().RetryCount)
		}
		for i, st := range res.St0 {
			if st == "running" {
				exemptRunning[i] = true
			}
		}
	}
	logDir, _ := os.MkdirTemp("", "verif-sched-")
	defer os.RemoveAll(logDir)
	sc := scheduler.New(&scheduler.Config{
		LogDir: logDir, MaxActiveRuns: c.MaxActive, Dry: c.Dry,
		Logger:    logger.NewLogger(logger.NewLoggerArgs{Quiet: true}),
		OnSuccess: handlerStep(0, c.Handlers[0]), OnFailure: handlerStep(1, c.Handlers[1]),
		OnCancel: handlerStep(2, c.Handlers[2]), OnExit: handlerStep(3, c.Handlers[3]),
	})
	scheduler.VerifSetPause(sc, pause)
	slowDone = time.Duration(c.SlowDone) * time.Millisecond
	done := make(chan *scheduler.Node)
	go func() {
		for {
			if c.SlowDone > 0 {
				time.Sleep(time.Duration(c.SlowDone) * time.Millisecond)
			}
			if _, ok := <-done; !ok {
				return
			}
		}
	}()
	finished := make(chan struct{})
	var schedErr error
	go func() {
		defer func() {
			if r := recover(); r != nil {
				res.Panic = fmt.Sprint(r)
			}
			close(finished)
		}()
		schedErr = sc.Schedule(dag.NewContext(context.Background(), nil, nil, "req", ""), g, done)
	}()

	releases := 0
	preAnswers := map[int]int{}
	stopped := false
	killed := false
	opIdx := 0
	idle := 0
	for {
		s, fin := quiesce(sc, g, finished, quiet)
		if runaway != 0 {
			res.Monitor = append(res.Monitor, fmt.Sprintf("C03:step-launched-again-while-its-launch-is-in-progress:node=%d", runaway-1))
			res.Hang = true
			sc.Signal(g, syscall.SIGKILL, nil, false) // sets the canceled flag: the loop stops launching
			for k := 0; k < 50; k++ {
				pendingPre(c)
				if len(catPids) == 0 {
					break
				}
				for _, pid := range catPids {
					syscall.Kill(pid, syscall.SIGKILL)
				}
				time.Sleep(5 * time.Millisecond)
			}
			break
		}
		if fin {
			res.Snaps = append(res.Snaps, s)
			res.Finished = true
			break
		}
		if c.Ops != nil && opIdx >= len(c.Ops) && idle < 160 {
			// replayed op list used up: the run has to end by itself; give the scheduler's goroutines time before
			// calling it a hang (a snapshot can be stable for `quiet` while Schedule is about to return)
			idle++
			continue
		}
		if c.Ops == nil && len(s.Flight)+len(s.Pending) == 0 &&
			!(!stopped && c.StopAfter >= 0 && releases >= c.StopAfter) && idle < 80 {
			// nothing to do yet (e.g. between two handlers, or the loop goroutine has not run): this is
			// not a quiescent point of the run; a hang is declared only after ~0.5 s of this
			idle++
			continue
		}
		idle = 0
		res.Snaps = append(res.Snaps, s)
		// choose next op
		var op string
		if c.Ops != nil {
			if opIdx >= len(c.Ops) {
				res.Hang = true
				break
			}
			op = c.Ops[opIdx]
			opIdx++
		} else if !stopped && c.StopAfter >= 0 && releases >= c.StopAfter {
			op = "stop"
			if c.RepInt > 0 {
				for _, i := range s.Flight {
					if i < 1000 && c.Nodes[i].Rep && (c.Nodes[i].Fails == 0 || c.Nodes[i].ContFail) {
						op = fmt.Sprintf("relstop %d", i)
					}
				}
			}
		} else if len(s.Flight)+len(s.Pending) > 0 {
			k := rng.Intn(len(s.Flight) + len(s.Pending))
			if k >= len(s.Flight) {
				i := s.Pending[k-len(s.Flight)]
				pv := c.Nodes[i].PreVal
				if pv == 3 || pv == 5 {
					later := pv - 1 // 3: unmet (2) at every later evaluation, 5: evaluation error (4)
					pv = 1
					if preAnswers[i] > 0 {
						pv = later
					}
				}
				op = fmt.Sprintf("pre %d %d", i, pv)
			} else {
				i := s.Flight[k]
				W.mu.Lock()
				e := W.inflight[i]
				W.mu.Unlock()
				ok := true
				if i < 1000 {
					f := c.Nodes[i].Fails
					ok = !(f < 0 || e.att < f)
					if stopped && !killed && !c.Nodes[i].Obeys && rng.Intn(2) == 0 {
						op = "kill" // what Agent.signal does once MaxCleanUpTime has elapsed
					}
				} else {
					ok = c.Handlers[i-1000] != 2
				}
				if op == "" {
					op = fmt.Sprintf("rel %d %v", i, ok)
				}
			}
		} else {
			res.Hang = true
			break
		}
		res.Ops = append(res.Ops, op)
		if len(op) > 8 && op[:8] == "relstop " {
			var i int
			fmt.Sscanf(op, "relstop %d", &i)
			W.mu.Lock()
			e := W.inflight[i]
			W.mu.Unlock()
			if e == nil {
				res.Monitor = append(res.Monitor, fmt.Sprintf("replay-op-not-applicable:%s", op))
				res.Hang = true
				break
			}
			e.release <- true
			releases++
			time.Sleep(time.Duration(c.RepInt) * time.Millisecond / 4) // the worker is asleep between two iterations now
			op = "stop"
		}
		if op == "stop" {
			stopped = true
			W.mu.Lock()
			W.events = append(W.events, event{Seq: len(W.events), Kind: "stop", Node: -1})
			W.mu.Unlock()
			// what Agent.signal does first: Signal(graph, SIGTERM, done, allowOverride=true) in a goroutine
			go sc.Signal(g, syscall.SIGTERM, nil, true)
			time.Sleep(2 * pause)
		} else if op == "kill" {
			killed = true
			W.mu.Lock()
			W.events = append(W.events, event{Seq: len(W.events), Kind: "killall", Node: -1})
			W.mu.Unlock()
			sc.Signal(g, syscall.SIGKILL, nil, false)
		} else if len(op) > 4 && op[:4] == "pre " {
			var i, v int
			fmt.Sscanf(op, "pre %d %d", &i, &v)
			preAnswers[i]++
			// (non-blocking: if the code under test does not evaluate the precondition - no reader on the fifo -
			//  the harness must not wait for ever)
			var f *os.File
			var err error
			for k := 0; k < 400; k++ {
				f, err = os.OpenFile(fifoPath(i), os.O_WRONLY|syscall.O_NONBLOCK, 0)
				if err == nil {
					break
				}
				time.Sleep(5 * time.Millisecond)
			}
			if err != nil {
				res.Monitor = append(res.Monitor, fmt.Sprintf("C02:precondition-not-evaluated-when-the-step-is-due:node=%d", i))
				res.Hang = true
				break
			}
			if err == nil {
				if v == 1 {
					f.WriteString("1\n")
				} else if v == 4 {
					f.WriteString("e\n") // the condition's command fails: the precondition cannot be evaluated
				} else {
					f.WriteString("0\n")
				}
				f.Close()
			}
			// wait until the reader is gone
			for k := 0; k < 200 && len(pendingPre(c)) > 0 && contains(fmt.Sprint(pendingPre(c)), fmt.Sprint(i)); k++ {
				time.Sleep(time.Millisecond)
			}
		} else {
			var i int
			var ok bool
			fmt.Sscanf(op, "rel %d %t", &i, &ok)
			W.mu.Lock()
			e := W.inflight[i]
			W.mu.Unlock()
			for k := 0; e == nil && k < 200; k++ { // replayed op lists: the executor may not have been created yet
				time.Sleep(5 * time.Millisecond)
				W.mu.Lock()
				e = W.inflight[i]
				W.mu.Unlock()
			}
			if e == nil {
				res.Monitor = append(res.Monitor, fmt.Sprintf("replay-op-not-applicable:%s", op))
				res.Hang = true
				break
			}
			e.release <- ok
			releases++
		}
	}
	if res.Hang {
		// unblock everything so the goroutines go away
		for _, i := range pendingPre(c) {
			if f, err := os.OpenFile(fifoPath(i), os.O_WRONLY|syscall.O_NONBLOCK, 0); err == nil {
				f.WriteString("0\n")
				f.Close()
			}
		}
		sc.Signal(g, syscall.SIGKILL, nil, false)
		W.mu.Lock()
		for _, e := range W.inflight {
			select {
			case e.release <- false:
			default:
			}
		}
		W.mu.Unlock()
		select {
		case <-finished:
		case <-time.After(500 * time.Millisecond):
		}
	}
	close(done)
	res.Err = schedErr != nil
	W.mu.Lock()
	res.Events = append(res.Events, W.events...)
	res.HighWater = W.highWater
	W.mu.Unlock()
	for h, t := range []dag.HandlerType{dag.HandlerOnSuccess, dag.HandlerOnFailure, dag.HandlerOnCancel, dag.HandlerOnExit} {
		if n := sc.HandlerNode(t); n != nil {
			res.HandlerSt[h] = n.State().Status.String()
		}
	}
	if c.Init != nil {
		res.Monitor = append(res.Monitor, monitorRetry(c, &res, stopped)...)
	} else {
		res.Monitor = append(res.Monitor, monitor(c, &res, stopped)...)
	}
	return
}

func main() {
	log.SetOutput(io.Discard)
	mode := "sched"
	if len(os.Args) > 1 {
		mode = os.Args[1]
	}
	quiet := 6 * time.Millisecond
	if v := os.Getenv("VERIF_QUIET_MS"); v != "" {
		var ms int
		fmt.Sscan(v, &ms)
		quiet = time.Duration(ms) * time.Millisecond
	}
	in := bufio.NewReaderSize(os.Stdin, 1<<20)
	out := bufio.NewWriter(os.Stdout)
	defer out.Flush()
	for {
		line, err := in.ReadBytes('\n')
		if len(line) > 1 {
			switch mode {
			case "sched":
				var c schedCase
				if e := json.Unmarshal(line, &c); e != nil {
					fmt.Fprintln(os.Stderr, "bad case:", e)
					os.Exit(2)
				}
				r := runCase(c, quiet)
				b, _ := json.Marshal(r)
				out.Write(b)
				out.WriteByte('\n')
				out.Flush()
			case "graph":
				graphCase(line, out)
			case "yaml":
				yamlCaseRun(line, out)
			case "yamlaccept":
				yamlAcceptCase(line, out)
			}
		}
		if err != nil {
			break
		}
	}
}
