//go:build verif

// Overlaid into /repo/internal/dag at build time (never written into /repo).
package dag

// VerifParseParamValue exposes the unexported parameter tokenizer: (name, value) pairs.
func VerifParseParamValue(input string, eval bool) ([][2]string, error) {
	ps, err := parseParamValue(input, eval)
	if err != nil {
		return nil, err
	}
	out := make([][2]string, 0, len(ps))
	for _, p := range ps {
		out = append(out, [2]string{p.name, p.value})
	}
	return out, nil
}

// VerifStringifyParam exposes stringifyParam.
func VerifStringifyParam(name, value string) string {
	return stringifyParam(paramPair{name: name, value: value})
}
