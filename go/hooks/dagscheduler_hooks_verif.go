//go:build verif

// Overlaid into /repo/internal/dag/scheduler at build time (never written into /repo).
package scheduler

import "time"

// VerifSetPause sets the scheduling loop's polling pause (fixed at 100 ms in New).
func VerifSetPause(sc *Scheduler, d time.Duration) { sc.pause = d }

// VerifNodeID exposes a node's graph id (used to map events to nodes).
func VerifNodeID(n *Node) int { return n.id }
