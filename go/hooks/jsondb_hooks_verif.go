//go:build verif

// Overlaid into /repo/internal/persistence/jsondb at build time (never written into /repo).
package jsondb

// VerifEscapeGlob exposes escapeGlob (the escaping applied to the per-DAG glob pattern).
func VerifEscapeGlob(s string) string { return escapeGlob(s) }

// VerifGlobPattern exposes the pattern the store globs for a DAG file.
func VerifGlobPattern(dataDir, dagFile string) string { return New(dataDir, false).globPattern(dagFile) }
