//go:build verif

// Overlaid into /repo/cmd at build time (never written into /repo).
package cmd

// VerifRemoveQuotes exposes removeQuotes (applied by `start` to the -p argument).
func VerifRemoveQuotes(s string) string { return removeQuotes(s) }

// VerifExecute runs the REAL command line (`start`, `retry`, `restart`, …) exactly as main does.
func VerifExecute(args []string) error {
	rootCmd.SetArgs(args)
	return rootCmd.Execute()
}
