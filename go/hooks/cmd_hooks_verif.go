//go:build verif

// Overlaid into /repo/cmd at build time (never written into /repo).
package cmd

// VerifRemoveQuotes exposes removeQuotes (applied by `start` to the -p argument).
func VerifRemoveQuotes(s string) string { return removeQuotes(s) }
