//go:build verif

// Overlaid into /repo/internal/persistence/filecache at build time (never written into /repo).
package filecache

import "time"

// VerifExpireAndEvict makes the entry of fileName (if any) look expired - as if its TTL + jitter had
// passed - and then runs one pass of the REAL eviction (the body of the StartEviction ticker).
func VerifExpireAndEvict[T any](c *Cache[T], fileName string) {
	if item, ok := c.entries.Load(fileName); ok {
		e := item.(Entry[T])
		e.ExpiresAt = time.Unix(1, 0)
		c.entries.Store(fileName, e)
	}
	c.evict()
}
