//go:build verif

// Overlaid into /repo/internal/client at build time (never written into /repo).
package client

// VerifEscapeArg exposes escapeArg (applied by client.Start to the parameter string).
func VerifEscapeArg(s string) string { return escapeArg(s) }
