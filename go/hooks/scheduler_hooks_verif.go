//go:build verif

// Overlaid into /repo/internal/scheduler at build time (never written into /repo).
// Exported doors to the daemon's unexported pieces; the only logic of its own is waiting for the
// goroutines of a tick to finish (VerifTick) and observing the loop's reads (VerifLoop).
package scheduler

import (
	"sort"
	"sync/atomic"
	"time"
)

// VerifSetClock sets the daemon's clock (setFixedTime); the zero time restores the wall clock.
func VerifSetClock(t time.Time) { setFixedTime(t) }

// VerifNow reads the daemon's clock.
func VerifNow() time.Time { return now() }

// VerifTick executes one tick of the daemon for minute t (the body of the loop in start()) and waits
// until the goroutines it launched have returned from entry.Invoke.  run() itself is untouched: the
// entry reader is wrapped for the duration of the call so that the jobs handed to run() report when
// their Start/Stop/Restart returns.  The number to wait for is the number of distinct (entry type,
// DAG location) pairs among the entries whose Next is not After(t) and not the zero time — what run()
// invokes since 3d1ee58 (F8) and 922dee6 (F10).  Entries that those fixes skip (zero Next; a second entry
// of the same kind for the same DAG) are still waited for, for at most `grace`, should they be invoked
// again, so that a regression shows up as recorded calls rather than as a race.
// Returns false if the wait ended by the timeout.
func VerifTick(s *Scheduler, t time.Time, grace, timeout time.Duration) bool {
	inner := s.entryReader
	r := &verifSyncReader{inner: inner, t: t}
	s.entryReader = r
	s.run(t)
	s.entryReader = inner
	begin := time.Now()
	for {
		st, fi := r.started.Load(), r.finished.Load()
		if st == fi && fi >= r.expected.Load() {
			if fi >= r.expected.Load()+r.skipped.Load() || time.Since(begin) > grace {
				return true
			}
		}
		if time.Since(begin) > timeout {
			return false
		}
		time.Sleep(20 * time.Microsecond)
	}
}

type verifSyncReader struct {
	inner             entryReader
	t                 time.Time
	expected, skipped atomic.Int64 // entries run() invokes at t / entries due at t that the fixes skip
	started, finished atomic.Int64
}

func (r *verifSyncReader) Start(done chan any) { r.inner.Start(done) }
func (r *verifSyncReader) Read(now time.Time) ([]*entry, error) {
	es, err := r.inner.Read(now)
	seen := map[string]bool{}
	for _, e := range es {
		if e.Job == nil {
			continue
		}
		key := e.EntryType.String() + " " + e.Job.String()
		if d := e.Job.GetDAG(); d != nil {
			key = e.EntryType.String() + " " + d.Location
		}
		if e.Next.IsZero() {
			r.skipped.Add(1)
		} else if !e.Next.After(r.t) {
			if seen[key] {
				r.skipped.Add(1)
			} else {
				seen[key] = true
				r.expected.Add(1)
			}
		}
		e.Job = &verifJob{job: e.Job, r: r}
	}
	return es, err
}

type verifJob struct {
	job
	r *verifSyncReader
}

func (j *verifJob) Start() error {
	j.r.started.Add(1)
	defer j.r.finished.Add(1)
	return j.job.Start()
}
func (j *verifJob) Stop() error {
	j.r.started.Add(1)
	defer j.r.finished.Add(1)
	return j.job.Stop()
}
func (j *verifJob) Restart() error {
	j.r.started.Add(1)
	defer j.r.finished.Add(1)
	return j.job.Restart()
}

// VerifNextTick is the loop's tick arithmetic.
func VerifNextTick(s *Scheduler, t time.Time) time.Time { return s.nextTick(t) }

// VerifStartWatcher starts the directory watcher goroutine (entryReader.Start).
func VerifStartWatcher(s *Scheduler, done chan any) { s.entryReader.Start(done) }

// VerifLoaded lists the file names currently in the reader's DAG map.
func VerifLoaded(s *Scheduler) []string {
	er, ok := s.entryReader.(*entryReaderImpl)
	if !ok {
		return nil
	}
	er.dagsLock.Lock()
	defer er.dagsLock.Unlock()
	var names []string
	for k := range er.dags {
		names = append(names, k)
	}
	sort.Strings(names)
	return names
}

// VerifLoadedPtr identifies the definition object loaded for a file (changes when the watcher reloads it).
func VerifLoadedPtr(s *Scheduler, name string) any {
	er, ok := s.entryReader.(*entryReaderImpl)
	if !ok {
		return nil
	}
	er.dagsLock.Lock()
	defer er.dagsLock.Unlock()
	return er.dags[name]
}

type verifTickSpy struct {
	inner  entryReader
	onRead func(readInstant time.Time)
}

func (v *verifTickSpy) Start(done chan any) { v.inner.Start(done) }
func (v *verifTickSpy) Read(now time.Time) ([]*entry, error) {
	v.onRead(now)
	return v.inner.Read(now)
}

// VerifLoop runs the REAL loop start() (blocking until Stop) with the entry reader wrapped so that
// onRead sees the instant each tick reads its entries at (= tick - 1s); onRead may move the clock.
func VerifLoop(s *Scheduler, onRead func(readInstant time.Time)) {
	s.entryReader = &verifTickSpy{inner: s.entryReader, onRead: onRead}
	s.start()
}
