//go:build verif

// Overlaid into /repo/internal/persistence/jsondb at build time (never written into /repo), as
// zz_verif_stamp_hooks.go next to the hist area's zz_verif_hooks.go (no identifier is declared twice).
package jsondb

import "time"

// VerifStampStore is a store value for the pure name functions (no cache, no eviction goroutine).
func VerifStampStore(location string) *JSONDB { return &JSONDB{location: location} }

// VerifTimestamp exposes timestamp (rTimestamp.FindString on the whole path).
func VerifTimestamp(file string) string { return timestamp(file) }

// VerifFilterLatest exposes filterLatest (it sorts its argument in place: callers pass a copy).
func VerifFilterLatest(files []string, n int) []string { return filterLatest(files, n) }

// VerifNewFile exposes (*JSONDB).newFile.
func VerifNewFile(s *JSONDB, dagFile string, t time.Time, requestID string) (string, error) {
	return s.newFile(dagFile, t, requestID)
}

// VerifLatestToday exposes (*JSONDB).latestToday.
func VerifLatestToday(s *JSONDB, dagFile string, day time.Time, latestStatusToday bool) ([]string, error) {
	return s.latestToday(dagFile, day, latestStatusToday)
}

// VerifPrefixWithDirectory exposes (*JSONDB).prefixWithDirectory.
func VerifPrefixWithDirectory(s *JSONDB, dagFile string) string { return s.prefixWithDirectory(dagFile) }

// VerifCloseWriter closes the recorder's file WITHOUT compacting (Close needs the cache).
func VerifCloseWriter(s *JSONDB) error {
	if s.writer == nil {
		return nil
	}
	err := s.writer.close()
	s.writer = nil
	return err
}
