/-
  Output capture (`output: NAME`) — node.go Execute, executor/command.go newCommand,
  graph.go NewExecutionGraphForRetry.  Core Lean only.

    ret := strings.TrimSpace(buf.String())
    OutputVariables.Store(NAME, NAME + "=" + ret)          -- shared map of the run
    newCommand: cmd.Env = os.Environ ++ Variables ++ dag envs ++ (every stored "NAME=value"),
                exec keeps the LAST entry of a duplicated key
    retry:      os.Setenv(k, v[len(k)+1:]) for every stored pair of the recorded run; map re-used

  The pipe through which the bytes arrive enters only through `stepEnds` below (F15, fixed).
-/
namespace BdModel.Params

abbrev Str' := List Char

/-- `unicode.IsSpace` (what strings.TrimSpace trims) -/
def goSpace (c : Char) : Bool :=
  c = ' ' || c = '\t' || c = '\n' || c = '\x0b' || c = '\x0c' || c = '\r' ||
  c.toNat = 0x85 || c.toNat = 0xA0 || c.toNat = 0x1680 ||
  (0x2000 ≤ c.toNat && c.toNat ≤ 0x200A) ||
  c.toNat = 0x2028 || c.toNat = 0x2029 || c.toNat = 0x202F || c.toNat = 0x205F || c.toNat = 0x3000

/-- drop trailing white space -/
def dropTrailSp : Str' → Str'
  | [] => []
  | c :: r => if dropTrailSp r = [] ∧ goSpace c then [] else c :: dropTrailSp r

/-- `strings.TrimSpace` -/
def trimSpace (s : Str') : Str' := dropTrailSp (s.dropWhile goSpace)

/-- the captured value of a step that printed `out` -/
def capture (out : Str') : Str' := trimSpace out

/-- setupExec allocates a NEW capture buffer for every execution of the node (retry, repeat): the value of a
    node that ran several times is the trimmed stdout of its LAST execution only -/
def captureRun (execs : List Str') : Str' := capture (execs.getLast?.getD [])

/-- the string stored in the run's output map under `name` -/
def stored (name out : Str') : Str' := name ++ '=' :: capture out

/-- retry: value handed to `os.Setenv(name, ·)` from a stored string : `v[len(name)+1:]` -/
def restore (name st : Str') : Str' := st.drop (name.length + 1)

/-- the run's output map: key ↦ stored string (`SyncMap.Store` replaces) -/
abbrev OutMap := List (Str' × Str')

def OutMap.store (m : OutMap) (k v : Str') : OutMap :=
  match m with
  | [] => [(k, v)]
  | (k', v') :: r => if k' = k then (k, v) :: r else (k', v') :: OutMap.store r k v

def OutMap.get (m : OutMap) (k : Str') : Option Str' :=
  match m with
  | [] => none
  | (k', v') :: r => if k' = k then some v' else OutMap.get r k

/-- one finished step of a run: its output variable name (`[]` = none) and what it printed -/
structure Done where
  name : Str'
  out  : Str'

/-- map after a sequence of finished steps (in completion order) -/
def afterSteps (m : OutMap) : List Done → OutMap
  | [] => m
  | d :: r => afterSteps (if d.name = [] then m else m.store d.name (stored d.name d.out)) r

/-- value of `$name` in the environment of a process started when the map is `m`
    (the map's entries come last in cmd.Env, so they win) -/
def seen (m : OutMap) (name : Str') : Option Str' := (m.get name).map (restore name)

/-- an environment as exec receives it: `NAME=value` entries in order; os/exec keeps the LAST entry of a name -/
abbrev EnvList := List (Str' × Str')
def lookupLast (e : EnvList) (k : Str') : Option Str' :=
  e.foldl (fun acc kv => if kv.1 = k then some kv.2 else acc) none

/-- executor/command.go newCommand (and sub.go): `cmd.Env = os.Environ() ++ step.Variables ++ dagContext.Envs ++
    <every stored output>` — the captured outputs come LAST.  `proc` = the agent's own environment (parameters and
    DAG `env:` entries exported at load, outputs exported by Execute / restored for a retry), `vars` = step.Variables
    (DAG env entries and named parameters), `ctx` = request id and log paths. -/
def childSees (proc vars ctx : EnvList) (m : OutMap) (k : Str') : Option Str' :=
  match seen m k with
  | some v => some v                               -- an output of that name is the last entry: it wins
  | none => lookupLast (proc ++ vars ++ ctx) k

end BdModel.Params

namespace BdModel.Params
/-- size in bytes (UTF-8) -/
def byteLen (s : Str') : Nat := s.foldl (fun n c => n + c.utf8Size) 0

/-- node.go setupExec starts a goroutine that drains the capture pipe WHILE the command runs
    (fix 5e4d4e2 / F15; before it the pipe was read only after `cmd.Run()` had returned). -/
def drained : Bool := true

/-- The goroutine of os/exec that copies the child's output into the capture pipe blocks once the pipe
    (`cap` = what the kernel's pipe holds: 16 page buffers, 65536 bytes at best) is full and nobody
    reads; `Run` waits for that goroutine.  So the step ends iff the pipe is drained concurrently or
    everything printed fits. -/
def stepEnds (cap printed : Nat) : Bool := drained || decide (printed ≤ cap)

/-- Linux refuses to exec with a single environment string of 131072 bytes or more (E2BIG): the stored
    `NAME=value` string (plus its terminating NUL) has to stay below that for later steps to start. -/
def envLimit : Nat := 131072
def laterExecOk (name out : Str') : Bool := decide (byteLen (stored name out) + 1 ≤ envLimit)
end BdModel.Params
