import BdModel.Params.Parse
/-
  The documented parameter syntax, as data: a parameter string is a list of items separated by one
  space; an item is a bare word, a "quoted value", NAME=value or NAME="quoted value".  Inside a quoted
  value a double quote is written `\"` (the only escape the syntax has).
-/
namespace BdModel.Params

inductive Item where
  | bare   (w : Str)            -- word
  | quoted (v : Str)            -- "v"
  | named  (n w : Str)          -- n=w
  | namedQ (n v : Str)          -- n="v"
  deriving DecidableEq, Repr

def Item.render : Item → Str
  | .bare w => w
  | .quoted v => '"' :: (esc v ++ ['"'])
  | .named n w => n ++ '=' :: w
  | .namedQ n v => n ++ '=' :: '"' :: (esc v ++ ['"'])

/-- the parameter string: items separated by one space -/
def render : List Item → Str
  | [] => []
  | [i] => i.render
  | i :: j :: r => i.render ++ ' ' :: render (j :: r)

/-- (name, value) the author means; name `[]` = positional -/
def Item.intended : Item → Str × Str
  | .bare w => ([], w)
  | .quoted v => ([], v)
  | .named n w => (n, w)
  | .namedQ n v => (n, v)

def intended (is : List Item) : List (Str × Str) := is.map Item.intended

/-- the last character is a backslash (such a value cannot be written between quotes: the syntax
    has no escape for the backslash, `"…\"` reads as an escaped quote) -/
def endsBS : Str → Bool
  | [] => false
  | [c] => c = '\\'
  | _ :: d :: r => endsBS (d :: r)

/-- among the white-space and '=' characters of `v` the first one is an '=' -/
def eqFirst : Str → Bool
  | [] => false
  | c :: r => if c = '=' then true else if reSpace c then false else eqFirst r

/-- a word: non-empty, no white space, no double quote, does not begin with a backtick -/
def wordOk (w : Str) : Bool := w ≠ [] && w.all bareCh && w.head? != some '`'
/-- a name: non-empty, no white space, no '=' -/
def nameOk (n : Str) : Bool := n ≠ [] && n.all nameCh

/-- well-formed item of the documented syntax -/
def Item.ok : Item → Bool
  | .bare w => wordOk w && w.all (· != '=')
  | .quoted v => !endsBS v
  | .named n w => nameOk n && wordOk w
  | .namedQ n v => nameOk n && !endsBS v

/-- the region in which the code is right (the complement is F14b): an unnamed quoted value must not
    have an '=' before its first white space (the `name=` group of the regex matches inside the quotes).
    (F14a — a quoted value ending in '"' — was repaired by e247fb2 and is no longer excluded.) -/
def Item.safe : Item → Bool
  | .quoted v => !eqFirst v
  | _ => true

/-- a (name, value) pair whose text is one word: it is recorded unquoted (non-empty, no white space, no
    double quote, no leading backtick; unnamed: no '=') -/
def stable (pr : Str × Str) : Bool :=
  if pr.1 = [] then wordOk pr.2 && pr.2.all (· != '=') else nameOk pr.1 && wordOk pr.2

/-- **the exact hypothesis of the round trip** through the recorded string (model.Params + re-parse):
    the name is empty or well-formed; a value that is recorded QUOTED (empty, white space or '"' inside)
    does not end with a backslash and, when unnamed, has no '=' before its first white space (F14b);
    a value that is recorded unquoted is `stable`. -/
def roundOk (pr : Str × Str) : Bool :=
  (pr.1 = [] || nameOk pr.1) &&
  (if needsQuote pr.2 then !endsBS pr.2 && (pr.1 != [] || !eqFirst pr.2) else stable pr)

/-- the item the recorded text of a pair is -/
def toItem (pr : Str × Str) : Item :=
  if needsQuote pr.2 then (if pr.1 = [] then .quoted pr.2 else .namedQ pr.1 pr.2)
  else (if pr.1 = [] then .bare pr.2 else .named pr.1 pr.2)

end BdModel.Params
