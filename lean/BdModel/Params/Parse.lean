/-
  Params — the parameter tokenizer, quoting rules and the join used for restart / retry.
  Core Lean only.  Strings are `List Char` (one `Char` per rune; inputs are valid UTF-8).

  Source modelled (as it is NOW):
    internal/dag/parser.go                 parseParamValue, stringifyParam, parseParams
    internal/persistence/model/status.go   Params  (entries quoted when needed, joined with " ")
    cmd/start.go   removeQuotes ;  internal/client/client.go   escapeArg

  parseParamValue uses the regular expression (Go `regexp`, leftmost-first = Perl semantics)

      (?:([^\s=]+)=)?("(?:\\"|[^"])*"|`(?:\\"|[^"]*)`|[^"\s]+)

  and `FindAllStringSubmatch(input, -1)`.  `matchAt` below is the hand-written recogniser of ONE
  match attempt at a position, `tokenizeFuel` the FindAll loop.  Go's `\s` is `[\t\n\f\r ]`.

  NOT modelled: backtick command substitution and `os.ExpandEnv` on the values (performed only on
  the evaluating load path; both are the identity on values without '`' and '$').
-/
namespace BdModel.Params

abbrev Str := List Char

/-- Go regexp `\s` -/
def reSpace (c : Char) : Bool := c = ' ' || c = '\t' || c = '\n' || c = '\x0c' || c = '\r'

/-- `[^\s=]` -/
def nameCh (c : Char) : Bool := !reSpace c && c != '='
/-- `[^"\s]` -/
def bareCh (c : Char) : Bool := !reSpace c && c != '"'

/-- longest prefix satisfying `p`, and the rest -/
def spanP (p : Char → Bool) : Str → Str × Str
  | [] => ([], [])
  | c :: r => if p c then (c :: (spanP p r).1, (spanP p r).2) else ([], c :: r)

/-- Alternative `"(?:\\"|[^"])*"` AFTER the opening quote: `(body, rest after the closing quote)`.
    `esc` = the previous body character was a backslash.  Backtracking order of the regex: `\"` is
    first read as an escaped quote; only if no closing quote is found later is that quote taken as
    the closing one (the body then ends with the backslash). -/
def scanQ (esc : Bool) : Str → Option (Str × Str)
  | [] => none
  | c :: r =>
    if c = '"' then
      if esc then
        match scanQ false r with
        | some x => some (c :: x.1, x.2)
        | none => some ([], r)
      else some ([], r)
    else
      match scanQ (c = '\\') r with
      | some x => some (c :: x.1, x.2)
      | none => none

/-- Alternative `` `[^"]*` `` AFTER the opening backtick: greedy, i.e. up to the LAST backtick
    before the first double quote: `(body, rest after the closing backtick)`. -/
def scanB : Str → Option (Str × Str)
  | [] => none
  | c :: r =>
    if c = '"' then none
    else
      match scanB r with
      | some x => some (c :: x.1, x.2)
      | none => if c = '`' then some ([], r) else none

/-- the other backtick form: exactly `` `\"` `` -/
def tickEsc : Str → Option Str
  | a :: b :: t :: r => if a = '\\' ∧ b = '"' ∧ t = '`' then some r else none
  | _ => none

/-- `[^"\s]+` -/
def bareAt (s : Str) : Option (Str × Str) :=
  if (spanP bareCh s).1 = [] then none else some (spanP bareCh s)

/-- group 2 at a position: `(raw text of the value incl. its quotes, rest)` -/
def valueAt : Str → Option (Str × Str)
  | [] => none
  | c :: r =>
    if c = '"' then
      match scanQ false r with
      | some x => some (c :: (x.1 ++ ['"']), x.2)
      | none => none
    else if c = '`' then
      match tickEsc r with
      | some r3 => some (['`', '\\', '"', '`'], r3)
      | none =>
        match scanB r with
        | some x => some (c :: (x.1 ++ ['`']), x.2)
        | none => bareAt (c :: r)
    else bareAt (c :: r)

/-- value only (the optional name group is skipped) -/
def noName (s : Str) : Option (Str × Str × Str) :=
  match valueAt s with
  | some x => some ([], x.1, x.2)
  | none => none

/-- one match attempt of the whole regex at a position: `(name, raw value, rest)`.
    The name group `([^\s=]+)=` is tried first (greedy: the maximal run, which must be followed by
    '='); if the value does not match after it the engine backtracks and skips the group. -/
def matchAt (s : Str) : Option (Str × Str × Str) :=
  if (spanP nameCh s).1 = [] then noName s
  else
    match (spanP nameCh s).2 with
    | [] => noName s
    | e :: r' =>
      if e = '=' then
        match valueAt r' with
        | some x => some ((spanP nameCh s).1, x.1, x.2)
        | none => noName s
      else noName s

/-- `FindAllStringSubmatch`: successive non-overlapping leftmost matches; a position without a
    match is skipped.  Every match is non-empty, so `fuel = length + 1` always suffices. -/
def tokenizeFuel : Nat → Str → List (Str × Str)
  | 0, _ => []
  | _, [] => []
  | n + 1, c :: r =>
    match matchAt (c :: r) with
    | some (nm, raw, rest) => (nm, raw) :: tokenizeFuel n rest
    | none => tokenizeFuel n r

def tokenize (s : Str) : List (Str × Str) := tokenizeFuel (s.length + 1) s

/-! ### the quoting rules applied to a matched value -/

/-- `value[1 : len(value)-1]` : exactly the enclosing quotes (fix e247fb2 / F14a; before it
    `strings.Trim(value, "\"")` removed ALL leading and trailing quotes).  The quoted alternative of the
    regex always yields a text of length ≥ 2 that begins and ends with '"'. -/
def stripEnds (s : Str) : Str := (s.drop 1).dropLast

/-- `strings.ReplaceAll(value, "\\\"", "\"")` -/
def replaceEsc : Str → Str
  | [] => []
  | [c] => [c]
  | c :: d :: r => if c = '\\' ∧ d = '"' then d :: replaceEsc r else c :: replaceEsc (d :: r)

/-- what parseParamValue does with a raw value (no command substitution) -/
def unquote (raw : Str) : Str :=
  match raw with
  | c :: _ => if c = '"' then replaceEsc (stripEnds raw) else raw
  | [] => raw

/-- `parseParamValue(input, false)` : (name, value) pairs; name `[]` = positional only -/
def parse (p : Str) : List (Str × Str) := (tokenize p).map (fun t => (t.1, unquote t.2))

/-- `stringifyParam` -/
def stringify (pr : Str × Str) : Str := if pr.1 = [] then pr.2 else pr.1 ++ '=' :: pr.2

/-- `strings.Join(·, " ")` -/
def joinSp : List Str → Str
  | [] => []
  | [a] => a
  | a :: b :: r => a ++ ' ' :: joinSp (b :: r)

/-- write a value between double quotes: `strings.ReplaceAll(value, "\"", "\\\"")` -/
def esc : Str → Str
  | [] => []
  | c :: r => if c = '"' then '\\' :: '"' :: esc r else c :: esc r

/-- model.Params, `paramNamePrefix.FindString` (`^[^\s=]+=`): (the prefix incl. its '=', the rest) -/
def splitName (s : Str) : Str × Str :=
  match (spanP nameCh s).2 with
  | e :: r => if (spanP nameCh s).1 ≠ [] ∧ e = '=' then ((spanP nameCh s).1 ++ ['='], r) else ([], s)
  | [] => ([], s)

/-- model.Params: the value part is empty or `strings.ContainsAny(value, " \t\n\f\r\"")` -/
def needsQuote (v : Str) : Bool := v = [] || v.any (fun c => reSpace c || c = '"')

/-- model.Params, one entry: `NAME=` kept, the value quoted when it needs it (fix 0f8580b / F13) -/
def quoteEntry (s : Str) : Str :=
  (splitName s).1 ++ (if needsQuote (splitName s).2 then '"' :: (esc (splitName s).2 ++ ['"']) else (splitName s).2)

/-- model.Params: the recorded parameter string (before 0f8580b: `strings.Join(params, " ")` unquoted) -/
def join (l : List Str) : Str := joinSp (l.map quoteEntry)

/-- `DAG.Params` as built by parseParams, and the string recorded in the status -/
def dagParams (p : Str) : List Str := (parse p).map stringify
def recorded (p : Str) : Str := join (dagParams p)

/-- what the steps see as `$1 … $n` (parseParams: value for a positional parameter, `NAME=value`
    for a named one) -/
def positional (p : Str) : List Str := dagParams p
/-- what the steps see as `$NAME` -/
def named (p : Str) : List (Str × Str) := (parse p).filter (fun pr => pr.1 ≠ [])

/-- cmd/start.go `removeQuotes` -/
def removeQuotes (s : Str) : Str :=
  match s with
  | c :: r => if r ≠ [] ∧ c = '"' ∧ r.getLast? = some '"' then r.dropLast else s
  | [] => s

/-- client.go `escapeArg` -/
def escapeArg : Str → Str
  | [] => []
  | c :: r => if c = '\r' then '\\' :: 'r' :: escapeArg r
              else if c = '\n' then '\\' :: 'n' :: escapeArg r
              else c :: escapeArg r

/-- what `client.Start` puts on the command line and `start` hands to `dag.Load` -/
def viaStart (p : Str) : Str := removeQuotes ('"' :: (escapeArg p ++ ['"']))

end BdModel.Params
