import BdModel.Extracted.Params
import BdModel.Canon.Params
/- Tie obligations: what the extractor reads from /repo NOW equals what the model was written against. -/
namespace BdModel.Tie.Params

theorem tie_h_params_parseParamValue : Extracted.Params.h_params_parseParamValue = Canon.Params.h_params_parseParamValue := by decide +kernel
theorem tie_h_params_stringifyParam : Extracted.Params.h_params_stringifyParam = Canon.Params.h_params_stringifyParam := by decide +kernel
theorem tie_h_params_parseParams : Extracted.Params.h_params_parseParams = Canon.Params.h_params_parseParams := by decide +kernel
theorem tie_h_params_buildParams : Extracted.Params.h_params_buildParams = Canon.Params.h_params_buildParams := by decide +kernel
theorem tie_h_params_modelParams : Extracted.Params.h_params_modelParams = Canon.Params.h_params_modelParams := by decide +kernel
theorem tie_h_params_removeQuotes : Extracted.Params.h_params_removeQuotes = Canon.Params.h_params_removeQuotes := by decide +kernel
theorem tie_h_params_escapeArg : Extracted.Params.h_params_escapeArg = Canon.Params.h_params_escapeArg := by decide +kernel
theorem tie_h_params_clientStart : Extracted.Params.h_params_clientStart = Canon.Params.h_params_clientStart := by decide +kernel
theorem tie_h_params_nodeExecute : Extracted.Params.h_params_nodeExecute = Canon.Params.h_params_nodeExecute := by decide +kernel
theorem tie_h_params_newCommand : Extracted.Params.h_params_newCommand = Canon.Params.h_params_newCommand := by decide +kernel
theorem tie_h_params_NewExecutionGraphForRetry : Extracted.Params.h_params_NewExecutionGraphForRetry = Canon.Params.h_params_NewExecutionGraphForRetry := by decide +kernel
theorem tie_h_params_nodeSetupExec : Extracted.Params.h_params_nodeSetupExec = Canon.Params.h_params_nodeSetupExec := by decide +kernel
theorem tie_h_rest_params_dag_parser_go : Extracted.Params.h_rest_params_dag_parser_go = Canon.Params.h_rest_params_dag_parser_go := by decide +kernel
theorem tie_h_rest_params_persistence_model_status_go : Extracted.Params.h_rest_params_persistence_model_status_go = Canon.Params.h_rest_params_persistence_model_status_go := by decide +kernel
theorem tie_h_rest_params_cmd_start_go : Extracted.Params.h_rest_params_cmd_start_go = Canon.Params.h_rest_params_cmd_start_go := by decide +kernel
theorem tie_h_rest_params_cmd_retry_go : Extracted.Params.h_rest_params_cmd_retry_go = Canon.Params.h_rest_params_cmd_retry_go := by decide +kernel
theorem tie_h_rest_params_cmd_restart_go : Extracted.Params.h_rest_params_cmd_restart_go = Canon.Params.h_rest_params_cmd_restart_go := by decide +kernel
theorem tie_h_rest_params_dag_scheduler_node_go : Extracted.Params.h_rest_params_dag_scheduler_node_go = Canon.Params.h_rest_params_dag_scheduler_node_go := by decide +kernel

#print axioms tie_h_params_parseParamValue
#print axioms tie_h_params_stringifyParam
#print axioms tie_h_params_parseParams
#print axioms tie_h_params_buildParams
#print axioms tie_h_params_modelParams
#print axioms tie_h_params_removeQuotes
#print axioms tie_h_params_escapeArg
#print axioms tie_h_params_clientStart
#print axioms tie_h_params_nodeExecute
#print axioms tie_h_params_newCommand
#print axioms tie_h_params_NewExecutionGraphForRetry
#print axioms tie_h_params_nodeSetupExec
#print axioms tie_h_rest_params_dag_parser_go
#print axioms tie_h_rest_params_persistence_model_status_go
#print axioms tie_h_rest_params_cmd_start_go
#print axioms tie_h_rest_params_cmd_retry_go
#print axioms tie_h_rest_params_cmd_restart_go
#print axioms tie_h_rest_params_dag_scheduler_node_go

end BdModel.Tie.Params
