import BdModel.Extracted.Api
import BdModel.Canon.Api
/- Tie obligations: what the extractor reads from /repo NOW equals what the model was written against. -/
namespace BdModel.Tie.Api

theorem tie_h_api_handler_postAction : Extracted.Api.h_api_handler_postAction = Canon.Api.h_api_handler_postAction := by decide +kernel
theorem tie_h_api_handler_processUpdateStatus : Extracted.Api.h_api_handler_processUpdateStatus = Canon.Api.h_api_handler_processUpdateStatus := by decide +kernel
theorem tie_h_api_client_GetStatus : Extracted.Api.h_api_client_GetStatus = Canon.Api.h_api_client_GetStatus := by decide +kernel
theorem tie_h_api_client_GetLatestStatus : Extracted.Api.h_api_client_GetLatestStatus = Canon.Api.h_api_client_GetLatestStatus := by decide +kernel
theorem tie_h_api_client_currentStatus : Extracted.Api.h_api_client_currentStatus = Canon.Api.h_api_client_currentStatus := by decide +kernel
theorem tie_h_api_client_GetStatusByRequestID : Extracted.Api.h_api_client_GetStatusByRequestID = Canon.Api.h_api_client_GetStatusByRequestID := by decide +kernel
theorem tie_h_api_client_StartAsync : Extracted.Api.h_api_client_StartAsync = Canon.Api.h_api_client_StartAsync := by decide +kernel
theorem tie_h_api_client_Start : Extracted.Api.h_api_client_Start = Canon.Api.h_api_client_Start := by decide +kernel
theorem tie_h_api_client_Stop : Extracted.Api.h_api_client_Stop = Canon.Api.h_api_client_Stop := by decide +kernel
theorem tie_h_api_client_Retry : Extracted.Api.h_api_client_Retry = Canon.Api.h_api_client_Retry := by decide +kernel
theorem tie_h_api_client_UpdateStatus : Extracted.Api.h_api_client_UpdateStatus = Canon.Api.h_api_client_UpdateStatus := by decide +kernel
theorem tie_h_api_client_ToggleSuspend : Extracted.Api.h_api_client_ToggleSuspend = Canon.Api.h_api_client_ToggleSuspend := by decide +kernel
theorem tie_h_api_client_UpdateDAG : Extracted.Api.h_api_client_UpdateDAG = Canon.Api.h_api_client_UpdateDAG := by decide +kernel
theorem tie_h_api_client_Rename : Extracted.Api.h_api_client_Rename = Canon.Api.h_api_client_Rename := by decide +kernel
theorem tie_h_api_client_escapeArg : Extracted.Api.h_api_client_escapeArg = Canon.Api.h_api_client_escapeArg := by decide +kernel
theorem tie_h_api_model_CorrectRunningStatus : Extracted.Api.h_api_model_CorrectRunningStatus = Canon.Api.h_api_model_CorrectRunningStatus := by decide +kernel
theorem tie_h_api_jsondb_Update : Extracted.Api.h_api_jsondb_Update = Canon.Api.h_api_jsondb_Update := by decide +kernel
theorem tie_h_api_cmd_removeQuotes : Extracted.Api.h_api_cmd_removeQuotes = Canon.Api.h_api_cmd_removeQuotes := by decide +kernel
theorem tie_h_api_dagstore_Rename : Extracted.Api.h_api_dagstore_Rename = Canon.Api.h_api_dagstore_Rename := by decide +kernel
theorem tie_h_api_dagstore_UpdateSpec : Extracted.Api.h_api_dagstore_UpdateSpec = Canon.Api.h_api_dagstore_UpdateSpec := by decide +kernel
theorem tie_h_api_flagstore_ToggleSuspend : Extracted.Api.h_api_flagstore_ToggleSuspend = Canon.Api.h_api_flagstore_ToggleSuspend := by decide +kernel
theorem tie_h_api_jsondb_FindByRequestID : Extracted.Api.h_api_jsondb_FindByRequestID = Canon.Api.h_api_jsondb_FindByRequestID := by decide +kernel
theorem tie_h_rest_api_frontend_dag_handler_go : Extracted.Api.h_rest_api_frontend_dag_handler_go = Canon.Api.h_rest_api_frontend_dag_handler_go := by decide +kernel
theorem tie_h_rest_api_frontend_dag_convert_go : Extracted.Api.h_rest_api_frontend_dag_convert_go = Canon.Api.h_rest_api_frontend_dag_convert_go := by decide +kernel
theorem tie_h_rest_api_client_client_go : Extracted.Api.h_rest_api_client_client_go = Canon.Api.h_rest_api_client_client_go := by decide +kernel
theorem tie_h_rest_api_cmd_start_go : Extracted.Api.h_rest_api_cmd_start_go = Canon.Api.h_rest_api_cmd_start_go := by decide +kernel
theorem tie_h_rest_api_persistence_model_status_go : Extracted.Api.h_rest_api_persistence_model_status_go = Canon.Api.h_rest_api_persistence_model_status_go := by decide +kernel

#print axioms tie_h_api_handler_postAction
#print axioms tie_h_api_handler_processUpdateStatus
#print axioms tie_h_api_client_GetStatus
#print axioms tie_h_api_client_GetLatestStatus
#print axioms tie_h_api_client_currentStatus
#print axioms tie_h_api_client_GetStatusByRequestID
#print axioms tie_h_api_client_StartAsync
#print axioms tie_h_api_client_Start
#print axioms tie_h_api_client_Stop
#print axioms tie_h_api_client_Retry
#print axioms tie_h_api_client_UpdateStatus
#print axioms tie_h_api_client_ToggleSuspend
#print axioms tie_h_api_client_UpdateDAG
#print axioms tie_h_api_client_Rename
#print axioms tie_h_api_client_escapeArg
#print axioms tie_h_api_model_CorrectRunningStatus
#print axioms tie_h_api_jsondb_Update
#print axioms tie_h_api_cmd_removeQuotes
#print axioms tie_h_api_dagstore_Rename
#print axioms tie_h_api_dagstore_UpdateSpec
#print axioms tie_h_api_flagstore_ToggleSuspend
#print axioms tie_h_api_jsondb_FindByRequestID
#print axioms tie_h_rest_api_frontend_dag_handler_go
#print axioms tie_h_rest_api_frontend_dag_convert_go
#print axioms tie_h_rest_api_client_client_go
#print axioms tie_h_rest_api_cmd_start_go
#print axioms tie_h_rest_api_persistence_model_status_go

end BdModel.Tie.Api
