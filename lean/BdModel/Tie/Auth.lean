import BdModel.Extracted.Auth
import BdModel.Canon.Auth
/- Tie obligations: what the extractor reads from /repo NOW equals what the model was written against. -/
namespace BdModel.Tie.Auth

theorem tie_h_mw_SetupGlobalMiddleware : Extracted.Auth.h_mw_SetupGlobalMiddleware = Canon.Auth.h_mw_SetupGlobalMiddleware := by decide +kernel
theorem tie_h_mw_prefixChecker : Extracted.Auth.h_mw_prefixChecker = Canon.Auth.h_mw_prefixChecker := by decide +kernel
theorem tie_h_mw_isAuthenticated : Extracted.Auth.h_mw_isAuthenticated = Canon.Auth.h_mw_isAuthenticated := by decide +kernel
theorem tie_h_mw_withAuthenticated : Extracted.Auth.h_mw_withAuthenticated = Canon.Auth.h_mw_withAuthenticated := by decide +kernel
theorem tie_h_mw_cors : Extracted.Auth.h_mw_cors = Canon.Auth.h_mw_cors := by decide +kernel
theorem tie_h_mw_Setup : Extracted.Auth.h_mw_Setup = Canon.Auth.h_mw_Setup := by decide +kernel
theorem tie_h_mw_BasicAuth : Extracted.Auth.h_mw_BasicAuth = Canon.Auth.h_mw_BasicAuth := by decide +kernel
theorem tie_h_mw_skipBasicAuth : Extracted.Auth.h_mw_skipBasicAuth = Canon.Auth.h_mw_skipBasicAuth := by decide +kernel
theorem tie_h_mw_TokenAuth : Extracted.Auth.h_mw_TokenAuth = Canon.Auth.h_mw_TokenAuth := by decide +kernel
theorem tie_h_mw_skipTokenAuth : Extracted.Auth.h_mw_skipTokenAuth = Canon.Auth.h_mw_skipTokenAuth := by decide +kernel
theorem tie_h_rest_auth_frontend_middleware_basic_auth_go : Extracted.Auth.h_rest_auth_frontend_middleware_basic_auth_go = Canon.Auth.h_rest_auth_frontend_middleware_basic_auth_go := by decide +kernel
theorem tie_h_rest_auth_frontend_middleware_token_auth_go : Extracted.Auth.h_rest_auth_frontend_middleware_token_auth_go = Canon.Auth.h_rest_auth_frontend_middleware_token_auth_go := by decide +kernel
theorem tie_h_rest_auth_frontend_middleware_global_go : Extracted.Auth.h_rest_auth_frontend_middleware_global_go = Canon.Auth.h_rest_auth_frontend_middleware_global_go := by decide +kernel
theorem tie_h_rest_auth_frontend_frontend_go : Extracted.Auth.h_rest_auth_frontend_frontend_go = Canon.Auth.h_rest_auth_frontend_frontend_go := by decide +kernel
theorem tie_h_rest_auth_frontend_server_server_go : Extracted.Auth.h_rest_auth_frontend_server_server_go = Canon.Auth.h_rest_auth_frontend_server_server_go := by decide +kernel
theorem tie_h_rest_auth_config_config_go : Extracted.Auth.h_rest_auth_config_config_go = Canon.Auth.h_rest_auth_config_config_go := by decide +kernel
theorem tie_h_rest_auth_frontend_gen_restapi_configure_blackdagger_go : Extracted.Auth.h_rest_auth_frontend_gen_restapi_configure_blackdagger_go = Canon.Auth.h_rest_auth_frontend_gen_restapi_configure_blackdagger_go := by decide +kernel
theorem tie_skipBasicCond : Extracted.Auth.skipBasicCond = Canon.Auth.skipBasicCond := by decide +kernel
theorem tie_wrapOrder : Extracted.Auth.wrapOrder = Canon.Auth.wrapOrder := by decide +kernel

#print axioms tie_h_mw_SetupGlobalMiddleware
#print axioms tie_h_mw_prefixChecker
#print axioms tie_h_mw_isAuthenticated
#print axioms tie_h_mw_withAuthenticated
#print axioms tie_h_mw_cors
#print axioms tie_h_mw_Setup
#print axioms tie_h_mw_BasicAuth
#print axioms tie_h_mw_skipBasicAuth
#print axioms tie_h_mw_TokenAuth
#print axioms tie_h_mw_skipTokenAuth
#print axioms tie_h_rest_auth_frontend_middleware_basic_auth_go
#print axioms tie_h_rest_auth_frontend_middleware_token_auth_go
#print axioms tie_h_rest_auth_frontend_middleware_global_go
#print axioms tie_h_rest_auth_frontend_frontend_go
#print axioms tie_h_rest_auth_frontend_server_server_go
#print axioms tie_h_rest_auth_config_config_go
#print axioms tie_h_rest_auth_frontend_gen_restapi_configure_blackdagger_go
#print axioms tie_skipBasicCond
#print axioms tie_wrapOrder

end BdModel.Tie.Auth
