import BdModel.Extracted.Exec
import BdModel.Canon.Exec
/- Tie obligations: what the extractor reads from /repo NOW equals what the model was written against. -/
namespace BdModel.Tie.Exec

theorem tie_h_exec_commandExecutor_Kill : Extracted.Exec.h_exec_commandExecutor_Kill = Canon.Exec.h_exec_commandExecutor_Kill := by decide +kernel
theorem tie_h_exec_commandExecutor_Run : Extracted.Exec.h_exec_commandExecutor_Run = Canon.Exec.h_exec_commandExecutor_Run := by decide +kernel
theorem tie_h_exec_newCommand : Extracted.Exec.h_exec_newCommand = Canon.Exec.h_exec_newCommand := by decide +kernel
theorem tie_h_exec_commandExecutor_SetStdout : Extracted.Exec.h_exec_commandExecutor_SetStdout = Canon.Exec.h_exec_commandExecutor_SetStdout := by decide +kernel
theorem tie_h_exec_commandExecutor_SetStderr : Extracted.Exec.h_exec_commandExecutor_SetStderr = Canon.Exec.h_exec_commandExecutor_SetStderr := by decide +kernel
theorem tie_h_rest_exec_dag_executor_command_go : Extracted.Exec.h_rest_exec_dag_executor_command_go = Canon.Exec.h_rest_exec_dag_executor_command_go := by decide +kernel

#print axioms tie_h_exec_commandExecutor_Kill
#print axioms tie_h_exec_commandExecutor_Run
#print axioms tie_h_exec_newCommand
#print axioms tie_h_exec_commandExecutor_SetStdout
#print axioms tie_h_exec_commandExecutor_SetStderr
#print axioms tie_h_rest_exec_dag_executor_command_go

end BdModel.Tie.Exec
