import BdModel.Extracted.Sched
import BdModel.Canon.Sched
/- Tie obligations: what the extractor reads from /repo NOW equals what the model was written against. -/
namespace BdModel.Tie.Sched

theorem tie_h_sched_Schedule : Extracted.Sched.h_sched_Schedule = Canon.Sched.h_sched_Schedule := by decide +kernel
theorem tie_h_sched_isReady : Extracted.Sched.h_sched_isReady = Canon.Sched.h_sched_isReady := by decide +kernel
theorem tie_h_sched_Status : Extracted.Sched.h_sched_Status = Canon.Sched.h_sched_Status := by decide +kernel
theorem tie_h_sched_Signal : Extracted.Sched.h_sched_Signal = Canon.Sched.h_sched_Signal := by decide +kernel
theorem tie_h_sched_Cancel : Extracted.Sched.h_sched_Cancel = Canon.Sched.h_sched_Cancel := by decide +kernel
theorem tie_h_sched_runHandlerNode : Extracted.Sched.h_sched_runHandlerNode = Canon.Sched.h_sched_runHandlerNode := by decide +kernel
theorem tie_h_sched_setupNode : Extracted.Sched.h_sched_setupNode = Canon.Sched.h_sched_setupNode := by decide +kernel
theorem tie_h_sched_teardownNode : Extracted.Sched.h_sched_teardownNode = Canon.Sched.h_sched_teardownNode := by decide +kernel
theorem tie_h_sched_execNode : Extracted.Sched.h_sched_execNode = Canon.Sched.h_sched_execNode := by decide +kernel
theorem tie_h_sched_isFinished : Extracted.Sched.h_sched_isFinished = Canon.Sched.h_sched_isFinished := by decide +kernel
theorem tie_h_sched_isSucceed : Extracted.Sched.h_sched_isSucceed = Canon.Sched.h_sched_isSucceed := by decide +kernel
theorem tie_h_sched_runningCount : Extracted.Sched.h_sched_runningCount = Canon.Sched.h_sched_runningCount := by decide +kernel
theorem tie_h_sched_isTimeout : Extracted.Sched.h_sched_isTimeout = Canon.Sched.h_sched_isTimeout := by decide +kernel
theorem tie_h_sched_isCanceled : Extracted.Sched.h_sched_isCanceled = Canon.Sched.h_sched_isCanceled := by decide +kernel
theorem tie_h_sched_setCanceled : Extracted.Sched.h_sched_setCanceled = Canon.Sched.h_sched_setCanceled := by decide +kernel
theorem tie_h_sched_setup : Extracted.Sched.h_sched_setup = Canon.Sched.h_sched_setup := by decide +kernel
theorem tie_h_node_signal : Extracted.Sched.h_node_signal = Canon.Sched.h_node_signal := by decide +kernel
theorem tie_h_node_cancel : Extracted.Sched.h_node_cancel = Canon.Sched.h_node_cancel := by decide +kernel
theorem tie_h_node_setErr : Extracted.Sched.h_node_setErr = Canon.Sched.h_node_setErr := by decide +kernel
theorem tie_h_node_setStatus : Extracted.Sched.h_node_setStatus = Canon.Sched.h_node_setStatus := by decide +kernel
theorem tie_h_cond_Condition_eval : Extracted.Sched.h_cond_Condition_eval = Canon.Sched.h_cond_Condition_eval := by decide +kernel
theorem tie_h_cond_evalCondition : Extracted.Sched.h_cond_evalCondition = Canon.Sched.h_cond_evalCondition := by decide +kernel
theorem tie_h_cond_EvalConditions : Extracted.Sched.h_cond_EvalConditions = Canon.Sched.h_cond_EvalConditions := by decide +kernel
theorem tie_h_node_finish : Extracted.Sched.h_node_finish = Canon.Sched.h_node_finish := by decide +kernel
theorem tie_h_node_State : Extracted.Sched.h_node_State = Canon.Sched.h_node_State := by decide +kernel
theorem tie_h_node_SetError : Extracted.Sched.h_node_SetError = Canon.Sched.h_node_SetError := by decide +kernel
theorem tie_h_node_getRetryCount : Extracted.Sched.h_node_getRetryCount = Canon.Sched.h_node_getRetryCount := by decide +kernel
theorem tie_h_node_setRetriedAt : Extracted.Sched.h_node_setRetriedAt = Canon.Sched.h_node_setRetriedAt := by decide +kernel
theorem tie_h_node_getDoneCount : Extracted.Sched.h_node_getDoneCount = Canon.Sched.h_node_getDoneCount := by decide +kernel
theorem tie_h_node_clearState : Extracted.Sched.h_node_clearState = Canon.Sched.h_node_clearState := by decide +kernel
theorem tie_h_node_incRetryCount : Extracted.Sched.h_node_incRetryCount = Canon.Sched.h_node_incRetryCount := by decide +kernel
theorem tie_h_node_incDoneCount : Extracted.Sched.h_node_incDoneCount = Canon.Sched.h_node_incDoneCount := by decide +kernel
theorem tie_h_node_setCmdRunning : Extracted.Sched.h_node_setCmdRunning = Canon.Sched.h_node_setCmdRunning := by decide +kernel
theorem tie_h_node_isCmdRunning : Extracted.Sched.h_node_isCmdRunning = Canon.Sched.h_node_isCmdRunning := by decide +kernel
theorem tie_h_node_init : Extracted.Sched.h_node_init = Canon.Sched.h_node_init := by decide +kernel
theorem tie_h_graph_IsRunning : Extracted.Sched.h_graph_IsRunning = Canon.Sched.h_graph_IsRunning := by decide +kernel
theorem tie_h_rest_sched_dag_scheduler_scheduler_go : Extracted.Sched.h_rest_sched_dag_scheduler_scheduler_go = Canon.Sched.h_rest_sched_dag_scheduler_scheduler_go := by decide +kernel
theorem tie_h_rest_sched_dag_scheduler_node_go : Extracted.Sched.h_rest_sched_dag_scheduler_node_go = Canon.Sched.h_rest_sched_dag_scheduler_node_go := by decide +kernel
theorem tie_h_rest_sched_dag_scheduler_graph_go : Extracted.Sched.h_rest_sched_dag_scheduler_graph_go = Canon.Sched.h_rest_sched_dag_scheduler_graph_go := by decide +kernel
theorem tie_h_rest_sched_dag_condition_go : Extracted.Sched.h_rest_sched_dag_condition_go = Canon.Sched.h_rest_sched_dag_condition_go := by decide +kernel
theorem tie_h_rest_sched_patternutil_patternutil_go : Extracted.Sched.h_rest_sched_patternutil_patternutil_go = Canon.Sched.h_rest_sched_patternutil_patternutil_go := by decide +kernel
theorem tie_h_rest_sched_dag_executor_executor_go : Extracted.Sched.h_rest_sched_dag_executor_executor_go = Canon.Sched.h_rest_sched_dag_executor_executor_go := by decide +kernel
theorem tie_h_rest_sched_dag_executor_command_go : Extracted.Sched.h_rest_sched_dag_executor_command_go = Canon.Sched.h_rest_sched_dag_executor_command_go := by decide +kernel
theorem tie_dryGuards : Extracted.Sched.dryGuards = Canon.Sched.dryGuards := by decide +kernel
theorem tie_errSwitch : Extracted.Sched.errSwitch = Canon.Sched.errSwitch := by decide +kernel
theorem tie_exitAppend : Extracted.Sched.exitAppend = Canon.Sched.exitAppend := by decide +kernel
theorem tie_handlerSwitch : Extracted.Sched.handlerSwitch = Canon.Sched.handlerSwitch := by decide +kernel
theorem tie_isReadyTable : Extracted.Sched.isReadyTable = Canon.Sched.isReadyTable := by decide +kernel
theorem tie_nodeSignalSkeleton : Extracted.Sched.nodeSignalSkeleton = Canon.Sched.nodeSignalSkeleton := by decide +kernel
theorem tie_pred_isFinished : Extracted.Sched.pred_isFinished = Canon.Sched.pred_isFinished := by decide +kernel
theorem tie_pred_isSucceed : Extracted.Sched.pred_isSucceed = Canon.Sched.pred_isSucceed := by decide +kernel
theorem tie_pred_runningCount : Extracted.Sched.pred_runningCount = Canon.Sched.pred_runningCount := by decide +kernel
theorem tie_scheduleIfConds : Extracted.Sched.scheduleIfConds = Canon.Sched.scheduleIfConds := by decide +kernel
theorem tie_signalSkeleton : Extracted.Sched.signalSkeleton = Canon.Sched.signalSkeleton := by decide +kernel
theorem tie_statusCascade : Extracted.Sched.statusCascade = Canon.Sched.statusCascade := by decide +kernel

#print axioms tie_h_sched_Schedule
#print axioms tie_h_sched_isReady
#print axioms tie_h_sched_Status
#print axioms tie_h_sched_Signal
#print axioms tie_h_sched_Cancel
#print axioms tie_h_sched_runHandlerNode
#print axioms tie_h_sched_setupNode
#print axioms tie_h_sched_teardownNode
#print axioms tie_h_sched_execNode
#print axioms tie_h_sched_isFinished
#print axioms tie_h_sched_isSucceed
#print axioms tie_h_sched_runningCount
#print axioms tie_h_sched_isTimeout
#print axioms tie_h_sched_isCanceled
#print axioms tie_h_sched_setCanceled
#print axioms tie_h_sched_setup
#print axioms tie_h_node_signal
#print axioms tie_h_node_cancel
#print axioms tie_h_node_setErr
#print axioms tie_h_node_setStatus
#print axioms tie_h_cond_Condition_eval
#print axioms tie_h_cond_evalCondition
#print axioms tie_h_cond_EvalConditions
#print axioms tie_h_node_finish
#print axioms tie_h_node_State
#print axioms tie_h_node_SetError
#print axioms tie_h_node_getRetryCount
#print axioms tie_h_node_setRetriedAt
#print axioms tie_h_node_getDoneCount
#print axioms tie_h_node_clearState
#print axioms tie_h_node_incRetryCount
#print axioms tie_h_node_incDoneCount
#print axioms tie_h_node_setCmdRunning
#print axioms tie_h_node_isCmdRunning
#print axioms tie_h_node_init
#print axioms tie_h_graph_IsRunning
#print axioms tie_h_rest_sched_dag_scheduler_scheduler_go
#print axioms tie_h_rest_sched_dag_scheduler_node_go
#print axioms tie_h_rest_sched_dag_scheduler_graph_go
#print axioms tie_h_rest_sched_dag_condition_go
#print axioms tie_h_rest_sched_patternutil_patternutil_go
#print axioms tie_h_rest_sched_dag_executor_executor_go
#print axioms tie_h_rest_sched_dag_executor_command_go
#print axioms tie_dryGuards
#print axioms tie_errSwitch
#print axioms tie_exitAppend
#print axioms tie_handlerSwitch
#print axioms tie_isReadyTable
#print axioms tie_nodeSignalSkeleton
#print axioms tie_pred_isFinished
#print axioms tie_pred_isSucceed
#print axioms tie_pred_runningCount
#print axioms tie_scheduleIfConds
#print axioms tie_signalSkeleton
#print axioms tie_statusCascade

end BdModel.Tie.Sched
