import BdModel.Extracted.Graph
import BdModel.Canon.Graph
/- Tie obligations: what the extractor reads from /repo NOW equals what the model was written against. -/
namespace BdModel.Tie.Graph

theorem tie_h_graph_setup : Extracted.Graph.h_graph_setup = Canon.Graph.h_graph_setup := by decide +kernel
theorem tie_h_graph_hasCycle : Extracted.Graph.h_graph_hasCycle = Canon.Graph.h_graph_hasCycle := by decide +kernel
theorem tie_h_graph_addEdge : Extracted.Graph.h_graph_addEdge = Canon.Graph.h_graph_addEdge := by decide +kernel
theorem tie_h_graph_findStep : Extracted.Graph.h_graph_findStep = Canon.Graph.h_graph_findStep := by decide +kernel
theorem tie_h_graph_setupRetry : Extracted.Graph.h_graph_setupRetry = Canon.Graph.h_graph_setupRetry := by decide +kernel
theorem tie_h_graph_NewExecutionGraph : Extracted.Graph.h_graph_NewExecutionGraph = Canon.Graph.h_graph_NewExecutionGraph := by decide +kernel
theorem tie_h_graph_NewExecutionGraphForRetry : Extracted.Graph.h_graph_NewExecutionGraphForRetry = Canon.Graph.h_graph_NewExecutionGraphForRetry := by decide +kernel
theorem tie_h_graph_node_clearState : Extracted.Graph.h_graph_node_clearState = Canon.Graph.h_graph_node_clearState := by decide +kernel
theorem tie_h_rest_graph_dag_scheduler_graph_go : Extracted.Graph.h_rest_graph_dag_scheduler_graph_go = Canon.Graph.h_rest_graph_dag_scheduler_graph_go := by decide +kernel
theorem tie_hasCycleFacts : Extracted.Graph.hasCycleFacts = Canon.Graph.hasCycleFacts := by decide +kernel
theorem tie_setupRetryFacts : Extracted.Graph.setupRetryFacts = Canon.Graph.setupRetryFacts := by decide +kernel

#print axioms tie_h_graph_setup
#print axioms tie_h_graph_hasCycle
#print axioms tie_h_graph_addEdge
#print axioms tie_h_graph_findStep
#print axioms tie_h_graph_setupRetry
#print axioms tie_h_graph_NewExecutionGraph
#print axioms tie_h_graph_NewExecutionGraphForRetry
#print axioms tie_h_graph_node_clearState
#print axioms tie_h_rest_graph_dag_scheduler_graph_go
#print axioms tie_hasCycleFacts
#print axioms tie_setupRetryFacts

end BdModel.Tie.Graph
