import BdModel.Extracted.Glue
import BdModel.Canon.Glue
/- Tie obligations: what the extractor reads from /repo NOW equals what the model was written against. -/
namespace BdModel.Tie.Glue

theorem tie_h_rest_glue_cmd_start_go : Extracted.Glue.h_rest_glue_cmd_start_go = Canon.Glue.h_rest_glue_cmd_start_go := by decide +kernel
theorem tie_h_rest_glue_cmd_retry_go : Extracted.Glue.h_rest_glue_cmd_retry_go = Canon.Glue.h_rest_glue_cmd_retry_go := by decide +kernel
theorem tie_h_rest_glue_cmd_restart_go : Extracted.Glue.h_rest_glue_cmd_restart_go = Canon.Glue.h_rest_glue_cmd_restart_go := by decide +kernel
theorem tie_h_rest_glue_cmd_dry_go : Extracted.Glue.h_rest_glue_cmd_dry_go = Canon.Glue.h_rest_glue_cmd_dry_go := by decide +kernel
theorem tie_h_rest_glue_cmd_stop_go : Extracted.Glue.h_rest_glue_cmd_stop_go = Canon.Glue.h_rest_glue_cmd_stop_go := by decide +kernel
theorem tie_h_rest_glue_cmd_status_go : Extracted.Glue.h_rest_glue_cmd_status_go = Canon.Glue.h_rest_glue_cmd_status_go := by decide +kernel
theorem tie_h_rest_glue_cmd_scheduler_go : Extracted.Glue.h_rest_glue_cmd_scheduler_go = Canon.Glue.h_rest_glue_cmd_scheduler_go := by decide +kernel
theorem tie_h_rest_glue_cmd_server_go : Extracted.Glue.h_rest_glue_cmd_server_go = Canon.Glue.h_rest_glue_cmd_server_go := by decide +kernel
theorem tie_h_rest_glue_cmd_root_go : Extracted.Glue.h_rest_glue_cmd_root_go = Canon.Glue.h_rest_glue_cmd_root_go := by decide +kernel
theorem tie_h_rest_glue_cmd_signal_go : Extracted.Glue.h_rest_glue_cmd_signal_go = Canon.Glue.h_rest_glue_cmd_signal_go := by decide +kernel
theorem tie_h_rest_glue_cmd_reqid_go : Extracted.Glue.h_rest_glue_cmd_reqid_go = Canon.Glue.h_rest_glue_cmd_reqid_go := by decide +kernel
theorem tie_h_rest_glue_cmd_start_all_go : Extracted.Glue.h_rest_glue_cmd_start_all_go = Canon.Glue.h_rest_glue_cmd_start_all_go := by decide +kernel
theorem tie_h_rest_glue_internal_agent_agent_go : Extracted.Glue.h_rest_glue_internal_agent_agent_go = Canon.Glue.h_rest_glue_internal_agent_agent_go := by decide +kernel
theorem tie_h_rest_glue_internal_client_client_go : Extracted.Glue.h_rest_glue_internal_client_client_go = Canon.Glue.h_rest_glue_internal_client_client_go := by decide +kernel
theorem tie_h_rest_glue_internal_client_interface_go : Extracted.Glue.h_rest_glue_internal_client_interface_go = Canon.Glue.h_rest_glue_internal_client_interface_go := by decide +kernel
theorem tie_h_rest_glue_internal_dag_loader_go : Extracted.Glue.h_rest_glue_internal_dag_loader_go = Canon.Glue.h_rest_glue_internal_dag_loader_go := by decide +kernel
theorem tie_h_rest_glue_internal_dag_builder_go : Extracted.Glue.h_rest_glue_internal_dag_builder_go = Canon.Glue.h_rest_glue_internal_dag_builder_go := by decide +kernel
theorem tie_h_rest_glue_internal_dag_parser_go : Extracted.Glue.h_rest_glue_internal_dag_parser_go = Canon.Glue.h_rest_glue_internal_dag_parser_go := by decide +kernel
theorem tie_h_rest_glue_internal_dag_dag_go : Extracted.Glue.h_rest_glue_internal_dag_dag_go = Canon.Glue.h_rest_glue_internal_dag_dag_go := by decide +kernel
theorem tie_h_rest_glue_internal_dag_step_go : Extracted.Glue.h_rest_glue_internal_dag_step_go = Canon.Glue.h_rest_glue_internal_dag_step_go := by decide +kernel
theorem tie_h_rest_glue_internal_dag_condition_go : Extracted.Glue.h_rest_glue_internal_dag_condition_go = Canon.Glue.h_rest_glue_internal_dag_condition_go := by decide +kernel
theorem tie_h_rest_glue_internal_dag_definition_go : Extracted.Glue.h_rest_glue_internal_dag_definition_go = Canon.Glue.h_rest_glue_internal_dag_definition_go := by decide +kernel
theorem tie_h_rest_glue_internal_dag_context_go : Extracted.Glue.h_rest_glue_internal_dag_context_go = Canon.Glue.h_rest_glue_internal_dag_context_go := by decide +kernel
theorem tie_h_rest_glue_internal_dag_assert_go : Extracted.Glue.h_rest_glue_internal_dag_assert_go = Canon.Glue.h_rest_glue_internal_dag_assert_go := by decide +kernel
theorem tie_h_rest_glue_internal_dag_errors_go : Extracted.Glue.h_rest_glue_internal_dag_errors_go = Canon.Glue.h_rest_glue_internal_dag_errors_go := by decide +kernel
theorem tie_h_rest_glue_internal_dag_syncmap_go : Extracted.Glue.h_rest_glue_internal_dag_syncmap_go = Canon.Glue.h_rest_glue_internal_dag_syncmap_go := by decide +kernel
theorem tie_h_rest_glue_internal_config_config_go : Extracted.Glue.h_rest_glue_internal_config_config_go = Canon.Glue.h_rest_glue_internal_config_config_go := by decide +kernel
theorem tie_h_rest_glue_internal_frontend_frontend_go : Extracted.Glue.h_rest_glue_internal_frontend_frontend_go = Canon.Glue.h_rest_glue_internal_frontend_frontend_go := by decide +kernel
theorem tie_h_rest_glue_internal_frontend_server_server_go : Extracted.Glue.h_rest_glue_internal_frontend_server_server_go = Canon.Glue.h_rest_glue_internal_frontend_server_server_go := by decide +kernel
theorem tie_h_rest_glue_internal_persistence_client_store_factory_go : Extracted.Glue.h_rest_glue_internal_persistence_client_store_factory_go = Canon.Glue.h_rest_glue_internal_persistence_client_store_factory_go := by decide +kernel
theorem tie_h_rest_glue_internal_persistence_interface_go : Extracted.Glue.h_rest_glue_internal_persistence_interface_go = Canon.Glue.h_rest_glue_internal_persistence_interface_go := by decide +kernel
theorem tie_h_rest_glue_internal_persistence_model_status_go : Extracted.Glue.h_rest_glue_internal_persistence_model_status_go = Canon.Glue.h_rest_glue_internal_persistence_model_status_go := by decide +kernel
theorem tie_h_rest_glue_internal_persistence_model_node_go : Extracted.Glue.h_rest_glue_internal_persistence_model_node_go = Canon.Glue.h_rest_glue_internal_persistence_model_node_go := by decide +kernel
theorem tie_h_rest_glue_internal_util_utils_go : Extracted.Glue.h_rest_glue_internal_util_utils_go = Canon.Glue.h_rest_glue_internal_util_utils_go := by decide +kernel
theorem tie_h_rest_glue_internal_sock_client_go : Extracted.Glue.h_rest_glue_internal_sock_client_go = Canon.Glue.h_rest_glue_internal_sock_client_go := by decide +kernel
theorem tie_h_rest_glue_internal_sock_server_go : Extracted.Glue.h_rest_glue_internal_sock_server_go = Canon.Glue.h_rest_glue_internal_sock_server_go := by decide +kernel
theorem tie_h_rest_glue_internal_dag_executor_executor_go : Extracted.Glue.h_rest_glue_internal_dag_executor_executor_go = Canon.Glue.h_rest_glue_internal_dag_executor_executor_go := by decide +kernel
theorem tie_h_rest_glue_internal_dag_executor_command_go : Extracted.Glue.h_rest_glue_internal_dag_executor_command_go = Canon.Glue.h_rest_glue_internal_dag_executor_command_go := by decide +kernel
theorem tie_h_rest_glue_main_go : Extracted.Glue.h_rest_glue_main_go = Canon.Glue.h_rest_glue_main_go := by decide +kernel

#print axioms tie_h_rest_glue_cmd_start_go
#print axioms tie_h_rest_glue_cmd_retry_go
#print axioms tie_h_rest_glue_cmd_restart_go
#print axioms tie_h_rest_glue_cmd_dry_go
#print axioms tie_h_rest_glue_cmd_stop_go
#print axioms tie_h_rest_glue_cmd_status_go
#print axioms tie_h_rest_glue_cmd_scheduler_go
#print axioms tie_h_rest_glue_cmd_server_go
#print axioms tie_h_rest_glue_cmd_root_go
#print axioms tie_h_rest_glue_cmd_signal_go
#print axioms tie_h_rest_glue_cmd_reqid_go
#print axioms tie_h_rest_glue_cmd_start_all_go
#print axioms tie_h_rest_glue_internal_agent_agent_go
#print axioms tie_h_rest_glue_internal_client_client_go
#print axioms tie_h_rest_glue_internal_client_interface_go
#print axioms tie_h_rest_glue_internal_dag_loader_go
#print axioms tie_h_rest_glue_internal_dag_builder_go
#print axioms tie_h_rest_glue_internal_dag_parser_go
#print axioms tie_h_rest_glue_internal_dag_dag_go
#print axioms tie_h_rest_glue_internal_dag_step_go
#print axioms tie_h_rest_glue_internal_dag_condition_go
#print axioms tie_h_rest_glue_internal_dag_definition_go
#print axioms tie_h_rest_glue_internal_dag_context_go
#print axioms tie_h_rest_glue_internal_dag_assert_go
#print axioms tie_h_rest_glue_internal_dag_errors_go
#print axioms tie_h_rest_glue_internal_dag_syncmap_go
#print axioms tie_h_rest_glue_internal_config_config_go
#print axioms tie_h_rest_glue_internal_frontend_frontend_go
#print axioms tie_h_rest_glue_internal_frontend_server_server_go
#print axioms tie_h_rest_glue_internal_persistence_client_store_factory_go
#print axioms tie_h_rest_glue_internal_persistence_interface_go
#print axioms tie_h_rest_glue_internal_persistence_model_status_go
#print axioms tie_h_rest_glue_internal_persistence_model_node_go
#print axioms tie_h_rest_glue_internal_util_utils_go
#print axioms tie_h_rest_glue_internal_sock_client_go
#print axioms tie_h_rest_glue_internal_sock_server_go
#print axioms tie_h_rest_glue_internal_dag_executor_executor_go
#print axioms tie_h_rest_glue_internal_dag_executor_command_go
#print axioms tie_h_rest_glue_main_go

end BdModel.Tie.Glue
