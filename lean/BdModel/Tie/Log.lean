import BdModel.Extracted.Log
import BdModel.Canon.Log
/- Tie obligations: what the extractor reads from /repo NOW equals what the model was written against. -/
namespace BdModel.Tie.Log

theorem tie_h_log_setup : Extracted.Log.h_log_setup = Canon.Log.h_log_setup := by decide +kernel
theorem tie_h_log_setupLog : Extracted.Log.h_log_setupLog = Canon.Log.h_log_setupLog := by decide +kernel
theorem tie_h_log_setupStdout : Extracted.Log.h_log_setupStdout = Canon.Log.h_log_setupStdout := by decide +kernel
theorem tie_h_log_setupStderr : Extracted.Log.h_log_setupStderr = Canon.Log.h_log_setupStderr := by decide +kernel
theorem tie_h_log_setupScript : Extracted.Log.h_log_setupScript = Canon.Log.h_log_setupScript := by decide +kernel
theorem tie_h_log_setupExec : Extracted.Log.h_log_setupExec = Canon.Log.h_log_setupExec := by decide +kernel
theorem tie_h_log_teardown : Extracted.Log.h_log_teardown = Canon.Log.h_log_teardown := by decide +kernel
theorem tie_h_log_Execute : Extracted.Log.h_log_Execute = Canon.Log.h_log_Execute := by decide +kernel
theorem tie_h_log_OpenOrCreateFile : Extracted.Log.h_log_OpenOrCreateFile = Canon.Log.h_log_OpenOrCreateFile := by decide +kernel
theorem tie_h_log_openFile : Extracted.Log.h_log_openFile = Canon.Log.h_log_openFile := by decide +kernel
theorem tie_h_log_cmdSetStdout : Extracted.Log.h_log_cmdSetStdout = Canon.Log.h_log_cmdSetStdout := by decide +kernel
theorem tie_h_log_cmdSetStderr : Extracted.Log.h_log_cmdSetStderr = Canon.Log.h_log_cmdSetStderr := by decide +kernel
theorem tie_h_log_cmdRun : Extracted.Log.h_log_cmdRun = Canon.Log.h_log_cmdRun := by decide +kernel
theorem tie_h_rest_log_dag_scheduler_node_go : Extracted.Log.h_rest_log_dag_scheduler_node_go = Canon.Log.h_rest_log_dag_scheduler_node_go := by decide +kernel
theorem tie_h_rest_log_dag_executor_command_go : Extracted.Log.h_rest_log_dag_executor_command_go = Canon.Log.h_rest_log_dag_executor_command_go := by decide +kernel
theorem tie_h_rest_log_util_utils_go : Extracted.Log.h_rest_log_util_utils_go = Canon.Log.h_rest_log_util_utils_go := by decide +kernel

#print axioms tie_h_log_setup
#print axioms tie_h_log_setupLog
#print axioms tie_h_log_setupStdout
#print axioms tie_h_log_setupStderr
#print axioms tie_h_log_setupScript
#print axioms tie_h_log_setupExec
#print axioms tie_h_log_teardown
#print axioms tie_h_log_Execute
#print axioms tie_h_log_OpenOrCreateFile
#print axioms tie_h_log_openFile
#print axioms tie_h_log_cmdSetStdout
#print axioms tie_h_log_cmdSetStderr
#print axioms tie_h_log_cmdRun
#print axioms tie_h_rest_log_dag_scheduler_node_go
#print axioms tie_h_rest_log_dag_executor_command_go
#print axioms tie_h_rest_log_util_utils_go

end BdModel.Tie.Log
