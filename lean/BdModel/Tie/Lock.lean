import BdModel.Extracted.Lock
import BdModel.Canon.Lock
/- Tie obligations: what the extractor reads from /repo NOW equals what the model was written against. -/
namespace BdModel.Tie.Lock

theorem tie_h_lock_agent_Run : Extracted.Lock.h_lock_agent_Run = Canon.Lock.h_lock_agent_Run := by decide +kernel
theorem tie_h_lock_agent_setup : Extracted.Lock.h_lock_agent_setup = Canon.Lock.h_lock_agent_setup := by decide +kernel
theorem tie_h_lock_agent_checkPreconditions : Extracted.Lock.h_lock_agent_checkPreconditions = Canon.Lock.h_lock_agent_checkPreconditions := by decide +kernel
theorem tie_h_lock_agent_checkIsAlreadyRunning : Extracted.Lock.h_lock_agent_checkIsAlreadyRunning = Canon.Lock.h_lock_agent_checkIsAlreadyRunning := by decide +kernel
theorem tie_h_lock_agent_setupDatabase : Extracted.Lock.h_lock_agent_setupDatabase = Canon.Lock.h_lock_agent_setupDatabase := by decide +kernel
theorem tie_h_lock_agent_setupSocketServer : Extracted.Lock.h_lock_agent_setupSocketServer = Canon.Lock.h_lock_agent_setupSocketServer := by decide +kernel
theorem tie_h_lock_agent_HandleHTTP : Extracted.Lock.h_lock_agent_HandleHTTP = Canon.Lock.h_lock_agent_HandleHTTP := by decide +kernel
theorem tie_h_lock_sock_NewServer : Extracted.Lock.h_lock_sock_NewServer = Canon.Lock.h_lock_sock_NewServer := by decide +kernel
theorem tie_h_lock_sock_Serve : Extracted.Lock.h_lock_sock_Serve = Canon.Lock.h_lock_sock_Serve := by decide +kernel
theorem tie_h_lock_sock_Shutdown : Extracted.Lock.h_lock_sock_Shutdown = Canon.Lock.h_lock_sock_Shutdown := by decide +kernel
theorem tie_h_lock_sock_Request : Extracted.Lock.h_lock_sock_Request = Canon.Lock.h_lock_sock_Request := by decide +kernel
theorem tie_h_lock_client_GetCurrentStatus : Extracted.Lock.h_lock_client_GetCurrentStatus = Canon.Lock.h_lock_client_GetCurrentStatus := by decide +kernel
theorem tie_h_lock_dag_SockAddr : Extracted.Lock.h_lock_dag_SockAddr = Canon.Lock.h_lock_dag_SockAddr := by decide +kernel
theorem tie_h_lock_agent_dryRun : Extracted.Lock.h_lock_agent_dryRun = Canon.Lock.h_lock_agent_dryRun := by decide +kernel
theorem tie_h_rest_lock_agent_agent_go : Extracted.Lock.h_rest_lock_agent_agent_go = Canon.Lock.h_rest_lock_agent_agent_go := by decide +kernel
theorem tie_h_rest_lock_sock_server_go : Extracted.Lock.h_rest_lock_sock_server_go = Canon.Lock.h_rest_lock_sock_server_go := by decide +kernel
theorem tie_h_rest_lock_sock_client_go : Extracted.Lock.h_rest_lock_sock_client_go = Canon.Lock.h_rest_lock_sock_client_go := by decide +kernel

#print axioms tie_h_lock_agent_Run
#print axioms tie_h_lock_agent_setup
#print axioms tie_h_lock_agent_checkPreconditions
#print axioms tie_h_lock_agent_checkIsAlreadyRunning
#print axioms tie_h_lock_agent_setupDatabase
#print axioms tie_h_lock_agent_setupSocketServer
#print axioms tie_h_lock_agent_HandleHTTP
#print axioms tie_h_lock_sock_NewServer
#print axioms tie_h_lock_sock_Serve
#print axioms tie_h_lock_sock_Shutdown
#print axioms tie_h_lock_sock_Request
#print axioms tie_h_lock_client_GetCurrentStatus
#print axioms tie_h_lock_dag_SockAddr
#print axioms tie_h_lock_agent_dryRun
#print axioms tie_h_rest_lock_agent_agent_go
#print axioms tie_h_rest_lock_sock_server_go
#print axioms tie_h_rest_lock_sock_client_go

end BdModel.Tie.Lock
