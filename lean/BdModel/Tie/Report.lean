import BdModel.Extracted.Report
import BdModel.Canon.Report
/- Tie obligations: what the extractor reads from /repo NOW equals what the model was written against. -/
namespace BdModel.Tie.Report

theorem tie_h_rest_report_internal_agent_reporter_go : Extracted.Report.h_rest_report_internal_agent_reporter_go = Canon.Report.h_rest_report_internal_agent_reporter_go := by decide +kernel
theorem tie_h_rest_report_internal_mailer_mailer_go : Extracted.Report.h_rest_report_internal_mailer_mailer_go = Canon.Report.h_rest_report_internal_mailer_mailer_go := by decide +kernel
theorem tie_h_rest_report_internal_logger_file_go : Extracted.Report.h_rest_report_internal_logger_file_go = Canon.Report.h_rest_report_internal_logger_file_go := by decide +kernel
theorem tie_h_rest_report_internal_logger_logger_go : Extracted.Report.h_rest_report_internal_logger_logger_go = Canon.Report.h_rest_report_internal_logger_logger_go := by decide +kernel
theorem tie_h_rest_report_internal_config_resolver_go : Extracted.Report.h_rest_report_internal_config_resolver_go = Canon.Report.h_rest_report_internal_config_resolver_go := by decide +kernel
theorem tie_h_rest_report_internal_constants_constants_go : Extracted.Report.h_rest_report_internal_constants_constants_go = Canon.Report.h_rest_report_internal_constants_constants_go := by decide +kernel

#print axioms tie_h_rest_report_internal_agent_reporter_go
#print axioms tie_h_rest_report_internal_mailer_mailer_go
#print axioms tie_h_rest_report_internal_logger_file_go
#print axioms tie_h_rest_report_internal_logger_logger_go
#print axioms tie_h_rest_report_internal_config_resolver_go
#print axioms tie_h_rest_report_internal_constants_constants_go

end BdModel.Tie.Report
