import BdModel.Extracted.Agent
import BdModel.Canon.Agent
/- Tie obligations: what the extractor reads from /repo NOW equals what the model was written against. -/
namespace BdModel.Tie.Agent

theorem tie_h_agent_Agent_Status : Extracted.Agent.h_agent_Agent_Status = Canon.Agent.h_agent_Agent_Status := by decide +kernel
theorem tie_h_agent_Agent_Run : Extracted.Agent.h_agent_Agent_Run = Canon.Agent.h_agent_Agent_Run := by decide +kernel
theorem tie_h_agent_client_GetLatestStatus : Extracted.Agent.h_agent_client_GetLatestStatus = Canon.Agent.h_agent_client_GetLatestStatus := by decide +kernel
theorem tie_h_agent_client_currentStatus : Extracted.Agent.h_agent_client_currentStatus = Canon.Agent.h_agent_client_currentStatus := by decide +kernel
theorem tie_h_agent_Status_CorrectRunningStatus : Extracted.Agent.h_agent_Status_CorrectRunningStatus = Canon.Agent.h_agent_Status_CorrectRunningStatus := by decide +kernel
theorem tie_h_agent_Agent_signal : Extracted.Agent.h_agent_Agent_signal = Canon.Agent.h_agent_Agent_signal := by decide +kernel
theorem tie_h_agent_Agent_Signal : Extracted.Agent.h_agent_Agent_Signal = Canon.Agent.h_agent_Agent_Signal := by decide +kernel
theorem tie_h_agent_Agent_HandleHTTP : Extracted.Agent.h_agent_Agent_HandleHTTP = Canon.Agent.h_agent_Agent_HandleHTTP := by decide +kernel
theorem tie_h_rest_agent_agent_agent_go : Extracted.Agent.h_rest_agent_agent_agent_go = Canon.Agent.h_rest_agent_agent_agent_go := by decide +kernel
theorem tie_h_rest_agent_persistence_model_status_go : Extracted.Agent.h_rest_agent_persistence_model_status_go = Canon.Agent.h_rest_agent_persistence_model_status_go := by decide +kernel
theorem tie_h_rest_agent_persistence_model_node_go : Extracted.Agent.h_rest_agent_persistence_model_node_go = Canon.Agent.h_rest_agent_persistence_model_node_go := by decide +kernel
theorem tie_h_rest_agent_client_client_go : Extracted.Agent.h_rest_agent_client_client_go = Canon.Agent.h_rest_agent_client_client_go := by decide +kernel
theorem tie_h_rest_agent_sock_client_go : Extracted.Agent.h_rest_agent_sock_client_go = Canon.Agent.h_rest_agent_sock_client_go := by decide +kernel
theorem tie_h_rest_agent_sock_server_go : Extracted.Agent.h_rest_agent_sock_server_go = Canon.Agent.h_rest_agent_sock_server_go := by decide +kernel

#print axioms tie_h_agent_Agent_Status
#print axioms tie_h_agent_Agent_Run
#print axioms tie_h_agent_client_GetLatestStatus
#print axioms tie_h_agent_client_currentStatus
#print axioms tie_h_agent_Status_CorrectRunningStatus
#print axioms tie_h_agent_Agent_signal
#print axioms tie_h_agent_Agent_Signal
#print axioms tie_h_agent_Agent_HandleHTTP
#print axioms tie_h_rest_agent_agent_agent_go
#print axioms tie_h_rest_agent_persistence_model_status_go
#print axioms tie_h_rest_agent_persistence_model_node_go
#print axioms tie_h_rest_agent_client_client_go
#print axioms tie_h_rest_agent_sock_client_go
#print axioms tie_h_rest_agent_sock_server_go

end BdModel.Tie.Agent
