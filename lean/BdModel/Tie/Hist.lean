import BdModel.Extracted.Hist
import BdModel.Canon.Hist
/- Tie obligations: what the extractor reads from /repo NOW equals what the model was written against. -/
namespace BdModel.Tie.Hist

theorem tie_h_hist_Update : Extracted.Hist.h_hist_Update = Canon.Hist.h_hist_Update := by decide +kernel
theorem tie_h_hist_Open : Extracted.Hist.h_hist_Open = Canon.Hist.h_hist_Open := by decide +kernel
theorem tie_h_hist_Write : Extracted.Hist.h_hist_Write = Canon.Hist.h_hist_Write := by decide +kernel
theorem tie_h_hist_Close : Extracted.Hist.h_hist_Close = Canon.Hist.h_hist_Close := by decide +kernel
theorem tie_h_hist_newWriter : Extracted.Hist.h_hist_newWriter = Canon.Hist.h_hist_newWriter := by decide +kernel
theorem tie_h_hist_ReadStatusRecent : Extracted.Hist.h_hist_ReadStatusRecent = Canon.Hist.h_hist_ReadStatusRecent := by decide +kernel
theorem tie_h_hist_ReadStatusToday : Extracted.Hist.h_hist_ReadStatusToday = Canon.Hist.h_hist_ReadStatusToday := by decide +kernel
theorem tie_h_hist_FindByRequestID : Extracted.Hist.h_hist_FindByRequestID = Canon.Hist.h_hist_FindByRequestID := by decide +kernel
theorem tie_h_hist_RemoveAll : Extracted.Hist.h_hist_RemoveAll = Canon.Hist.h_hist_RemoveAll := by decide +kernel
theorem tie_h_hist_RemoveOld : Extracted.Hist.h_hist_RemoveOld = Canon.Hist.h_hist_RemoveOld := by decide +kernel
theorem tie_h_hist_Compact : Extracted.Hist.h_hist_Compact = Canon.Hist.h_hist_Compact := by decide +kernel
theorem tie_h_hist_Rename : Extracted.Hist.h_hist_Rename = Canon.Hist.h_hist_Rename := by decide +kernel
theorem tie_h_hist_getDirectory : Extracted.Hist.h_hist_getDirectory = Canon.Hist.h_hist_getDirectory := by decide +kernel
theorem tie_h_hist_newFile : Extracted.Hist.h_hist_newFile = Canon.Hist.h_hist_newFile := by decide +kernel
theorem tie_h_hist_latestToday : Extracted.Hist.h_hist_latestToday = Canon.Hist.h_hist_latestToday := by decide +kernel
theorem tie_h_hist_latest : Extracted.Hist.h_hist_latest = Canon.Hist.h_hist_latest := by decide +kernel
theorem tie_h_hist_globPattern : Extracted.Hist.h_hist_globPattern = Canon.Hist.h_hist_globPattern := by decide +kernel
theorem tie_h_hist_escapeGlob : Extracted.Hist.h_hist_escapeGlob = Canon.Hist.h_hist_escapeGlob := by decide +kernel
theorem tie_h_hist_prefixWithDirectory : Extracted.Hist.h_hist_prefixWithDirectory = Canon.Hist.h_hist_prefixWithDirectory := by decide +kernel
theorem tie_h_hist_ParseFile : Extracted.Hist.h_hist_ParseFile = Canon.Hist.h_hist_ParseFile := by decide +kernel
theorem tie_h_hist_filterLatest : Extracted.Hist.h_hist_filterLatest = Canon.Hist.h_hist_filterLatest := by decide +kernel
theorem tie_h_hist_timestamp : Extracted.Hist.h_hist_timestamp = Canon.Hist.h_hist_timestamp := by decide +kernel
theorem tie_h_hist_readLineFrom : Extracted.Hist.h_hist_readLineFrom = Canon.Hist.h_hist_readLineFrom := by decide +kernel
theorem tie_h_hist_prefix : Extracted.Hist.h_hist_prefix = Canon.Hist.h_hist_prefix := by decide +kernel
theorem tie_h_hist_writer_open : Extracted.Hist.h_hist_writer_open = Canon.Hist.h_hist_writer_open := by decide +kernel
theorem tie_h_hist_writer_write : Extracted.Hist.h_hist_writer_write = Canon.Hist.h_hist_writer_write := by decide +kernel
theorem tie_h_hist_writer_close : Extracted.Hist.h_hist_writer_close = Canon.Hist.h_hist_writer_close := by decide +kernel
theorem tie_h_hist_OpenOrCreateFile : Extracted.Hist.h_hist_OpenOrCreateFile = Canon.Hist.h_hist_OpenOrCreateFile := by decide +kernel
theorem tie_h_hist_openFile : Extracted.Hist.h_hist_openFile = Canon.Hist.h_hist_openFile := by decide +kernel
theorem tie_h_hist_createFile : Extracted.Hist.h_hist_createFile = Canon.Hist.h_hist_createFile := by decide +kernel
theorem tie_h_fcache_Cache_LoadLatest : Extracted.Hist.h_fcache_Cache_LoadLatest = Canon.Hist.h_fcache_Cache_LoadLatest := by decide +kernel
theorem tie_h_fcache_Cache_IsStale : Extracted.Hist.h_fcache_Cache_IsStale = Canon.Hist.h_fcache_Cache_IsStale := by decide +kernel
theorem tie_h_fcache_Cache_Store : Extracted.Hist.h_fcache_Cache_Store = Canon.Hist.h_fcache_Cache_Store := by decide +kernel
theorem tie_h_fcache_Cache_Entry : Extracted.Hist.h_fcache_Cache_Entry = Canon.Hist.h_fcache_Cache_Entry := by decide +kernel
theorem tie_h_fcache_Cache_Invalidate : Extracted.Hist.h_fcache_Cache_Invalidate = Canon.Hist.h_fcache_Cache_Invalidate := by decide +kernel
theorem tie_h_fcache_Cache_Load : Extracted.Hist.h_fcache_Cache_Load = Canon.Hist.h_fcache_Cache_Load := by decide +kernel
theorem tie_h_fcache_Cache_evict : Extracted.Hist.h_fcache_Cache_evict = Canon.Hist.h_fcache_Cache_evict := by decide +kernel
theorem tie_h_fcache__newEntry : Extracted.Hist.h_fcache__newEntry = Canon.Hist.h_fcache__newEntry := by decide +kernel
theorem tie_h_rest_hist_persistence_jsondb_jsondb_go : Extracted.Hist.h_rest_hist_persistence_jsondb_jsondb_go = Canon.Hist.h_rest_hist_persistence_jsondb_jsondb_go := by decide +kernel
theorem tie_h_rest_hist_persistence_jsondb_writer_go : Extracted.Hist.h_rest_hist_persistence_jsondb_writer_go = Canon.Hist.h_rest_hist_persistence_jsondb_writer_go := by decide +kernel
theorem tie_h_rest_hist_persistence_filecache_filecache_go : Extracted.Hist.h_rest_hist_persistence_filecache_filecache_go = Canon.Hist.h_rest_hist_persistence_filecache_filecache_go := by decide +kernel
theorem tie_h_rest_hist_persistence_model_status_go : Extracted.Hist.h_rest_hist_persistence_model_status_go = Canon.Hist.h_rest_hist_persistence_model_status_go := by decide +kernel
theorem tie_h_rest_hist_persistence_model_node_go : Extracted.Hist.h_rest_hist_persistence_model_node_go = Canon.Hist.h_rest_hist_persistence_model_node_go := by decide +kernel
theorem tie_dateFormat : Extracted.Hist.dateFormat = Canon.Hist.dateFormat := by decide +kernel
theorem tie_dateTimeFormat : Extracted.Hist.dateTimeFormat = Canon.Hist.dateTimeFormat := by decide +kernel
theorem tie_extDat : Extracted.Hist.extDat = Canon.Hist.extDat := by decide +kernel
theorem tie_globEscaper : Extracted.Hist.globEscaper = Canon.Hist.globEscaper := by decide +kernel
theorem tie_rTimestamp : Extracted.Hist.rTimestamp = Canon.Hist.rTimestamp := by decide +kernel
theorem tie_requestIDLenSafe : Extracted.Hist.requestIDLenSafe = Canon.Hist.requestIDLenSafe := by decide +kernel

#print axioms tie_h_hist_Update
#print axioms tie_h_hist_Open
#print axioms tie_h_hist_Write
#print axioms tie_h_hist_Close
#print axioms tie_h_hist_newWriter
#print axioms tie_h_hist_ReadStatusRecent
#print axioms tie_h_hist_ReadStatusToday
#print axioms tie_h_hist_FindByRequestID
#print axioms tie_h_hist_RemoveAll
#print axioms tie_h_hist_RemoveOld
#print axioms tie_h_hist_Compact
#print axioms tie_h_hist_Rename
#print axioms tie_h_hist_getDirectory
#print axioms tie_h_hist_newFile
#print axioms tie_h_hist_latestToday
#print axioms tie_h_hist_latest
#print axioms tie_h_hist_globPattern
#print axioms tie_h_hist_escapeGlob
#print axioms tie_h_hist_prefixWithDirectory
#print axioms tie_h_hist_ParseFile
#print axioms tie_h_hist_filterLatest
#print axioms tie_h_hist_timestamp
#print axioms tie_h_hist_readLineFrom
#print axioms tie_h_hist_prefix
#print axioms tie_h_hist_writer_open
#print axioms tie_h_hist_writer_write
#print axioms tie_h_hist_writer_close
#print axioms tie_h_hist_OpenOrCreateFile
#print axioms tie_h_hist_openFile
#print axioms tie_h_hist_createFile
#print axioms tie_h_fcache_Cache_LoadLatest
#print axioms tie_h_fcache_Cache_IsStale
#print axioms tie_h_fcache_Cache_Store
#print axioms tie_h_fcache_Cache_Entry
#print axioms tie_h_fcache_Cache_Invalidate
#print axioms tie_h_fcache_Cache_Load
#print axioms tie_h_fcache_Cache_evict
#print axioms tie_h_fcache__newEntry
#print axioms tie_h_rest_hist_persistence_jsondb_jsondb_go
#print axioms tie_h_rest_hist_persistence_jsondb_writer_go
#print axioms tie_h_rest_hist_persistence_filecache_filecache_go
#print axioms tie_h_rest_hist_persistence_model_status_go
#print axioms tie_h_rest_hist_persistence_model_node_go
#print axioms tie_dateFormat
#print axioms tie_dateTimeFormat
#print axioms tie_extDat
#print axioms tie_globEscaper
#print axioms tie_rTimestamp
#print axioms tie_requestIDLenSafe

end BdModel.Tie.Hist
