import BdModel.Extracted.Load
import BdModel.Canon.Load
/- Tie obligations: what the extractor reads from /repo NOW equals what the model was written against. -/
namespace BdModel.Tie.Load

theorem tie_h_load_build : Extracted.Load.h_load_build = Canon.Load.h_load_build := by decide +kernel
theorem tie_h_load_buildSchedule : Extracted.Load.h_load_buildSchedule = Canon.Load.h_load_buildSchedule := by decide +kernel
theorem tie_h_load_buildSteps : Extracted.Load.h_load_buildSteps = Canon.Load.h_load_buildSteps := by decide +kernel
theorem tie_h_load_buildHandlers : Extracted.Load.h_load_buildHandlers = Canon.Load.h_load_buildHandlers := by decide +kernel
theorem tie_h_load_buildMiscs : Extracted.Load.h_load_buildMiscs = Canon.Load.h_load_buildMiscs := by decide +kernel
theorem tie_h_load_buildEnvs : Extracted.Load.h_load_buildEnvs = Canon.Load.h_load_buildEnvs := by decide +kernel
theorem tie_h_load_buildLogDir : Extracted.Load.h_load_buildLogDir = Canon.Load.h_load_buildLogDir := by decide +kernel
theorem tie_h_load_buildParams : Extracted.Load.h_load_buildParams = Canon.Load.h_load_buildParams := by decide +kernel
theorem tie_h_load_buildSMTPConfig : Extracted.Load.h_load_buildSMTPConfig = Canon.Load.h_load_buildSMTPConfig := by decide +kernel
theorem tie_h_load_buildStep : Extracted.Load.h_load_buildStep = Canon.Load.h_load_buildStep := by decide +kernel
theorem tie_h_load_buildConditions : Extracted.Load.h_load_buildConditions = Canon.Load.h_load_buildConditions := by decide +kernel
theorem tie_h_load_loadVariables : Extracted.Load.h_load_loadVariables = Canon.Load.h_load_loadVariables := by decide +kernel
theorem tie_h_load_parseCommand : Extracted.Load.h_load_parseCommand = Canon.Load.h_load_parseCommand := by decide +kernel
theorem tie_h_load_parseExecutor : Extracted.Load.h_load_parseExecutor = Canon.Load.h_load_parseExecutor := by decide +kernel
theorem tie_h_load_convertMap : Extracted.Load.h_load_convertMap = Canon.Load.h_load_convertMap := by decide +kernel
theorem tie_h_load_parseSubWorkflow : Extracted.Load.h_load_parseSubWorkflow = Canon.Load.h_load_parseSubWorkflow := by decide +kernel
theorem tie_h_load_substituteCommands : Extracted.Load.h_load_substituteCommands = Canon.Load.h_load_substituteCommands := by decide +kernel
theorem tie_h_load_parseScheduleMap : Extracted.Load.h_load_parseScheduleMap = Canon.Load.h_load_parseScheduleMap := by decide +kernel
theorem tie_h_load_parseSchedules : Extracted.Load.h_load_parseSchedules = Canon.Load.h_load_parseSchedules := by decide +kernel
theorem tie_h_load_parseFuncCall : Extracted.Load.h_load_parseFuncCall = Canon.Load.h_load_parseFuncCall := by decide +kernel
theorem tie_h_load_parseMiscs : Extracted.Load.h_load_parseMiscs = Canon.Load.h_load_parseMiscs := by decide +kernel
theorem tie_h_load_parseKeyValue : Extracted.Load.h_load_parseKeyValue = Canon.Load.h_load_parseKeyValue := by decide +kernel
theorem tie_h_load_parseParams : Extracted.Load.h_load_parseParams = Canon.Load.h_load_parseParams := by decide +kernel
theorem tie_h_load_parseParamValue : Extracted.Load.h_load_parseParamValue = Canon.Load.h_load_parseParamValue := by decide +kernel
theorem tie_h_load_assertStepDef : Extracted.Load.h_load_assertStepDef = Canon.Load.h_load_assertStepDef := by decide +kernel
theorem tie_h_load_assertFunctions : Extracted.Load.h_load_assertFunctions = Canon.Load.h_load_assertFunctions := by decide +kernel
theorem tie_h_load_decode : Extracted.Load.h_load_decode = Canon.Load.h_load_decode := by decide +kernel
theorem tie_h_load_unmarshalData : Extracted.Load.h_load_unmarshalData = Canon.Load.h_load_unmarshalData := by decide +kernel
theorem tie_h_load_loadYAML : Extracted.Load.h_load_loadYAML = Canon.Load.h_load_loadYAML := by decide +kernel
theorem tie_h_load_loadDAG : Extracted.Load.h_load_loadDAG = Canon.Load.h_load_loadDAG := by decide +kernel
theorem tie_h_load_Load : Extracted.Load.h_load_Load = Canon.Load.h_load_Load := by decide +kernel
theorem tie_h_load_LoadWithoutEval : Extracted.Load.h_load_LoadWithoutEval = Canon.Load.h_load_LoadWithoutEval := by decide +kernel
theorem tie_h_load_LoadMetadata : Extracted.Load.h_load_LoadMetadata = Canon.Load.h_load_LoadMetadata := by decide +kernel
theorem tie_h_load_LoadYAML : Extracted.Load.h_load_LoadYAML = Canon.Load.h_load_LoadYAML := by decide +kernel
theorem tie_h_load_storeUpdateSpec : Extracted.Load.h_load_storeUpdateSpec = Canon.Load.h_load_storeUpdateSpec := by decide +kernel
theorem tie_h_load_storeGetDetails : Extracted.Load.h_load_storeGetDetails = Canon.Load.h_load_storeGetDetails := by decide +kernel
theorem tie_h_load_storeGetMetadata : Extracted.Load.h_load_storeGetMetadata = Canon.Load.h_load_storeGetMetadata := by decide +kernel
theorem tie_h_load_storeList : Extracted.Load.h_load_storeList = Canon.Load.h_load_storeList := by decide +kernel
theorem tie_h_load_assertNoNullElements : Extracted.Load.h_load_assertNoNullElements = Canon.Load.h_load_assertNoNullElements := by decide +kernel
theorem tie_h_load_parseCron : Extracted.Load.h_load_parseCron = Canon.Load.h_load_parseCron := by decide +kernel
theorem tie_h_load_convertValue : Extracted.Load.h_load_convertValue = Canon.Load.h_load_convertValue := by decide +kernel
theorem tie_h_rest_load_dag_loader_go : Extracted.Load.h_rest_load_dag_loader_go = Canon.Load.h_rest_load_dag_loader_go := by decide +kernel
theorem tie_h_rest_load_dag_builder_go : Extracted.Load.h_rest_load_dag_builder_go = Canon.Load.h_rest_load_dag_builder_go := by decide +kernel
theorem tie_h_rest_load_dag_parser_go : Extracted.Load.h_rest_load_dag_parser_go = Canon.Load.h_rest_load_dag_parser_go := by decide +kernel
theorem tie_h_rest_load_dag_dag_go : Extracted.Load.h_rest_load_dag_dag_go = Canon.Load.h_rest_load_dag_dag_go := by decide +kernel
theorem tie_h_rest_load_dag_step_go : Extracted.Load.h_rest_load_dag_step_go = Canon.Load.h_rest_load_dag_step_go := by decide +kernel
theorem tie_h_rest_load_dag_condition_go : Extracted.Load.h_rest_load_dag_condition_go = Canon.Load.h_rest_load_dag_condition_go := by decide +kernel
theorem tie_h_rest_load_patternutil_patternutil_go : Extracted.Load.h_rest_load_patternutil_patternutil_go = Canon.Load.h_rest_load_patternutil_patternutil_go := by decide +kernel
theorem tie_h_rest_load_persistence_model_status_go : Extracted.Load.h_rest_load_persistence_model_status_go = Canon.Load.h_rest_load_persistence_model_status_go := by decide +kernel
theorem tie_h_rest_load_persistence_model_node_go : Extracted.Load.h_rest_load_persistence_model_node_go = Canon.Load.h_rest_load_persistence_model_node_go := by decide +kernel
theorem tie_h_rest_load_persistence_local_dag_store_go : Extracted.Load.h_rest_load_persistence_local_dag_store_go = Canon.Load.h_rest_load_persistence_local_dag_store_go := by decide +kernel
theorem tie_builderFields : Extracted.Load.builderFields = Canon.Load.builderFields := by decide +kernel
theorem tie_callEdges : Extracted.Load.callEdges = Canon.Load.callEdges := by decide +kernel
theorem tie_defStructs : Extracted.Load.defStructs = Canon.Load.defStructs := by decide +kernel
theorem tie_displayEdges : Extracted.Load.displayEdges = Canon.Load.displayEdges := by decide +kernel
theorem tie_displayFuncs : Extracted.Load.displayFuncs = Canon.Load.displayFuncs := by decide +kernel
theorem tie_displayLoaderCalls : Extracted.Load.displayLoaderCalls = Canon.Load.displayLoaderCalls := by decide +kernel
theorem tie_displaySites : Extracted.Load.displaySites = Canon.Load.displaySites := by decide +kernel
theorem tie_effectSites : Extracted.Load.effectSites = Canon.Load.effectSites := by decide +kernel
theorem tie_entryOpts : Extracted.Load.entryOpts = Canon.Load.entryOpts := by decide +kernel

#print axioms tie_h_load_build
#print axioms tie_h_load_buildSchedule
#print axioms tie_h_load_buildSteps
#print axioms tie_h_load_buildHandlers
#print axioms tie_h_load_buildMiscs
#print axioms tie_h_load_buildEnvs
#print axioms tie_h_load_buildLogDir
#print axioms tie_h_load_buildParams
#print axioms tie_h_load_buildSMTPConfig
#print axioms tie_h_load_buildStep
#print axioms tie_h_load_buildConditions
#print axioms tie_h_load_loadVariables
#print axioms tie_h_load_parseCommand
#print axioms tie_h_load_parseExecutor
#print axioms tie_h_load_convertMap
#print axioms tie_h_load_parseSubWorkflow
#print axioms tie_h_load_substituteCommands
#print axioms tie_h_load_parseScheduleMap
#print axioms tie_h_load_parseSchedules
#print axioms tie_h_load_parseFuncCall
#print axioms tie_h_load_parseMiscs
#print axioms tie_h_load_parseKeyValue
#print axioms tie_h_load_parseParams
#print axioms tie_h_load_parseParamValue
#print axioms tie_h_load_assertStepDef
#print axioms tie_h_load_assertFunctions
#print axioms tie_h_load_decode
#print axioms tie_h_load_unmarshalData
#print axioms tie_h_load_loadYAML
#print axioms tie_h_load_loadDAG
#print axioms tie_h_load_Load
#print axioms tie_h_load_LoadWithoutEval
#print axioms tie_h_load_LoadMetadata
#print axioms tie_h_load_LoadYAML
#print axioms tie_h_load_storeUpdateSpec
#print axioms tie_h_load_storeGetDetails
#print axioms tie_h_load_storeGetMetadata
#print axioms tie_h_load_storeList
#print axioms tie_h_load_assertNoNullElements
#print axioms tie_h_load_parseCron
#print axioms tie_h_load_convertValue
#print axioms tie_h_rest_load_dag_loader_go
#print axioms tie_h_rest_load_dag_builder_go
#print axioms tie_h_rest_load_dag_parser_go
#print axioms tie_h_rest_load_dag_dag_go
#print axioms tie_h_rest_load_dag_step_go
#print axioms tie_h_rest_load_dag_condition_go
#print axioms tie_h_rest_load_patternutil_patternutil_go
#print axioms tie_h_rest_load_persistence_model_status_go
#print axioms tie_h_rest_load_persistence_model_node_go
#print axioms tie_h_rest_load_persistence_local_dag_store_go
#print axioms tie_builderFields
#print axioms tie_callEdges
#print axioms tie_defStructs
#print axioms tie_displayEdges
#print axioms tie_displayFuncs
#print axioms tie_displayLoaderCalls
#print axioms tie_displaySites
#print axioms tie_effectSites
#print axioms tie_entryOpts

end BdModel.Tie.Load
