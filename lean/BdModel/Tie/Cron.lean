import BdModel.Extracted.Cron
import BdModel.Canon.Cron
/- Tie obligations: what the extractor reads from /repo NOW equals what the model was written against. -/
namespace BdModel.Tie.Cron

theorem tie_h_cron_run : Extracted.Cron.h_cron_run = Canon.Cron.h_cron_run := by decide +kernel
theorem tie_h_cron_nextTick : Extracted.Cron.h_cron_nextTick = Canon.Cron.h_cron_nextTick := by decide +kernel
theorem tie_h_cron_start : Extracted.Cron.h_cron_start = Canon.Cron.h_cron_start := by decide +kernel
theorem tie_h_cron_Invoke : Extracted.Cron.h_cron_Invoke = Canon.Cron.h_cron_Invoke := by decide +kernel
theorem tie_h_cron_now : Extracted.Cron.h_cron_now = Canon.Cron.h_cron_now := by decide +kernel
theorem tie_h_cron_jobStart : Extracted.Cron.h_cron_jobStart = Canon.Cron.h_cron_jobStart := by decide +kernel
theorem tie_h_cron_jobStop : Extracted.Cron.h_cron_jobStop = Canon.Cron.h_cron_jobStop := by decide +kernel
theorem tie_h_cron_jobRestart : Extracted.Cron.h_cron_jobRestart = Canon.Cron.h_cron_jobRestart := by decide +kernel
theorem tie_h_cron_Read : Extracted.Cron.h_cron_Read = Canon.Cron.h_cron_Read := by decide +kernel
theorem tie_h_cron_initDags : Extracted.Cron.h_cron_initDags = Canon.Cron.h_cron_initDags := by decide +kernel
theorem tie_h_cron_watchDags : Extracted.Cron.h_cron_watchDags = Canon.Cron.h_cron_watchDags := by decide +kernel
theorem tie_h_cron_newEntryReader : Extracted.Cron.h_cron_newEntryReader = Canon.Cron.h_cron_newEntryReader := by decide +kernel
theorem tie_h_cron_buildSchedule : Extracted.Cron.h_cron_buildSchedule = Canon.Cron.h_cron_buildSchedule := by decide +kernel
theorem tie_h_cron_parseSchedules : Extracted.Cron.h_cron_parseSchedules = Canon.Cron.h_cron_parseSchedules := by decide +kernel
theorem tie_h_cron_parseScheduleMap : Extracted.Cron.h_cron_parseScheduleMap = Canon.Cron.h_cron_parseScheduleMap := by decide +kernel
theorem tie_h_cron_ParseTime : Extracted.Cron.h_cron_ParseTime = Canon.Cron.h_cron_ParseTime := by decide +kernel
theorem tie_h_cron_parseCron : Extracted.Cron.h_cron_parseCron = Canon.Cron.h_cron_parseCron := by decide +kernel
theorem tie_h_rest_cron_scheduler_scheduler_go : Extracted.Cron.h_rest_cron_scheduler_scheduler_go = Canon.Cron.h_rest_cron_scheduler_scheduler_go := by decide +kernel
theorem tie_h_rest_cron_scheduler_job_go : Extracted.Cron.h_rest_cron_scheduler_job_go = Canon.Cron.h_rest_cron_scheduler_job_go := by decide +kernel
theorem tie_h_rest_cron_scheduler_entryreader_go : Extracted.Cron.h_rest_cron_scheduler_entryreader_go = Canon.Cron.h_rest_cron_scheduler_entryreader_go := by decide +kernel
theorem tie_h_rest_cron_persistence_local_flag_store_go : Extracted.Cron.h_rest_cron_persistence_local_flag_store_go = Canon.Cron.h_rest_cron_persistence_local_flag_store_go := by decide +kernel
theorem tie_h_rest_cron_persistence_local_storage_storage_go : Extracted.Cron.h_rest_cron_persistence_local_storage_storage_go = Canon.Cron.h_rest_cron_persistence_local_storage_storage_go := by decide +kernel
theorem tie_h_rest_cron_client_client_go : Extracted.Cron.h_rest_cron_client_client_go = Canon.Cron.h_rest_cron_client_client_go := by decide +kernel
theorem tie_h_rest_cron_dag_parser_go : Extracted.Cron.h_rest_cron_dag_parser_go = Canon.Cron.h_rest_cron_dag_parser_go := by decide +kernel

#print axioms tie_h_cron_run
#print axioms tie_h_cron_nextTick
#print axioms tie_h_cron_start
#print axioms tie_h_cron_Invoke
#print axioms tie_h_cron_now
#print axioms tie_h_cron_jobStart
#print axioms tie_h_cron_jobStop
#print axioms tie_h_cron_jobRestart
#print axioms tie_h_cron_Read
#print axioms tie_h_cron_initDags
#print axioms tie_h_cron_watchDags
#print axioms tie_h_cron_newEntryReader
#print axioms tie_h_cron_buildSchedule
#print axioms tie_h_cron_parseSchedules
#print axioms tie_h_cron_parseScheduleMap
#print axioms tie_h_cron_ParseTime
#print axioms tie_h_cron_parseCron
#print axioms tie_h_rest_cron_scheduler_scheduler_go
#print axioms tie_h_rest_cron_scheduler_job_go
#print axioms tie_h_rest_cron_scheduler_entryreader_go
#print axioms tie_h_rest_cron_persistence_local_flag_store_go
#print axioms tie_h_rest_cron_persistence_local_storage_storage_go
#print axioms tie_h_rest_cron_client_client_go
#print axioms tie_h_rest_cron_dag_parser_go

end BdModel.Tie.Cron
