import BdModel.Extracted.Defs
import BdModel.Canon.Defs
/- Tie obligations: what the extractor reads from /repo NOW equals what the model was written against. -/
namespace BdModel.Tie.Defs

theorem tie_h_defs_dagStoreImpl_UpdateSpec : Extracted.Defs.h_defs_dagStoreImpl_UpdateSpec = Canon.Defs.h_defs_dagStoreImpl_UpdateSpec := by decide +kernel
theorem tie_h_defs_dagStoreImpl_Create : Extracted.Defs.h_defs_dagStoreImpl_Create = Canon.Defs.h_defs_dagStoreImpl_Create := by decide +kernel
theorem tie_h_defs_dagStoreImpl_Delete : Extracted.Defs.h_defs_dagStoreImpl_Delete = Canon.Defs.h_defs_dagStoreImpl_Delete := by decide +kernel
theorem tie_h_defs_dagStoreImpl_Rename : Extracted.Defs.h_defs_dagStoreImpl_Rename = Canon.Defs.h_defs_dagStoreImpl_Rename := by decide +kernel
theorem tie_h_defs_dagStoreImpl_fileLocation : Extracted.Defs.h_defs_dagStoreImpl_fileLocation = Canon.Defs.h_defs_dagStoreImpl_fileLocation := by decide +kernel
theorem tie_h_defs__exists : Extracted.Defs.h_defs__exists = Canon.Defs.h_defs__exists := by decide +kernel
theorem tie_h_defs__writeFileAtomic : Extracted.Defs.h_defs__writeFileAtomic = Canon.Defs.h_defs__writeFileAtomic := by decide +kernel
theorem tie_h_defs_dagStoreImpl_ensureDirExist : Extracted.Defs.h_defs_dagStoreImpl_ensureDirExist = Canon.Defs.h_defs_dagStoreImpl_ensureDirExist := by decide +kernel
theorem tie_h_defs__checkExtension : Extracted.Defs.h_defs__checkExtension = Canon.Defs.h_defs__checkExtension := by decide +kernel
theorem tie_h_defs_AddYamlExtension : Extracted.Defs.h_defs_AddYamlExtension = Canon.Defs.h_defs_AddYamlExtension := by decide +kernel
theorem tie_h_defs__find : Extracted.Defs.h_defs__find = Canon.Defs.h_defs__find := by decide +kernel
theorem tie_h_defs_dagStoreImpl_resolve : Extracted.Defs.h_defs_dagStoreImpl_resolve = Canon.Defs.h_defs_dagStoreImpl_resolve := by decide +kernel
theorem tie_h_defs_client_CreateDAG : Extracted.Defs.h_defs_client_CreateDAG = Canon.Defs.h_defs_client_CreateDAG := by decide +kernel
theorem tie_h_defs_client_Rename : Extracted.Defs.h_defs_client_Rename = Canon.Defs.h_defs_client_Rename := by decide +kernel
theorem tie_h_defs_client_UpdateDAG : Extracted.Defs.h_defs_client_UpdateDAG = Canon.Defs.h_defs_client_UpdateDAG := by decide +kernel
theorem tie_h_defs_client_DeleteDAG : Extracted.Defs.h_defs_client_DeleteDAG = Canon.Defs.h_defs_client_DeleteDAG := by decide +kernel
theorem tie_h_rest_defs_persistence_local_dag_store_go : Extracted.Defs.h_rest_defs_persistence_local_dag_store_go = Canon.Defs.h_rest_defs_persistence_local_dag_store_go := by decide +kernel
theorem tie_h_rest_defs_client_client_go : Extracted.Defs.h_rest_defs_client_client_go = Canon.Defs.h_rest_defs_client_client_go := by decide +kernel
theorem tie_h_rest_defs_frontend_dag_handler_go : Extracted.Defs.h_rest_defs_frontend_dag_handler_go = Canon.Defs.h_rest_defs_frontend_dag_handler_go := by decide +kernel

#print axioms tie_h_defs_dagStoreImpl_UpdateSpec
#print axioms tie_h_defs_dagStoreImpl_Create
#print axioms tie_h_defs_dagStoreImpl_Delete
#print axioms tie_h_defs_dagStoreImpl_Rename
#print axioms tie_h_defs_dagStoreImpl_fileLocation
#print axioms tie_h_defs__exists
#print axioms tie_h_defs__writeFileAtomic
#print axioms tie_h_defs_dagStoreImpl_ensureDirExist
#print axioms tie_h_defs__checkExtension
#print axioms tie_h_defs_AddYamlExtension
#print axioms tie_h_defs__find
#print axioms tie_h_defs_dagStoreImpl_resolve
#print axioms tie_h_defs_client_CreateDAG
#print axioms tie_h_defs_client_Rename
#print axioms tie_h_defs_client_UpdateDAG
#print axioms tie_h_defs_client_DeleteDAG
#print axioms tie_h_rest_defs_persistence_local_dag_store_go
#print axioms tie_h_rest_defs_client_client_go
#print axioms tie_h_rest_defs_frontend_dag_handler_go

end BdModel.Tie.Defs
