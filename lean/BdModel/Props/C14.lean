import BdModel.Proofs.Kahn
/-
  C14 — only well-formed dependency graphs are admitted to execution.
  Property theorems only; helper lemmas live in `BdModel/Proofs/Kahn.lean`.
-/
namespace BdModel.P14
open BdModel.Cycle

/-- **C14 (graph part).** A step list with distinct names is accepted by `ExecutionGraph.setup`
    iff every `depends` entry names an existing step and the dependency relation has no cycle
    (self-dependency included). No bound on the number of steps or edges. -/
theorem C14 {α} [DecidableEq α] (steps : List (Step α))
    (hd : (steps.map (·.name)).Nodup) :
    accept steps = true ↔
      (∀ s ∈ steps, ∀ d ∈ s.depends, ∃ t ∈ steps, t.name = d) ∧
      ¬ ∃ i, Relation.TransGen (DependsOn steps) i i :=
  accept_iff steps hd

/-- the refusal is classified: a dangling name is reported as such -/
theorem C14_notFound {α} [DecidableEq α] (steps : List (Step α)) :
    setupGraph steps = .notFound ↔ ∃ s ∈ steps, ∃ d ∈ s.depends, ∀ t ∈ steps, t.name ≠ d :=
  setupGraph_notFound_iff steps

/-- the fuel of the model's loop never runs out (the Go loop terminates with an empty queue) -/
theorem C14_fuel (n : Nat) (es : List (Nat × Nat)) (h : ∀ e ∈ es, e.1 < n ∧ e.2 < n) :
    queueDrained n es = true := queueDrained_true n es h

/-! non-vacuity: a concrete accepted diamond, a refused self-loop, a refused 3-cycle behind a source,
    a refused dangling name -/
example : accept [⟨0, []⟩, ⟨1, [0]⟩, ⟨2, [0]⟩, ⟨3, [1, 2]⟩] = true := by decide
example : accept [⟨0, [0]⟩] = false := by decide
example : accept [⟨0, []⟩, ⟨1, [0, 3]⟩, ⟨2, [1]⟩, ⟨3, [2]⟩] = false := by decide
example : setupGraph [⟨0, [7]⟩] = .notFound := by decide

end BdModel.P14

#print axioms BdModel.P14.C14
#print axioms BdModel.P14.C14_notFound
#print axioms BdModel.P14.C14_fuel
