import BdModel.Proofs.Sched.Outcome
/-
  C05 — stop and timeout always bring a run to an end.
  The model follows the code after the fix: commits 6fb8b5a, ed2a95e, ec8c08c of /repo (F27, F5, F4).
  Proved here: the safety clauses (no new start, the right signal reaches every running command, the
  escalation reaches every command still alive incl. repeating steps, a repeating step is not
  repeated, nothing is left `running`, nothing unexecuted is reported finished). The wall-clock
  bound and process-group delivery are runtime behaviour (partial label; real-process stream).
-/
namespace BdModel.P05
open BdModel.Sched

/-- **C05 (a) no new start.** Once the stop has been accepted a command can start only in a worker
    that had already passed its cancel test, and then at most once more. -/
theorem C05_no_new_start (c : Cfg) (s s' : State) (hc : s.canceled = true)
    (h : ReachFrom c s s') (i : Nat) :
    (s'.nd i).execs ≤ (s.nd i).execs + (if (s.nd i).pc = .starting then 1 else 0) :=
  no_new_start_after_cancel c s s' hc h i

/-- the cancel test itself: with the flag set a worker at the loop head skips the command -/
theorem C05_check_skips (c : Cfg) (s s' : State) (i : Nat) (hc : s.canceled = true)
    (h : step c s (.check i) = some s') : (s'.nd i).pc = .tail ∧ (s'.nd i).execs = (s.nd i).execs := by
  simp only [step] at h
  split at h
  · simp at h
    subst h; simp [State.setNode, updN]
  · cases h

/-- the signal a step receives: its `signalOnStop` when the sender allows the override and one is
    configured, otherwise the sender's signal -/
def effSig (c : Cfg) (i : Nat) (sig : Nat) (ovr : Bool) : Nat :=
  match ovr, (c.node i).sigOnStop with
  | true, some g => g
  | _, _ => sig

/-- **C05 (b) delivery.** Whenever `Signal` visits a step whose command is running, that command
    is sent `effSig` — whatever the step's label is (so also on the 5 s resend and on escalation). -/
theorem C05_delivery (c : Cfg) (hd : c.dry = false) (s s' : State) (hr : Reach c s) (i sig : Nat) (ovr : Bool)
    (h : step c s (.signalNode i sig ovr) = some s') (hp : (s.nd i).pc = .exec) :
    (s'.nd i).sigs = (s.nd i).sigs ++ [effSig c i sig ovr] ∧ (s'.nd i).pc = .exec := by
  have hcmd := exec_has_cmd c hd s hr i hp
  simp only [step] at h
  split at h
  · simp only [hcmd, hp, and_self, if_true] at h
    split at h <;> (injection h with h; subst h; simp [State.setNode, updN, effSig]) <;>
      (cases ovr <;> cases (c.node i).sigOnStop <;> rfl)
  · cases h

/-- **C05 (c) escalation.** After the stop has been accepted the final SIGKILL is enabled for EVERY
    step, repeating or not, and reaches every command that is still running. -/
theorem C05_kill (c : Cfg) (hd : c.dry = false) (s : State) (hr : Reach c s) (hc : s.canceled = true) (i : Nat) :
    ∃ s', step c s (.signalNode i 9 false) = some s' ∧
      ((s.nd i).pc = .exec → (9 : Nat) ∈ (s'.nd i).sigs) := by
  cases hs : step c s (.signalNode i 9 false) with
  | none =>
    exfalso
    simp only [step, hc, true_and, or_true, if_true] at hs
    grind
  | some s' =>
    refine ⟨s', rfl, fun hp => ?_⟩
    have := (C05_delivery c hd s s' hr i 9 false hs hp).1
    rw [this]; simp [effSig]

/-- **C05 (e) repeating steps.** `Signal` does not touch a repeating step except with SIGKILL … -/
theorem C05_repeat_not_signalled (c : Cfg) (s : State) (i sig : Nat) (ovr : Bool)
    (hr : (c.node i).rep = true) (hs : sig ≠ 9) : step c s (.signalNode i sig ovr) = none := by
  simp [step, hr, hs]

/-- … and after the stop its current iteration is the last one: the worker does not go back to the
    loop head when the command ends. -/
theorem C05_repeat_stops (c : Cfg) (s s' : State) (i : Nat) (ok : Bool) (hc : s.canceled = true)
    (h : step c s (.execEnd i ok) = some s') : (s'.nd i).pc ≠ .check := by
  have key : ∀ (t : State) (b : Bool), t.canceled = true → ((afterExec c t i b).nd i).pc ≠ .check := by
    intro t b ht
    simp only [afterExec, ht, Bool.not_true, Bool.and_false]
    repeat' split
    all_goals simp_all [State.setNode, updN]
  simp only [step] at h
  split at h
  · repeat' split at h
    all_goals (injection h with h; subst h)
    all_goals first
      | exact key _ _ (by simp [hc, State.setNode])
      | simp [State.setNode, updN]
  · cases h

/-- **C05 / C04 nothing left running.** A step whose worker is gone is never reported running. -/
theorem C05_nothing_left_running (c : Cfg) (hn : NoRep c) (s : State) (hr : Reach c s) (i : Nat)
    (hp : (s.nd i).pc = .idle ∨ (s.nd i).pc = .gone ∨ (s.nd i).pc = .deferred ∨ (s.nd i).pc = .td) :
    (s.nd i).status ≠ .running :=
  no_running_when_gone c hn s hr i hp

/-- **C05 / C04 no phantom success.** A step reported finished has executed its command — also when
    the stop landed between the loop's launch decision and the worker's cancel test. -/
theorem C05_finished_means_executed (c : Cfg) (hn : NoRep c) (hd : c.dry = false) (s : State) (hr : Reach c s)
    (i : Nat) (h : (s.nd i).status = .success) : (s.nd i).execs ≥ 1 :=
  success_executed c hn hd s hr i h

/-! regression witnesses (the traces that violated the property before the fixes) -/
def one : Cfg := { n := 1, node := fun _ => {} }
def up : List Act := [.visitDecide 0, .visitLaunch 0 true, .setupDone 0 true, .check 0, .execStart 0]

/-- F4: TERM (ignored by the process), then the escalation: KILL is delivered although the label is canceled -/
example : ((runActs one (init one) (up ++ [.setCanceled, .signalNode 0 15 true, .signalNode 0 9 false])).map fun s =>
    ((s.nd 0).status, (s.nd 0).pc, (s.nd 0).sigs)) = some (.cancel, .exec, [15, 9]) := by decide

/-- F27: stop between launch decision and launch: the step ends canceled, not finished -/
example : ((runActs one (init one) [.visitDecide 0, .setCanceled, .signalNode 0 15 true, .visitLaunch 0 true,
    .setupDone 0 true, .check 0, .tail 0]).map fun s => ((s.nd 0).status, (s.nd 0).execs)) = some (.cancel, 0) := by
  decide

/-- F5: a repeating step whose iteration fails after the stop ends canceled, not running -/
def rep1 : Cfg := { n := 1, node := fun _ => { rep := true } }
example : ((runActs rep1 (init rep1) (up ++ [.setCanceled, .execEnd 0 false])).map fun s =>
    ((s.nd 0).status, (s.nd 0).pc)) = some (.cancel, .deferred) := by decide

end BdModel.P05

#print axioms BdModel.P05.C05_no_new_start
#print axioms BdModel.P05.C05_check_skips
#print axioms BdModel.P05.C05_delivery
#print axioms BdModel.P05.C05_kill
#print axioms BdModel.P05.C05_repeat_not_signalled
#print axioms BdModel.P05.C05_repeat_stops
#print axioms BdModel.P05.C05_nothing_left_running
#print axioms BdModel.P05.C05_finished_means_executed
