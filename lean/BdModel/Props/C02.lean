import BdModel.Proofs.Sched.Order
import BdModel.Proofs.Sched.Progress
import BdModel.Proofs.Sched.Termination
/-
  C02 — failure and skip containment: final step states follow the DAG semantics.
  Stated as local consistency of every step's label with the labels of its dependencies, in every
  reachable state of a run that was neither stopped nor timed out (so in particular in the final one).
-/
namespace BdModel.P02
open BdModel.Sched

/-- **C02 (total).** When the loop has ended without a stop, every step is in a final state. -/
theorem C02_total (c : Cfg) (hn : NoRep c) (s : State) (hr : Reach c s)
    (hc : s.canceled = false) (hl : LoopDone s) (i : Nat) (hi : i < c.n) :
    Terminal (s.nd i).status :=
  final_terminal c hn s hr hc hl i hi

/-- **C02 (labels).** canceled ⇒ never executed and some dependency failed (without continueOn.failure)
    or is itself canceled; skipped ⇒ own precondition unmet (all dependencies licensed), or never
    executed and some dependency skipped (without continueOn.skipped); finished / failed / running ⇒
    every dependency is licensed. -/
theorem C02_labels (c : Cfg) (hw : WF c) (hn : NoRep c) (hf : c.tdFaults = false)
    (s : State) (hr : Reach c s) (hc : s.canceled = false) (ht : s.timedOut = false)
    (i : Nat) (hi : i < c.n) :
    ((s.nd i).status = .cancel →
        (s.nd i).execs = 0 ∧ ∃ d ∈ (c.node i).deps,
          ((s.nd d).status = .error ∧ (c.node d).contFail = false) ∨ (s.nd d).status = .cancel) ∧
    ((s.nd i).status = .skipped →
        ((s.nd i).preSkip = true ∧ (c.node i).hasPre = true ∧ ∀ d ∈ (c.node i).deps, Licensed c s d) ∨
        ((s.nd i).execs = 0 ∧
         ∃ d ∈ (c.node i).deps, (s.nd d).status = .skipped ∧ (c.node d).contSkip = false)) ∧
    (((s.nd i).status = .success ∨ (s.nd i).status = .error ∨ (s.nd i).status = .running) →
        ∀ d ∈ (c.node i).deps, Licensed c s d) :=
  label_consistent c hw hn hf s hr hc ht i hi

/-- **C02 (containment).** In the final state of an unstopped run: a step all of whose dependencies
    let it proceed was launched (finished / failed by its own outcome) or skipped by its own
    precondition; a step with a blocking dependency was never executed and is canceled or skipped. -/
theorem C02_containment (c : Cfg) (hw : WF c) (hn : NoRep c) (hf : c.tdFaults = false)
    (s : State) (hr : Reach c s) (hc : s.canceled = false) (ht : s.timedOut = false) (hl : LoopDone s)
    (i : Nat) (hi : i < c.n) :
    ((∀ d ∈ (c.node i).deps, Licensed c s d) →
        (s.nd i).status = .success ∨ (s.nd i).status = .error ∨
        ((s.nd i).status = .skipped ∧ (s.nd i).preSkip = true)) ∧
    ((∃ d ∈ (c.node i).deps, Blocker c s d) →
        ((s.nd i).status = .cancel ∨ (s.nd i).status = .skipped) ∧ (s.nd i).execs = 0) := by
  have hT := final_terminal c hn s hr hc hl i hi
  obtain ⟨h1, h2, h3⟩ := label_consistent c hw hn hf s hr hc ht i hi
  have disj : ∀ d, Licensed c s d → Blocker c s d → False := by
    intro d hL hB
    unfold Licensed at hL; unfold Blocker at hB
    rcases hL with h | ⟨h, h'⟩ | ⟨h, h'⟩ <;> rcases hB with ⟨g, g'⟩ | g | ⟨g, g'⟩ <;> simp_all
  constructor
  · intro hall
    rcases hT with h | h | h | h
    · exact Or.inr (Or.inl h)
    · exfalso
      obtain ⟨_, d, hd, hb⟩ := h1 h
      have hL := hall d hd
      unfold Licensed at hL
      rcases hb with ⟨g, g'⟩ | g <;> rcases hL with a | ⟨a, a'⟩ | ⟨a, a'⟩ <;> simp_all
    · exact Or.inl h
    · rcases h2 h with ⟨hp, _, _⟩ | ⟨_, d, hd, g, g'⟩
      · exact Or.inr (Or.inr ⟨h, hp⟩)
      · exfalso
        have hL := hall d hd
        unfold Licensed at hL
        rcases hL with a | ⟨a, a'⟩ | ⟨a, a'⟩ <;> simp_all
  · rintro ⟨d, hd, hB⟩
    rcases hT with h | h | h | h
    · exact absurd hB (fun hB => disj d (h3 (Or.inr (Or.inl h)) d hd) hB)
    · exact ⟨Or.inl h, (h1 h).1⟩
    · exact absurd hB (fun hB => disj d (h3 (Or.inl h) d hd) hB)
    · refine ⟨Or.inr h, ?_⟩
      rcases h2 h with ⟨_, _, hall⟩ | ⟨he, _⟩
      · exact absurd hB (fun hB => disj d (hall d hd) hB)
      · exact he

/-! non-vacuity: chain 0 → 1 → 2 where 0 fails: 1 and 2 end canceled without executing -/
def demoCfg : Cfg := { n := 3, node := fun i => match i with | 1 => { deps := [0] } | 2 => { deps := [1] } | _ => {} }
def demoActs : List Act :=
  [.visitDecide 0, .visitLaunch 0 true, .setupDone 0 true, .check 0, .execStart 0, .execEnd 0 false, .postWrite 0,
   .deferred 0, .visitDecide 1, .visitDecide 2, .loopExit]
example : ((runActs demoCfg (init demoCfg) demoActs).map fun s =>
    ((s.nd 0).status, (s.nd 1).status, (s.nd 2).status, (s.nd 1).execs, s.canceled, s.loop)) =
    some (.error, .cancel, .cancel, 0, false, .waiting) := by decide


/-- **C02 (steps not blocked always get their turn).** While the run is unstopped and unfinished and no
    step is running, one visit of the loop launches a step whose dependencies all let it proceed, or
    labels a step that is blocked: no step is left `not started` for ever by the loop itself. -/
theorem C02_progress (c : Cfg) (hw : WF c) (hrk : Ranked c) (s : State)
    (hscan : s.loop = .scanning) (hnc : s.canceled = false) (hnf : isFinished c s = false)
    (hnr : ∀ j, j < c.n → (s.nd j).status ≠ .running) :
    ∃ i s', step c s (.visitDecide i) = some s' ∧ s' ≠ s :=
  scan_progress c hw hrk s hscan hnc hnf hnr

/-- **C02 (runs end).** Every run is finite: each transition strictly decreases the natural-number
    `measure`, leaves the state unchanged, or is a signal delivery (which never increases it); while
    `Schedule` has not returned a decreasing transition is enabled. So a step that is not downstream
    of a blocking step is not merely never left waiting by the loop (`C02_progress`): after at most
    `measure` productive transitions the run has ended, and then `C02_total` / `C02_labels` apply.
    (Environment assumption of the model: a running command ends.) -/
theorem C02_run_ends (c : Cfg) (hw : WF c) (hrk : Ranked c) (hn : NoRep c) (s : State) (hr : Reach c s) :
    (∀ a s', step c s a = some s' →
        measure c s' < measure c s ∨ s' = s ∨
          ((∃ i sig ovr, a = .signalNode i sig ovr) ∧ measure c s' ≤ measure c s)) ∧
    (s.loop ≠ .returned → ∃ a s', step c s a = some s' ∧ measure c s' < measure c s) ∧
    (∃ as s', runActs c s as = some s' ∧ s'.loop = .returned ∧ as.length ≤ measure c s) := by
  have h0 := start_init c
  have hr' := (reach_iff_from c s).1 hr
  exact ⟨fun a s' hs => step_measure c hn h0 s hr' a s' hs,
         fun hnr => productive_enabled c hw hrk hn h0 s hr' hnr,
         can_return c hw hrk hn h0 _ s hr' rfl⟩

end BdModel.P02

#print axioms BdModel.P02.C02_total
#print axioms BdModel.P02.C02_labels
#print axioms BdModel.P02.C02_containment
#print axioms BdModel.P02.C02_progress
#print axioms BdModel.P02.C02_run_ends
