import BdModel.Proofs.Load
/-
  C13 — any file content is either rejected with an error or yields a runnable DAG.
  `build o opts t` is the model of decode + builder.build on the untyped YAML tree `t` (BdModel/Load), as the
  loader stands after the fixes 208b483, 2134a7a, 677265a, d52d2ba, 6a100f2, b765887, 0f8807c;
  `o : Orc` carries the library facts the model does not compute (cron validity, signal names), `opts` the
  entry point's options. Every statement is for ALL trees, oracles and options — no exclusion is left.
-/
namespace BdModel.P13
open BdModel.Load

/-- **C13, part 1: loading never panics** — every tree, every entry point. The builder's nil dereferences
    are still in the model (`Res.panic site`); they are unreachable behind `assertNoNullElements`. -/
theorem C13_never_panics (o : Orc) (opts : Opts) (t : Tree) : ∀ s, build o opts t ≠ .panic s := by
  intro s hs
  unfold build at hs
  cases hd : decode t with
  | mk st d =>
    rw [hd] at hs
    cases st with
    | panic => simp at hs
    | err => simp at hs
    | ok =>
      simp only at hs
      have := buildDef_not_panic o opts d
      rw [hs] at this
      cases this

/-- **C13, part 2: what every accepted DAG satisfies** — all steps and handlers named and with something to
    execute; every STORED stop-signal name is empty or one `unix.SignalNum` resolves (the call the stop path makes
    on the stored name); schedules that parse; the status serialisable; preconditions safe to evaluate. -/
theorem C13_accepted (o : Orc) (opts : Opts) (t : Tree) (d : Dag) (h : build o opts t = .ok d) :
    d.wellFormed o ∧ d.serialisable ∧ d.evalSafe := by
  have key : ∀ df, buildDef o opts df = .ok d → d.wellFormed o ∧ d.serialisable ∧ d.evalSafe := by
    intro df hb
    have := buildDef_ok o opts df d hb
    refine ⟨⟨⟨fun s hs => ⟨(this.1 s hs).1, (this.1 s hs).2.1⟩, this.2⟩, fun s hs => (this.1 s hs).2.2.1⟩,
            fun s hs => (this.1 s hs).2.2.2, ⟨fun _ _ => rfl, fun _ _ _ _ => rfl⟩⟩
  unfold build at h
  cases hd : decode t with
  | mk st df =>
    rw [hd] at h
    cases st with
    | panic => simp at h
    | err => simp at h
    | ok => exact key df h

/-- **C13 (full strength).** Loading never panics, and an accepted DAG is well-formed (every step named and
    with something to execute, schedules parse, signals valid), its status serialisable, its preconditions
    safe to evaluate. -/
theorem C13_full (o : Orc) (opts : Opts) (t : Tree) :
    (∀ s, build o opts t ≠ .panic s) ∧
    ∀ d, build o opts t = .ok d → d.wellFormed o ∧ d.serialisable ∧ d.evalSafe :=
  ⟨C13_never_panics o opts t, C13_accepted o opts t⟩

/-! ### regression witnesses: the inputs that refuted C13 before the fixes (each is in the check's corpus and
    replayed on the real loader; all are now rejected with an error or accepted in a sound state) -/

def orc : Orc := { cronOk := fun _ => true, sigOk := fun _ => true }
def isErr (r : Res Dag) : Bool := match r with | .err => true | _ => false
def okAnd (r : Res Dag) (p : Dag → Bool) : Bool := match r with | .ok d => p d | _ => false

def step1 : Tree := .map [(.str (S "name"), .str (S "s")), (.str (S "command"), .str (S "true"))]
def doc (kvs : List (Tree × Tree)) : Tree := .map (kvs ++ [(.str (S "steps"), .list [step1])])
def stepWith (kvs : List (Tree × Tree)) : Tree := .map [(.str (S "steps"), .list [.map ((.str (S "name"), .str (S "s")) :: kvs)])]

/-- `schedule: {foo: "* * * * *"}` (2134a7a) — also with no value: `schedule: {foo: []}` -/
example : isErr (build orc {} (doc [(.str (S "schedule"), .map [(.str (S "foo"), .str (S "* * * * *"))])])) = true := by decide
example : isErr (build orc {} (doc [(.str (S "schedule"), .map [(.str (S "foo"), .list [])])])) = true := by decide
/-- `steps: [null]`, `preconditions: [null]`, `functions: [null]` (208b483) — also through LoadMetadata -/
example : isErr (build orc {} (.map [(.str (S "steps"), .list [.null])])) = true := by decide
example : isErr (build orc { metadataOnly := true } (.map [(.str (S "steps"), .list [.null])])) = true := by decide
example : isErr (build orc {} (doc [(.str (S "preconditions"), .list [.null])])) = true := by decide
example : isErr (build orc {} (doc [(.str (S "functions"), .list [.null])])) = true := by decide
/-- `schedule: "TZ=UTC"` (677265a) -/
example : isErr (build orc {} (doc [(.str (S "schedule"), .str (S "TZ=UTC"))])) = true := by decide
example : isErr (build orc { metadataOnly := true } (doc [(.str (S "schedule"), .str (S "TZ=UTC"))])) = true := by decide
/-- a step with a non-string key (d52d2ba) -/
example : isErr (build orc {} (.map [(.str (S "steps"), .list [.map [(.str (S "name"), .str (S "s")), (.int 1, .str (S "x"))]])])) = true := by decide
/-- `command: []`, `executor: ""` (6a100f2) -/
example : isErr (build orc {} (stepWith [(.str (S "command"), .list [])])) = true := by decide
example : isErr (build orc {} (stepWith [(.str (S "executor"), .str [])])) = true := by decide
/-- executor config with a list of maps is accepted AND serialisable; with `.nan` it is rejected (b765887) -/
example : okAnd (build orc {} (stepWith [(.str (S "command"), .str (S "true")),
      (.str (S "executor"), .map [(.str (S "type"), .str (S "docker")),
        (.str (S "config"), .map [(.str (S "x"), .list [.map [(.str (S "a"), .int 1)]])])])]))
      (fun d => d.allSteps.all Step.serial) = true := by decide
example : isErr (build orc {} (stepWith [(.str (S "command"), .str (S "true")),
      (.str (S "executor"), .map [(.str (S "type"), .str (S "docker")),
        (.str (S "config"), .map [(.str (S "x"), .list [.float false])])])])) = true := by decide

/-! schedule maps: a null / wrong-typed value under start / stop / restart is ignored and leaves the other keys'
    lists alone (whatever the order of the entries); a wrong-typed schedule at the top level or a non-string
    list element is an error -/
def schedOf (t : Tree) : Tree := doc [(.str (S "schedule"), t)]
def c1 : Str := S "0 1 * * *"
example : okAnd (build orc {} (schedOf (.map [(.str (S "start"), .str c1), (.str (S "stop"), .null)])))
    (fun d => d.starts == [c1] && d.stops.isEmpty && d.restarts.isEmpty) = true := by decide
example : okAnd (build orc {} (schedOf (.map [(.str (S "stop"), .int 5), (.str (S "start"), .str c1), (.str (S "restart"), .map [])])))
    (fun d => d.starts == [c1] && d.stops.isEmpty && d.restarts.isEmpty) = true := by decide
example : okAnd (build orc {} (schedOf (.map [(.str (S "start"), .str c1), (.str (S "stop"), .bool true), (.str (S "restart"), .float true)])))
    (fun d => d.starts == [c1] && d.stops.isEmpty && d.restarts.isEmpty) = true := by decide
example : isErr (build orc {} (schedOf (.int 5))) = true := by decide
example : isErr (build orc {} (schedOf (.list [.str c1, .int 5]))) = true := by decide
example : isErr (build orc {} (schedOf (.map [(.str (S "start"), .list [.str c1, .null])]))) = true := by decide

/-! stop signals: `parseMiscs` validates and stores the SAME string, so only spellings `unix.SignalNum` knows are
    accepted and the stored name is the one the stop path resolves (`C13_accepted`: `s.signal = [] ∨ o.sigOk s.signal`) -/
def orcSig : Orc := { cronOk := fun _ => true, sigOk := fun s => s == S "SIGINT" || s == S "SIGUSR1" }
example : okAnd (build orcSig {} (stepWith [(.str (S "command"), .str (S "true")), (.str (S "signalOnStop"), .str (S "SIGINT"))]))
    (fun d => d.allSteps.all (fun s => s.signal == S "SIGINT")) = true := by decide
example : isErr (build orcSig {} (stepWith [(.str (S "command"), .str (S "true")), (.str (S "signalOnStop"), .str (S "sigint"))])) = true := by decide
example : isErr (build orcSig {} (stepWith [(.str (S "command"), .str (S "true")), (.str (S "signalOnStop"), .str (S "INT"))])) = true := by decide
example : isErr (build orcSig {} (stepWith [(.str (S "command"), .str (S "true")), (.str (S "signalOnStop"), .str (S " SIGINT "))])) = true := by decide
example : isErr (build orcSig {} (stepWith [(.str (S "command"), .str (S "true")), (.str (S "signalOnStop"), .str [])])) = true := by decide
/-- handlers too -/
example : isErr (build orcSig {} (doc [(.str (S "handlerOn"), .map [(.str (S "cancel"), .map [(.str (S "command"), .str (S "true")), (.str (S "signalOnStop"), .str (S "usr1"))])])])) = true := by decide

/-! non-vacuity: an accepted definition with schedule map, handler and function call -/
def good : Tree := .map [
  (.str (S "name"), .str (S "d")),
  (.str (S "schedule"), .map [(.str (S "start"), .str (S "0 1 * * *")), (.str (S "stop"), .list [.str (S "0 2 * * *")])]),
  (.str (S "functions"), .list [.map [(.str (S "name"), .str (S "f")), (.str (S "params"), .str (S "x")), (.str (S "command"), .str (S "echo $x"))]]),
  (.str (S "handlerOn"), .map [(.str (S "exit"), .map [(.str (S "command"), .str (S "echo bye"))])]),
  (.str (S "steps"), .list [step1, .map [(.str (S "name"), .str (S "t")), (.str (S "call"), .map [(.str (S "function"), .str (S "f")), (.str (S "args"), .map [(.str (S "x"), .int 1)])])]])]
example : okAnd (build orc {} good) (fun d => d.steps.length == 2 && d.allSteps.all Step.hasExec && d.starts.length == 1 && d.stops.length == 1 && d.onExit.isSome) = true := by decide

end BdModel.P13

#print axioms BdModel.P13.C13_never_panics
#print axioms BdModel.P13.C13_accepted
#print axioms BdModel.P13.C13_full
