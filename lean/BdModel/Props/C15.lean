import BdModel.Proofs.Sched.Limit
import BdModel.Proofs.Sched.Progress
import BdModel.Proofs.Sched.Termination
/-
  C15 — no more steps run at once than maxActiveRuns allows.
-/
namespace BdModel.P15
open BdModel.Sched

/-- **C15 (status count).** With maxActiveRuns = k > 0 at most k steps are in state running, in
    every state reachable by any interleaving. -/
theorem C15_running (c : Cfg) (s : State) (hr : Reach c s) (hk : 0 < c.maxActive) :
    runningCount c s ≤ c.maxActive :=
  runningCount_le c s hr hk

/-- **C15 (commands).** At most k commands are executing or waiting out a retry interval — indeed at
    most k workers exist between launch and their last attempt — also after a stop, when statuses
    have been rewritten to canceled while the processes still run. -/
theorem C15 (c : Cfg) (hn : NoRep c) (s : State) (hr : Reach c s) (hk : 0 < c.maxActive) :
    executing c s ≤ c.maxActive :=
  Nat.le_trans (executing_le_active c s) (activeWorkers_le c hn s hr hk)

theorem C15_workers (c : Cfg) (hn : NoRep c) (s : State) (hr : Reach c s) (hk : 0 < c.maxActive) :
    activeWorkers c s ≤ c.maxActive :=
  activeWorkers_le c hn s hr hk

/-- k = 0 is "no limit": the gate is not consulted (three independent steps all run at once) -/
def demo0 : Cfg := { n := 3, node := fun _ => {}, maxActive := 0 }
def launch (i : Nat) : List Act := [.visitDecide i, .visitLaunch i true, .setupDone i true, .check i, .execStart i]
example : ((runActs demo0 (init demo0) (launch 0 ++ launch 1 ++ launch 2)).map fun s => executing demo0 s) = some 3 := by
  decide

/-- non-vacuity with k = 1: the second step is not launched while the first executes -/
def demo1 : Cfg := { n := 2, node := fun _ => {}, maxActive := 1 }
example : ((runActs demo1 (init demo1) (launch 0 ++ [.visitDecide 1])).map fun s => (executing demo1 s, s.loop)) =
    some (1, .scanning) := by decide


/-- **C15 (the limit never prevents a run from completing) / deadlock freedom.** In every reachable
    state of an unstopped, unfinished run — whatever `maxActiveRuns` is — something can move: either
    some step is running and its worker has an enabled action (while its command runs: the command's
    end), or one visit of the scheduling loop changes the state (launches a step or labels one). The
    limit can therefore only ever make the loop wait for a running step, never for nothing. -/
theorem C15_never_blocks (c : Cfg) (hw : WF c) (hrk : Ranked c) (hn : NoRep c) (s : State) (hr : Reach c s)
    (hscan : s.loop = .scanning) (hnc : s.canceled = false) (hnf : isFinished c s = false) :
    (∃ j, j < c.n ∧ (s.nd j).status = .running ∧ ∃ a s', step c s a = some s' ∧
        (a = .setupDone j true ∨ a = .check j ∨ a = .execStart j ∨ a = .execEnd j true ∨ a = .postWrite j ∨
         a = .retryWake j ∨ a = .tail j)) ∨
    (∃ i s', step c s (.visitDecide i) = some s' ∧ s' ≠ s) := by
  rcases Classical.em (∃ j, j < c.n ∧ (s.nd j).status = .running) with ⟨j, hj, hrun⟩ | hno
  · exact Or.inl ⟨j, hj, hrun, worker_progress c hn s hr j hrun⟩
  · exact Or.inr (scan_progress c hw hrk s hscan hnc hnf (fun j hj h => hno ⟨j, hj, h⟩))

/-- **C15 (the limit never prevents a run from completing) / termination.** Whatever
    `maxActiveRuns` is: (1) every transition of a run strictly decreases the natural-number `measure`
    (retries left, position of every worker, position of the loop), leaves the state unchanged (a loop
    visit that finds nothing to do — e.g. because the limit is reached —, a repeated stop), or is a
    signal delivery, which never increases it; (2) as long as `Schedule` has not returned, a
    measure-decreasing transition is enabled — the limit can make the loop wait, but then a running
    step's worker can move; (3) so from every reachable state at most `measure c s` productive
    transitions lead to `Schedule` having returned. Environment assumption made explicit by the model:
    a running command ends (`execEnd` is enabled while it runs), by itself or by the stop escalation. -/
theorem C15_completes (c : Cfg) (hw : WF c) (hrk : Ranked c) (hn : NoRep c) (s : State) (hr : Reach c s) :
    (∀ a s', step c s a = some s' →
        measure c s' < measure c s ∨ s' = s ∨
          ((∃ i sig ovr, a = .signalNode i sig ovr) ∧ measure c s' ≤ measure c s)) ∧
    (s.loop ≠ .returned → ∃ a s', step c s a = some s' ∧ measure c s' < measure c s) ∧
    (∀ as, descents c s as ≤ measure c s) ∧
    (∃ as s', runActs c s as = some s' ∧ s'.loop = .returned ∧ as.length ≤ measure c s) := by
  have h0 := start_init c
  have hr' := (reach_iff_from c s).1 hr
  exact ⟨fun a s' hs => step_measure c hn h0 s hr' a s' hs,
         fun hnr => productive_enabled c hw hrk hn h0 s hr' hnr,
         fun as => descents_le c hn h0 as s hr',
         can_return c hw hrk hn h0 _ s hr' rfl⟩

/-- non-vacuity: with k = 1 and the first step finished, the waiting second step is launched -/
example : ((runActs demo1 (init demo1) (launch 0 ++ [.execEnd 0 true, .tail 0, .visitDecide 1])).map fun s => s.loop) =
    some (.launching 1) := by decide

end BdModel.P15

#print axioms BdModel.P15.C15_running
#print axioms BdModel.P15.C15
#print axioms BdModel.P15.C15_workers
#print axioms BdModel.P15.C15_never_blocks
#print axioms BdModel.P15.C15_completes
