import BdModel.Proofs.HistStamp
/-
  C06, FILE-NAME / TIMESTAMP layer. The record-layer theorems of Props/C06.lean ("latest = the most recently STARTED
  run", "recent n = the n most recently started, newest first") treat the start time as a number and the order of the
  files as the order of those numbers. Here: the names the store really builds (`newFile`, `Compact`), the regex it
  really uses to find the time in a name (`timestamp`), the comparator and cut of `filterLatest`, the day pattern of
  `latestToday` - and the proof that comparing the rendered strings IS comparing the start times, for every time from
  2000-01-01T00:00:00.000Z to 2999-12-31T23:59:59.999Z, every DAG path, every request id.
  Model: Hist/Stamp.lean (strings = `List Char`, order by code point = Go's bytewise order on valid UTF-8).
  Assumptions that stay: md5 collision-freeness (one directory per DAG file), byte order = code-point order of UTF-8,
  Go's `time.Format` prints the calendar date of the instant (differentially checked by the stream `lib/x_names.py`).
-/
namespace BdModel.P06Names
open BdModel.Hist.Stamp BdModel.Hist.Names

/-! ### 1. the rendered start time orders like the start time -/

/-- Go's `<` on the rendered stamps is "chronologically before", and rendering is injective: sorting by the string IS
    sorting by start time, to the millisecond (all valid civil times, no sampling). -/
theorem C06_render_order (a b : Civil) (ha : a.Valid) (hb : b.Valid) :
    (slt (render a) (render b) = true ↔ a.before b) ∧ (render a = render b ↔ a = b) :=
  ⟨by rw [render_lt a b ha hb]; simp, render_inj a b ha hb⟩

/-- "chronologically before" (lexicographic on year … millisecond) is the order of ONE number (what the record layer
    calls the start time) -/
theorem C06_render_order_key (a b : Civil) (ha : a.Valid) (hb : b.Valid) :
    (slt (render a) (render b) = true ↔ key a < key b) ∧ (key a = key b ↔ a = b) :=
  ⟨by rw [render_lt a b ha hb, ← before_iff_key a b ha hb]; simp,
   ⟨key_inj a b ha hb, fun h => by rw [h]⟩⟩

/-- … and of the instants themselves: for calendar-correct dates (leap years included) the string order is the order
    of the Unix millisecond counts -/
theorem C06_render_order_unix (a b : Civil) (ha : a.Real) (hb : b.Real) :
    slt (render a) (render b) = true ↔ unixMillis a < unixMillis b := by
  rw [render_lt a b ha.1 hb.1, unix_lt_iff a b ha hb]; simp

/-- every instant of the ten centuries HAS a calendar date, which `unixMillis` maps back: so for any two start
    instants m₁ m₂ (Unix ms, what `Open(dagFile, t, …)` is given), the stamps compare as the instants do -/
theorem C06_render_order_instants (m1 m2 : Nat)
    (h1 : 946684800000 ≤ m1 ∧ m1 < 32503680000000) (h2 : 946684800000 ≤ m2 ∧ m2 < 32503680000000) :
    (slt (render (ofUnixMillis m1)) (render (ofUnixMillis m2)) = true ↔ m1 < m2) ∧
    (render (ofUnixMillis m1) = render (ofUnixMillis m2) ↔ m1 = m2) := by
  obtain ⟨r1, e1⟩ := ofUnix_spec m1 h1.1 h1.2
  obtain ⟨r2, e2⟩ := ofUnix_spec m2 h2.1 h2.2
  refine ⟨by rw [C06_render_order_unix _ _ r1 r2, e1, e2], ?_⟩
  rw [render_inj _ _ r1.1 r2.1]
  constructor
  · intro h; rw [← e1, ← e2, h]
  · intro h; rw [h]

/-! ### 2. `timestamp(file)` finds the start time in the names the store builds -/

/-- `timestamp(newFile(dagFile, t, req))` (and of the compacted twin) is exactly the rendered start time, for every
    request id - PROVIDED the regex has no match inside `<prefixWithDirectory>.` -/
theorem C06_stamp_found (pre : List Char) (t : Civil) (req : List Char) (c : Bool)
    (hfree : StampFree pre) (ht : t.Valid) : timestamp (fileName pre t req c) = render t :=
  stamp_found pre t req c hfree ht

/-- the statement without the proviso -/
def C06_stamp_found_full : Prop :=
  ∀ (pre : List Char) (t : Civil) (req : List Char) (c : Bool), t.Valid → timestamp (fileName pre t req c) = render t

def wPre : List Char := ['x', '2', '0', '2', '4', '0', '1', '0', '1', 'a', '0', '0', ':', '0', '0', ':', '0', '0']
def wT : Civil := ⟨2031, 5, 6, 7, 8, 9, 10⟩

/-- it is needed: a DAG called `x20240101a00:00:00` steals the match (the unescaped dot accepts the `a`; the optional
    group even swallows `.203` of the real stamp). Known observation O2 / F3 of DESIGN.md, not a new finding. -/
theorem C06_stamp_found_full_refuted : ¬ C06_stamp_found_full := by
  intro h
  have := h wPre wT ['r'] false (by decide)
  revert this; decide

example : timestamp (fileName wPre wT ['r'] false) = ['2', '0', '2', '4', '0', '1', '0', '1', 'a', '0', '0', ':', '0', '0', ':', '0', '0', '.', '2', '0', '3'] := by decide
example : ¬ StampFree wPre := by decide

/-- ordinary names satisfy the proviso: a path without a colon cannot contain a match (the regex needs two), and a
    match that STARTS in `pre.` cannot borrow the colons of the real stamp (`no_straddle`) -/
theorem C06_stampfree_no_colon (pre : List Char) (h : ':' ∉ pre) : StampFree pre := stampFree_of_no_colon pre h

/-- `StampFree` says exactly "no position of `pre.` starts the mandatory part of the regex" -/
theorem C06_stampfree_iff (pre : List Char) :
    StampFree pre ↔ ∀ u v, pre ++ ['.'] = u ++ v → matchSeq coreCls v = false := findStamp_nil_iff _

example : StampFree ['d', 'a', 't', 'a', '/', 'm', 'y', ' ', 'd', 'a', 'g', '-', '0', 'f', '3', 'a', '/', 'm', 'y', ' ', 'd', 'a', 'g'] := by decide
example : StampFree ['d', '/', '2', '0', '2', '4', '-', '0', '1', '-', '0', '1', ' ', '1', '2', ':', '0', '0', '/', 'x', '2'] := by decide      -- digits and a colon, still no match
example : timestamp (fileName ['d', 'a', 't', 'a', '/', 'm', 'y', ' ', 'd', 'a', 'g', '-', '0', 'f', '3', 'a', '/', 'm', 'y', ' ', 'd', 'a', 'g'] wT ['0', '1', '2', '3', '4', '5', '6', '7', '8', '9', 'a', 'b'] true) = render wT := by decide

/-! ### 3. `filterLatest` -/

/-- the comparator is a strict total order on ALL strings (not only well-formed names): irreflexive, asymmetric,
    transitive, and any two different names are ordered -/
theorem C06_newer_strict_total :
    (∀ a, newer a a = false) ∧ (∀ a b, newer a b = true → newer b a = false) ∧
    (∀ a b c, newer a b = true → newer b c = true → newer a c = true) ∧
    (∀ a b, a ≠ b → newer a b = true ∨ newer b a = true) :=
  ⟨newer_irrefl, newer_asymm, newer_trans, newer_total⟩

/-- hence the answer is a function of the COLLECTION of names, independent of the order `filepath.Glob` returned
    them in … -/
theorem C06_filterLatest_set (l l' : List (List Char)) (n : Int) (h : l.Perm l') :
    filterLatest l n = filterLatest l' n := filterLatest_of_perm l l' n h

/-- … and of the sorting algorithm: ANY rearrangement of the names in which no name is strictly before an earlier one
    (what `sort.Slice` guarantees for a strict weak order) is the list the model computes -/
theorem C06_filterLatest_unique (l out : List (List Char)) (n : Int) (hp : out.Perm l)
    (hs : out.Pairwise (fun a b => newer b a = false)) :
    out.take (cut n l.length) = filterLatest l n := by
  unfold filterLatest
  rw [sorted_unique newer newer_trans newer_asymm newer_total l out hp hs]

/-- on two files of one DAG the comparator is: later start first; equal start times: greater rest-of-name first.
    For EVERY prefix, StampFree or not: a match stolen by the prefix is either the same string for both names (the
    comparator then falls back to the whole names, in which the real stamps sit at the same offset) or differs only in
    the first three digits of the year, which order like the names (`findStamp_stolen`). So since the tie-break by name
    was added (fix F29) observation O2 / F3 no longer affects the ORDER of a DAG's files, only `timestamp` itself. -/
theorem C06_newer_names (pre : List Char) (t1 t2 : Civil) (h1 : t1.Valid) (h2 : t2.Valid)
    (r1 r2 : List Char) (c1 c2 : Bool) :
    newer (fileName pre t1 r1 c1) (fileName pre t2 r2 c2) =
      if t1 = t2 then slt (tail r2 c2) (tail r1 c1) else decide (t2.before t1) :=
  newer_names_any pre t1 t2 h1 h2 r1 r2 c1 c2

/-- `filterLatest` on the files of one DAG (valid start times; ANY prefix): there is a rearrangement `rs` of the runs
    - newest start first; equal start times by the rest of the name, descending - whose first n names are the answer.
    I.e. the n names with the greatest start times, newest first (n < 0 or n > len: all). -/
theorem C06_filterLatest_sorted_any_prefix (pre : List Char) (runs : List Run)
    (hv : ∀ r ∈ runs, r.t.Valid) (n : Int) :
    ∃ rs : List Run, rs.Perm runs ∧
      rs.Pairwise (fun a b => key b.t < key a.t ∨ (a.t = b.t ∧ slt (tail a.req a.comp) (tail b.req b.comp) = false)) ∧
      filterLatest (runs.map (Run.name pre)) n = (rs.map (Run.name pre)).take (cut n runs.length) := by
  refine ⟨sortBy (runNewer pre) runs, sortBy_perm _ runs, ?_, filterLatest_runs pre runs n⟩
  have hs := sortRuns_sorted pre runs
  have hmem : ∀ r ∈ sortBy (runNewer pre) runs, r.t.Valid :=
    fun r hr => hv r ((sortBy_perm _ runs).subset hr)
  refine List.Pairwise.imp_of_mem ?_ hs
  intro a b ha hb h
  have va := hmem a ha
  have vb := hmem b hb
  unfold Run.name at h
  rw [newer_names_any pre b.t a.t vb va] at h
  by_cases e : b.t = a.t
  · right; simp only [e, if_true] at h; exact ⟨e.symm, h⟩
  · left
    simp only [e, if_false, decide_eq_false_iff_not] at h
    have n1 : ¬ key a.t < key b.t := fun x => h ((before_iff_key a.t b.t va vb).mpr x)
    have n2 : key a.t ≠ key b.t := fun x => e (key_inj a.t b.t va vb x).symm
    omega

/-- the statement as asked for (StampFree prefix): a special case -/
theorem C06_filterLatest_sorted (pre : List Char) (_hfree : StampFree pre) (runs : List Run)
    (hv : ∀ r ∈ runs, r.t.Valid) (n : Int) :
    ∃ rs : List Run, rs.Perm runs ∧
      rs.Pairwise (fun a b => key b.t < key a.t ∨ (a.t = b.t ∧ slt (tail a.req a.comp) (tail b.req b.comp) = false)) ∧
      filterLatest (runs.map (Run.name pre)) n = (rs.map (Run.name pre)).take (cut n runs.length) :=
  C06_filterLatest_sorted_any_prefix pre runs hv n

/-- equal start times (to the millisecond): the compacted `_c` file precedes its original (`_` > `.`); two different
    request ids are ordered by the rest of the name descending (an arbitrary but fixed order: the property leaves the
    order of equal start times open) -/
theorem C06_twin_first (pre : List Char) (t : Civil) (ht : t.Valid) (req : List Char) :
    newer (fileName pre t req true) (fileName pre t req false) = true := by
  rw [newer_names_any pre t t ht ht]; simp [twin_tail]

/-- comparing WHOLE names orders the files of one DAG exactly as `filterLatest`'s comparator does (the stamp sits at
    the same offset in all of them): a variant of `filterLatest` without the regex is indistinguishable on them -/
theorem C06_whole_name_order (pre : List Char) (t1 t2 : Civil) (h1 : t1.Valid) (h2 : t2.Valid)
    (r1 r2 : List Char) (c1 c2 : Bool) :
    newer (fileName pre t1 r1 c1) (fileName pre t2 r2 c2) = slt (fileName pre t2 r2 c2) (fileName pre t1 r1 c1) := by
  rw [fileName_shape, fileName_shape]; exact newer_any_prefix pre t1 t2 h1 h2 _ _

/-- the cut: `n < 0` or `n > len` means all -/
theorem C06_filterLatest_cut (l : List (List Char)) (n : Int) :
    (filterLatest l n).length = (if n < 0 ∨ (l.length : Int) < n then l.length else n.toNat) := by
  unfold filterLatest cut
  rw [List.length_take, (sortBy_perm newer l).length_eq]
  split
  · simp
  · rename_i h; have : n.toNat ≤ l.length := by omega
    omega

/-! ### 4. the day pattern of `latestToday` -/

/-- what `escapeGlob(prefix) + "." + YYYYMMDD + "*.*.dat"` selects, for EVERY path: the paths
    `prefix.YYYYMMDD<m₁>.<m₂>.dat` with separator-free m₁, m₂ -/
theorem C06_today_pattern (pre d8 name : List Char) (hd : ∀ c ∈ d8, isMeta c = false) :
    gmatch (todayPattern pre d8) name = true ↔
      ∃ m1 m2, name = pre ++ '.' :: d8 ++ m1 ++ '.' :: m2 ++ extDat ∧ sep ∉ m1 ∧ sep ∉ m2 :=
  today_iff pre d8 name hd

/-- a file of the SAME DAG is selected iff its start date is the day asked for (any prefix; the request id must not
    contain a path separator, else the file could not have been created under that name) -/
theorem C06_today_own (pre : List Char) (d t : Civil) (hd : d.Valid) (ht : t.Valid) (req : List Char) (c : Bool)
    (hr : sep ∉ req8 req) :
    gmatch (todayPattern pre (date8 d)) (fileName pre t req c) = true ↔
      (t.year = d.year ∧ t.month = d.month ∧ t.day = d.day) :=
  today_own pre d t hd ht req c hr

/-- the statement "no other DAG's file is ever selected", on strings alone -/
def C06_today_full : Prop :=
  ∀ (pre pre' : List Char) (d t : Civil) (req : List Char) (c : Bool), pre ≠ pre' → d.Valid → t.Valid →
    sep ∉ req8 req → gmatch (todayPattern pre (date8 d)) (fileName pre' t req c) = false

def wDay : Civil := ⟨2024, 1, 1, 0, 0, 0, 0⟩

/-- refuted on strings: in ONE directory the DAG `a.20240101x` would be taken for a run of `a` on 2024-01-01 -/
theorem C06_today_full_refuted : ¬ C06_today_full := by
  intro h
  have := h ['d', '/', 'a'] ['d', '/', 'a', '.', '2', '0', '2', '4', '0', '1', '0', '1', 'x'] wDay wT ['r'] false (by decide) (by decide) (by decide) (by decide)
  revert this; decide

/-- what holds (and what the code relies on): a file under ANOTHER directory is never selected. The store gives each
    DAG file its own directory `<data>/<name>-<md5(dagFile)>` (`prefixWithDirectory`), so two different DAG files
    have different directories unless md5 collides - collision-freeness of md5 stays an assumption. -/
theorem C06_today_partial (dir p dir' p' : List Char) (d t : Civil) (req : List Char) (c : Bool)
    (hp : sep ∉ p) (hp' : sep ∉ p') (hr : sep ∉ req8 req) (hne : dir ≠ dir') :
    gmatch (todayPattern (dir ++ sep :: p) (date8 d)) (fileName (dir' ++ sep :: p') t req c) = false :=
  today_other_dir dir p dir' p' (date8 d) t req c (date8_plain d)
    (fun h => by
      simp only [date8, pad4, pad2, List.cons_append, List.nil_append, List.mem_cons, List.not_mem_nil,
        or_false] at h
      rcases h with h | h | h | h | h | h | h | h <;> exact digit_ne_sep _ h.symm)
    hp hp' hr hne

/-- `latestToday` over a directory tree: the runs of this DAG started on day d, newest first; nothing else -/
theorem C06_today_latest (pre : List Char) (d : Civil) (hd : d.Valid) (runs : List Run) (others : List (List Char))
    (hv : ∀ r ∈ runs, r.t.Valid ∧ sep ∉ req8 r.req)
    (ho : ∀ o ∈ others, gmatch (todayPattern pre (date8 d)) o = false) :
    latestToday pre (date8 d) (runs.map (Run.name pre) ++ others) =
      filterLatest ((runs.filter (fun r => decide (r.t.year = d.year ∧ r.t.month = d.month ∧ r.t.day = d.day))).map
        (Run.name pre)) (-1) := by
  unfold latestToday
  congr 1
  rw [List.filter_append]
  have h2 : others.filter (gmatch (todayPattern pre (date8 d))) = [] := by
    rw [List.filter_eq_nil_iff]; intro o ho'; simp [ho o ho']
  rw [h2, List.append_nil, List.filter_map]
  congr 1
  apply List.filter_congr
  intro r hr
  obtain ⟨v, s⟩ := hv r hr
  have := today_own pre d r.t hd v r.req r.comp s
  simp only [Function.comp, Run.name]
  cases hg : gmatch (todayPattern pre (date8 d)) (fileName pre r.t r.req r.comp) with
  | true => symm; rw [decide_eq_true_iff]; exact this.mp hg
  | false =>
    symm; rw [decide_eq_false_iff_not]; intro x
    rw [this.mpr x] at hg; cases hg

/-! ### non-vacuity -/

def r1 : Run := ⟨⟨2024, 2, 29, 23, 59, 59, 999⟩, ['0', '1', '2', '3', '4', '5', '6', '7', '8', '9', 'a', 'b'], false⟩
def r2 : Run := ⟨⟨2024, 3, 1, 0, 0, 0, 0⟩, ['b', 'b'], true⟩
def r2o : Run := ⟨⟨2024, 3, 1, 0, 0, 0, 0⟩, ['b', 'b'], false⟩
def r3 : Run := ⟨⟨2024, 3, 1, 0, 0, 0, 1⟩, ['a'], false⟩
def pw : List Char := ['d', 'a', 't', 'a', '/', 'm', 'y', ' ', 'd', 'a', 'g', '-', '0', 'f', '3', 'a', '/', 'm', 'y', ' ', 'd', 'a', 'g']

example : r1.t.Real ∧ r2.t.Real ∧ r3.t.Real := by decide
example : render r1.t = ['2', '0', '2', '4', '0', '2', '2', '9', '.', '2', '3', ':', '5', '9', ':', '5', '9', '.', '9', '9', '9'] := by decide
example : fileName pw r2.t r2.req true = pw ++ ['.', '2', '0', '2', '4', '0', '3', '0', '1', '.', '0', '0', ':', '0', '0', ':', '0', '0', '.', '0', '0', '0', '.', 'b', 'b', '_', 'c', '.', 'd', 'a', 't'] := by decide
example : unixMillis r1.t + 1 = unixMillis r2.t := by decide
example : ofUnixMillis 1709251199999 = r1.t := by decide
example : filterLatest [r1.name pw, r2o.name pw, r3.name pw, r2.name pw] 3 = [r3.name pw, r2.name pw, r2o.name pw] := by
  decide
example : filterLatest [r2.name pw, r3.name pw, r2o.name pw, r1.name pw] (-1) =
    [r3.name pw, r2.name pw, r2o.name pw, r1.name pw] := by decide
example : latestToday pw (date8 r2.t) [r1.name pw, r2o.name pw, r3.name pw, ['z']] = [r3.name pw, r2o.name pw] := by
  decide
/-- under the look-alike prefix `timestamp` is wrong for every file, the order is still by start time -/
example : timestamp (r1.name wPre) = timestamp (r3.name wPre) := by decide
example : filterLatest [r1.name wPre, r2o.name wPre, r3.name wPre, r2.name wPre] (-1) =
    [r3.name wPre, r2.name wPre, r2o.name wPre, r1.name wPre] := by decide
example : latestToday ['d', '/', 'a'] (date8 wDay) [fileName ['d', '/', 'a', '.', '2', '0', '2', '4', '0', '1', '0', '1', 'x'] wT ['r'] false] ≠ [] := by decide

end BdModel.P06Names

#print axioms BdModel.P06Names.C06_render_order
#print axioms BdModel.P06Names.C06_render_order_key
#print axioms BdModel.P06Names.C06_render_order_unix
#print axioms BdModel.P06Names.C06_render_order_instants
#print axioms BdModel.P06Names.C06_stamp_found
#print axioms BdModel.P06Names.C06_stamp_found_full_refuted
#print axioms BdModel.P06Names.C06_stampfree_no_colon
#print axioms BdModel.P06Names.C06_stampfree_iff
#print axioms BdModel.P06Names.C06_newer_strict_total
#print axioms BdModel.P06Names.C06_filterLatest_set
#print axioms BdModel.P06Names.C06_filterLatest_unique
#print axioms BdModel.P06Names.C06_newer_names
#print axioms BdModel.P06Names.C06_filterLatest_sorted_any_prefix
#print axioms BdModel.P06Names.C06_filterLatest_sorted
#print axioms BdModel.P06Names.C06_twin_first
#print axioms BdModel.P06Names.C06_whole_name_order
#print axioms BdModel.P06Names.C06_filterLatest_cut
#print axioms BdModel.P06Names.C06_today_pattern
#print axioms BdModel.P06Names.C06_today_own
#print axioms BdModel.P06Names.C06_today_full_refuted
#print axioms BdModel.P06Names.C06_today_partial
#print axioms BdModel.P06Names.C06_today_latest
