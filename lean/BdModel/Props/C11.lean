import BdModel.Proofs.Params
/-
  C11 — parameters and step outputs reach the steps that use them, unchanged.

  Documented parameter syntax = `render` of a list of `Item`s (bare word, "quoted value", NAME=value,
  NAME="quoted value"; `\"` for a quote inside quotes), `Item.ok` = well-formed:
    word  : non-empty, no white space ([\t\n\f\r ]), no '"', does not begin with '`'
            (an unnamed bare word also has no '=')
    name  : non-empty, no white space, no '='
    quoted value : ANY characters, except that it cannot END with a backslash (not expressible:
            the syntax has no escape for '\', so `"…\"` reads as an escaped quote)
  The statements are about `parse` = parseParamValue without command substitution; '`…`' and '$VAR'
  inside values are substitution syntax of the evaluating load path, not literal values.
-/
namespace BdModel.P11
open BdModel.Params

/-! ## parameters: what the steps see -/

/-- **C11 (parameters, full).** Every well-formed parameter string is parsed to exactly the intended
    (name, value) list. -/
def param_exact_full : Prop :=
  ∀ is : List Item, (∀ i ∈ is, i.ok = true) → parse (render is) = intended is

/-- regression (F14a, fixed by e247fb2): `"x\""` is the value `x"` (it used to be read as `x\`). -/
theorem param_regression_F14a : parse (render [.quoted ['x', '"']]) = [([], ['x', '"'])] := by decide
/-- F14b: `"a=b"` is parsed to the NAMED parameter `"a` = `b` — the `name=` group matches inside the quotes. -/
theorem param_witness_F14b : parse (render [.quoted ['a', '=', 'b']]) = [(['"', 'a'], ['b'])] := by decide

/-- **refuted** on the code as it is (F14b). -/
theorem param_exact_full_refuted : ¬ param_exact_full := by
  intro h
  have := h [.quoted ['a', '=', 'b']] (by decide)
  rw [param_witness_F14b] at this
  revert this; decide

/-- **C11 (parameters, partial) — for ALL item lists.** Outside the one excluded class (`Item.safe`:
    an unnamed quoted value with '=' before its first white space, F14b) every
    well-formed parameter string is parsed to exactly the intended names and values — values with
    spaces, quotes, '=', newlines, any Unicode included. -/
theorem param_exact_partial (is : List Item) (hok : ∀ i ∈ is, i.ok = true) (hsafe : ∀ i ∈ is, i.safe = true) :
    parse (render is) = intended is :=
  parse_render is hok hsafe

/-- … hence `$1…$n` are the values (resp. `NAME=value`) in order, and `$NAME` the named values. -/
theorem param_seen_partial (is : List Item) (hok : ∀ i ∈ is, i.ok = true) (hsafe : ∀ i ∈ is, i.safe = true) :
    positional (render is) = (intended is).map stringify ∧
    named (render is) = (intended is).filter (fun pr => pr.1 ≠ []) := by
  simp [positional, dagParams, named, parse_render is hok hsafe]

/-! ## restart / retry: the recorded string is re-parsed -/

/-- **C11 (restart/retry re-use the parameters, full).** Re-parsing the recorded parameter string
    (model.Params of DAG.Params) gives the parameters of the run that is repeated — for EVERY string. -/
def roundtrip_full : Prop := ∀ p : Str, parse (recorded p) = parse p

/-- still refuted, by an input outside the documented syntax only: the bare word `a=` (a name with nothing
    after the '=') is the positional value `a=`; it is recorded as `a=""` and comes back as the named
    parameter `a` with an empty value (the text `a=` of a real `a=""` is indistinguishable from it). -/
theorem roundtrip_witness_bare_eq :
    parse ['a', '='] = [([], ['a', '='])] ∧ parse (recorded ['a', '=']) = [(['a'], [])] := by decide

theorem roundtrip_full_refuted : ¬ roundtrip_full := by
  intro h
  have := h ['a', '=']
  rw [roundtrip_witness_bare_eq.1, roundtrip_witness_bare_eq.2] at this
  revert this; decide

/-- F14c (open; same input shape as F14b): the unnamed quoted value `|=` is read correctly at start, but its
    recorded text `|=` is taken for NAME= by the recorder (`|=""`) and comes back as the named parameter `|`.
    `roundOk` excludes exactly this: an unnamed value recorded unquoted must hold no '='. -/
theorem roundtrip_witness_F14c :
    parse (render [.quoted ['|', '=']]) = [([], ['|', '='])] ∧
    parse (recorded (render [.quoted ['|', '=']])) = [(['|'], [])] ∧ roundOk ([], ['|', '=']) = false := by decide

/-- **C11 (restart/retry) — for EVERY list of parameters** (name, value) satisfying `roundOk` — name empty or
    well-formed; a value recorded quoted (empty, or white space / '"' inside) does not end with a backslash and,
    if unnamed, has no '=' before its first white space (F14b); a value recorded unquoted is one word — the
    recorded string re-parses to exactly that list. -/
theorem roundtrip_pairs (ps : List (Str × Str)) (h : ∀ pr ∈ ps, roundOk pr = true) :
    parse (join (ps.map stringify)) = ps :=
  parse_join_roundOk ps h

/-- … for every parameter string whose parsed parameters satisfy `roundOk`. -/
theorem roundtrip_partial (p : Str) (h : ∀ pr ∈ parse p, roundOk pr = true) : parse (recorded p) = parse p := by
  unfold recorded dagParams
  exact parse_join_roundOk (parse p) h

/-- … in terms of the documented syntax: a retry/restart of a run started with `render is` sees exactly the
    intended parameters — values with spaces, quotes, '=', empty values included. -/
theorem retry_params_partial (is : List Item) (hok : ∀ i ∈ is, i.ok = true) (hsafe : ∀ i ∈ is, i.safe = true)
    (hst : ∀ i ∈ is, roundOk i.intended = true) : parse (recorded (render is)) = intended is := by
  have hp := parse_render is hok hsafe
  rw [roundtrip_partial _ (by
    rw [hp]; intro pr hpr
    simp only [intended, List.mem_map] at hpr
    obtain ⟨i, hi, rfl⟩ := hpr
    exact hst i hi), hp]

/-- regression (F13, fixed by 0f8580b): `"a b"` is recorded as `"a b"` and comes back as ONE parameter;
    an empty value and a value with a quote survive as well. -/
theorem roundtrip_regression_F13 :
    recorded ['"', 'a', ' ', 'b', '"'] = ['"', 'a', ' ', 'b', '"'] ∧
    parse (recorded ['"', 'a', ' ', 'b', '"']) = [([], ['a', ' ', 'b'])] ∧
    parse (recorded ['N', '=', '"', '"', ' ', '"', 'x', '\\', '"', 'y', '"']) = [(['N'], []), ([], ['x', '"', 'y'])] := by decide

/-- the quotes the API client wraps around the parameter string are exactly the ones `start` removes;
    the string itself is unchanged when it holds no CR / LF. -/
theorem start_passes_params (p : Str) (h : ∀ c ∈ p, c ≠ '\r' ∧ c ≠ '\n') : viaStart p = p := by
  unfold viaStart
  rw [removeQuotes_wrap, escapeArg_id p h]

/-- **C11 (parameters typed after `start -p`, full).** `start` hands the given string to the loader. -/
def start_cli_full : Prop := ∀ p : Str, removeQuotes p = p

/-- F43: the single parameter `"a b"` typed as the `-p` argument loses its quotes and becomes two parameters. -/
theorem start_cli_witness :
    parse (removeQuotes (render [.quoted ['a', ' ', 'b']])) = [([], ['a']), ([], ['b'])] := by decide

theorem start_cli_full_refuted : ¬ start_cli_full := by
  intro h; have := h ['"', 'a', ' ', 'b', '"']; revert this; decide

/-- partial: a string that does not both begin and end with a double quote is handed on unchanged. -/
theorem start_cli_partial (p : Str) (h : p.head? ≠ some '"' ∨ p.getLast? ≠ some '"') : removeQuotes p = p := by
  cases p with
  | nil => rfl
  | cons c r =>
    simp only [removeQuotes]
    by_cases hc : r ≠ [] ∧ c = '"' ∧ r.getLast? = some '"'
    · obtain ⟨hr, hq, hl⟩ := hc
      rcases h with h | h
      · simp [hq] at h
      · rw [List.getLast?_cons_of_ne_nil hr] at h; exact absurd hl h
    · simp only [hc, if_false]

/-! ## captured output -/

/-- **C11 (capture).** The captured value is the printed text with all leading and trailing white space
    removed and nothing else changed: `out = pre ++ capture out ++ post`, `pre`/`post` white space only,
    and the value neither begins nor ends with white space. -/
theorem capture_trim (out : Str) : ∃ pre post, out = pre ++ capture out ++ post ∧
    pre.all goSpace = true ∧ post.all goSpace = true ∧
    (∀ c, (capture out).head? = some c → goSpace c = false) ∧
    (∀ c, (capture out).getLast? = some c → goSpace c = false) := by
  obtain ⟨pre, h1, h2, h3⟩ := dropWhile_spec out
  obtain ⟨post, h4, h5, h6⟩ := dropTrailSp_spec (out.dropWhile goSpace)
  refine ⟨pre, post, ?_, h2, h5, ?_, h6⟩
  · unfold capture trimSpace
    rw [List.append_assoc, ← h4, ← h1]
  · intro c hc
    unfold capture trimSpace at hc
    apply h3 c
    rw [h4]
    cases hd : dropTrailSp (List.dropWhile goSpace out) with
    | nil => rw [hd] at hc; simp at hc
    | cons d r => rw [hd] at hc; simpa using hc

/-- **C11 (capture, several executions).** Whatever earlier attempts of the producing step printed, the value is
    the trimmed stdout of its last execution. -/
theorem capture_last_attempt (earlier : List Str) (last : Str) : captureRun (earlier ++ [last]) = capture last := by
  simp [captureRun]

/-- **C11 (restore on retry).** The value handed back to the environment from the stored `NAME=value`
    is exactly the captured value — whatever it contains ('=' included). -/
theorem restore_exact (name out : Str) : restore name (stored name out) = capture out :=
  restore_stored name out

/-- **C11 (visibility).** After the producer finished, every process started later in the run — steps,
    handlers, and (the map being recorded and re-used) a retry — sees `$NAME` = the captured value,
    unless a later step captured into the same name. -/
theorem output_visible (m : OutMap) (d : Done) (later : List Done) (hn : d.name ≠ [])
    (hl : ∀ e ∈ later, e.name ≠ d.name) :
    seen (afterSteps m (d :: later)) d.name = some (capture d.out) := by
  unfold seen
  simp only [afterSteps, hn, if_false]
  rw [afterSteps_keeps later _ d.name (stored d.name d.out) (get_store_same _ _ _) hl]
  simp [restore_stored]

/-- **C11 (retry of a run that never wrote its final record).** Every record of a run carries the output map as it is
    when the record is written (agent.Status copies it into every node), i.e. the map after SOME prefix of the steps that
    finish after the producer; a retry reads the LAST WRITTEN record, which is the final one only if the agent lived to
    write it (it did not if it was killed).  Restoring from ANY record written after the producer finished — however
    many (`k`) of the later steps had finished by then — yields the captured value. -/
theorem output_visible_any_record (m : OutMap) (d : Done) (later : List Done) (k : Nat) (hn : d.name ≠ [])
    (hl : ∀ e ∈ later, e.name ≠ d.name) :
    seen (afterSteps m (d :: later.take k)) d.name = some (capture d.out) :=
  output_visible m d (later.take k) hn (fun e he => hl e (List.mem_of_mem_take he))

/-- **C11 (precedence).** A captured output wins over everything else that carries the same name — the agent's own
    environment, a named parameter, a DAG-level `env:` entry (step.Variables), an earlier output under that name: after
    the producer finished every later process sees the captured value, whatever `proc`, `vars`, `ctx` hold. -/
theorem output_precedence (proc vars ctx : EnvList) (m : OutMap) (d : Done) (later : List Done) (hn : d.name ≠ [])
    (hl : ∀ e ∈ later, e.name ≠ d.name) :
    childSees proc vars ctx (afterSteps m (d :: later)) d.name = some (capture d.out) := by
  unfold childSees
  rw [output_visible m d later hn hl]

/-- … and a name no step has captured is looked up in the rest, last entry first. -/
theorem no_output_falls_through (proc vars ctx : EnvList) (m : OutMap) (k : Str) (h : m.get k = none) :
    childSees proc vars ctx m k = lookupLast (proc ++ vars ++ ctx) k := by
  simp [childSees, seen, h]

/-- **C11 (the value arrives) — full statement, every size.** Whatever the capacity of the capture pipe and
    however much the step prints, the producing step ends (the pipe is drained while the command runs),
    and the stored value can be handed to every later process as long as `NAME=value` stays below the
    kernel's limit for one environment string (E2BIG) — the only hypothesis. -/
theorem output_arrives (cap : Nat) (name out : Str) (h : byteLen (stored name out) + 1 ≤ envLimit) :
    stepEnds cap (byteLen out) = true ∧ laterExecOk name out = true := by
  simp [stepEnds, drained, laterExecOk, h]

/-- regression (F15, fixed by 5e4d4e2): 65537 bytes through a 65536-byte pipe. -/
example : stepEnds 65536 65537 = true := by decide

/-! non-vacuity -/
def exItems : List Item :=
  [.bare ['x'], .quoted ['y', ' ', '"', 'z', '=', '1', '"'], .named ['K'] ['v', '=', 'w'], .namedQ ['K', '2'] ['a', '=', 'b', ' ', 'c']]
example : (∀ i ∈ exItems, i.ok = true) ∧ (∀ i ∈ exItems, i.safe = true) := by decide
example : parse (render exItems) = intended exItems := by decide
example : roundOk ([], ['a', ' ', '"']) = true ∧ roundOk (['K'], ['v', '=', 'w']) = true ∧ roundOk (['K'], []) = true := by decide
example : ∀ i ∈ exItems, roundOk i.intended = true := by decide
example : capture [' ', '\n', 'a', ' ', '=', 'b', '\t', '\n'] = ['a', ' ', '=', 'b'] := by decide

end BdModel.P11

#print axioms BdModel.P11.param_exact_full_refuted
#print axioms BdModel.P11.param_witness_F14b
#print axioms BdModel.P11.param_exact_partial
#print axioms BdModel.P11.param_seen_partial
#print axioms BdModel.P11.roundtrip_full_refuted
#print axioms BdModel.P11.roundtrip_witness_F14c
#print axioms BdModel.P11.roundtrip_pairs
#print axioms BdModel.P11.roundtrip_partial
#print axioms BdModel.P11.roundtrip_regression_F13
#print axioms BdModel.P11.retry_params_partial
#print axioms BdModel.P11.start_passes_params
#print axioms BdModel.P11.start_cli_full_refuted
#print axioms BdModel.P11.start_cli_partial
#print axioms BdModel.P11.capture_trim
#print axioms BdModel.P11.capture_last_attempt
#print axioms BdModel.P11.restore_exact
#print axioms BdModel.P11.output_visible
#print axioms BdModel.P11.output_visible_any_record
#print axioms BdModel.P11.output_precedence
#print axioms BdModel.P11.no_output_falls_through
#print axioms BdModel.P11.output_arrives
#print axioms BdModel.P11.param_regression_F14a
