import BdModel.Sched.AgentRun
import BdModel.Props.C04
/-
  C08 — reported status is truthful: live while running, final afterwards, never stuck.
  Quantification: every configuration, every state of the fine system (every interleaving, every
  outcome script) at which the agent may persist a status or answer the status socket.
-/
namespace BdModel.P08
open BdModel.Sched

/-- **C08 (a run cut short is never reported running or succeeded).** Whatever state the scheduler is
    in when the LAST status was persisted — any state at all in which `Schedule` has not returned, incl.
    the start-up write before it began — the status reported after the process has died is neither
    `running` nor `succeeded`: it is `failed`, `canceled`, or `not started`. -/
theorem C08_crash (c : Cfg) (started : Bool) (s : State) (h : s.loop ≠ .returned) :
    afterDeath (agentStatus c started s) ≠ .running ∧ afterDeath (agentStatus c started s) ≠ .success := by
  unfold agentStatus
  cases started
  · simp [afterDeath]
  · simp only [Bool.not_true, Bool.false_eq_true, if_false]
    have hl : (s.loop != .returned) = true := by simpa using h
    cases ho : reported c s <;> simp [afterDeath, hl]

/-- **C08 (live).** While the run is in progress (the scheduler has started and not returned) the
    reported overall status is never `succeeded` and never `not started`. -/
theorem C08_live (c : Cfg) (s : State) (h : s.loop ≠ .returned) :
    agentStatus c true s ≠ .success ∧ agentStatus c true s ≠ .none := by
  unfold agentStatus
  have hl : (s.loop != .returned) = true := by simpa using h
  cases ho : reported c s <;> simp [hl]

/-- **C08 (final).** Once `Schedule` has returned, what the agent persists (and what is reported from
    then on: `afterDeath` leaves it alone unless it is `running`) is the scheduler's own verdict
    (`reported` = the outcome recorded when the last step finished), whose truthfulness is C04's subject. -/
theorem C08_final (c : Cfg) (s : State) (h : s.loop = .returned) :
    agentStatus c true s = reported c s ∧
    (reported c s ≠ .running → afterDeath (agentStatus c true s) = reported c s) := by
  unfold agentStatus
  simp only [Bool.not_true, Bool.false_eq_true, if_false, h, bne_self_eq_false, Bool.and_false]
  refine ⟨trivial, fun hr => ?_⟩
  cases ho : reported c s <;> simp_all [afterDeath]

/-- the chain a → b of the pinned tree right after `a` finished: nothing running, no error -/
def chain : Cfg := { n := 2, node := fun i => if i = 1 then { deps := [0] } else {} }
def afterA : Option State := runActs chain (init chain)
  [.visitDecide 0, .visitLaunch 0 true, .setupDone 0 true, .check 0, .execStart 0, .execEnd 0 true, .tail 0]

/-- **refuted for the pinned tree (F7, fixed by 8e42043):** a status persisted between two steps read
    `succeeded`; a kill at that moment left the DAG reported as succeeded. -/
theorem C08_pinned_refuted :
    (afterA.map fun s => (afterDeath (agentStatusPinned chain true s), s.loop == .returned)) = some (.success, false) := by
  decide

example : (afterA.map fun s => afterDeath (agentStatus chain true s)) = some .error := by decide

end BdModel.P08

#print axioms BdModel.P08.C08_crash
#print axioms BdModel.P08.C08_live
#print axioms BdModel.P08.C08_final
#print axioms BdModel.P08.C08_pinned_refuted
