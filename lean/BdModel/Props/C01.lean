import BdModel.Proofs.Sched.Order
import BdModel.Sched.Tables
/-
  C01 — a step never starts before everything it depends on has finished.
  Property theorems only (helpers: BdModel/Proofs/Sched/Order*.lean).
  Quantification: every configuration `c` (any number of steps, any dependency lists, continueOn,
  retry limits, preconditions, maxActiveRuns) and every state reachable by ANY interleaving of the
  loop thread, the worker goroutines and the signal thread (`Reach c s`); per-attempt outcomes and
  precondition results are action parameters, so all outcome scripts are covered.
-/
namespace BdModel.P01
open BdModel.Sched

/-- **C01 (gate).** Whenever a worker of step `i` is about to start its command (`starting`), is
    running it (`exec`), or is anywhere between launch and its last attempt, every step named in
    `depends` is licensed (finished, or failed/skipped with the matching continueOn) and settled
    (no worker of it can start a command any more). -/
theorem C01 (c : Cfg) (hw : WF c) (hn : NoRep c) (hf : c.tdFaults = false)
    (s : State) (hr : Reach c s) (i : Nat) (hi : i < c.n)
    (hp : (s.nd i).pc = .starting ∨ (s.nd i).pc = .exec) :
    ∀ d ∈ (c.node i).deps, Licensed c s d ∧ Settled s d := by
  apply deps_done c hw hn hf s hr i hi
  left
  rcases hp with h | h <;> simp [h, PC.active]

/-- **C01 (finished for good).** A licensed and settled dependency stays licensed and settled in
    every later state and its command is never started again: "finished its last attempt". -/
theorem C01_last_attempt (c : Cfg) (hn : NoRep c) (hf : c.tdFaults = false)
    (s s' : State) (hr : Reach c s) (a : Act) (hs : step c s a = some s') (d : Nat)
    (h : Licensed c s d ∧ Settled s d) :
    Licensed c s' d ∧ Settled s' d ∧ (s'.nd d).execs = (s.nd d).execs :=
  done_stable c hn hf s s' hr a hs d h

/-- the gate also covers the whole life of the worker, incl. retry sleeps and the launch decision -/
theorem C01_worker (c : Cfg) (hw : WF c) (hn : NoRep c) (hf : c.tdFaults = false)
    (s : State) (hr : Reach c s) (i : Nat) (hi : i < c.n)
    (hp : (s.nd i).pc.active = true ∨ s.loop = .launching i) :
    ∀ d ∈ (c.node i).deps, Licensed c s d ∧ Settled s d :=
  deps_done c hw hn hf s hr i hi hp

/-- the readiness decision the model uses is the one extracted from `isReady` (scheduler.go) -/
theorem C01_gate_is_source (st : NStatus) (cf cs : Bool) :
    readyEffectOf Canon.Sched.isReadyTable st cf cs = some (readyEffect st cf cs) :=
  readyEffectOf_canon st cf cs

/-! non-vacuity: a diamond 0 → {1,2} → 3 in which 1 fails once and is retried; step 3 reaches
    `starting` only after both parents are finished -/
def demoCfg : Cfg :=
  { n := 4, node := fun i => match i with
      | 1 => { deps := [0], limit := 1 } | 2 => { deps := [0] } | 3 => { deps := [1, 2] } | _ => {} }

def demoActs : List Act :=
  [.visitDecide 0, .visitLaunch 0 true, .setupDone 0 true, .check 0, .execStart 0, .execEnd 0 true, .tail 0,
   .visitDecide 1, .visitLaunch 1 true, .visitDecide 2, .visitLaunch 2 true,
   .setupDone 1 true, .check 1, .execStart 1, .execEnd 1 false, .retryWake 1,
   .setupDone 2 true, .check 2, .execStart 2, .execEnd 2 true, .tail 2,
   .visitDecide 3,                                        -- not ready: 1 is `none` again
   .visitDecide 1, .visitLaunch 1 true, .setupDone 1 true, .check 1, .execStart 1, .execEnd 1 true, .tail 1,
   .visitDecide 3, .visitLaunch 3 true, .setupDone 3 true, .check 3]

example : ((runActs demoCfg (init demoCfg) demoActs).map fun s =>
    ((s.nd 3).pc, (s.nd 1).status, (s.nd 2).status, (s.nd 1).execs)) = some (.starting, .success, .success, 2) := by
  decide

end BdModel.P01

#print axioms BdModel.P01.C01
#print axioms BdModel.P01.C01_last_attempt
#print axioms BdModel.P01.C01_worker
#print axioms BdModel.P01.C01_gate_is_source
