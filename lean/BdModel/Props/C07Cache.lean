import BdModel.Proofs.HistCache
/-
  C06 / C07 — the history store's READ CACHE (internal/persistence/filecache, used by
  `ReadStatusRecent` / `ReadStatusToday` through `cache.LoadLatest(file, loader)`) never hides a
  recorded status: "the latest / recent queries return the LAST status recorded" (C06) and "the
  interrupted run is returned with a status no older than the last one whose write had been
  acknowledged" (C07) also hold for a long-lived reader that has answered earlier queries.

  Property theorems only (model: Hist/Cache.lean, helpers: Proofs/HistCache.lean). Quantification:
  EVERY operation list from the empty state (creates, appends of any size ≥ 1 byte that move the
  mtime by any number of seconds INCLUDING 0, unlinks, invalidations, evictions, loads with appends or
  an unlink landing between their stat, read and store), under `Admissible`: no name is created
  twice. Files only grow while they exist under one name — that is how `append` is defined (the
  writer's O_APPEND tie, C06/C07), not a further hypothesis.
-/
namespace BdModel.P07Cache
open BdModel.Hist.Cache

/-- **Coherent** is an invariant: in every state an admissible history reaches, every cached entry of
    an existing file was taken from a version not longer than the present one (`entry.size ≤ file.size`),
    the file holds a status, and equal sizes mean equal data. -/
theorem C07_cache_coherent (ops : List Op) (hadm : Admissible ops) :
    ∀ f e fi, (exec init ops).cache f = some e → (exec init ops).files f = some fi →
      e.size ≤ fi.size ∧ 0 < fi.size ∧ (e.size = fi.size → e.data = fi.data) :=
  coherent_reachable ops hadm

/-- **C07 (a query with no concurrent write returns the current status), total form.** After ANY
    admissible history, a `LoadLatest` with no concurrent write answers `quietAnswer` of the file as it
    is: a stat error for a name that does not exist (a removed run is NOT answered from the cache), EOF
    for a file without a status, and otherwise exactly the file's current last status. No hypothesis on
    mtimes or sizes: appends in the same second, equal line lengths, empty files with any mtime
    (since fix F46 also the epoch), evictions at any point are all covered. -/
theorem C07_cache_current_full (ops : List Op) (hadm : Admissible ops) (f : Nat) :
    (step (exec init ops) (.load f [] [])).2 = quietAnswer ((exec init ops).files f) :=
  quiet_load (exec init ops) (coherent_reachable ops hadm) f

/-- … in particular the status whose write was acknowledged before the query began. (This is the
    clause the two seeded bugs broke.) -/
theorem C07_cache_current (ops : List Op) (hadm : Admissible ops) (f : Nat) (fi : File)
    (hfile : (exec init ops).files f = some fi) (hne : 0 < fi.size) :
    (step (exec init ops) (.load f [] [])).2 = .data fi.data := by
  rw [C07_cache_current_full ops hadm f, hfile]
  simp only [quietAnswer, readOut]
  rw [if_neg (by omega)]

/-- **C07 (a query never panics).** In ANY state (reachable or not), whatever lands in between, the
    real `LoadLatest` — and every other operation — answers with a status or an error. -/
theorem C07_cache_never_panics (s : State) (op : Op) : (step s op).2 ≠ .panic := by
  cases op with
  | load f pre post => exact load_no_panic s f pre post false
  | loadRm f pre => exact load_no_panic s f pre [] true
  | append f w => simp only [step, stepV]; split <;> simp
  | create f w => simp [step, stepV]
  | remove f => simp [step, stepV]
  | invalidate f => simp [step, stepV]
  | evict f => simp [step, stepV]

/-- REGRESSION (finding F46, fixed by 99b4ced): before the fix a file that was still empty (the run
    was opened, nothing written) with mtime = epoch and no entry made the query panic — the zero
    `Entry[T]{}` is "not stale" against it and `item.(Entry[T])` was applied to the nil map item. The
    code as it is now answers EOF. -/
example : (runWith stepPreF46 init [.create 0 ⟨0, 0, 0⟩, .load 0 [] []]).2 = [.ok, .panic] := by decide
example : (run init [.create 0 ⟨0, 0, 0⟩, .load 0 [] []]).2 = [.ok, .errEmpty] := by decide
example : (run init [.create 0 ⟨0, 0, 0⟩, .load 0 [] [], .append 0 ⟨3, 0, 7⟩, .load 0 [] [], .load 0 [] []]).2 =
    [.ok, .errEmpty, .ok, .data 7, .data 7] := by decide

/-- **C07 (a query overlapped by appends returns a version of its own time span, never an older
    one).** `fi` = the file at the query's stat; `pre` = the appends landing between stat and read,
    `post` = those between read and store. Either the loader ran: the answer is what the file held
    after exactly `pre` (the version at the read), and the file ends as `fi` after `pre ++ post`;
    or the entry was used: then it IS the status the file held at the stat, and nothing else
    happened. -/
theorem C07_cache_linearizable (ops : List Op) (hadm : Admissible ops) (f : Nat) (fi : File)
    (hfile : (exec init ops).files f = some fi) (pre post : List Write) :
    ((step (exec init ops) (.load f pre post)).2 = readOut (applyWrites fi pre) ∧
      (step (exec init ops) (.load f pre post)).1.files f = some (applyWrites fi (pre ++ post)))
    ∨ ((step (exec init ops) (.load f pre post)).2 = .data fi.data ∧ 0 < fi.size ∧
        (step (exec init ops) (.load f pre post)).1 = exec init ops) :=
  load_linearizable (exec init ops) (coherent_reachable ops hadm) f fi hfile pre post

/-- corollary in "one of the versions" form: the answer is what `ParseFile` yields on the file after
    the first `k` of the appends that preceded the read, for some `k` — a version that existed between
    the query's stat and its store; versions older than the stat are excluded. -/
theorem C07_cache_linearizable_versions (ops : List Op) (hadm : Admissible ops) (f : Nat) (fi : File)
    (hfile : (exec init ops).files f = some fi) (pre post : List Write) :
    ∃ k, k ≤ pre.length ∧ (step (exec init ops) (.load f pre post)).2 = readOut (applyWrites fi (pre.take k)) := by
  rcases C07_cache_linearizable ops hadm f fi hfile pre post with ⟨h, _⟩ | ⟨h, hpos, _⟩
  · exact ⟨pre.length, Nat.le_refl _, by rw [List.take_length]; exact h⟩
  · refine ⟨0, Nat.zero_le _, ?_⟩
    rw [h, List.take_zero, applyWrites_nil]
    simp only [readOut]
    rw [if_neg (by omega)]

/-- **C07 (no stale view can persist), total form.** After ANY admissible history `ops`, once writers
    are quiet, however many queries / invalidations / evictions `qs` follow, a query answers
    `quietAnswer` of the file as the writers left it: the first query and every later one. -/
theorem C07_cache_no_stale_persist_full (ops qs : List Op) (hadm : Admissible ops) (hq : ∀ q ∈ qs, q.quiet = true)
    (f : Nat) :
    (step (exec init (ops ++ qs)) (.load f [] [])).2 = quietAnswer ((exec init ops).files f) := by
  have hadm' : Admissible (ops ++ qs) := by
    unfold Admissible at *
    rw [created_append, created_quiet qs hq, List.append_nil]
    exact hadm
  have hfiles : (exec init (ops ++ qs)).files = (exec init ops).files := by
    rw [exec_append, exec_quiet_files qs _ hq]
  rw [C07_cache_current_full (ops ++ qs) hadm' f, hfiles]

/-- … in particular a file that holds a status is answered with that status -/
theorem C07_cache_no_stale_persist (ops qs : List Op) (hadm : Admissible ops) (hq : ∀ q ∈ qs, q.quiet = true)
    (f : Nat) (fi : File) (hfile : (exec init ops).files f = some fi) (hne : 0 < fi.size) :
    (step (exec init (ops ++ qs)) (.load f [] [])).2 = .data fi.data := by
  rw [C07_cache_no_stale_persist_full ops qs hadm hq f, hfile]
  simp only [quietAnswer, readOut]
  rw [if_neg (by omega)]

/-- **C07 (a query fails iff there is nothing to return).** In every reachable state a load (with
    appends landing in between) returns an error iff the name does not exist at the stat or the file
    holds no status at the read; the stat error is returned iff the name does not exist; and a failed
    load stores nothing. -/
theorem C07_cache_error_iff_absent (ops : List Op) (hadm : Admissible ops) (f : Nat) (pre post : List Write) :
    ((step (exec init ops) (.load f pre post)).2.isErr = true ↔
      ((exec init ops).files f = none ∨ ∃ fi, (exec init ops).files f = some fi ∧ (applyWrites fi pre).size = 0)) ∧
    ((step (exec init ops) (.load f pre post)).2 = .errStat ↔ (exec init ops).files f = none) ∧
    ((step (exec init ops) (.load f pre post)).2.isErr = true →
      (step (exec init ops) (.load f pre post)).1.cache = (exec init ops).cache) := by
  refine ⟨?_, ?_, fun h => load_err_cache _ f pre post false h⟩
  · cases hfile : (exec init ops).files f with
    | none => simp [step, stepV, loadV, hfile, Out.isErr]
    | some fi =>
      have hle := applyWrites_size_le fi pre
      rcases load_linearizable _ (coherent_reachable ops hadm) f fi hfile pre post with ⟨h, _⟩ | ⟨h, hpos, _⟩
      · rw [h]
        by_cases hz : (applyWrites fi pre).size = 0 <;> simp [readOut, hz, Out.isErr]
      · rw [h]
        have : (applyWrites fi pre).size ≠ 0 := by omega
        simp [Out.isErr, this]
  · cases hfile : (exec init ops).files f with
    | none => simp [step, stepV, loadV, hfile]
    | some fi =>
      rcases load_linearizable _ (coherent_reachable ops hadm) f fi hfile pre post with ⟨h, _⟩ | ⟨h, _, _⟩
      · rw [h]
        by_cases hz : (applyWrites fi pre).size = 0 <;> simp [readOut, hz]
      · rw [h]; simp

/-- the file is unlinked between the stat and the read (retention / compaction running next to the
    query): in ANY state, the load fails iff the name did not exist at the stat, or the loader was
    needed (no entry, or a stale one: then its open fails); a failed load stores nothing. -/
theorem C07_cache_error_iff_absent_rm (s : State) (f : Nat) (pre : List Write) :
    ((step s (.loadRm f pre)).2.isErr = true ↔
      (s.files f = none ∨ s.cache f = none ∨
        ∃ fi e, s.files f = some fi ∧ s.cache f = some e ∧ isStale e fi = true)) ∧
    ((step s (.loadRm f pre)).2.isErr = true → (step s (.loadRm f pre)).1.cache = s.cache) := by
  refine ⟨?_, fun h => load_err_cache s f pre [] true h⟩
  simp only [step, stepV, loadV, isStale]
  cases hfile : s.files f with
  | none => simp [Out.isErr]
  | some fi =>
    cases hce : s.cache f with
    | none => simp [Out.isErr]
    | some e =>
      by_cases hst : isStaleV .real e fi = true
      · simp [hst, Out.isErr]
      · have hst' : isStaleV .real e fi = false := by simpa using hst
        simp [hst', Out.isErr]

/-! ### REFUTATION WITNESSES: the theorems are sensitive to exactly these edits of the code -/

/-- mutant (a): `Store` uses a stat taken AFTER the loader returned. One append lands between the read
    and the store (here even in the same second and 1 byte long; any append does): the entry pairs the
    OLD status with the NEW size/mtime, and the next quiet query returns the old status 1 although the
    file's last status is 2. The real code answers 2. -/
def witnessA : List Op := [.create 0 ⟨1, 100, 1⟩, .load 0 [] [⟨0, 0, 2⟩], .load 0 [] []]

example : Admissible witnessA := by decide
example : (runWith stepMutA init witnessA).2 = [.ok, .data 1, .data 1] ∧
    ((runWith stepMutA init witnessA).1.files 0).map (·.data) = some 2 := by decide
example : (runWith stepMutA init [.create 0 ⟨1, 100, 1⟩, .load 0 [] [⟨7, 3, 2⟩], .load 0 [] [], .load 0 [] []]).2 =
    [.ok, .data 1, .data 1, .data 1] := by decide
example : (run init witnessA).2 = [.ok, .data 1, .data 2] := by decide

/-- mutant (b): `IsStale` compares only the mtime. An append in the SAME second (`ModTime().Unix()` has
    one-second resolution) after a query leaves the entry "fresh": the next quiet query returns the old
    status 1, the file's last status is 2. The real code (size comparison) answers 2. -/
def witnessB : List Op := [.create 0 ⟨1, 100, 1⟩, .load 0 [] [], .append 0 ⟨0, 0, 2⟩, .load 0 [] []]

example : Admissible witnessB := by decide
example : (runWith stepMutB init witnessB).2 = [.ok, .data 1, .ok, .data 1] ∧
    ((runWith stepMutB init witnessB).1.files 0).map (·.data) = some 2 := by decide
example : (run init witnessB).2 = [.ok, .data 1, .ok, .data 2] := by decide

/-- the admissibility hypothesis is needed: a name re-created (after an unlink) with a file of the same
    length in the same second is answered from the old entry (real code!). jsondb never does this: a
    history file's name carries the run's start time in ms and its request id. -/
def witnessRecreate : List Op := [.create 0 ⟨1, 100, 1⟩, .load 0 [] [], .remove 0, .create 0 ⟨1, 100, 2⟩, .load 0 [] []]

example : ¬ Admissible witnessRecreate := by decide
example : (run init witnessRecreate).2 = [.ok, .data 1, .ok, .ok, .data 1] := by decide

/-! ### non-vacuity: a non-trivial reachable state meets every hypothesis -/

/-- two files; file 0: a query overlapped by an append before the read (same second) and one after it,
    then a same-second append; file 1: queried, evicted, appended, its name unlinked at the end -/
def demo : List Op :=
  [.create 0 ⟨0, 100, 0⟩, .append 0 ⟨3, 0, 1⟩, .create 1 ⟨5, 100, 10⟩, .load 1 [] [],
   .load 0 [⟨3, 0, 2⟩] [⟨3, 1, 3⟩], .append 0 ⟨3, 0, 4⟩, .evict 1, .append 1 ⟨0, 0, 11⟩, .load 1 [] [], .remove 1]

example : Admissible demo := by decide
example : (run init demo).2 = [.ok, .ok, .ok, .data 10, .data 2, .ok, .ok, .ok, .data 11, .ok] := by decide
/-- the state holds a STALE entry for file 0 (data 2, size 4) next to the file (data 4, size 16) … -/
example : (exec init demo).cache 0 = some ⟨2, 4, 100⟩ ∧ (exec init demo).files 0 = some ⟨16, 101, 4⟩ ∧
    (exec init demo).cache 1 = some ⟨11, 6, 100⟩ ∧ (exec init demo).files 1 = none := by decide
/-- … and the quiet queries answer the current status / the stat error, as the theorems say -/
example : (run (exec init demo) [.load 0 [] [], .load 0 [] [], .load 1 [] []]).2 = [.data 4, .data 4, .errStat] := by decide

end BdModel.P07Cache

#print axioms BdModel.P07Cache.C07_cache_coherent
#print axioms BdModel.P07Cache.C07_cache_current_full
#print axioms BdModel.P07Cache.C07_cache_current
#print axioms BdModel.P07Cache.C07_cache_never_panics
#print axioms BdModel.P07Cache.C07_cache_linearizable
#print axioms BdModel.P07Cache.C07_cache_linearizable_versions
#print axioms BdModel.P07Cache.C07_cache_no_stale_persist_full
#print axioms BdModel.P07Cache.C07_cache_no_stale_persist
#print axioms BdModel.P07Cache.C07_cache_error_iff_absent
#print axioms BdModel.P07Cache.C07_cache_error_iff_absent_rm
