import BdModel.Proofs.LoadEffects
import BdModel.Proofs.LoadDisplay
/-
  C19 — listing, viewing and validating a DAG has no side effects.
  `reach T entry field` interprets the effect-site table extracted from builder.go / parser.go / loader.go
  (tie: Extracted.Load.{effectSites,callEdges,builderFields,entryOpts} = Canon.Load.…); the statements are
  about the canonical table (the tree after 37ddbbb and e8e8d59) and quantify over EVERY definition field
  name (any string).
-/
namespace BdModel.P19
open BdModel.Load.Effects BdModel.Load.Display

/-- **C19 (full strength).** Through a non-evaluating entry point (LoadYAML — validation on save,
    LoadMetadata — listing / scheduler daemon, LoadWithoutEval — display) no definition field reaches a
    command execution or an `os.Setenv`: a `decide` over the complete table for the fields some builder step
    reads, `reach_exhaustive` for every other field name. -/
theorem C19_full : ∀ e ∈ nonEvaluatingEntries, ∀ f : String, reach canon e f = [] := by
  intro e he f
  by_cases hf : f ∈ mentioned canon
  · have hall : ∀ e ∈ nonEvaluatingEntries, ∀ f ∈ mentioned canon, expected e f = [] := by decide +kernel
    have he' : e ∈ allEntries := by
      have : ∀ e ∈ nonEvaluatingEntries, e ∈ allEntries := by decide
      exact this e he
    rw [reach_matrix e he' f hf]
    exact hall e he f hf
  · exact reach_exhaustive canon e f hf

/-- **only starting / dry-running evaluates**: `Load` does reach a command execution and a Setenv through
    `env`, the command substitution through `logDir`, the exports and the back-tick execution through
    `params` (positive control: the table is not empty and the guards are what separates the entry points). -/
theorem C19_load_evaluates :
    (⟨"substituteCommands", "exec.Command", "0"⟩ : Effect) ∈ reach canon "Load" "Env" ∧
    (⟨"loadVariables", "os.Setenv", "0"⟩ : Effect) ∈ reach canon "Load" "Env" ∧
    (⟨"substituteCommands", "exec.Command", "0"⟩ : Effect) ∈ reach canon "Load" "LogDir" ∧
    (⟨"parseParams", "os.Setenv", "0"⟩ : Effect) ∈ reach canon "Load" "Params" ∧
    (⟨"parseParamValue", "exec.Command", "0"⟩ : Effect) ∈ reach canon "Load" "Params" := by
  rw [reach_matrix "Load" (by decide) "Env" (by decide +kernel), reach_matrix "Load" (by decide) "Params" (by decide +kernel),
      reach_matrix "Load" (by decide) "LogDir" (by decide +kernel)]
  decide

/-- **no guard is redundant.** The model abstracts the value of a field away, so a guard weakened for some
    value shapes only (seeded mutant C19-3: `if quoted || isBacktick && eval` in parseParamValue) arrives in the
    table as a site / call edge without its `noEval` requirement. For EVERY guarded effect site and EVERY guarded
    call edge of the canonical table, dropping that single requirement lets a non-evaluating entry point reach
    an effect — such a change can never leave `C19_full` provable (the tie breaks, and re-adopting the table
    refutes the theorem). The canonical table itself does not leak. -/
theorem C19_guards_needed :
    leaks canon = false ∧
    (∀ i ∈ List.range canon.sites.length,
      (isEffectRow (canon.sites.getD i []) && col (canon.sites.getD i []) 4 == "F") = true → leaks (unguardSite canon i) = true) ∧
    (∀ i ∈ List.range canon.edges.length,
      (col (canon.edges.getD i []) 2 == "F") = true → leaks (unguardEdge canon i) = true) :=
  ⟨canon_does_not_leak, every_site_guard_needed, every_edge_guard_needed⟩

/-- **`call:` steps are covered.** The command line of a step or handler that calls a function is assembled by
    `parseFuncCall`; that function lies on the call path of the builder steps reading `Steps`, `HandlerOn` and
    `Functions` under the validating / displaying entry points, and has no effect site in the canonical table —
    which is what `C19_full` says for those three fields. An exec site there (seeded mutant C19-4:
    `util.SplitCommandWithParse`) would be reached from LoadYAML and LoadWithoutEval through all three fields. -/
theorem C19_call_steps :
    (∀ e ∈ nonEvaluatingEntries, ∀ f ∈ ["Steps", "HandlerOn", "Functions"], reach canon e f = []) ∧
    (∀ e ∈ ["LoadYAML", "LoadWithoutEval"], ∀ f ∈ ["Steps", "HandlerOn", "Functions"],
      (⟨"parseFuncCall", "util.SplitCommandWithParse", "0"⟩ : Effect) ∈ reach (addSite canon callSite) e f) :=
  ⟨fun e he f _ => C19_full e he f, call_site_would_leak.1⟩

/-- **C19 on the display path.** A definition is shown, listed, searched, validated on save, suspended, renamed,
    deleted through the API handlers and the client calls of `displayEntries` (all of them functions of the extracted
    table). From none of them is an exec / setenv site of the display files (client.go, model/node.go, model/status.go —
    the placeholder status `NewStatusDefault → NewStatus → FromSteps / nodeOrNil → NewNode` —, the local stores, the
    handlers and converters) reachable, and every loader function they enter is a non-evaluating one — through which,
    by `C19_full`, no definition field reaches an effect. The display does enter the loader and does build
    placeholder nodes (`display_enters_loader`), so the statement is about connected code. -/
theorem C19_display :
    (∀ e ∈ displayEntries, isFunc canonD e = true) ∧
    (∀ e ∈ displayEntries, effectsFrom canonD e = [] ∧
      ∀ l ∈ loadersFrom canonD e, l ∈ nonEvaluatingEntries ∧ ∀ f : String, reach canon l f = []) ∧
    "LoadWithoutEval" ∈ loadersFrom canonD "client.GetStatus" ∧ "model.NewNode" ∈ fnsFrom canonD "client.GetStatus" :=
  ⟨fun e he => entries_exist e (List.mem_append_left _ he),
   fun e he => ⟨display_no_effects e he, fun l hl =>
     ⟨display_loaders_non_evaluating e he l hl, fun f => C19_full l (display_loaders_non_evaluating e he l hl) f⟩⟩,
   display_enters_loader.1, display_enters_loader.2.2.2.2.1⟩

/-- **only starting executes, on the display side too; and the table sees the display mutant.** Start / restart / retry
    reach the client's `exec.Command`. With the call edge `NewNode → splitQuotedArgs` and the site
    `splitQuotedArgs / util.SplitCommandWithParse` of seeded mutant C19-5 in the table, every entry whose answer contains a
    placeholder status (the DAG page, the list, delete, the status calls of the client) reaches that exec site: such a
    change is a TABLE difference (tie `displaySites` / `displayEdges` breaks; re-adopting the table refutes `C19_display`). -/
theorem C19_display_sensitive :
    (∀ e ∈ startEntries, (⟨"client.Start", "exec.Command", "0"⟩ : Effect) ∈ effectsFrom canonD e) ∧
    (∀ e ∈ placeholderEntries,
      (⟨"model.splitQuotedArgs", "util.SplitCommandWithParse", "0"⟩ : Effect) ∈ effectsFrom seedC19_5 e) :=
  ⟨start_reaches_exec, seed_leaks⟩

/-- the option sets of the entry points, as read from loader.go -/
example : optsOf canon "LoadYAML" = some ⟨true, false⟩ ∧ optsOf canon "LoadMetadata" = some ⟨true, true⟩ ∧
    optsOf canon "LoadWithoutEval" = some ⟨true, false⟩ ∧ optsOf canon "Load" = some ⟨false, false⟩ := by decide +kernel

end BdModel.P19

#print axioms BdModel.P19.C19_full
#print axioms BdModel.P19.C19_load_evaluates
#print axioms BdModel.P19.C19_guards_needed
#print axioms BdModel.P19.C19_call_steps
#print axioms BdModel.P19.C19_display
#print axioms BdModel.P19.C19_display_sensitive
