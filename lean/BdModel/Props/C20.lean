import BdModel.Proofs.Api
/-
  C20 — control actions through the API respect the state of the run.
  `Api.post` transcribes handler.postAction (model: BdModel/Api/Actions.lean).  Every statement is
  for ALL worlds (any DAGs, any histories, any live runs), all DAG ids and all request bodies.
-/
namespace BdModel.P20
open BdModel.Api

def isEdit (a : Action) : Prop := a = .markSuccess ∨ a = .markFailed
def editTarget : Action → Nat
  | .markFailed => 2
  | _ => 4

/-- **start is refused while the DAG is running** (4xx, nothing changes, nothing is spawned). -/
theorem start_refused_when_running (w : World) (d : Nat) (b : Body)
    (hl : (w.live d).isSome = true) (ha : b.action = some .start) :
    400 ≤ (post w d b).2.code ∧ (post w d b).1 = w := by
  unfold post
  simp only [ha]
  split
  · exact ⟨by simp [bad], rfl⟩
  · split
    · exact ⟨by simp [bad], rfl⟩
    · simp_all [bad]

/-- **stop is refused when the DAG is not running.** -/
theorem stop_refused_when_not_running (w : World) (d : Nat) (b : Body)
    (hl : w.live d = none) (ha : b.action = some .stop) :
    400 ≤ (post w d b).2.code ∧ (post w d b).1 = w := by
  unfold post
  simp only [ha]
  split
  · exact ⟨by simp [bad], rfl⟩
  · split
    · exact ⟨by simp [bad], rfl⟩
    · simp_all [bad]

/-- **status edits are refused while the DAG is running.** -/
theorem edit_refused_when_running (w : World) (d : Nat) (b : Body) (a : Action)
    (hl : (w.live d).isSome = true) (ha : b.action = some a) (he : isEdit a) :
    400 ≤ (post w d b).2.code ∧ (post w d b).1 = w := by
  have hed : ∀ to, 400 ≤ (edit w d b to).2.code ∧ (edit w d b to).1 = w := by
    intro to
    unfold edit
    split
    · exact ⟨by simp [bad], rfl⟩
    · split
      · exact ⟨by simp [bad], rfl⟩
      · simp_all [bad]
  unfold post
  rcases he with he | he <;> subst he <;> simp only [ha]
  all_goals
    split
    · exact ⟨by simp [bad], rfl⟩
    · split
      · exact ⟨by simp [bad], rfl⟩
      · exact hed _

theorem edit_cases (w : World) (d : Nat) (b : Body) (to : Nat) :
    (edit w d b to).1 = w ∨ (edit w d b to).2.code = 200 := by
  unfold edit
  repeat' split
  all_goals first | (left; rfl) | (right; rfl)

theorem post_cases (w : World) (d : Nat) (b : Body) :
    (post w d b).1 = w ∨ (post w d b).2.code = 200 := by
  unfold post
  repeat' split
  all_goals first | (left; rfl) | (right; rfl) | (exact edit_cases w d b _)

/-- **a refused or malformed action changes nothing**: whatever the action, arguments and state,
    a response ≥ 400 leaves the whole world (definitions, flags, every history, spawn log) as it was. -/
theorem refused_changes_nothing (w : World) (d : Nat) (b : Body)
    (h : 400 ≤ (post w d b).2.code) : (post w d b).1 = w := by
  rcases post_cases w d b with h1 | h1
  · exact h1
  · rw [h1] at h; omega

/-- **malformed requests are 4xx**: missing action, unknown action, retry / edit without request id,
    edit without step name, rename without a new name. -/
theorem malformed_is_4xx (w : World) (d : Nat) (b : Body)
    (hm : b.action = none ∨ b.action = some .unknown ∨
          (b.action = some .retry ∧ b.requestId = 0) ∨
          (∃ a, b.action = some a ∧ isEdit a ∧ (b.requestId = 0 ∨ b.step = 0)) ∨
          (b.action = some .rename ∧ b.target = none)) :
    (post w d b).2.code = 400 := by
  have hed : ∀ to, (b.requestId = 0 ∨ b.step = 0) → (edit w d b to).2.code = 400 := by
    intro to hz
    unfold edit
    split
    · rfl
    · split
      · rfl
      · rcases hz with hz | hz <;> contradiction
  unfold post
  rcases hm with h | h | ⟨h, hz⟩ | ⟨a, h, he, hz⟩ | ⟨h, hz⟩
  · simp [h, bad]
  · simp only [h]; repeat' split
    all_goals rfl
  · simp only [h]; repeat' split
    all_goals first | rfl | contradiction
  · rcases he with he | he <;> subst he <;> simp only [h]
    all_goals
      split
      · rfl
      · split
        · rfl
        · exact hed _ hz
  · simp only [h, hz]; repeat' split
    all_goals rfl

/-- what an accepted edit of world `w` looks like -/
structure EditExact (w w' : World) (d : Nat) (b : Body) (to : Nat) : Prop where
  dags : w'.dags = w.dags
  susp : w'.susp = w.susp
  live : w'.live = w.live
  log : w'.log = w.log
  other : ∀ e, e ≠ d → w'.hist e = w.hist e
  run : ∃ k r i st,
      (w.hist d)[k]? = some r ∧ r.reqId = b.requestId ∧                       -- the addressed run …
      (∀ j, j < k → ∀ r', (w.hist d)[j]? = some r' → r'.reqId ≠ b.requestId) ∧  -- … the newest with that id
      r.nodes[i]? = some (b.step, st) ∧                                        -- the addressed step
      w'.hist d = (w.hist d).set k { correct r with nodes := r.nodes.set i (b.step, to) }

theorem edit_exact_aux (w : World) (d : Nat) (b : Body) (to : Nat) (h : (edit w d b to).2.code = 200) :
    EditExact w (edit w d b to).1 d b to := by
  by_cases h1 : b.requestId = 0
  · simp [edit, h1, bad] at h
  by_cases h2 : b.step = 0
  · simp [edit, h1, h2, bad] at h
  by_cases h3 : (w.live d).isSome = true
  · simp [edit, h1, h2, h3, bad] at h
  cases hk : findRunIdx (w.hist d) b.requestId with
  | none => simp [edit, h1, h2, h3, hk, err] at h
  | some k =>
    cases hr : (w.hist d)[k]? with
    | none => simp [edit, h1, h2, h3, hk, hr, err] at h
    | some r =>
      cases hi : lastNodeIdx r.nodes b.step with
      | none => simp [edit, h1, h2, h3, hk, hr, hi, bad] at h
      | some i =>
        obtain ⟨r0, hr0, hq, hnew⟩ := findRunIdx_spec _ _ _ hk
        rw [hr] at hr0; injection hr0 with hr0; subst hr0
        obtain ⟨st, hst, _⟩ := lastNodeIdx_spec _ _ _ hi
        simp only [edit, h1, h2, h3, hk, hr, hi, if_false]
        exact { dags := rfl, susp := rfl, live := rfl, log := rfl,
                other := fun e he => by simp [he],
                run := ⟨k, r, i, st, hr, hq, hnew, hst, by simp [editRun]⟩ }

/-- **an accepted status edit changes exactly the addressed step of the addressed run**: definitions,
    suspend flags, live runs, the spawn log and every other DAG's history are untouched; in this DAG's
    history only entry `k` (the newest run with the given request id) is replaced, by a record that
    differs from the old one only in node `i` (the step with the given name, set to the requested
    status) and in the running → failed relabel of `correct`. -/
theorem edit_exact (w : World) (d : Nat) (b : Body) (a : Action)
    (ha : b.action = some a) (he : isEdit a) (h : (post w d b).2.code = 200) :
    EditExact w (post w d b).1 d b (editTarget a) := by
  cases hd : w.dags d with
  | none => rcases he with he | he <;> subst he <;> simp [post, ha, hd, bad] at h
  | some sp =>
    by_cases hv : (sp.yamlOk && sp.graphOk) = true
    · rcases he with he | he <;> subst he
      · have hp : post w d b = edit w d b 4 := by simp [post, ha, hd, hv]
        rw [hp] at h ⊢; exact edit_exact_aux w d b 4 h
      · have hp : post w d b = edit w d b 2 := by simp [post, ha, hd, hv]
        rw [hp] at h ⊢; exact edit_exact_aux w d b 2 h
    · rcases he with he | he <;> subst he <;> simp [post, ha, hd, hv, bad] at h

/-- consequences of `EditExact` read pointwise: every other run, and every other node of the edited
    run, is what it was; time stamp, request id and the rest of the record are kept; the run's status
    changes only by the relabel running(1) → failed(2). -/
theorem edit_exact_pointwise {w w' : World} {d : Nat} {b : Body} {to : Nat} (h : EditExact w w' d b to) :
    (w'.hist d).length = (w.hist d).length ∧
    ∃ (k : Nat) (r r' : Run) (i : Nat), (w.hist d)[k]? = some r ∧ (w'.hist d)[k]? = some r' ∧ r.reqId = b.requestId ∧
      (∀ j, j ≠ k → (w'.hist d)[j]? = (w.hist d)[j]?) ∧
      r'.ts = r.ts ∧ r'.reqId = r.reqId ∧ r'.rest = r.rest ∧
      r'.status = (if r.status = 1 then 2 else r.status) ∧
      r'.nodes.length = r.nodes.length ∧ r'.nodes[i]? = some (b.step, to) ∧
      (∀ j, j ≠ i → r'.nodes[j]? = r.nodes[j]?) := by
  obtain ⟨k, r, i, st, hr, hq, _, hst, hset⟩ := h.run
  have hk : k < (w.hist d).length := by
    rcases Nat.lt_or_ge k (w.hist d).length with h | h
    · exact h
    · rw [List.getElem?_eq_none h] at hr; cases hr
  have hi : i < r.nodes.length := by
    rcases Nat.lt_or_ge i r.nodes.length with h | h
    · exact h
    · rw [List.getElem?_eq_none h] at hst; cases hst
  have hc : (correct r).ts = r.ts ∧ (correct r).reqId = r.reqId ∧ (correct r).rest = r.rest ∧
      (correct r).status = (if r.status = 1 then 2 else r.status) := by
    unfold correct; split <;> simp_all
  refine ⟨by rw [hset]; simp, k, r, { correct r with nodes := r.nodes.set i (b.step, to) }, i, hr, ?_, hq, ?_,
    hc.1, hc.2.1, hc.2.2.1, hc.2.2.2, ?_, ?_, ?_⟩
  · rw [hset]; simp [hk]
  · intro j hj; rw [hset]; simp [Ne.symm hj]
  · simp
  · simp [hi]
  · intro j hj; simp [Ne.symm hj]

/-- **an accepted start hands the given parameters through unchanged**: the only change to the world is
    one `start` command appended to the spawn log, and — for parameters without CR / LF, which
    `escapeArg` rewrites (outside the documented parameter syntax) — the parameter string the spawned
    command passes to the loader after `removeQuotes` is exactly the string given in the request. -/
theorem start_params_unchanged (w : World) (d : Nat) (b : Body)
    (ha : b.action = some .start) (h : (post w d b).2.code = 200) (hp : noLineBreak b.params) :
    ∃ arg, (post w d b).1 = { w with log := w.log ++ [.start d arg] } ∧ received arg = b.params := by
  cases hd : w.dags d with
  | none => simp [post, ha, hd, bad] at h
  | some sp =>
    by_cases hv : (sp.yamlOk && sp.graphOk) = true
    · by_cases hl : (w.live d).isSome = true
      · simp [post, ha, hd, hv, hl, bad] at h
      · have hpost : post w d b = ({ w with log := w.log ++ [.start d (startArg b.params)] }, ok) := by
          simp [post, ha, hd, hv, hl]
        exact ⟨startArg b.params, by rw [hpost], received_startArg _ hp⟩
    · simp [post, ha, hd, hv, bad] at h

/-- … and CR / LF are indeed rewritten (why `noLineBreak` is a hypothesis): "a\nb" arrives as "a\\nb". -/
example : received (startArg [97, 10, 98]) = [97, 92, 110, 98] := by decide

/-! ### non-vacuity: a world with a finished and a crashed run, a live DAG, and accepted / refused actions -/

def w0 : World :=
  { dags := fun d => if d < 2 then some { id := d + 1 } else none
    susp := fun _ => false
    live := fun d => if d = 1 then some 7 else none
    hist := fun d => if d = 0 then [{ ts := 9, reqId := 5, status := 1, nodes := [(1, 4), (2, 1)], rest := 0 },
                                   { ts := 3, reqId := 4, status := 4, nodes := [(1, 4), (2, 4)], rest := 1 }] else []
    log := [] }

example : (post w0 1 { action := some .start }).2.code = 400 := by decide           -- running
example : (post w0 0 { action := some .stop }).2.code = 400 := by decide            -- not running
example : (post w0 1 { action := some .stop }).2.code = 200 := by decide
example : (post w0 1 { action := some .markFailed, requestId := 7, step := 1 }).2.code = 400 := by decide
example : (post w0 0 { action := some .markSuccess, requestId := 5, step := 2 }).2.code = 200 := by decide
example : ((post w0 0 { action := some .markSuccess, requestId := 5, step := 2 }).1.hist 0) =
    [{ ts := 9, reqId := 5, status := 2, nodes := [(1, 4), (2, 4)], rest := 0 },   -- crashed run relabelled failed
     { ts := 3, reqId := 4, status := 4, nodes := [(1, 4), (2, 4)], rest := 1 }] := by decide
example : (post w0 0 { action := some .markSuccess, requestId := 6, step := 2 }).2.code = 500 := by decide
example : (post w0 0 { action := some .markSuccess, requestId := 5, step := 3 }).2.code = 400 := by decide
example : (post w0 0 { action := some .start, params := [120, 32, 34, 121, 34] }).1.log =
    [.start 0 (some [34, 120, 32, 34, 121, 34, 34])] := by decide
example : (post w0 5 { action := some .start }).2.code = 400 := by decide           -- no such DAG
example : (post w0 0 { action := some .rename, target := some 3 }).1.dags 3 = some { id := 1 } := by decide

end BdModel.P20

#print axioms BdModel.P20.start_refused_when_running
#print axioms BdModel.P20.stop_refused_when_not_running
#print axioms BdModel.P20.edit_refused_when_running
#print axioms BdModel.P20.refused_changes_nothing
#print axioms BdModel.P20.malformed_is_4xx
#print axioms BdModel.P20.edit_exact
#print axioms BdModel.P20.edit_exact_pointwise
#print axioms BdModel.P20.start_params_unchanged
