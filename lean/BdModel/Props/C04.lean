import BdModel.Proofs.Sched.Outcome
import BdModel.Sched.Tables
/-
  C04 — run outcome and lifecycle handlers match what happened.
-/
namespace BdModel.P04
open BdModel.Sched

/-- **C04 (outcome, unstopped run).** The status read after all steps have finished is
    succeeded iff every step finished successfully or was skipped, and failed iff some step failed
    (its command, its set-up or its teardown); nothing else is possible. -/
theorem C04_outcome (c : Cfg) (hw : WF c) (hn : NoRep c) (hrk : Ranked c) (hdc : c.doneChan = true)
    (s : State) (hr : Reach c s) (hc : s.canceled = false) (ht : s.timedOut = false) (o : SStatus)
    (ho : s.atWait = some o) :
    (o = .success ∨ o = .error) ∧
    (o = .success ↔ ∀ i, i < c.n → (s.nd i).status = .success ∨ (s.nd i).status = .skipped) ∧
    (o = .error ↔ ∃ i, i < c.n ∧ (s.nd i).status = .error) :=
  outcome_unstopped c hw hn hrk hdc s hr hc ht o ho

/-- **C04 (canceled).** The run is reported canceled iff a stop was accepted and not every step
    finished successfully / was skipped — in every state, by the status cascade of `Scheduler.Status`. -/
theorem C04_canceled (c : Cfg) (s : State) :
    overall c s = .cancel ↔ (s.canceled = true ∧ allSucc c s = false) := by
  unfold overall
  cases s.canceled <;> cases allSucc c s <;> cases anyRunning c s <;> cases s.lastErr <;> simp

/-- **C04 (handlers).** The handlers run are always a prefix of the plan computed after `wg.Wait()`,
    the plan is `[handler of the outcome read at that moment] ++ [onExit]` restricted to the configured
    ones, and when `Schedule` returns exactly the plan has run, each handler once, onExit last. -/
theorem C04_handlers (c : Cfg) (s : State) (hr : Reach c s) :
    (s.hplan = none → s.hlog = [] ∧ s.atWait = none ∧ ¬ (∃ l, s.loop = .handlers l) ∧ s.loop ≠ .returned) ∧
    (∀ p, s.hplan = some p →
        (∃ o, s.atWait = some o ∧ p = handlerPlan c o) ∧
        ((∃ rest, s.loop = .handlers rest ∧ s.hlog ++ rest = p) ∨ (s.loop = .returned ∧ s.hlog = p))) :=
  hlog_plan c s hr

/-- shape of the plan: at most one outcome handler — the one `handlerOf` selects, if configured —
    followed by onExit (if configured) as the last element; onExit occurs nowhere else -/
theorem C04_plan_shape (c : Cfg) (o : SStatus) :
    ∃ pre, handlerPlan c o = pre ++ (if c.hExit then [Handler.onExit] else []) ∧ pre.length ≤ 1 ∧
      Handler.onExit ∉ pre ∧ ∀ h ∈ pre, handlerOf o = some h ∧ configured c h = true := by
  refine ⟨(handlerOf o).toList.filter (configured c), ?_, ?_, ?_, ?_⟩
  · unfold handlerPlan
    cases h4 : c.hExit <;> simp [List.filter_append, configured, h4]
  · exact Nat.le_trans (List.length_filter_le _ _) (by cases o <;> simp [handlerOf])
  · cases o <;> simp [handlerOf]
  · intro h hh
    cases o <;> simp [handlerOf] at hh ⊢ <;> (obtain ⟨rfl, h2⟩ := hh; simp [h2])

/-- **C04 (handlers after steps).** Once the handlers have begun no step command starts and no
    worker exists. -/
theorem C04_after_steps (c : Cfg) (hn : NoRep c) (s : State) (hr : Reach c s)
    (hl : (∃ l, s.loop = .handlers l) ∨ s.loop = .returned) :
    totalExecs c s = s.execsAtWait ∧ ∀ i, i < c.n → (s.nd i).pc.active = false :=
  no_exec_after_wait c hn s hr hl

/-- the outcome → handler map and the status cascade are the ones extracted from scheduler.go -/
theorem C04_tables_are_source (c : Cfg) (s : State) (o : SStatus) :
    handlerOfTable Canon.Sched.handlerSwitch o = some (handlerOf o) ∧
    overallOf c s Canon.Sched.statusCascade = some (reported c s) :=
  ⟨handlerOfTable_canon o, overallOf_canon c s⟩


/-- **C04 (what is reported matches the handler that ran).** `Scheduler.Status` returns the live cascade
    until all steps have finished and, from then on, the outcome read at that moment (fix 6076232): so
    when `Schedule` returns, the reported outcome `o` is exactly the one whose handler plan ran — and a
    stop request arriving while the handlers run changes neither (finding F44: on the pinned tree a
    failed run whose onFailure handler had run could end up reported canceled). -/
theorem C04_reported (c : Cfg) (s : State) (hr : Reach c s) :
    (s.atWait = none → reported c s = overall c s) ∧
    (s.loop = .returned → ∃ o, s.atWait = some o ∧ reported c s = o ∧ s.hlog = handlerPlan c o) ∧
    (∀ s', step c s .setCanceled = some s' → s.atWait ≠ none → reported c s' = reported c s) := by
  refine ⟨fun h => by simp [reported, h], ?_, ?_⟩
  · intro hl
    have hh := hlog_plan c s hr
    cases hp : s.hplan with
    | none => exact absurd hl (hh.1 hp).2.2.2
    | some p =>
      obtain ⟨⟨o, ho, hpo⟩, hrest⟩ := hh.2 p hp
      refine ⟨o, ho, by simp [reported, ho], ?_⟩
      rcases hrest with ⟨rest, hl2, _⟩ | ⟨_, hlog⟩
      · rw [hl] at hl2; cases hl2
      · rw [hlog, hpo]
  · intro s' hs hne
    simp only [step, Option.some.injEq] at hs
    subst hs
    cases ha : s.atWait with
    | none => exact absurd ha hne
    | some o => simp [reported, ha]

/-! non-vacuity: one failing step, onFailure and onExit configured, onSuccess too: plan = [onFailure, onExit] -/
def demo : Cfg := { n := 1, node := fun _ => {}, hSuccess := true, hFailure := true, hExit := true }
example : ((runActs demo (init demo)
    [.visitDecide 0, .visitLaunch 0 true, .setupDone 0 true, .check 0, .execStart 0, .execEnd 0 false, .postWrite 0,
     .deferred 0, .loopExit, .waitAll, .handlerRun true, .handlerRun true, .finish]).map fun s =>
    (s.hlog, s.atWait, s.loop)) = some ([.onFailure, .onExit], some .error, .returned) := by decide

end BdModel.P04

#print axioms BdModel.P04.C04_outcome
#print axioms BdModel.P04.C04_canceled
#print axioms BdModel.P04.C04_handlers
#print axioms BdModel.P04.C04_plan_shape
#print axioms BdModel.P04.C04_after_steps
#print axioms BdModel.P04.C04_tables_are_source
#print axioms BdModel.P04.C04_reported
