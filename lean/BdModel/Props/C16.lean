import BdModel.Proofs.Lock
import BdModel.Proofs.LockMutex
/-
  C16 — at most one run of a DAG file is active at a time.
  `Lock.step` is the interleaving semantics of n agents executing the call order of `Agent.Run`
  (tree with the fixes 5f302ab = lock on the DAG file, 8270caf = no second removal of the socket
  path) over the lock table and the socket name space (model: BdModel/Lock/Socket.lean).  All
  statements are about EVERY reachable world: any number of agents, any configuration, any
  interleaving, kills included.
-/
namespace BdModel.P16
open BdModel.Lock

/-- an agent is executing the commands of its schedule (steps or handlers) -/
def executing (ag : Agent) : Bool := ag.pc == .steps || ag.pc == .handlers

/-- **C16, whatever the path is called (the lock is on the file, not on its name).**  In every reachable
    world (any interleaving, kills included) two different agents of the same DAG file (same inode) that
    can open it are never both at a lock-holding program counter — from the probe up to the unlock after
    the final status write — hence never both executing steps or handlers.  This uses the lock table only:
    it holds for ANY socket names, i.e. also when the file is reached through a symlinked directory,
    a symlink or a hard link and the two agents therefore use different sockets. -/
theorem C16_lock_exclusive (w : World) (hw : Reach w) (a b : Nat) (hab : a ≠ b)
    (hd : (w.agents a).dag = (w.agents b).dag)
    (ha : (w.agents a).canOpen = true) (hb : (w.agents b).canOpen = true) :
    ¬ (holdsLock (w.agents a).pc = true ∧ holdsLock (w.agents b).pc = true) ∧
    ¬ (executing (w.agents a) = true ∧ executing (w.agents b) = true) := by
  have key : ¬ (holdsLock (w.agents a).pc = true ∧ holdsLock (w.agents b).pc = true) := by
    intro ⟨h1, h2⟩
    have l1 := reach_lockInv hw a ha h1
    have l2 := reach_lockInv hw b hb h2
    rw [hd, l2] at l1
    injection l1 with e
    exact hab e.symm
  refine ⟨key, fun ⟨h1, h2⟩ => key ⟨?_, ?_⟩⟩
  · cases hpc : (w.agents a).pc <;> simp_all [executing, holdsLock]
  · cases hpc : (w.agents b).pc <;> simp_all [executing, holdsLock]

/-- **C16 at full strength — mutual exclusion under EVERY interleaving.**  For every configuration,
    every interleaving (kills included) and every two different agents of one DAG file all of whose
    agents can open the file (so take the lock) and reach it under one spelling of its path (so use one
    socket name): never are both between "passed the already-running check" and "endpoint closed"
    (`inRegion`: history set-up, unlink, bind, listen, steps, handlers, final write, unlock, close) —
    hence never both in mid-run (commands started, endpoint not closed). -/
def C16_full : Prop :=
  ∀ (cfgs : List Cfg) (tr : List (Nat × Act)) (w : World), run (init cfgs) tr = some w →
    ∀ a b, a ≠ b → (w.agents a).dag = (w.agents b).dag → OpenDag w (w.agents a).dag →
      OneSpelling w (w.agents a).dag (w.agents a).sock →
      ¬ (inRegion (w.agents a).pc = true ∧ inRegion (w.agents b).pc = true) ∧
      ¬ (midRun (w.agents a) = true ∧ midRun (w.agents b) = true)

theorem midRun_region (ag : Agent) (h : midRun ag = true) : inRegion ag.pc = true := by
  cases hpc : ag.pc <;> simp_all [midRun, inRegion, inWindow, holding]

/-- **C16_full holds** (by the invariant `Excl`: whoever is at a lock-holding program counter holds
    the lock; at most one agent in the region; the agent holding the endpoint owns a bound listening
    socket; bind always finds the path free). -/
theorem C16_full_holds : C16_full := by
  intro cfgs tr w hrun a b hab hd hopen hkey
  have hex := (reach_excl ⟨cfgs, tr, hrun⟩ _ _ hopen hkey).one a b hab rfl hd.symm
  exact ⟨hex, fun ⟨ha, hb⟩ => hex ⟨midRun_region _ ha, midRun_region _ hb⟩⟩

/-- **C16 (sequential part).**  In every reachable world (whatever the agents can open): if agent `b`
    does its "already running?" probe while the socket of its DAG file is bound and listening
    (agent `a`'s endpoint), then
    * the probe is enabled and `b` is refused,
    * `b` has executed no step and no handler, done no history operation, written no record,
      never unlinked or bound the socket path (`Pristine`),
    * the socket name space is exactly as before (`a`'s endpoint stays bound) and every other
      agent's record is untouched by the probe,
    * and whatever happens afterwards, `b` never acts again: its record stays frozen (so all its
      counters stay 0) and no later action of any interleaving is `b`'s. -/
theorem C16_sequential (w : World) (hw : Reach w) (a b : Nat)
    (hA : w.ns (w.agents b).sock = .bound a true) (hb : (w.agents b).pc = .probe) :
    ∃ w', step w b .probe = some w' ∧
      (w'.agents b).pc = .refused ∧ Pristine (w'.agents b) ∧
      w'.ns = w.ns ∧ (∀ c, c ≠ b → w'.agents c = w.agents c) ∧
      (∀ tr w'', run w' tr = some w'' →
          w''.agents b = w'.agents b ∧ Pristine (w''.agents b) ∧ ∀ x ∈ tr, x.1 ≠ b) := by
  have hs : step w b .probe =
      some (release (setAgent w b { w.agents b with pc := .refused }) (w.agents b).dag b) := by
    unfold step stepAg
    simp [hb, hA]
  have hr : Reach (release (setAgent w b { w.agents b with pc := .refused }) (w.agents b).dag b) :=
    reach_run hw (tr := [(b, .probe)]) (by simp [run, hs])
  have hp : Pristine ((release (setAgent w b { w.agents b with pc := .refused }) (w.agents b).dag b).agents b) :=
    reach_early hr b (by simp [early])
  refine ⟨_, hs, by simp, hp, by simp, fun c hc => by simp [hc], ?_⟩
  intro tr w'' hrun
  have hf := run_refused_frozen hrun b (by simp)
  exact ⟨hf.1, by rw [hf.1]; exact hp, hf.2⟩

/-- **C16 (refusal by the lock).**  An agent that finds the lock of its DAG file held is refused at
    once; the world is unchanged except for its own program counter. -/
theorem C16_lock_refuses (w : World) (b c : Nat) (hb : (w.agents b).pc = .lock)
    (ho : (w.agents b).canOpen = true) (hl : w.lk (w.agents b).dag = some c) :
    step w b .lock = some (setAgent w b { w.agents b with pc := .refused }) := by
  unfold step stepAg
  simp [hb, ho, hl]

/-- **C16 (refusal leaves no trace).**  In every reachable world an agent that was refused — by the lock
    or by the probe — and, more generally, any agent that has not got past its probe, has executed
    nothing, recorded nothing and never touched the socket path. -/
theorem C16_refused_pristine (w : World) (hw : Reach w) (b : Nat) (h : (w.agents b).pc = .refused) :
    Pristine (w.agents b) :=
  reach_early hw b (by rw [h]; rfl)

/-- **C16 (no loser of a bind race any more — F20b).**  For a DAG file all of whose agents can open it,
    `bind` never fails in any reachable world: no agent is ever on the bind-failure path, so an agent
    that has recorded a run (history operations > 0) is one that passed the check and bound its socket. -/
theorem C16_bind_never_fails (w : World) (hw : Reach w) (a : Nat) (hopen : OpenDag w (w.agents a).dag)
    (hkey : OneSpelling w (w.agents a).dag (w.agents a).sock) :
    failing (w.agents a).pc = false ∧
    ((w.agents a).pc = .bind → w.ns (w.agents a).sock = .absent) :=
  ⟨(reach_excl hw _ _ hopen hkey).nofail a rfl, (reach_excl hw _ _ hopen hkey).bnd a rfl⟩

/-- **the endpoint is really there.**  For such a file, the agent between `listen` and the close of its
    listener owns a bound, listening socket — so every probe by another agent of the file is answered
    (and refused, `C16_sequential`), and an agent past its lock holds the lock. -/
theorem C16_endpoint_and_lock (w : World) (hw : Reach w) (a : Nat) (hopen : OpenDag w (w.agents a).dag)
    (hkey : OneSpelling w (w.agents a).dag (w.agents a).sock) :
    (holding (w.agents a).pc = true → w.ns (w.agents a).sock = .bound a true) ∧
    (holdsLock (w.agents a).pc = true → w.lk (w.agents a).dag = some a) :=
  ⟨(reach_excl hw _ _ hopen hkey).hold a rfl, (reach_excl hw _ _ hopen hkey).lockOk a rfl⟩

/-- **what "bound" means.**  In every reachable world a bound socket path belongs to an agent of that
    DAG file which is alive between its `bind` and the close of its listener; when the socket is
    listening that agent's schedule is under way (steps, handlers, final status write, unlock, about
    to close). -/
theorem C16_bound_means_active (w : World) (hw : Reach w) (d a : Nat) (l : Bool) (h : w.ns d = .bound a l) :
    (w.agents a).sock = d ∧ ownerOk l (w.agents a).pc = true ∧ alive (w.agents a).pc = true := by
  have ho := reach_owner hw d a l h
  refine ⟨ho.1, ho.2, ?_⟩
  have h2 := ho.2
  cases l <;> cases hpc : (w.agents a).pc <;> simp_all [ownerOk, alive]

/-- An action of one agent never changes another agent's record, nor the socket or the lock of another DAG file. -/
theorem C16_locality (w w' : World) (a : Nat) (act : Act) (h : step w a act = some w') :
    (∀ b, b ≠ a → w'.agents b = w.agents b) ∧ (∀ e, e ≠ (w.agents a).sock → w'.ns e = w.ns e) ∧
    (∀ e, e ≠ (w.agents a).dag → w'.lk e = w.lk e) :=
  ⟨fun b hb => step_other h b hb, fun e he => step_ns_other h e he, fun e he => step_lk_other h e he⟩

/-! ### what remains when the DAG file cannot be opened -/

/-- the world reached by an interleaving has two different agents of the same DAG file in mid-run -/
def bothRun (cfgs : List Cfg) (tr : List (Nat × Act)) (a b : Nat) : Bool :=
  match run (init cfgs) tr with
  | none => false
  | some w => decide ((w.agents a).dag = (w.agents b).dag) && midRun (w.agents a) && midRun (w.agents b)

/-- two starts of DAG file 0 that both FAIL to open the file (lock skipped, best effort) -/
def wCfgs : List Cfg := [{ dag := 0, steps := 2, canOpen := false }, { dag := 0, steps := 2, canOpen := false }]

/-- the old F20 interleaving: probe₀ probe₁ (both see no socket) · hist₀ unlink₀ bind₀ listen₀ ·
    hist₁ unlink₁ (removes agent 0's socket file) bind₁ listen₁ · both execute a step -/
def wTrace : List (Nat × Act) :=
  by_ 0 upToProbe ++ by_ 1 upToProbe ++
  by_ 0 (histOps ++ [.unlink, .bind, .listen]) ++
  by_ 1 (histOps ++ [.unlink, .bind, .listen]) ++
  [(0, .execStep), (1, .execStep)]

/-- **the hypothesis `OpenDag` of `C16_full` is needed**: agents that cannot open the DAG file skip the
    lock, and for them the probe-then-bind race of the pinned code is still there. (`os.Open` of the file
    the command has just loaded fails only if the file was deleted or made unreadable in between.) -/
theorem C16_unlocked_still_races : bothRun wCfgs wTrace 0 1 = true := by decide

/-- the same interleaving with agents that CAN open the file is not even executable: agent 1 is refused by the lock -/
example : (run (init [{ dag := 0, steps := 2 }, { dag := 0, steps := 2 }]) (by_ 0 upToProbe ++ by_ 1 [.setup true, .precond true, .lock])).map
    (fun w => verdict (w.agents 1)) = some (.refused, 0, 0, 0, 0) := by decide
example : run (init [{ dag := 0, steps := 2 }, { dag := 0, steps := 2 }]) wTrace = none := by
  simp [run, wTrace, by_, upToProbe, histOps, step, stepAg, init, fresh, setAgent, setLk]

/-! ### the same file under two spellings of its path -/

/-- agent 0 starts the file through its plain path (socket 0), agent 1 through a link (socket 1): same `dag` -/
def lCfgs : List Cfg := [{ dag := 0, steps := 1, sock := 0 }, { dag := 0, steps := 1, sock := 1 }]

/-- while agent 0 is anywhere from its probe to its final write, agent 1 is refused by the lock although its
    own socket name is free -/
example : (run (init lCfgs) (by_ 0 (upToProbe ++ histOps ++ [.unlink, .bind, .listen, .execStep]) ++
      by_ 1 [.setup true, .precond true, .lock])).map (fun w => (verdict (w.agents 1), w.ns 1)) =
    some ((.refused, 0, 0, 0, 0), .absent) := by decide

/-- why `C16_full` asks for one spelling: once agent 0 has written its final status and released the lock,
    agent 1 (other socket name: its probe finds nothing) may start while agent 0 is still closing its
    listener — both are "in the region", but agent 0 executes nothing any more (`C16_lock_exclusive`). -/
example : (run (init lCfgs) (by_ 0 (upToProbe ++ histOps ++ [.unlink, .bind, .listen, .execStep, .finalWrite, .unlock]) ++
      by_ 1 (upToProbe ++ histOps ++ [.unlink, .bind, .listen, .execStep]))).map
    (fun w => ((w.agents 0).pc, (w.agents 1).pc, executing (w.agents 0))) = some (.shutClose, .finalWrite, false) := by decide

/-! ### the file saved again while a run is active (new inode, same path) -/

/-- agent 0 started the file before it was saved again, agent 1 opens the path afterwards: another inode,
    hence another lock (`dag` 0 / 1), but the same path spelling, hence the same socket name -/
def rCfgs : List Cfg := [{ dag := 0, steps := 2, sock := 0 }, { dag := 1, steps := 2, sock := 0 }]

/-- the lock does not collide any more; what refuses the second start is the probe of the first run's
    endpoint (`C16_sequential`: answered — or timed out — while it is listening ⇒ refused, nothing touched) -/
example : (run (init rCfgs) (by_ 0 (upToProbe ++ histOps ++ [.unlink, .bind, .listen, .execStep]) ++
      by_ 1 upToProbe)).map (fun w => (verdict (w.agents 1), w.lk 0, w.lk 1, w.ns 0)) =
    some ((.refused, 0, 0, 0, 0), some 0, none, .bound 0 true) := by decide

/-- **what remains for a file saved again**: the probe protects only once the first run is LISTENING. A start
    of the re-saved file that falls into the first run's window between its probe and its listen is not
    refused (the old probe/bind race, between two lock keys): both end up executing steps. The mirror image of
    the `OneSpelling` case — there the lock protects and the socket does not, here the socket protects and the
    lock does not; `C16_full` and `C16_lock_exclusive` need the same file identity, `C16_sequential` does not. -/
theorem C16_resaved_still_races :
    (run (init rCfgs) wTrace).map (fun w => ((w.agents 0).sock == (w.agents 1).sock, midRun (w.agents 0), midRun (w.agents 1))) =
      some (true, true, true) := by decide

/-! ### … saved again with ANOTHER DEFINITION (another `name:` key, description, steps, params, logDir) -/

/-- **the socket name is a function of the file's location alone** (internal/dag/dag.go `SockAddr`: the file name
    without its extension + md5 of the location — nothing of the definition's CONTENT enters).  `sockOf` maps a path to
    its socket name; agent `a` loaded the definition at path `p` before it was saved again, agent `b` loads it
    afterwards.  Nothing else relates the two: the lock keys `(w.agents a).dag`, `(w.agents b).dag` (inodes) and the
    schedules (`steps`, `hands`: the content) are arbitrary. -/
def SockOfPath {Path : Type} (sockOf : Path → Nat) (p : Path) (w : World) (a b : Nat) : Prop :=
  (w.agents a).sock = sockOf p ∧ (w.agents b).sock = sockOf p

/-- **C16 for a file saved again with whatever content, while its run answers.**  Under `SockOfPath` a re-save leaves the
    probe's target unchanged: in every reachable world, if the first run `a` is listening (its status endpoint answers)
    and `b` — started or retried from the SAME PATH after the file was replaced, whatever inode and definition the path
    now names — does its probe, then `b ≠ a`, `b` is refused having touched nothing (`Pristine`) and never acts again,
    `a`'s record is unchanged, and the endpoint AT THE FILE'S ADDRESS `sockOf p` is still `a`'s, listening — so a status
    query for the file (a probe of `sockOf p` by anybody who loads the file as it is now) keeps reaching the first run. -/
theorem C16_resaved_same_path_refused {Path : Type} (sockOf : Path → Nat) (p : Path)
    (w : World) (hw : Reach w) (a b : Nat) (hp : SockOfPath sockOf p w a b)
    (hA : w.ns (w.agents a).sock = .bound a true) (hb : (w.agents b).pc = .probe) :
    a ≠ b ∧ ∃ w', step w b .probe = some w' ∧
      (w'.agents b).pc = .refused ∧ Pristine (w'.agents b) ∧
      w'.ns (sockOf p) = .bound a true ∧ w'.agents a = w.agents a ∧
      (∀ tr w'', run w' tr = some w'' → w''.agents b = w'.agents b ∧ ∀ x ∈ tr, x.1 ≠ b) := by
  have hab : a ≠ b := by
    intro e
    have ho := (C16_bound_means_active w hw _ a true hA).2.1
    rw [e, hb] at ho
    simp [ownerOk] at ho
  have hA' : w.ns (w.agents b).sock = .bound a true := by rw [hp.2, ← hp.1]; exact hA
  obtain ⟨w', hs, hr, hpr, hns, hoth, hfut⟩ := C16_sequential w hw a b hA' hb
  refine ⟨hab, w', hs, hr, hpr, ?_, hoth a hab, fun tr w'' h => ⟨(hfut tr w'' h).1, (hfut tr w'' h).2.2⟩⟩
  rw [hns, ← hp.1]; exact hA

/-- the hypotheses are met by the re-saved file of `rCfgs` (lock keys 0 / 1, one socket name): path `()` ↦ socket 0 -/
example : (run (init rCfgs) (by_ 0 (upToProbe ++ histOps ++ [.unlink, .bind, .listen, .execStep]) ++
      by_ 1 [.setup true, .precond true, .lock])).map
    (fun w => (decide ((w.agents 0).sock = (fun (_ : Unit) => 0) () ∧ (w.agents 1).sock = (fun (_ : Unit) => 0) ()),
               w.ns (w.agents 0).sock, (w.agents 1).pc, (w.agents 0).dag, (w.agents 1).dag)) =
    some (true, .bound 0 true, .probe, 0, 1) := by decide

/-- a start of the re-saved file whose socket name is ANOTHER one (lock key 1, socket 1): what a socket name that depends
    on the definition's content — say on its `name:` key — would give after a save that changes that content -/
def nCfgs : List Cfg := [{ dag := 0, steps := 2, sock := 0 }, { dag := 1, steps := 2, sock := 1 }]

/-- **`SockOfPath` is needed**: with another lock key AND another socket name nothing refuses the second start although
    the first run is listening and in its steps — strictly sequentially, no race involved: it records a run, executes a
    step alongside the first run, and the first run's endpoint is not at the second one's address. -/
theorem C16_resaved_other_socket_not_refused :
    (run (init nCfgs) (by_ 0 (upToProbe ++ histOps ++ [.unlink, .bind, .listen, .execStep]) ++
      by_ 1 (upToProbe ++ histOps ++ [.unlink, .bind, .listen, .execStep]))).map
      (fun w => (w.ns 0, w.ns 1, midRun (w.agents 0), midRun (w.agents 1), (w.agents 1).recs)) =
    some (.bound 0 true, .bound 1 true, true, true, 2) := by decide

/-! ### witnesses / non-vacuity -/

def oCfgs : List Cfg := [{ dag := 0, steps := 2 }, { dag := 0, steps := 2 }]

/-- the hypotheses of `C16_sequential` are met: agent 0 listening and past its unlock (lock free),
    agent 1 takes the lock and is at its probe; the probe refuses and gives the lock back -/
example : (run (init [{ dag := 0, steps := 1 }, { dag := 0 }])
      (by_ 0 (upToProbe ++ histOps ++ [.unlink, .bind, .listen, .execStep, .finalWrite, .unlock]) ++
       by_ 1 [.setup true, .precond true, .lock])).map (fun w => (w.ns 0, (w.agents 1).pc, w.lk 0)) =
    some (.bound 0 true, .probe, some 1) := by decide
example : (run (init [{ dag := 0, steps := 1 }, { dag := 0 }])
      (by_ 0 (upToProbe ++ histOps ++ [.unlink, .bind, .listen, .execStep, .finalWrite, .unlock]) ++
       by_ 1 upToProbe)).map (fun w => (verdict (w.agents 1), w.ns 0, w.lk 0)) =
    some ((.refused, 0, 0, 0, 0), .bound 0 true, none) := by decide

/-- while agent 0 runs its steps, agent 1 is refused by the lock -/
example : (run (init oCfgs) (by_ 0 (upToProbe ++ histOps ++ [.unlink, .bind, .listen, .execStep]) ++
      by_ 1 [.setup true, .precond true, .lock])).map (fun w => (verdict (w.agents 1), w.lk 0)) =
    some ((.refused, 0, 0, 0, 0), some 0) := by decide

/-- after a kill the socket file is stale, the lock is free, and the next start runs -/
example : (run (init oCfgs) (by_ 0 (upToProbe ++ histOps ++ [.unlink, .bind, .listen, .kill]) ++
      by_ 1 (upToProbe ++ histOps ++ [.unlink, .bind, .listen, .execStep]))).map
    (fun w => ((w.agents 1).pc, w.ns 0, w.lk 0)) = some (.steps, .bound 1 true, some 1) := by decide

/-- a complete run ends with the path absent and the lock free -/
example : (run (init [{ dag := 0, steps := 1, hands := 1 }])
      (by_ 0 (upToProbe ++ histOps ++ [.unlink, .bind, .listen, .execStep, .handler, .finalWrite, .unlock, .shutClose, .histClose]))).map
    (fun w => (verdict (w.agents 0), w.ns 0, w.lk 0)) = some ((.done, 1, 1, 4, 2), .absent, none) := by decide

end BdModel.P16

#print axioms BdModel.P16.C16_full_holds
#print axioms BdModel.P16.C16_lock_exclusive
#print axioms BdModel.P16.C16_sequential
#print axioms BdModel.P16.C16_lock_refuses
#print axioms BdModel.P16.C16_refused_pristine
#print axioms BdModel.P16.C16_bind_never_fails
#print axioms BdModel.P16.C16_endpoint_and_lock
#print axioms BdModel.P16.C16_bound_means_active
#print axioms BdModel.P16.C16_locality
#print axioms BdModel.P16.C16_unlocked_still_races
#print axioms BdModel.P16.C16_resaved_still_races
#print axioms BdModel.P16.C16_resaved_same_path_refused
#print axioms BdModel.P16.C16_resaved_other_socket_not_refused
