import BdModel.Proofs.Auth
/-
  C17 — no API request gets through without valid credentials when auth is on.
  All statements quantify over EVERY header byte string, path and configuration.
-/
namespace BdModel.P17
open BdModel.Auth

/-- **C17 (soundness).** A request reaches the API only on an API path and only if no auth is
    configured, or the header decodes (Basic, base64, first colon) to exactly the configured user
    and password, or its second space-separated field is exactly the configured, non-empty token. -/
theorem C17_sound (cfg : Cfg) (path hdr : Bytes) (h : decide cfg path hdr = .api) :
    ((cfg.basic = none ∧ cfg.token = none) ∨
     (∃ u p, cfg.basic = some (u, p) ∧ parseBasic hdr = some (u, p)) ∨
     (∃ t, cfg.token = some t ∧ t ≠ [] ∧ field1 hdr = some t)) ∧
    ∃ p, isPrefixOf apiPrefix p = true ∧ (path = cfg.basePath ++ p ∨ (cfg.basePath = [] ∧ path = p)) :=
  ⟨authChain_sound cfg hdr (decide_api_path cfg path hdr h).1, (decide_api_path cfg path hdr h).2⟩

/-- **C17 (401).** On an API path the chain either passes the request or answers 401 — nothing else;
    with soundness: a request presenting neither secret is answered 401. -/
theorem C17_401 (cfg : Cfg) (hdr : Bytes) :
    authChain cfg hdr = .api ∨ authChain cfg hdr = .unauthorized :=
  authChain_api_or_401 cfg hdr

/-- **C17 (completeness, Basic).** `Basic base64(user:password)` with the configured credentials is
    always accepted when basic auth is configured — with or without a token configured. -/
theorem C17_complete_basic (cfg : Cfg) (u p : Bytes) (hb : cfg.basic = some (u, p))
    (hu : WFBytes u) (hp : WFBytes p) (hc : (58 : Nat) ∉ u) :
    authChain cfg (basicPrefix ++ encode (u ++ [58] ++ p)) = .api :=
  complete_basic cfg u p hb hu hp hc

/-- **C17 (completeness, Bearer).** `Bearer token` with the configured non-empty, space-free token is
    always accepted when token auth is configured — with or without basic auth configured. -/
theorem C17_complete_token (cfg : Cfg) (t : Bytes) (ht : cfg.token = some t) (hne : t ≠ []) (hs : (32 : Nat) ∉ t) :
    authChain cfg (bearer ++ [32] ++ t) = .api :=
  complete_token cfg t ht hne hs

/-- **C17 (no auth).** With no auth configured every request passes. -/
theorem C17_noauth (cfg : Cfg) (hdr : Bytes) (hb : cfg.basic = none) (ht : cfg.token = none) :
    authChain cfg hdr = .api :=
  noauth_passes cfg hdr hb ht

/-- **C17 (every API path goes through the chain).** The request of the model is (URL path, Authorization header);
    the path only selects the side (`/api…` after the base path → chain, anything else → the web UI's handler) and the
    chain never looks at it again: for EVERY continuation `rest` of `/api` — `/v1/docs/../dags`, `/v1//dags`,
    `/v1/swagger.json/../dags`, … — the decision is `authChain cfg hdr`. So the model has no path-dependent exemption;
    that the code has none either is what the tie of `configureAPI` (the router is handed WHOLE to
    `SetupGlobalMiddleware`) and the real-server path stream of the check (`path_stream` in lib/p_c17.py: every route of
    the spec × ~35 raw spellings × credentials) establish — which handler the go-openapi router picks after the chain
    (it matches on the cleaned, still escaped path) is NOT modelled. -/
theorem C17_path_blind (cfg : Cfg) (rest hdr : Bytes) :
    decide cfg (cfg.basePath ++ apiPrefix ++ rest) hdr = authChain cfg hdr :=
  decide_api_any_path cfg rest hdr

/-- base64 round trip used by completeness -/
theorem C17_base64 (bs : Bytes) (h : WFBytes bs) : decode (encode bs) = some bs := decode_encode bs h

/-! non-vacuity / concrete witnesses: user "u", password "p:q", token "tok" -/
def cfgBoth : Cfg := { basic := some ([117], [112, 58, 113]), token := some [116, 111, 107] }
example : authChain cfgBoth (basicPrefix ++ encode ([117] ++ [58] ++ [112, 58, 113])) = .api := by decide
example : authChain cfgBoth (bearer ++ [32] ++ [116, 111, 107]) = .api := by decide
example : authChain cfgBoth (bearer ++ [32] ++ [116, 111]) = .unauthorized := by decide          -- truncated token
example : authChain cfgBoth [] = .unauthorized := by decide                                       -- no header
example : authChain cfgBoth (bearer ++ [32] ++ [112, 58, 113]) = .unauthorized := by decide       -- password as bearer
example : decide { cfgBoth with basePath := [47, 120] } [47, 120, 47, 97, 112, 105, 47, 118] [] = .unauthorized := by decide
example : decide { cfgBoth with basePath := [47, 120] } [47, 97, 112, 105] [] = .notFound := by decide
-- "/api/v1/docs/../dags" without a header: 401 like any other API path
example : decide cfgBoth ([47, 97, 112, 105] ++ [47, 118, 49, 47, 100, 111, 99, 115, 47, 46, 46, 47, 100, 97, 103, 115]) [] = .unauthorized := by decide

end BdModel.P17

#print axioms BdModel.P17.C17_sound
#print axioms BdModel.P17.C17_401
#print axioms BdModel.P17.C17_complete_basic
#print axioms BdModel.P17.C17_complete_token
#print axioms BdModel.P17.C17_noauth
#print axioms BdModel.P17.C17_path_blind
#print axioms BdModel.P17.C17_base64
