import BdModel.Proofs.RetryClosure
import BdModel.Proofs.Sched.Progress
/-
  C10 — retry re-executes exactly the unfinished part of a recorded run.
  Property theorems only (helpers: Proofs/RetryBfs, RetryKeep, RetryClosure).
  Quantification: every number of steps `n`, every edge list `es` of an acyclic dependency graph
  (multiplicities allowed), EVERY recorded status vector `st` (also vectors no run can leave behind),
  every recorded retry/done counts, and — for the statements about the retry run — every
  interleaving of the fine-grained scheduler system started from the vector `setupRetry` produces.
-/
namespace BdModel.P10
open BdModel.Retry BdModel.Sched BdModel.Cycle

/-- **C10 (what is reset).** `setupRetry` resets a step iff the record shows it failed, canceled or
    still running (killed process), or it lies downstream of such a step. The walk's fuel `n + 1`
    suffices (the frontier drains), so this is the result of the real unbounded loop. -/
theorem C10_reset (n : Nat) (es : List (Nat × Nat)) (st : Nat → NStatus) (hg : GoodGraph n es) (v : Nat) (hv : v < n) :
    ((setupRetry n es st resetSet).1.cleared v = true ↔
      ∃ u, u < n ∧ (st u = .error ∨ st u = .cancel ∨ st u = .running) ∧ Reaches es u v) ∧
    (setupRetry n es st resetSet).2 = [] := by
  refine ⟨?_, setupRetry_drained n es st resetSet hg⟩
  rw [cleared_iff_retry n es st resetSet hg v hv, retry_iff_closure n es st resetSet hg v hv]
  constructor
  · rintro ⟨u, hu, hr, hp⟩
    refine ⟨u, hu, ?_, hp⟩
    cases h : st u <;> simp [resetSet, h] at hr ⊢
  · rintro ⟨u, hu, hr, hp⟩
    refine ⟨u, hu, ?_, hp⟩
    rcases hr with h | h | h <;> simp [resetSet, h]

/-- **C10 (what the retry run starts from).** Every step that is unfinished in the record (failed,
    canceled, running, never started) or downstream of a failed / canceled / running one starts the
    retry run as `not started` with fresh counters, i.e. it is (re-)executed under the ordinary
    scheduling rules (C01, C02, C03 apply to it); every other step starts with its recorded state. -/
theorem C10_start (n : Nat) (es : List (Nat × Nat)) (st : Nat → NStatus) (rc dc : Nat → Nat)
    (hg : GoodGraph n es) (v : Nat) (hv : v < n) :
    let s0 := initRetry n es st rc dc resetSet
    ((st v = .none ∨ ∃ u, u < n ∧ (st u = .error ∨ st u = .cancel ∨ st u = .running) ∧ Reaches es u v) →
        (s0.nd v).status = .none ∧ (s0.nd v).pc = .idle ∧ (s0.nd v).execs = 0) ∧
    ((¬ ∃ u, u < n ∧ (st u = .error ∨ st u = .cancel ∨ st u = .running) ∧ Reaches es u v) →
        (s0.nd v).status = st v ∧ (s0.nd v).retry = rc v ∧ (s0.nd v).doneCnt = dc v) := by
  intro s0
  have hc := (C10_reset n es st hg v hv).1
  constructor
  · rintro (h | h)
    · by_cases hcl : (setupRetry n es st resetSet).1.cleared v = true
      · simp [s0, initRetry, hcl]
      · simp [s0, initRetry, hcl, h]
    · have hcl := hc.2 h
      simp [s0, initRetry, hcl]
  · intro h
    have hcl : ¬ (setupRetry n es st resetSet).1.cleared v = true := fun hx => h (hc.1 hx)
    simp [s0, initRetry, hcl]

/-- **C10 (no orphan).** After `setupRetry` no step is left `running` without a worker — the state that
    made the pinned tree's retry spin for ever (finding F11, fixed by 5b4cd49). -/
theorem C10_no_orphan (n : Nat) (es : List (Nat × Nat)) (st : Nat → NStatus) (rc dc : Nat → Nat)
    (hg : GoodGraph n es) (v : Nat) (hv : v < n) :
    ((initRetry n es st rc dc resetSet).nd v).status ≠ .running := by
  by_cases hcl : (setupRetry n es st resetSet).1.cleared v = true
  · simp [initRetry, hcl]
  · have hr : st v ≠ .running := by
      intro h
      exact hcl ((C10_reset n es st hg v hv).1.2 ⟨v, hv, Or.inr (Or.inr h), Relation.ReflTransGen.refl⟩)
    simp [initRetry, hcl, hr]

/-- **C10 (kept steps are left alone).** In EVERY interleaving of the retry run, a step that is
    recorded finished or skipped and is not reset is never executed, has no worker, and keeps its
    recorded state. -/
theorem C10_kept (c : Cfg) (n : Nat) (es : List (Nat × Nat)) (st : Nat → NStatus) (rc dc : Nat → Nat)
    (i : Nat) (hk : st i = .success ∨ st i = .skipped)
    (hnc : (setupRetry n es st resetSet).1.cleared i = false)
    (s : State) (h : ReachFrom c (initRetry n es st rc dc resetSet) s) :
    (s.nd i).execs = 0 ∧ (s.nd i).status = st i ∧ (s.nd i).pc = .idle := by
  have h0 : Kept st i (initRetry n es st rc dc resetSet) := by
    refine ⟨?_, ?_, ?_, ?_⟩ <;> simp [initRetry, hnc]
  have := keep_inv_gen c st i hk _ h0 s h
  exact ⟨this.1, this.2.1, this.2.2.1⟩


/-- **C10 (the retry run gets going).** The state `setupRetry` hands to the scheduler is never stuck:
    no step is `running` without a worker (C10_no_orphan), so unless everything is already finished
    the first scan of the loop launches or labels a step — for every acyclic graph and EVERY recorded
    vector. (On the pinned tree the orphan `running` step made `isFinished` false for ever while no
    visit could change anything: the retry span — F11.) -/
theorem C10_starts_moving (c : Cfg) (hw : WF c) (hrk : Ranked c) (es : List (Nat × Nat)) (st : Nat → NStatus)
    (rc dc : Nat → Nat) (hg : GoodGraph c.n es)
    (hnf : isFinished c (initRetry c.n es st rc dc resetSet) = false) :
    ∃ i s', step c (initRetry c.n es st rc dc resetSet) (.visitDecide i) = some s' ∧
      s' ≠ initRetry c.n es st rc dc resetSet :=
  scan_progress c hw hrk _ rfl rfl hnf (fun j hj => C10_no_orphan c.n es st rc dc hg j hj)

/-- on the pinned tree (reset set without `running`) the chain finished → running → not started keeps
    its orphan `running` step: `isFinished` can never become true without a stop (F11 witness) -/
theorem C10_pinned_orphan :
    ((initRetry 3 [(0, 1), (1, 2)] (fun i => if i = 0 then .success else if i = 1 then .running else .none)
        (fun _ => 0) (fun _ => 0) resetSetPinned).nd 1).status = .running := by decide

/-! non-vacuity: diamond 0 → {1,2} → 3 with 1 recorded failed: exactly 1 and 3 are reset, 0 and 2 kept -/
example : (List.range 4).map (fun v => (setupRetry 4 [(0, 1), (0, 2), (1, 3), (2, 3)]
    (fun i => if i = 1 then .error else if i = 3 then .cancel else .success) resetSet).1.cleared v) =
    [false, true, false, true] := by decide

end BdModel.P10

#print axioms BdModel.P10.C10_reset
#print axioms BdModel.P10.C10_start
#print axioms BdModel.P10.C10_no_orphan
#print axioms BdModel.P10.C10_kept
#print axioms BdModel.P10.C10_starts_moving
#print axioms BdModel.P10.C10_pinned_orphan
