import BdModel.Proofs.RetryClosure
import BdModel.Proofs.Sched.Progress
import BdModel.Proofs.Sched.ProgressFrom
import BdModel.Proofs.Sched.BookFrom
import BdModel.Proofs.Sched.LabelFrom
import BdModel.Proofs.Sched.Termination
import BdModel.Proofs.Sched.OutcomeFrom
/-
  C10 — retry re-executes exactly the unfinished part of a recorded run.
  Property theorems only (helpers: Proofs/RetryBfs, RetryKeep, RetryClosure).
  Quantification: every number of steps `n`, every edge list `es` of an acyclic dependency graph
  (multiplicities allowed), EVERY recorded status vector `st` (also vectors no run can leave behind),
  every recorded retry/done counts, and — for the statements about the retry run — every
  interleaving of the fine-grained scheduler system started from the vector `setupRetry` produces.
-/
namespace BdModel.P10
open BdModel.Retry BdModel.Sched BdModel.Cycle

/-- a step the record does not show completed: failed, canceled, still running (killed process) or
    never started -/
def Unfinished (x : NStatus) : Prop := x = .error ∨ x = .cancel ∨ x = .running ∨ x = .none

/-- **C10 (what is reset).** `setupRetry` resets a step iff the record shows it failed, canceled,
    still running (killed process) or not started, or it lies downstream of such a step. The walk's fuel `n + 1`
    suffices (the frontier drains), so this is the result of the real unbounded loop. -/
theorem C10_reset (n : Nat) (es : List (Nat × Nat)) (st : Nat → NStatus) (hg : GoodGraph n es) (v : Nat) (hv : v < n) :
    ((setupRetry n es st resetSet).1.cleared v = true ↔
      ∃ u, u < n ∧ Unfinished (st u) ∧ Reaches es u v) ∧
    (setupRetry n es st resetSet).2 = [] := by
  refine ⟨?_, setupRetry_drained n es st resetSet hg⟩
  rw [cleared_iff_retry n es st resetSet hg v hv, retry_iff_closure n es st resetSet hg v hv]
  constructor
  · rintro ⟨u, hu, hr, hp⟩
    refine ⟨u, hu, ?_, hp⟩
    cases h : st u <;> simp [resetSet, Unfinished, h] at hr ⊢
  · rintro ⟨u, hu, hr, hp⟩
    refine ⟨u, hu, ?_, hp⟩
    rcases hr with h | h | h | h <;> simp [resetSet, h]

/-- **C10 (what the retry run starts from).** Every step that is unfinished in the record (failed,
    canceled, running, never started) or downstream of an unfinished one starts the retry run as
    `not started` with FRESH counters (retry count and done count zero: its full retry budget — since
    fix 58ed5db also for a step recorded `not started`, F45), i.e. it is (re-)executed under the
    ordinary scheduling rules (C01, C02, C03 apply to it); every other step starts with its recorded
    state. -/
theorem C10_start (n : Nat) (es : List (Nat × Nat)) (st : Nat → NStatus) (rc dc : Nat → Nat)
    (hg : GoodGraph n es) (v : Nat) (hv : v < n) :
    let s0 := initRetry n es st rc dc resetSet
    ((∃ u, u < n ∧ Unfinished (st u) ∧ Reaches es u v) → (s0.nd v) = {}) ∧
    ((¬ ∃ u, u < n ∧ Unfinished (st u) ∧ Reaches es u v) →
        (st v = .success ∨ st v = .skipped) ∧
        (s0.nd v).status = st v ∧ (s0.nd v).retry = rc v ∧ (s0.nd v).doneCnt = dc v) := by
  intro s0
  have hc := (C10_reset n es st hg v hv).1
  constructor
  · intro h
    have hcl := hc.2 h
    simp [s0, initRetry, hcl, hv]
  · intro h
    have hcl : ¬ (setupRetry n es st resetSet).1.cleared v = true := fun hx => h (hc.1 hx)
    refine ⟨?_, by simp [s0, initRetry, hcl, hv]⟩
    have : ¬ Unfinished (st v) := fun hu => h ⟨v, hv, hu, Relation.ReflTransGen.refl⟩
    revert this
    cases st v <;> simp [Unfinished]

/-- **C10 (no orphan).** After `setupRetry` no step is left `running` without a worker — the state that
    made the pinned tree's retry spin for ever (finding F11, fixed by 5b4cd49). -/
theorem C10_no_orphan (n : Nat) (es : List (Nat × Nat)) (st : Nat → NStatus) (rc dc : Nat → Nat)
    (hg : GoodGraph n es) (v : Nat) (hv : v < n) :
    ((initRetry n es st rc dc resetSet).nd v).status ≠ .running := by
  by_cases hcl : (setupRetry n es st resetSet).1.cleared v = true
  · simp [initRetry, hcl, hv]
  · have hr : st v ≠ .running := by
      intro h
      exact hcl ((C10_reset n es st hg v hv).1.2 ⟨v, hv, Or.inr (Or.inr (Or.inl h)), Relation.ReflTransGen.refl⟩)
    simp [initRetry, hcl, hr, hv]

/-- **C10 (kept steps are left alone).** In EVERY interleaving of the retry run, a step that is
    recorded finished or skipped and is not reset is never executed, has no worker, and keeps its
    recorded state. -/
theorem C10_kept (c : Cfg) (n : Nat) (es : List (Nat × Nat)) (st : Nat → NStatus) (rc dc : Nat → Nat)
    (i : Nat) (hi : i < n) (hk : st i = .success ∨ st i = .skipped)
    (hnc : (setupRetry n es st resetSet).1.cleared i = false)
    (s : State) (h : ReachFrom c (initRetry n es st rc dc resetSet) s) :
    (s.nd i).execs = 0 ∧ (s.nd i).status = st i ∧ (s.nd i).pc = .idle := by
  have h0 : Kept st i (initRetry n es st rc dc resetSet) := by
    refine ⟨?_, ?_, ?_, ?_⟩ <;> simp [initRetry, hnc, hi]
  have := keep_inv_gen c st i hk _ h0 s h
  exact ⟨this.1, this.2.1, this.2.2.1⟩


/-- **C10 (the retry run gets going).** The state `setupRetry` hands to the scheduler is never stuck:
    no step is `running` without a worker (C10_no_orphan), so unless everything is already finished
    the first scan of the loop launches or labels a step — for every acyclic graph and EVERY recorded
    vector. (On the pinned tree the orphan `running` step made `isFinished` false for ever while no
    visit could change anything: the retry span — F11.) -/
theorem C10_starts_moving (c : Cfg) (hw : WF c) (hrk : Ranked c) (es : List (Nat × Nat)) (st : Nat → NStatus)
    (rc dc : Nat → Nat) (hg : GoodGraph c.n es)
    (hnf : isFinished c (initRetry c.n es st rc dc resetSet) = false) :
    ∃ i s', step c (initRetry c.n es st rc dc resetSet) (.visitDecide i) = some s' ∧
      s' ≠ initRetry c.n es st rc dc resetSet :=
  scan_progress c hw hrk _ rfl rfl hnf (fun j hj => C10_no_orphan c.n es st rc dc hg j hj)


/-! ### the retry RUN: the theorems of C01, C02, C03 and C15 hold for it

The fine-system invariants behind C01/C02/C03/C15 are proved in `Proofs/Sched/*From.lean` for every
state `Schedule` can be entered in (`Start`): steps that start from scratch next to steps kept with
a finished / skipped record and arbitrary recorded counters. `C10_start_ok` shows that what
`setupRetry` hands over is such a state, for every acyclic graph and EVERY recorded vector. -/

/-- what `setupRetry` hands to the scheduler is a state `Schedule` can be entered in -/
theorem C10_start_ok (n : Nat) (es : List (Nat × Nat)) (st : Nat → NStatus) (rc dc : Nat → Nat)
    (hg : GoodGraph n es) : Start (initRetry n es st rc dc resetSet) := by
  refine ⟨rfl, rfl, rfl, rfl, rfl, rfl, rfl, fun j => ?_⟩
  by_cases hj : j < n
  · have h := C10_start n es st rc dc hg j hj
    by_cases hex : ∃ u, u < n ∧ Unfinished (st u) ∧ Reaches es u j
    · exact Or.inl (h.1 hex)
    · obtain ⟨hk, -⟩ := h.2 hex
      have hcl : ¬ (setupRetry n es st resetSet).1.cleared j = true :=
        fun hx => hex ((C10_reset n es st hg j hj).1.1 hx)
      exact Or.inr ⟨st j, rc j, dc j, hk, by simp [initRetry, hj, hcl]⟩
  · exact Or.inl (by simp [initRetry, hj])

/-- **C10 (dependency order).** In every state of every interleaving of the retry run: whenever a
    step has a worker that can still start its command or is running it, or the loop has decided to
    launch it, every step named in its `depends` is licensed (finished, or failed / skipped with the
    matching continueOn — kept steps by their record, reset steps by this run) and settled (no worker
    of it can start a command any more). C01 for retry runs, from EVERY recorded vector. -/
theorem C10_order (c : Cfg) (hn : NoRep c) (hf : c.tdFaults = false) (es : List (Nat × Nat))
    (st : Nat → NStatus) (rc dc : Nat → Nat) (hg : GoodGraph c.n es)
    (s : State) (h : ReachFrom c (initRetry c.n es st rc dc resetSet) s) (i : Nat)
    (hp : (s.nd i).pc.active = true ∨ s.loop = .launching i) :
    ∀ d ∈ (c.node i).deps, Licensed c s d ∧ Settled s d :=
  deps_done_from c hn hf (C10_start_ok c.n es st rc dc hg) s h i hp

/-- a dependency that is licensed and settled stays so for the rest of the retry run and is never
    executed again -/
theorem C10_order_stable (c : Cfg) (hn : NoRep c) (hf : c.tdFaults = false) (es : List (Nat × Nat))
    (st : Nat → NStatus) (rc dc : Nat → Nat) (hg : GoodGraph c.n es)
    (s s' : State) (h : ReachFrom c (initRetry c.n es st rc dc resetSet) s) (a : Act)
    (hs : step c s a = some s') (d : Nat) (hd : Licensed c s d ∧ Settled s d) :
    Licensed c s' d ∧ Settled s' d ∧ (s'.nd d).execs = (s.nd d).execs :=
  done_stable_from c hn hf (C10_start_ok c.n es st rc dc hg) s s' h a hs d hd

/-- **C10 (re-executed steps follow the ordinary rules).** In every state of an unstopped,
    un-timed-out retry run a reset step carries a label consistent with its dependencies (C02) and the
    attempt accounting of a fresh step (C03): finished ⇒ executed retry count + 1 times; failed ⇒ its
    full budget `limit + 1` was used (or its set-up failed); canceled ⇒ never executed; and its retry
    count never exceeds the limit. Nothing of the recorded run's counters survives in it (F45). -/
theorem C10_reexecuted (c : Cfg) (hn : NoRep c) (hdry : c.dry = false) (hf : c.tdFaults = false)
    (es : List (Nat × Nat)) (st : Nat → NStatus) (rc dc : Nat → Nat) (hg : GoodGraph c.n es)
    (s : State) (h : ReachFrom c (initRetry c.n es st rc dc resetSet) s)
    (hc : s.canceled = false) (ht : s.timedOut = false)
    (i : Nat) (hi : i < c.n) (hres : ∃ u, u < c.n ∧ Unfinished (st u) ∧ Reaches es u i) :
    (s.nd i).retry ≤ (c.node i).limit ∧
    ((s.nd i).status = .success → (s.nd i).execs = (s.nd i).retry + 1) ∧
    ((s.nd i).status = .error →
        ((s.nd i).setupFailed = true ∧ (s.nd i).execs = (s.nd i).retry) ∨
        ((s.nd i).execs = (c.node i).limit + 1 ∧ (s.nd i).retry = (c.node i).limit)) ∧
    ((s.nd i).status = .cancel →
        (s.nd i).execs = 0 ∧ ∃ d ∈ (c.node i).deps,
          ((s.nd d).status = .error ∧ (c.node d).contFail = false) ∨ (s.nd d).status = .cancel) ∧
    (((s.nd i).status = .success ∨ (s.nd i).status = .error ∨ (s.nd i).status = .running) →
        ∀ d ∈ (c.node i).deps, Licensed c s d) := by
  have h0 := C10_start_ok c.n es st rc dc hg
  have hfresh : (initRetry c.n es st rc dc resetSet).nd i = {} := (C10_start c.n es st rc dc hg i hi).1 hres
  have hF := final_counts_from c hn hdry hf h0 s h hc ht i hfresh
  have hL := label_consistent_from c hn hf h0 s h hc ht i hfresh
  exact ⟨retry_le_limit_from c s h i hfresh, hF.1, hF.2.1, hL.1, hL.2.2⟩

/-- **C10 (the limit holds in the retry run).** C15 for retry runs. -/
theorem C10_limit (c : Cfg) (hn : NoRep c) (es : List (Nat × Nat))
    (st : Nat → NStatus) (rc dc : Nat → Nat) (hg : GoodGraph c.n es)
    (s : State) (h : ReachFrom c (initRetry c.n es st rc dc resetSet) s) (hk : 0 < c.maxActive) :
    executing c s ≤ c.maxActive :=
  executing_le_from c hn (C10_start_ok c.n es st rc dc hg) s h hk

/-- **C10 (the retry run is never stuck).** In every reachable unstopped, unfinished state at the
    head of the loop a running step's worker has an enabled action, or one visit of the loop launches
    or labels a step: deadlock freedom of the retry run from EVERY recorded vector (termination:
    `C10_terminates`). -/
theorem C10_never_blocks (c : Cfg) (hw : WF c) (hrk : Ranked c) (hn : NoRep c) (es : List (Nat × Nat))
    (st : Nat → NStatus) (rc dc : Nat → Nat) (hg : GoodGraph c.n es)
    (s : State) (h : ReachFrom c (initRetry c.n es st rc dc resetSet) s)
    (hscan : s.loop = .scanning) (hnc : s.canceled = false) (hnf : isFinished c s = false) :
    (∃ j, j < c.n ∧ (s.nd j).status = .running ∧ ∃ a s', step c s a = some s' ∧
        (a = .setupDone j true ∨ a = .check j ∨ a = .execStart j ∨ a = .execEnd j true ∨ a = .postWrite j ∨
         a = .retryWake j ∨ a = .tail j)) ∨
    (∃ i s', step c s (.visitDecide i) = some s' ∧ s' ≠ s) :=
  never_blocks_from c hw hrk hn (C10_start_ok c.n es st rc dc hg) s h hscan hnc hnf

/-- **C10 (nothing is left unfinished).** When an unstopped retry run has left its loop every step
    is in a final state: no step `not started`, none `running`. -/
theorem C10_all_final (c : Cfg) (hn : NoRep c) (es : List (Nat × Nat))
    (st : Nat → NStatus) (rc dc : Nat → Nat) (hg : GoodGraph c.n es)
    (s : State) (h : ReachFrom c (initRetry c.n es st rc dc resetSet) s)
    (hc : s.canceled = false) (hl : LoopDone s) (i : Nat) (hi : i < c.n) : Terminal (s.nd i).status :=
  final_terminal_from c hn (C10_start_ok c.n es st rc dc hg) s h hc hl i hi

/-- **C10 (the retry always terminates).** For every acyclic graph and EVERY recorded vector, in every
    state of every interleaving of the retry run: every transition strictly decreases the
    natural-number `measure`, leaves the state unchanged (a loop visit with nothing to do, a repeated
    stop) or is a signal delivery (never increases it); while `Schedule` has not returned a decreasing
    transition is enabled; hence at most `measure` productive transitions happen, after which
    `Schedule` has returned. (Environment assumption of the model: a running command ends.) -/
theorem C10_terminates (c : Cfg) (hw : WF c) (hrk : Ranked c) (hn : NoRep c) (es : List (Nat × Nat))
    (st : Nat → NStatus) (rc dc : Nat → Nat) (hg : GoodGraph c.n es)
    (s : State) (h : ReachFrom c (initRetry c.n es st rc dc resetSet) s) :
    (∀ a s', step c s a = some s' →
        measure c s' < measure c s ∨ s' = s ∨
          ((∃ i sig ovr, a = .signalNode i sig ovr) ∧ measure c s' ≤ measure c s)) ∧
    (s.loop ≠ .returned → ∃ a s', step c s a = some s' ∧ measure c s' < measure c s) ∧
    (∀ as, descents c s as ≤ measure c s) ∧
    (∃ as s', runActs c s as = some s' ∧ s'.loop = .returned ∧ as.length ≤ measure c s) := by
  have h0 := C10_start_ok c.n es st rc dc hg
  exact ⟨fun a s' hs => step_measure c hn h0 s h a s' hs,
         fun hnr => productive_enabled c hw hrk hn h0 s h hnr,
         fun as => descents_le c hn h0 as s h,
         can_return c hw hrk hn h0 _ s h rfl⟩

/-- non-vacuity: chain 0 → 1 → 2 recorded finished / failed / not started; the retry run launches
    step 1 (its dependency is a kept step), and after it finished, step 2 -/
def demoR : Cfg := { n := 3, node := fun i => { deps := if i = 0 then [] else [i - 1] } }
def demoSt : Nat → NStatus := fun i => if i = 0 then .success else if i = 1 then .error else .none
example : ((runActs demoR (initRetry 3 [(0, 1), (1, 2)] demoSt (fun _ => 2) (fun _ => 3) resetSet)
    [.visitDecide 0, .visitDecide 1, .visitLaunch 1 true, .setupDone 1 true, .check 1, .execStart 1,
     .execEnd 1 true, .tail 1, .visitDecide 2]).map
      fun s => ((s.nd 0).execs, (s.nd 1).execs, (s.nd 1).retry, (s.nd 1).status, s.loop)) =
    some (0, 1, 0, .success, .launching 2) := by decide

/-! ### the retry RUN: outcome, handlers and stop (C04, C05)

The invariants behind C04 / C05 are proved in `Proofs/Sched/OutcomeFrom.lean` for every `Start` state
that has nothing outside the graph; `initRetry` is one (`C10_start_ok`, `C10_outside`). -/

/-- `setupRetry` hands over nothing outside the graph -/
theorem C10_outside (n : Nat) (es : List (Nat × Nat)) (st : Nat → NStatus) (rc dc : Nat → Nat)
    (i : Nat) (hi : n ≤ i) : (initRetry n es st rc dc resetSet).nd i = {} := by
  simp [initRetry, Nat.not_lt.mpr hi]

/-- **C10 (outcome of the retry run).** For every acyclic graph, EVERY recorded vector and every
    interleaving of the retry run that was not stopped and did not time out: the status `o` read after
    all steps have finished (`atWait = some o`) is succeeded or failed; it is succeeded iff EVERY step
    of the graph — kept with its record or re-executed by this run — is finished or skipped, and
    failed iff SOME step is failed (necessarily a re-executed one: a kept step is finished or
    skipped, `C10_kept`). C04 (outcome) for retry runs. -/
theorem C10_outcome (c : Cfg) (hw : WF c) (hn : NoRep c) (hrk : Ranked c) (es : List (Nat × Nat))
    (st : Nat → NStatus) (rc dc : Nat → Nat) (hg : GoodGraph c.n es)
    (s : State) (h : ReachFrom c (initRetry c.n es st rc dc resetSet) s)
    (hc : s.canceled = false) (ht : s.timedOut = false) (o : SStatus) (ho : s.atWait = some o) :
    (o = .success ∨ o = .error) ∧
    (o = .success ↔ ∀ i, i < c.n → (s.nd i).status = .success ∨ (s.nd i).status = .skipped) ∧
    (o = .error ↔ ∃ i, i < c.n ∧ (s.nd i).status = .error) :=
  outcome_unstopped_from c hw hn hrk (C10_start_ok c.n es st rc dc hg) (C10_outside c.n es st rc dc)
    s h hc ht o ho

/-- **C10 (handlers of the retry run).** In every state of every interleaving of the retry run
    (stopped or not): (1) before the plan is computed no handler has run, no outcome has been read and
    the loop is neither in its handler phase nor returned; (2) once a plan `p` exists it is
    `handlerPlan c o` for the outcome `o` read after all steps finished — [handler of `o`] ++ [onExit]
    restricted to the configured ones (shape: `C04_plan_shape`) — the handlers run so far are a prefix
    of `p` in plan order, and when `Schedule` has returned exactly `p` has run (each handler once,
    onExit last); (3) once the handlers have begun no step command starts any more (the number of
    command starts equals the number at that moment) and no step of the graph has a worker that could
    start one. C04 (handlers, handlers after steps) for retry runs. -/
theorem C10_handlers (c : Cfg) (es : List (Nat × Nat)) (st : Nat → NStatus) (rc dc : Nat → Nat)
    (hg : GoodGraph c.n es) (s : State) (h : ReachFrom c (initRetry c.n es st rc dc resetSet) s) :
    (s.hplan = none → s.hlog = [] ∧ s.atWait = none ∧ ¬ (∃ l, s.loop = .handlers l) ∧ s.loop ≠ .returned) ∧
    (∀ p, s.hplan = some p →
        (∃ o, s.atWait = some o ∧ p = handlerPlan c o) ∧
        ((∃ rest, s.loop = .handlers rest ∧ s.hlog ++ rest = p) ∨ (s.loop = .returned ∧ s.hlog = p))) ∧
    (((∃ l, s.loop = .handlers l) ∨ s.loop = .returned) →
        totalExecs c s = s.execsAtWait ∧ ∀ i, i < c.n → (s.nd i).pc.active = false) := by
  have h0 := C10_start_ok c.n es st rc dc hg
  have hp := hlog_plan_from c h0 s h
  exact ⟨hp.1, hp.2, no_exec_after_wait_from c h0 s h⟩

/-- **C10 (stopping the retry run).** For every state `s` of every interleaving of the retry run:
    (a) if the stop has been accepted in `s`, then in every later state `s'` every step `i` (kept or
    reset) has started its command at most once more than in `s`, and only if its worker had already
    passed its cancel test in `s` (`pc = starting`); (b) no step, kept or reset, whose worker is gone
    (or has only its deferred part / teardown left, or was never launched) is reported `running`;
    (c) a RESET step (unfinished in the record or downstream of an unfinished step) that is reported
    finished has executed its command in this run — also when the stop landed between the loop's
    launch decision and the worker's cancel test. Kept-step exception to (c): a step kept with the
    record `finished` is reported finished with NO execution in this run (`C10_kept`: `execs = 0`);
    its command ran in the recorded run. C05 (a), nothing-left-running and no-phantom-success for
    retry runs. -/
theorem C10_stop (c : Cfg) (hn : NoRep c) (hd : c.dry = false) (es : List (Nat × Nat))
    (st : Nat → NStatus) (rc dc : Nat → Nat) (hg : GoodGraph c.n es)
    (s : State) (h : ReachFrom c (initRetry c.n es st rc dc resetSet) s) (i : Nat) :
    (s.canceled = true → ∀ s', ReachFrom c s s' →
        (s'.nd i).execs ≤ (s.nd i).execs + (if (s.nd i).pc = .starting then 1 else 0)) ∧
    (((s.nd i).pc = .idle ∨ (s.nd i).pc = .gone ∨ (s.nd i).pc = .deferred ∨ (s.nd i).pc = .td) →
        (s.nd i).status ≠ .running) ∧
    (i < c.n → (∃ u, u < c.n ∧ Unfinished (st u) ∧ Reaches es u i) →
        (s.nd i).status = .success → (s.nd i).execs ≥ 1) := by
  have h0 := C10_start_ok c.n es st rc dc hg
  refine ⟨fun hc s' hs' => no_new_start_after_cancel c s s' hc hs' i,
          no_running_when_gone_from c hn h0 s h i, fun hi hres => ?_⟩
  exact success_executed_from c hd s h i ((C10_start c.n es st rc dc hg i hi).1 hres)

/-- **C10 (escalation in the retry run).** In every state of the retry run in which the stop has been
    accepted the final SIGKILL is enabled for every step and reaches every command that is still
    running (a worker executing a command has an executor: `exec_has_cmd_from`). C05 (c) for retry
    runs. -/
theorem C10_stop_kill (c : Cfg) (hd : c.dry = false) (es : List (Nat × Nat))
    (st : Nat → NStatus) (rc dc : Nat → Nat) (hg : GoodGraph c.n es)
    (s : State) (h : ReachFrom c (initRetry c.n es st rc dc resetSet) s) (hc : s.canceled = true) (i : Nat) :
    ∃ s', step c s (.signalNode i 9 false) = some s' ∧
      ((s.nd i).pc = .exec → (9 : Nat) ∈ (s'.nd i).sigs) := by
  have hcmd := exec_has_cmd_from c hd (C10_start_ok c.n es st rc dc hg) s h i
  cases hs : step c s (.signalNode i 9 false) with
  | none =>
    exfalso
    simp only [step, hc, true_and, or_true, if_true] at hs
    grind
  | some s' =>
    refine ⟨s', rfl, fun hp => ?_⟩
    simp only [step] at hs
    split at hs
    · simp only [hcmd hp, hp, and_self, if_true] at hs
      split at hs <;> (injection hs with hs; subst hs; simp [State.setNode, updN])
    · cases hs

/-- on the pinned tree (reset set without `running`) the chain finished → running → not started keeps
    its orphan `running` step: `isFinished` can never become true without a stop (F11 witness) -/
theorem C10_pinned_orphan :
    ((initRetry 3 [(0, 1), (1, 2)] (fun i => if i = 0 then .success else if i = 1 then .running else .none)
        (fun _ => 0) (fun _ => 0) resetSetPinned).nd 1).status = .running := by decide

/-- before fix 58ed5db (reset set without `not started`) a step recorded `not started` with retry
    count 1 — the record of a run interrupted between a failed attempt's hand-back and its relaunch —
    starts the retry run with that count: part of its budget is spent before its first attempt (F45
    witness); with the fixed reset set it starts from scratch -/
theorem C10_F45_witness :
    ((initRetry 2 [] (fun i => if i = 0 then .none else .success) (fun _ => 1) (fun _ => 1) resetSetF45).nd 0).retry = 1 ∧
    ((initRetry 2 [] (fun i => if i = 0 then .none else .success) (fun _ => 1) (fun _ => 1) resetSet).nd 0).retry = 0 := by
  decide

/-! non-vacuity: diamond 0 → {1,2} → 3 with 1 recorded failed: exactly 1 and 3 are reset, 0 and 2 kept -/
example : (List.range 4).map (fun v => (setupRetry 4 [(0, 1), (0, 2), (1, 3), (2, 3)]
    (fun i => if i = 1 then .error else if i = 3 then .cancel else .success) resetSet).1.cleared v) =
    [false, true, false, true] := by decide

end BdModel.P10

#print axioms BdModel.P10.C10_reset
#print axioms BdModel.P10.C10_start
#print axioms BdModel.P10.C10_no_orphan
#print axioms BdModel.P10.C10_kept
#print axioms BdModel.P10.C10_starts_moving
#print axioms BdModel.P10.C10_start_ok
#print axioms BdModel.P10.C10_order
#print axioms BdModel.P10.C10_order_stable
#print axioms BdModel.P10.C10_reexecuted
#print axioms BdModel.P10.C10_limit
#print axioms BdModel.P10.C10_never_blocks
#print axioms BdModel.P10.C10_all_final
#print axioms BdModel.P10.C10_terminates
#print axioms BdModel.P10.C10_outside
#print axioms BdModel.P10.C10_outcome
#print axioms BdModel.P10.C10_handlers
#print axioms BdModel.P10.C10_stop
#print axioms BdModel.P10.C10_stop_kill
#print axioms BdModel.P10.C10_pinned_orphan
#print axioms BdModel.P10.C10_F45_witness
