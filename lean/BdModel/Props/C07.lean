import BdModel.Proofs.HistCrash
import BdModel.Props.C06
/-
  C07 — recorded history survives a crash at any instant.
  Property theorems only (helpers: Proofs/HistCrash.lean). `crashStates s op` lists EVERY state a
  kill of the process can leave behind while it performs `op` on store state `s` (prefixes of the
  operation's mutating system calls; a write torn at any byte is the state before it, because the
  reader ignores a trailing fragment). Quantification: every store state `s` (any prior history),
  every operation, every crash state of it.
-/
namespace BdModel.P07
open BdModel.Hist

/-- the status line the operation is in the middle of recording, if any -/
def opLine : COp → Option Line
  | .write _ l => some l
  | .update _ l => some l
  | _ => none

/-- **C07 (recording operations never lose a status).** A kill at any point of `Open`, `Write`,
    `Close` (compaction) or `Update` leaves, for every file `f` that held a status `l` before the
    operation began, a file of the same run in the same DAG directory whose status is `l`, or the
    status the operation was recording, or the status of another file of that run (the original whose
    content compaction was copying into the twin). -/
theorem C07_recording (s : Store) (op : COp) (hwo : ∀ w k, writerKey s w = some k → k.comp = false)
    (hop : ∀ d days, op ≠ .removeOld d days) (hop2 : ∀ d d2, op ≠ .rename d d2)
    (s' : Store) (hs : s' ∈ crashStates s op) (f : RunFile) (hf : f ∈ s.files) (l : Line) (hl : parse f = some l) :
    ∃ f' ∈ s'.files, SameRun f f' ∧
      (parse f' = some l ∨ (∃ l', opLine op = some l' ∧ parse f' = some l') ∨
       (∃ g ∈ s.files, SameRun f g ∧ (parse g).isSome ∧ parse f' = parse g)) := by
  have self : ∃ f' ∈ s.files, SameRun f f' ∧ (parse f' = some l ∨ (∃ l', opLine op = some l' ∧ parse f' = some l') ∨
       (∃ g ∈ s.files, SameRun f g ∧ (parse g).isSome ∧ parse f' = parse g)) := ⟨f, hf, SameRun.refl f, Or.inl hl⟩
  cases op with
  | openRun w d t r8 =>
    simp only [crashStates, List.mem_cons, List.not_mem_nil, or_false] at hs
    rcases hs with rfl | rfl
    · exact self
    · refine ⟨f, ?_, SameRun.refl f, Or.inl hl⟩
      simp only [openRun]
      split
      · exact hf
      · simp [hf]
  | write w l' =>
    simp only [crashStates, List.mem_cons, List.not_mem_nil, or_false] at hs
    rcases hs with rfl | rfl
    · exact self
    · simp only [write]
      cases hw : writerKey s w with
      | none => exact self
      | some k =>
        obtain ⟨f', hf', hk, h⟩ := appendLine_survive s k l' f hf
        refine ⟨f', hf', sameRun_of_key hk, ?_⟩
        rcases h with rfl | ⟨_, hp⟩
        · exact Or.inl hl
        · exact Or.inr (Or.inl ⟨l', rfl, hp⟩)
  | update d l' =>
    simp only [crashStates, List.mem_cons, List.not_mem_nil, or_false] at hs
    rcases hs with rfl | rfl
    · exact self
    · simp only [update]
      cases hfd : find s d l'.req with
      | none => exact self
      | some p =>
        obtain ⟨f', hf', hk, h⟩ := appendLine_survive s p.1.key l' f hf
        refine ⟨f', hf', sameRun_of_key hk, ?_⟩
        rcases h with rfl | ⟨_, hp⟩
        · exact Or.inl hl
        · exact Or.inr (Or.inl ⟨l', rfl, hp⟩)
  | removeOld d days => exact absurd rfl (hop d days)
  | rename d d2 => exact absurd rfl (hop2 d d2)
  | close w =>
    simp only [crashStates, closeStates] at hs
    cases hw : writerKey s w with
    | none =>
      simp only [hw, List.mem_cons, List.not_mem_nil, or_false] at hs
      subst hs; exact self
    | some k =>
      simp only [hw] at hs
      cases hp : (s.files.find? (fun f => f.key == k)).bind parse with
      | none =>
        simp only [hp, List.mem_cons, List.not_mem_nil, or_false] at hs
        rcases hs with rfl | rfl
        · exact self
        · refine ⟨f, ?_, SameRun.refl f, Or.inl hl⟩
          simp [close, hw, hp, hf]
      | some lk =>
        simp only [hp, List.mem_cons, List.not_mem_nil, or_false] at hs
        -- the writer's file and its status
        obtain ⟨g, hgfind, hgp⟩ : ∃ g, s.files.find? (fun f => f.key == k) = some g ∧ parse g = some lk := by
          cases hfi : s.files.find? (fun f => f.key == k) with
          | none => simp [hfi] at hp
          | some g => exact ⟨g, rfl, by simpa [hfi] using hp⟩
        have hgmem : g ∈ s.files := List.mem_of_find?_eq_some hgfind
        have hgkey : g.key = k := by simpa using List.find?_some hgfind
        -- survival through "twin created" and "twin written"
        have hc := mem_closeTwinCreated s k f hf
        obtain ⟨f', hf', hk', h'⟩ := appendLine_survive (closeTwinCreated s k) { k with comp := true } lk f hc
        have written : ∃ f' ∈ (closeTwinWritten s k lk).files, f'.key = f.key ∧
            (parse f' = some l ∨ (SameRun f g ∧ parse f' = parse g)) := by
          refine ⟨f', hf', hk', ?_⟩
          rcases h' with rfl | ⟨hfk, hp'⟩
          · exact Or.inl hl
          · refine Or.inr ⟨?_, by rw [hp', hgp]⟩
            have : f.key = { k with comp := true } := hfk
            simp only [RunFile.key, Key.mk.injEq] at this
            have hg2 : g.key = k := hgkey
            simp only [RunFile.key] at hg2
            subst hg2
            exact ⟨this.1.symm ▸ rfl, this.2.1.symm ▸ rfl, this.2.2.1.symm ▸ rfl⟩
        rcases hs with rfl | rfl | rfl | rfl
        · exact self
        · exact ⟨f, hc, SameRun.refl f, Or.inl hl⟩
        · obtain ⟨f'', hm, hk'', h''⟩ := written
          refine ⟨f'', hm, sameRun_of_key hk'', ?_⟩
          rcases h'' with h | ⟨hsr, hpg⟩
          · exact Or.inl h
          · exact Or.inr (Or.inr ⟨g, hgmem, hsr, by simp [hgp], hpg⟩)
        · rw [close_files s w k lk hw hp]
          by_cases hfk : f.key = k
          · -- the original is unlinked: the twin (written before) carries the run's status
            obtain ⟨t, ht, htk⟩ := twin_in_created s k
            obtain ⟨t', ht', htk', hpt⟩ := appendLine_addressed (closeTwinCreated s k) { k with comp := true } lk t ht htk
            have hcomp : k.comp = false := hwo w k hw
            refine ⟨t', ?_, ?_, Or.inr (Or.inr ⟨g, hgmem, sameRun_of_key (hgkey.trans hfk.symm), by simp [hgp], by rw [hpt, hgp]⟩)⟩
            · simp only [List.mem_filter]
              refine ⟨ht', ?_⟩
              have : t'.key ≠ k := by
                rw [htk']; intro e
                have := congrArg Key.comp e
                simp [hcomp] at this
              simpa using this
            · have h1 : f.key = k := hfk
              simp only [RunFile.key] at h1 htk'
              subst h1
              simp only [Key.mk.injEq] at htk'
              exact ⟨htk'.1, htk'.2.1, htk'.2.2.1⟩
          · obtain ⟨f'', hm, hk'', h''⟩ := written
            refine ⟨f'', ?_, sameRun_of_key hk'', ?_⟩
            · simp only [List.mem_filter]
              refine ⟨hm, ?_⟩
              simp [hk'', hfk]
            · rcases h'' with h | ⟨hsr, hpg⟩
              · exact Or.inl h
              · exact Or.inr (Or.inr ⟨g, hgmem, hsr, by simp [hgp], hpg⟩)

/-- the hypothesis of `C07_recording` holds in every store reachable from the empty one: a recording
    process always has an ORIGINAL (non-twin) file open -/
def WritersOrig (s : Store) : Prop := ∀ p ∈ s.writers, p.2.comp = false

theorem writerKey_comp (s : Store) (h : WritersOrig s) (w : Nat) (k : Key) (hk : writerKey s w = some k) : k.comp = false := by
  unfold writerKey at hk
  cases hf : s.writers.find? (fun p => p.1 == w) with
  | none => simp [hf] at hk
  | some p =>
    simp [hf] at hk
    subst hk
    exact h p (List.mem_of_find?_eq_some hf)

theorem WritersOrig_apply (s : Store) (op : Op) (h : WritersOrig s) : WritersOrig (apply s op) := by
  cases op with
  | openRun w d t r8 =>
    intro p hp
    simp only [apply, openRun, List.mem_cons, List.mem_filter] at hp
    rcases hp with rfl | hp
    · rfl
    · exact h p hp.1
  | write w l =>
    simp only [apply, write]
    split
    · exact h
    · exact h
  | close w =>
    simp only [apply, close]
    split
    · exact h
    · split
      · intro p hp; exact h p (List.mem_filter.mp hp).1
      · split <;> (intro p hp; exact h p (List.mem_filter.mp hp).1)
  | update d l =>
    simp only [apply, update]
    split <;> exact h
  | removeOld d days => exact h
  | age d days => exact h
  | rename d d2 =>
    simp only [apply, rename]
    split <;> exact h

theorem WritersOrig_reachable (ops : List Op) : WritersOrig (ops.foldl apply {}) := by
  have : ∀ (s : Store), WritersOrig s → WritersOrig (ops.foldl apply s) := by
    induction ops with
    | nil => intro s h; exact h
    | cons op rest ih => intro s h; exact ih _ (WritersOrig_apply s op h)
  exact this {} (by intro p hp; simp at hp)

/-- **C07 (retention interrupted).** A kill in the middle of `RemoveOld d days` has removed nothing but
    files of `d` that were due for removal. -/
theorem C07_removeOld (s : Store) (d days : Nat) (s' : Store) (hs : s' ∈ crashStates s (.removeOld d days))
    (f : RunFile) (hf : f ∈ s.files) :
    f ∈ s'.files ∨ ∃ g ∈ filesOf s d, g.age ≥ days ∧ g.key = f.key := by
  simp only [crashStates, List.mem_map] at hs
  obtain ⟨j, _, rfl⟩ := hs
  simp only [removeOldPrefix, List.mem_filter]
  by_cases h : (((glob s d).filter (fun f => f.age ≥ days)).take j).any (fun g => g.key == f.key) = true
  · right
    rw [List.any_eq_true] at h
    obtain ⟨g, hg, hk⟩ := h
    have hg' := List.mem_filter.mp (List.mem_of_mem_take hg)
    rw [mem_glob] at hg'
    exact ⟨g, by simp [filesOf, hg'.1.1, hg'.1.2], by simpa using hg'.2, by simpa using hk⟩
  · left
    exact ⟨hf, by simpa using h⟩

/-- **C07 (rename interrupted).** A kill in the middle of `Rename d d2` leaves every file either where
    it was or, unchanged, under the new name — never nowhere. -/
theorem C07_rename (s : Store) (d d2 : Nat) (s' : Store) (hs : s' ∈ crashStates s (.rename d d2))
    (f : RunFile) (hf : f ∈ s.files) :
    f ∈ s'.files ∨ (f.dag = d ∧ ({ f with dag := d2 } : RunFile) ∈ s'.files) := by
  simp only [crashStates] at hs
  split at hs
  · simp at hs; subst hs; exact Or.inl hf
  · simp only [List.mem_map] at hs
    obtain ⟨j, _, rfl⟩ := hs
    simp only [renamePrefix, List.mem_map]
    by_cases h : ((glob s d).take j).any (fun g => g.key == f.key) = true
    · right
      constructor
      · rw [List.any_eq_true] at h
        obtain ⟨g, hg, hk⟩ := h
        have hg' := mem_glob.mp (List.mem_of_mem_take hg)
        have : g.key = f.key := by simpa using hk
        have := congrArg Key.dag this
        simp only [RunFile.key] at this
        rw [← this]; exact hg'.2
      · exact ⟨f, hf, by simp [h]⟩
    · left
      exact ⟨f, hf, by simp [h]⟩

/-- **C07 (queries keep answering).** In EVERY store state — in particular every crash state — the
    latest-status query answers with a recorded status whenever one exists (it never fails on a file
    that holds no status yet), and a lookup finds every status that some file ends in. -/
theorem C07_queries_total (s' : Store) (d : Nat) :
    (P06.recorded s' d ≠ [] → (latest s' d).isSome) ∧
    (∀ f ∈ filesOf s' d, ∀ l, parse f = some l → (find s' d l.req).isSome) := by
  constructor
  · intro h
    cases hl : latest s' d with
    | none => exact absurd ((P06.C06_latest s' d).2.mp hl) h
    | some _ => rfl
  · intro f hf l hl
    exact P06.C06_lookup_complete s' d l.req f l hf hl rfl

/-! non-vacuity: a run with two statuses is being compacted; the four crash states of `Close` all
    answer the lookup with the run's last status (pay = 2) -/
def demo : Store := [Op.openRun 0 0 1000 7, .write 0 ⟨70, 1⟩, .write 0 ⟨70, 2⟩].foldl apply {}

example : (crashStates demo (.close 0)).map (fun s' => ((find s' 0 70).map (·.2.pay), (latest s' 0).map (·.pay), s'.files.length)) =
    [(some 2, some 2, 1), (some 2, some 2, 2), (some 2, some 2, 2), (some 2, some 2, 1)] := by decide
example : (crashStates demo (.openRun 1 0 2000 8)).map (fun s' => (latest s' 0).map (·.pay)) = [some 2, some 2] := by decide

/-- **C07 (recent-history never lists a run twice).** In EVERY store state — in particular the crash
    state in which both the compacted twin and the original of a run exist (kill between the twin's
    write and the original's unlink) — `recent n` lists no request id twice, so the duplicate cannot
    displace the n-th most recent run (finding F29, fixed by 9dcbd59). -/
theorem C07_recent_full (s' : Store) (d n : Nat) : ((recent s' d n).map (·.req)).Nodup := by
  obtain ⟨fs, hrec, _, _, _, _, hnd, _⟩ := P06.C06_recent s' d n
  rw [hrec]
  have : (fs.filterMap parse).map (·.req) = fs.filterMap reqOf := by
    rw [List.map_filterMap]
    rfl
  rw [this]
  exact hnd

/-- two completed runs, the newer one being compacted -/
def demo2 : Store :=
  [Op.openRun 0 0 1000 7, .write 0 ⟨70, 1⟩, .close 0, .openRun 1 0 2000 8, .write 1 ⟨80, 2⟩].foldl apply {}

/-- the crash state that used to list run 80 twice and hide run 70 now lists both runs once -/
example : (recent (closeTwinWritten demo2 ⟨0, 2000, 8, false⟩ ⟨80, 2⟩) 0 2).map (·.req) = [80, 70] := by decide

end BdModel.P07

#print axioms BdModel.P07.C07_recording
#print axioms BdModel.P07.WritersOrig_reachable
#print axioms BdModel.P07.C07_removeOld
#print axioms BdModel.P07.C07_rename
#print axioms BdModel.P07.C07_queries_total
#print axioms BdModel.P07.C07_recent_full
