import BdModel.Proofs.Log
/-
  C12 — a finished step's log holds everything the step printed.
  `run cfg attempts` = the node after first launch + retries (each attempt: setup, Execute, teardown), on the
  wiring as it is NOW (after fix 80fb8fd / F16: `done` is reset by setup, every attempt is torn down before
  the node is handed back).  An attempt is the list of Write calls its output arrives in — the theorems
  hold for EVERY chunking, every byte content, every configuration, every number of attempts.
-/
namespace BdModel.P12
open BdModel.Log

/-- the property for the last attempt `a` after the earlier attempts `as` -/
def Delivered (c : Cfg) (as : List Attempt) (a : Attempt) : Prop :=
  let s := run c (as ++ [a])
  s.log.disk = logBytes c a ∧
  (c.stdoutFile = true → ∃ pre, s.out.disk = pre ++ sinkBytes c a) ∧
  (c.stderrFile = true → ∃ pre, s.err.disk = pre ++ errBytes a)

/-- **C12 (full) — proved.** After the final teardown the log file named in the node's state holds exactly what
    the last attempt printed (stdout and stderr in order; stdout only when `stderr:` is set), the `stdout:`
    file ends with everything that attempt sent to the stdout writer, the `stderr:` file with its stderr
    bytes — for every configuration {stdout file, stderr file, output, script}, every number of earlier
    attempts, every output and every way it is cut into Write calls. -/
theorem C12_full (c : Cfg) (as : List Attempt) (a : Attempt) : Delivered c as a := by
  unfold Delivered
  rw [run_snoc]
  obtain ⟨h1, h2, h3⟩ := attempt_ok c (run c as) a
  exact ⟨h1, fun hc => ⟨_, h2 hc⟩, fun hc => ⟨_, h3 hc⟩⟩

/-- … and the stdout file holds the sink bytes of EVERY attempt, one after the other (nothing of an earlier
    attempt is lost either): after `as ++ [a]` it is the file after `as` followed by `a`'s bytes. -/
theorem C12_stdout_accumulates (c : Cfg) (as : List Attempt) (a : Attempt) (hc : c.stdoutFile = true) :
    (run c (as ++ [a])).out.disk = (run c as).out.disk ++ sinkBytes c a := by
  rw [run_snoc]
  exact (attempt_ok c (run c as) a).2.1 hc

/-- nothing is left in a buffer when the step is reported finished -/
theorem C12_flushed (c : Cfg) (as : List Attempt) (a : Attempt) :
    (run c (as ++ [a])).log.buf = [] ∧ (c.stdoutFile = true → (run c (as ++ [a])).out.buf = []) := by
  rw [run_snoc]
  exact attempt_bufs c _ a

/-- "contains every byte written to stdout": the stdout bytes are a subsequence of what reaches the
    stdout writer (they are interleaved with stderr when stderr is not redirected). -/
theorem C12_stdout_within_sink (c : Cfg) (a : Attempt) : (outBytes a).Sublist (sinkBytes c a) :=
  outBytes_sublist c a

/-- no temporary script file is left behind, however many attempts -/
theorem C12_script_removed (c : Cfg) (as : List Attempt) : (run c as).scriptsLeft = 0 := by
  suffices h : ∀ (s : St), s.scriptsLeft = 0 → (as.foldl (attempt c) s).scriptsLeft = 0 from h {} rfl
  induction as with
  | nil => intro s h; exact h
  | cons a r ih =>
    intro s h
    apply ih
    have hd : (exec c (setup c s) a).done = false := (exec_inv c a (setup c s)).1
    have hl : ∀ (x : Attempt) (t : St), (exec c t x).left = t.left := by
      intro x; induction x with
      | nil => intro t; rfl
      | cons ch r2 ih2 =>
        intro t
        show (exec c (feed c t ch) r2).left = t.left
        rw [ih2]; unfold feed toStdout; (repeat' split) <;> rfl
    unfold attempt teardown
    simp only [hd]
    simp only [St.scriptsLeft, Bool.false_eq_true, if_false, Nat.add_zero]
    rw [hl]
    simpa [setup, St.scriptsLeft] using h

/-! regression corpus (F16, fixed by 80fb8fd): the former refutation witness now satisfies the property -/
example : (run { stdoutFile := true } [[], [(false, [7])]]).log.disk = [7] ∧
          (run { stdoutFile := true } [[], [(false, [7])]]).out.disk = [7] := by decide
example : (run { output := true } [[(false, [1])], [(false, [2, 3])]]).log.disk = [2, 3] := by decide
example : (run { script := true } [[], [], []]).scriptsLeft = 0 := by decide
/-! non-vacuity -/
example : Delivered { stdoutFile := true, output := true } [] [(false, [1, 2]), (true, [3]), (false, [4])] := by
  refine ⟨by decide, fun _ => ⟨[], by decide⟩, fun h => by cases h⟩
example : (run { stderrFile := true } [[(false, [1])], [(false, [2]), (true, [9])]]).log.disk = [2] ∧
          (run { stderrFile := true } [[(false, [1])], [(false, [2]), (true, [9])]]).err.disk = [9] := by decide
example : (run { stdoutFile := true } [[(false, [1])], [(false, [2])]]).out.disk = [1, 2] := by decide

end BdModel.P12

#print axioms BdModel.P12.C12_full
#print axioms BdModel.P12.C12_stdout_accumulates
#print axioms BdModel.P12.C12_flushed
#print axioms BdModel.P12.C12_stdout_within_sink
#print axioms BdModel.P12.C12_script_removed
