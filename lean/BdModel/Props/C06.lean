import BdModel.Proofs.Hist
import BdModel.Proofs.HistNames
/-
  C06 — history queries return exactly what was recorded, per DAG.
  Property theorems only (helpers: Proofs/Hist.lean). Record layer of the store AFTER the fixes
  f3a91b0 (millisecond ordering, F1), fe426dd (files without a status are skipped, F6) and 2ac8499
  (glob meta characters escaped, F2). Quantification: every store state (any number of DAGs, files,
  twins, stamps — also equal stamps —, any status lines), every operation / operation sequence.
-/
namespace BdModel.P06
open BdModel.Hist

/-- the files of DAG `d` that hold at least one complete status -/
def recorded (s : Store) (d : Nat) : List RunFile := (filesOf s d).filter (fun f => (parse f).isSome)

/-- **C06 (lookup, soundness).** A lookup by request id answers with the LAST status line of a file of
    that DAG, and that line carries the requested id: never another DAG's run, never an older status. -/
theorem C06_lookup_sound (s : Store) (d r : Nat) (f : RunFile) (l : Line) (h : find s d r = some (f, l)) :
    f ∈ filesOf s d ∧ f.lines.getLast? = some l ∧ l.req = r := by
  obtain ⟨h1, h2, h3, h4⟩ := find_dag h
  exact ⟨by simp [filesOf, h1, h2], h3, h4⟩

/-- **C06 (lookup, completeness).** If some file of the DAG ends in a status with that request id, the
    lookup finds one (no recorded run is ever "not found"). -/
theorem C06_lookup_complete (s : Store) (d r : Nat) (f : RunFile) (l : Line)
    (hf : f ∈ filesOf s d) (hl : f.lines.getLast? = some l) (hr : l.req = r) : (find s d r).isSome = true := by
  unfold find
  rw [Option.isSome_iff_ne_none, Ne, List.head?_eq_none_iff, List.filterMap_eq_nil_iff]
  intro hall
  have hm : f ∈ (glob s d).reverse := by
    rw [List.mem_reverse, mem_glob]
    simpa [filesOf] using hf
  have := hall f hm
  simp [parse, hl, hr] at this

/-- **C06 (latest).** The latest-status query returns the last status of a most recently started run
    among those that hold a status; it answers `none` only if nothing is recorded for the DAG. -/
theorem C06_latest (s : Store) (d : Nat) :
    (∀ l, latest s d = some l →
        ∃ f ∈ recorded s d, f.lines.getLast? = some l ∧ ∀ g ∈ recorded s d, g.stamp ≤ f.stamp) ∧
    (latest s d = none ↔ recorded s d = []) := by
  constructor
  · intro l h
    obtain ⟨f, hf, hp, hall⟩ := head_filterMap_desc parse _ (newestFirst_desc (glob s d)) l h
    rw [mem_newestFirst, mem_glob] at hf
    refine ⟨f, by simp [recorded, filesOf, hf, hp], hp, ?_⟩
    intro g hg
    simp only [recorded, filesOf, List.mem_filter] at hg
    exact hall g (by rw [mem_newestFirst, mem_glob]; simpa using hg.1) hg.2
  · unfold latest
    rw [head_filterMap_none]
    simp only [recorded, filesOf, List.filter_eq_nil_iff, List.mem_filter]
    constructor
    · intro h g hg
      have := h g (by rw [mem_newestFirst, mem_glob]; simpa using hg)
      simp [this]
    · intro h g hg
      rw [mem_newestFirst, mem_glob] at hg
      have := h g (by simpa using hg)
      simpa using this

/-- **C06 (recent).** `recent d n` lists the last statuses of at most `n` files of the DAG, newest
    first, no run (request id) twice; and nothing newer is left out: a recorded file that is not
    listed either belongs to a run that IS listed by a file at least as new, or the list is full and
    every listed file is at least as new. (`n` distinct most recently started runs, newest first.) -/
theorem C06_recent (s : Store) (d n : Nat) :
    ∃ fs : List RunFile,
      recent s d n = fs.filterMap parse ∧ fs.length = (recent s d n).length ∧ fs.length ≤ n ∧
      (∀ f ∈ fs, f ∈ recorded s d) ∧ Desc fs ∧ (fs.filterMap reqOf).Nodup ∧
      ∀ g ∈ recorded s d, g ∉ fs →
        (∃ f ∈ fs, reqOf f = reqOf g ∧ g.stamp ≤ f.stamp) ∨ (fs.length = n ∧ ∀ f ∈ fs, g.stamp ≤ f.stamp) := by
  let L := newestFirst (glob s d)
  let D := dedupFiles L []
  have hL : Desc L := newestFirst_desc (glob s d)
  have hsub : D.Sublist L := dedup_sublist L []
  have hD : Desc D := List.Pairwise.sublist hsub hL
  obtain ⟨hpar, hnd⟩ := dedup_spec L []
  have hmemL : ∀ f, f ∈ L ↔ f ∈ filesOf s d := by
    intro f; rw [mem_newestFirst, mem_glob]; simp [filesOf]
  have hrec : ∀ f ∈ D, f ∈ recorded s d := by
    intro f hf
    obtain ⟨ln, hln, _⟩ := hpar f hf
    simp only [recorded, List.mem_filter]
    exact ⟨(hmemL f).mp (hsub.subset hf), by simp [hln]⟩
  have hallsome : ∀ m : List RunFile, (∀ f ∈ m, ∃ ln, parse f = some ln ∧ ln.req ∉ ([] : List Nat)) →
      (m.filterMap parse).length = m.length := by
    intro m hm
    induction m with
    | nil => rfl
    | cons y ys ih =>
      obtain ⟨ln, hln, _⟩ := hm y List.mem_cons_self
      rw [List.filterMap_cons_some hln]
      simp [ih (fun f hf => hm f (List.mem_cons_of_mem _ hf))]
  refine ⟨D.take n, rfl, ?_, ?_, ?_, ?_, ?_, ?_⟩
  · show (D.take n).length = ((D.take n).filterMap parse).length
    exact (hallsome _ (fun f hf => hpar f (List.mem_of_mem_take hf))).symm
  · rw [List.length_take]; exact Nat.min_le_left _ _
  · intro f hf; exact hrec f (List.mem_of_mem_take hf)
  · exact List.Pairwise.sublist (List.take_sublist n D) hD
  · exact (List.Sublist.filterMap reqOf (List.take_sublist n D)).nodup hnd
  · intro g hg hnot
    simp only [recorded, List.mem_filter] at hg
    obtain ⟨ln, hln⟩ := Option.isSome_iff_exists.mp hg.2
    rcases dedup_complete L [] hL g ((hmemL g).mpr hg.1) ln hln with h | ⟨f, hf, hr, hle⟩
    · cases h
    · -- f ∈ D carries g's request id and is at least as new; is it within the first n?
      by_cases hft : f ∈ D.take n
      · exact Or.inl ⟨f, hft, by rw [hr]; simp [reqOf, hln], hle⟩
      · right
        -- f is beyond position n: the list is full and everything listed precedes f in D
        have hsplit : D = D.take n ++ D.drop n := (List.take_append_drop n D).symm
        have hfd : f ∈ D.drop n := by
          have : f ∈ D.take n ++ D.drop n := by rw [← hsplit]; exact hf
          rcases List.mem_append.mp this with h | h
          · exact absurd h hft
          · exact h
        constructor
        · rw [List.length_take]
          have : n < D.length := by
            rcases Nat.lt_or_ge n D.length with h | h
            · exact h
            · have : D.drop n = [] := List.drop_eq_nil_of_le h
              rw [this] at hfd; cases hfd
          omega
        · intro f' hf'
          have hpw : (D.take n ++ D.drop n).Pairwise (fun a b => b.stamp ≤ a.stamp) := by rw [← hsplit]; exact hD
          have := (List.pairwise_append.mp hpw).2.2 f' hf' f hfd
          omega

/-- **C06 (independence).** An operation (open, write, close, update, retention, rename) leaves every
    query on every DAG it does not address unchanged. -/
theorem C06_independence (s : Store) (op : Op) (d' : Nat) (h : d' ∉ touches s op) :
    (∀ r, find (apply s op) d' r = find s d' r) ∧ latest (apply s op) d' = latest s d' ∧
    ∀ n, recent (apply s op) d' n = recent s d' n :=
  queries_congr (filesOf_apply s op d' h)

/-- independence for whole operation sequences -/
theorem C06_independence_seq (ops : List Op) (s : Store) (d' : Nat)
    (h : ∀ pre op post, ops = pre ++ op :: post → d' ∉ touches (pre.foldl apply s) op) :
    filesOf (ops.foldl apply s) d' = filesOf s d' := by
  induction ops generalizing s with
  | nil => rfl
  | cons op rest ih =>
    simp only [List.foldl_cons]
    rw [ih (apply s op), filesOf_apply s op d' (h [] op rest rfl)]
    intro pre op' post he
    have := h (op :: pre) op' post (by simp [he])
    simpa using this

/-- **C06 (retention).** `removeOld d days` removes exactly the files of `d` not modified for `days`
    days or more — and (by independence) nothing of any other DAG. -/
theorem C06_retention (s : Store) (d days : Nat) :
    filesOf (removeOld s d days) d = (filesOf s d).filter (fun f => f.age < days) := by
  simp only [removeOld, filesOf, List.filter_filter]
  apply List.filter_congr
  intro f _
  by_cases h : f.dag = d <;> by_cases h2 : f.age < days <;> simp [h, h2] <;> omega

/-- **C06 (rename carries every run).** After `rename d d2` nothing is left under the old name and
    every file of `d` is available, with unchanged content, under `d2`. -/
theorem C06_rename (s : Store) (d d2 : Nat) (hne : d ≠ d2) :
    filesOf (rename s d d2) d = [] ∧
    ∀ f ∈ filesOf s d, ({ f with dag := d2 } : RunFile) ∈ filesOf (rename s d d2) d2 := by
  simp only [rename, hne, if_false]
  constructor
  · simp only [filesOf, List.filter_append, List.filter_filter]
    rw [List.append_eq_nil_iff]
    constructor
    · rw [List.filter_eq_nil_iff]; intro f _; by_cases h : f.dag = d <;> simp [h]
    · rw [List.filter_eq_nil_iff]; intro f hf
      rw [List.mem_map] at hf
      obtain ⟨g, _, rfl⟩ := hf
      simp [Ne.symm hne]
  · intro f hf
    simp only [filesOf, List.filter_append, List.mem_append, List.mem_filter, List.mem_map]
    right
    refine ⟨⟨f, ?_, rfl⟩, by simp⟩
    rw [mem_glob]
    simpa [filesOf] using hf


/-! ### string layer: which file names the per-DAG glob pattern selects (fix 2ac8499, finding F2) -/
section names
open BdModel.Hist.Names

/-- **C06 (the glob pattern of a DAG selects exactly the files named after it).** For EVERY path prefix
    `pwd` = `<data>/<name>-<md5>/<name>` — whatever characters the data directory and the DAG name
    contain, glob meta characters included — a file name matches `globPattern pwd` iff it is `pwd`,
    followed by a stretch without a path separator, followed by `.dat`. -/
theorem C06_glob (pwd name : List Char) :
    gmatch (globPattern pwd) name = true ↔ ∃ mid, name = pwd ++ mid ++ extDat ∧ sep ∉ mid := by
  unfold globPattern
  rw [gmatch_escape_append]
  constructor
  · rintro ⟨s', rfl, hg⟩
    rw [gmatch_star, gstar_iff] at hg
    obtain ⟨mid, t, rfl, hm, ht⟩ := hg
    have : t = extDat := by
      have := (gmatch_escape extDat t).mp (by rw [escapeGlob_id _ ext_plain]; exact ht)
      exact this
    subst this
    exact ⟨mid, by simp [List.append_assoc], hm⟩
  · rintro ⟨mid, rfl, hm⟩
    refine ⟨mid ++ extDat, by simp [List.append_assoc], ?_⟩
    rw [gmatch_star, gstar_iff]
    refine ⟨mid, extDat, rfl, hm, ?_⟩
    have := (gmatch_escape extDat extDat).mpr rfl
    rwa [escapeGlob_id _ ext_plain] at this

/-- every file the store creates for a DAG (original or compacted twin) is selected by its pattern -/
theorem C06_glob_selects_own (pwd ts req8 : List Char) (comp : Bool) (h1 : sep ∉ ts) (h2 : sep ∉ req8) :
    gmatch (globPattern pwd) (render pwd ts req8 comp) = true := by
  rw [C06_glob]
  refine ⟨'.' :: ts ++ '.' :: req8 ++ (if comp then twinSfx else []), by simp [render, List.append_assoc], ?_⟩
  have hs : sep ≠ '.' := by decide
  cases comp
  · simp [h1, h2, hs]
  · have : sep ∉ twinSfx := by decide
    simp [h1, h2, hs]
    decide

/-- nothing outside the DAG's own `<dir>/<name>` prefix is ever selected (no other DAG's files, however
    its name relates to this one: shared prefix, `_c`, meta characters) -/
theorem C06_glob_only_own (pwd name : List Char) (h : gmatch (globPattern pwd) name = true) : pwd <+: name := by
  obtain ⟨mid, rfl, _⟩ := (C06_glob pwd name).mp h
  exact ⟨mid ++ extDat, by simp [List.append_assoc]⟩

/-- the unescaped pattern of the pinned tree did not select the files of `job[1]` (F2 witness) -/
example : gmatch (['d', '/', 'j', '[', '1', ']'] ++ '*' :: extDat) (render ['d', '/', 'j', '[', '1', ']'] ['t'] ['r'] false) = false := by decide
example : gmatch (globPattern ['d', '/', 'j', '[', '1', ']']) (render ['d', '/', 'j', '[', '1', ']'] ['t'] ['r'] false) = true := by decide

end names

/-! non-vacuity: two runs of DAG 0 started in the same second (stamps 1000 and 1500 ms), the older one
    compacted, one run of DAG 1; queries distinguish them -/
def demo : Store :=
  [Op.openRun 0 0 1000 7, .write 0 ⟨70, 1⟩, .openRun 1 0 1500 8, .write 1 ⟨80, 2⟩, .close 0,
   .openRun 2 1 1200 9, .write 2 ⟨90, 3⟩, .write 1 ⟨80, 4⟩].foldl apply {}

example : (latest demo 0).map (·.pay) = some 4 := by decide
example : (recent demo 0 5).map (·.pay) = [4, 1] := by decide
example : (recent demo 0 1).map (·.pay) = [4] := by decide
example : (find demo 0 70).map (·.2.pay) = some 1 := by decide
example : (find demo 1 70).map (·.2.pay) = none := by decide
example : (latest demo 1).map (·.pay) = some 3 := by decide

end BdModel.P06

#print axioms BdModel.P06.C06_lookup_sound
#print axioms BdModel.P06.C06_lookup_complete
#print axioms BdModel.P06.C06_latest
#print axioms BdModel.P06.C06_recent
#print axioms BdModel.P06.C06_independence
#print axioms BdModel.P06.C06_independence_seq
#print axioms BdModel.P06.C06_retention
#print axioms BdModel.P06.C06_rename
#print axioms BdModel.P06.C06_glob
#print axioms BdModel.P06.C06_glob_selects_own
#print axioms BdModel.P06.C06_glob_only_own
