import BdModel.Proofs.Hist
import BdModel.Proofs.HistNames
import BdModel.Proofs.HistRefine
/-
  C06 — history queries return exactly what was recorded, per DAG.
  Property theorems only (helpers: Proofs/Hist.lean). Record layer of the store AFTER the fixes
  f3a91b0 (millisecond ordering, F1), fe426dd (files without a status are skipped, F6) and 2ac8499
  (glob meta characters escaped, F2). Quantification: every store state (any number of DAGs, files,
  twins, stamps — also equal stamps —, any status lines), every operation / operation sequence.
-/
namespace BdModel.P06
open BdModel.Hist

/-- the files of DAG `d` that hold at least one complete status -/
def recorded (s : Store) (d : Nat) : List RunFile := (filesOf s d).filter (fun f => (parse f).isSome)

/-- **C06 (lookup, soundness).** A lookup by request id answers with the LAST status line of a file of
    that DAG, and that line carries the requested id: never another DAG's run, never an older status. -/
theorem C06_lookup_sound (s : Store) (d r : Nat) (f : RunFile) (l : Line) (h : find s d r = some (f, l)) :
    f ∈ filesOf s d ∧ f.lines.getLast? = some l ∧ l.req = r := by
  obtain ⟨h1, h2, h3, h4⟩ := find_dag h
  exact ⟨by simp [filesOf, h1, h2], h3, h4⟩

/-- **C06 (lookup, completeness).** If some file of the DAG ends in a status with that request id, the
    lookup finds one (no recorded run is ever "not found"). -/
theorem C06_lookup_complete (s : Store) (d r : Nat) (f : RunFile) (l : Line)
    (hf : f ∈ filesOf s d) (hl : f.lines.getLast? = some l) (hr : l.req = r) : (find s d r).isSome = true := by
  unfold find
  rw [Option.isSome_iff_ne_none, Ne, List.head?_eq_none_iff, List.filterMap_eq_nil_iff]
  intro hall
  have hm : f ∈ (glob s d).reverse := by
    rw [List.mem_reverse, mem_glob]
    simpa [filesOf] using hf
  have := hall f hm
  simp [parse, hl, hr] at this

/-- **C06 (latest).** The latest-status query returns the last status of a most recently started run
    among those that hold a status; it answers `none` only if nothing is recorded for the DAG. -/
theorem C06_latest (s : Store) (d : Nat) :
    (∀ l, latest s d = some l →
        ∃ f ∈ recorded s d, f.lines.getLast? = some l ∧ ∀ g ∈ recorded s d, g.stamp ≤ f.stamp) ∧
    (latest s d = none ↔ recorded s d = []) := by
  constructor
  · intro l h
    obtain ⟨f, hf, hp, hall⟩ := head_filterMap_desc parse _ (newestFirst_desc (glob s d)) l h
    rw [mem_newestFirst, mem_glob] at hf
    refine ⟨f, by simp [recorded, filesOf, hf, hp], hp, ?_⟩
    intro g hg
    simp only [recorded, filesOf, List.mem_filter] at hg
    exact hall g (by rw [mem_newestFirst, mem_glob]; simpa using hg.1) hg.2
  · unfold latest
    rw [head_filterMap_none]
    simp only [recorded, filesOf, List.filter_eq_nil_iff, List.mem_filter]
    constructor
    · intro h g hg
      have := h g (by rw [mem_newestFirst, mem_glob]; simpa using hg)
      simp [this]
    · intro h g hg
      rw [mem_newestFirst, mem_glob] at hg
      have := h g (by simpa using hg)
      simpa using this

/-- **C06 (recent).** `recent d n` lists the last statuses of at most `n` files of the DAG, newest
    first, no run (request id) twice; and nothing newer is left out: a recorded file that is not
    listed either belongs to a run that IS listed by a file at least as new, or the list is full and
    every listed file is at least as new. (`n` distinct most recently started runs, newest first.) -/
theorem C06_recent (s : Store) (d n : Nat) :
    ∃ fs : List RunFile,
      recent s d n = fs.filterMap parse ∧ fs.length = (recent s d n).length ∧ fs.length ≤ n ∧
      (∀ f ∈ fs, f ∈ recorded s d) ∧ Desc fs ∧ (fs.filterMap reqOf).Nodup ∧
      ∀ g ∈ recorded s d, g ∉ fs →
        (∃ f ∈ fs, reqOf f = reqOf g ∧ g.stamp ≤ f.stamp) ∨ (fs.length = n ∧ ∀ f ∈ fs, g.stamp ≤ f.stamp) := by
  let L := newestFirst (glob s d)
  let D := dedupFiles L []
  have hL : Desc L := newestFirst_desc (glob s d)
  have hsub : D.Sublist L := dedup_sublist L []
  have hD : Desc D := List.Pairwise.sublist hsub hL
  obtain ⟨hpar, hnd⟩ := dedup_spec L []
  have hmemL : ∀ f, f ∈ L ↔ f ∈ filesOf s d := by
    intro f; rw [mem_newestFirst, mem_glob]; simp [filesOf]
  have hrec : ∀ f ∈ D, f ∈ recorded s d := by
    intro f hf
    obtain ⟨ln, hln, _⟩ := hpar f hf
    simp only [recorded, List.mem_filter]
    exact ⟨(hmemL f).mp (hsub.subset hf), by simp [hln]⟩
  have hallsome : ∀ m : List RunFile, (∀ f ∈ m, ∃ ln, parse f = some ln ∧ ln.req ∉ ([] : List Nat)) →
      (m.filterMap parse).length = m.length := by
    intro m hm
    induction m with
    | nil => rfl
    | cons y ys ih =>
      obtain ⟨ln, hln, _⟩ := hm y List.mem_cons_self
      rw [List.filterMap_cons_some hln]
      simp [ih (fun f hf => hm f (List.mem_cons_of_mem _ hf))]
  refine ⟨D.take n, rfl, ?_, ?_, ?_, ?_, ?_, ?_⟩
  · show (D.take n).length = ((D.take n).filterMap parse).length
    exact (hallsome _ (fun f hf => hpar f (List.mem_of_mem_take hf))).symm
  · rw [List.length_take]; exact Nat.min_le_left _ _
  · intro f hf; exact hrec f (List.mem_of_mem_take hf)
  · exact List.Pairwise.sublist (List.take_sublist n D) hD
  · exact (List.Sublist.filterMap reqOf (List.take_sublist n D)).nodup hnd
  · intro g hg hnot
    simp only [recorded, List.mem_filter] at hg
    obtain ⟨ln, hln⟩ := Option.isSome_iff_exists.mp hg.2
    rcases dedup_complete L [] hL g ((hmemL g).mpr hg.1) ln hln with h | ⟨f, hf, hr, hle⟩
    · cases h
    · -- f ∈ D carries g's request id and is at least as new; is it within the first n?
      by_cases hft : f ∈ D.take n
      · exact Or.inl ⟨f, hft, by rw [hr]; simp [reqOf, hln], hle⟩
      · right
        -- f is beyond position n: the list is full and everything listed precedes f in D
        have hsplit : D = D.take n ++ D.drop n := (List.take_append_drop n D).symm
        have hfd : f ∈ D.drop n := by
          have : f ∈ D.take n ++ D.drop n := by rw [← hsplit]; exact hf
          rcases List.mem_append.mp this with h | h
          · exact absurd h hft
          · exact h
        constructor
        · rw [List.length_take]
          have : n < D.length := by
            rcases Nat.lt_or_ge n D.length with h | h
            · exact h
            · have : D.drop n = [] := List.drop_eq_nil_of_le h
              rw [this] at hfd; cases hfd
          omega
        · intro f' hf'
          have hpw : (D.take n ++ D.drop n).Pairwise (fun a b => b.stamp ≤ a.stamp) := by rw [← hsplit]; exact hD
          have := (List.pairwise_append.mp hpw).2.2 f' hf' f hfd
          omega

/-- **C06 (independence).** An operation (open, write, close, update, retention, rename) leaves every
    query on every DAG it does not address unchanged. -/
theorem C06_independence (s : Store) (op : Op) (d' : Nat) (h : d' ∉ touches s op) :
    (∀ r, find (apply s op) d' r = find s d' r) ∧ latest (apply s op) d' = latest s d' ∧
    ∀ n, recent (apply s op) d' n = recent s d' n :=
  queries_congr (filesOf_apply s op d' h)

/-- independence for whole operation sequences -/
theorem C06_independence_seq (ops : List Op) (s : Store) (d' : Nat)
    (h : ∀ pre op post, ops = pre ++ op :: post → d' ∉ touches (pre.foldl apply s) op) :
    filesOf (ops.foldl apply s) d' = filesOf s d' := by
  induction ops generalizing s with
  | nil => rfl
  | cons op rest ih =>
    simp only [List.foldl_cons]
    rw [ih (apply s op), filesOf_apply s op d' (h [] op rest rfl)]
    intro pre op' post he
    have := h (op :: pre) op' post (by simp [he])
    simpa using this

/-- **C06 (retention).** `removeOld d days` removes exactly the files of `d` not modified for `days`
    days or more — and (by independence) nothing of any other DAG. -/
theorem C06_retention (s : Store) (d days : Nat) :
    filesOf (removeOld s d days) d = (filesOf s d).filter (fun f => f.age < days) := by
  simp only [removeOld, filesOf, List.filter_filter]
  apply List.filter_congr
  intro f _
  by_cases h : f.dag = d <;> by_cases h2 : f.age < days <;> simp [h, h2] <;> omega

/-- **C06 (rename carries every run).** After `rename d d2` nothing is left under the old name and
    every file of `d` is available, with unchanged content, under `d2`. -/
theorem C06_rename (s : Store) (d d2 : Nat) (hne : d ≠ d2) :
    filesOf (rename s d d2) d = [] ∧
    ∀ f ∈ filesOf s d, ({ f with dag := d2 } : RunFile) ∈ filesOf (rename s d d2) d2 := by
  simp only [rename, hne, if_false]
  constructor
  · simp only [filesOf, List.filter_append, List.filter_filter]
    rw [List.append_eq_nil_iff]
    constructor
    · rw [List.filter_eq_nil_iff]; intro f _; by_cases h : f.dag = d <;> simp [h]
    · rw [List.filter_eq_nil_iff]; intro f hf
      rw [List.mem_map] at hf
      obtain ⟨g, _, rfl⟩ := hf
      simp [Ne.symm hne]
  · intro f hf
    simp only [filesOf, List.filter_append, List.mem_append, List.mem_filter, List.mem_map]
    right
    refine ⟨⟨f, ?_, rfl⟩, by simp⟩
    rw [mem_glob]
    simpa [filesOf] using hf


/-! ### string layer: which file names the per-DAG glob pattern selects (fix 2ac8499, finding F2) -/
section names
open BdModel.Hist.Names

/-- **C06 (the glob pattern of a DAG selects exactly the files named after it).** For EVERY path prefix
    `pwd` = `<data>/<name>-<md5>/<name>` — whatever characters the data directory and the DAG name
    contain, glob meta characters included — a file name matches `globPattern pwd` iff it is `pwd`,
    followed by a stretch without a path separator, followed by `.dat`. -/
theorem C06_glob (pwd name : List Char) :
    gmatch (globPattern pwd) name = true ↔ ∃ mid, name = pwd ++ mid ++ extDat ∧ sep ∉ mid := by
  unfold globPattern
  rw [gmatch_escape_append]
  constructor
  · rintro ⟨s', rfl, hg⟩
    rw [gmatch_star, gstar_iff] at hg
    obtain ⟨mid, t, rfl, hm, ht⟩ := hg
    have : t = extDat := by
      have := (gmatch_escape extDat t).mp (by rw [escapeGlob_id _ ext_plain]; exact ht)
      exact this
    subst this
    exact ⟨mid, by simp [List.append_assoc], hm⟩
  · rintro ⟨mid, rfl, hm⟩
    refine ⟨mid ++ extDat, by simp [List.append_assoc], ?_⟩
    rw [gmatch_star, gstar_iff]
    refine ⟨mid, extDat, rfl, hm, ?_⟩
    have := (gmatch_escape extDat extDat).mpr rfl
    rwa [escapeGlob_id _ ext_plain] at this

/-- every file the store creates for a DAG (original or compacted twin) is selected by its pattern -/
theorem C06_glob_selects_own (pwd ts req8 : List Char) (comp : Bool) (h1 : sep ∉ ts) (h2 : sep ∉ req8) :
    gmatch (globPattern pwd) (render pwd ts req8 comp) = true := by
  rw [C06_glob]
  refine ⟨'.' :: ts ++ '.' :: req8 ++ (if comp then twinSfx else []), by simp [render, List.append_assoc], ?_⟩
  have hs : sep ≠ '.' := by decide
  cases comp
  · simp [h1, h2, hs]
  · have : sep ∉ twinSfx := by decide
    simp [h1, h2, hs]
    decide

/-- nothing outside the DAG's own `<dir>/<name>` prefix is ever selected (no other DAG's files, however
    its name relates to this one: shared prefix, `_c`, meta characters) -/
theorem C06_glob_only_own (pwd name : List Char) (h : gmatch (globPattern pwd) name = true) : pwd <+: name := by
  obtain ⟨mid, rfl, _⟩ := (C06_glob pwd name).mp h
  exact ⟨mid ++ extDat, by simp [List.append_assoc]⟩

/-- the unescaped pattern of the pinned tree did not select the files of `job[1]` (F2 witness) -/
example : gmatch (['d', '/', 'j', '[', '1', ']'] ++ '*' :: extDat) (render ['d', '/', 'j', '[', '1', ']'] ['t'] ['r'] false) = false := by decide
example : gmatch (globPattern ['d', '/', 'j', '[', '1', ']']) (render ['d', '/', 'j', '[', '1', ']'] ['t'] ['r'] false) = true := by decide

end names

/-! non-vacuity: two runs of DAG 0 started in the same second (stamps 1000 and 1500 ms), the older one
    compacted, one run of DAG 1; queries distinguish them -/
def demo : Store :=
  [Op.openRun 0 0 1000 7, .write 0 ⟨70, 1⟩, .openRun 1 0 1500 8, .write 1 ⟨80, 2⟩, .close 0,
   .openRun 2 1 1200 9, .write 2 ⟨90, 3⟩, .write 1 ⟨80, 4⟩].foldl apply {}

example : (latest demo 0).map (·.pay) = some 4 := by decide
example : (recent demo 0 5).map (·.pay) = [4, 1] := by decide
example : (recent demo 0 1).map (·.pay) = [4] := by decide
example : (find demo 0 70).map (·.2.pay) = some 1 := by decide
example : (find demo 1 70).map (·.2.pay) = none := by decide
example : (latest demo 1).map (·.pay) = some 3 := by decide

/-! ### operation level: the store refines the run log of the property (helpers: Proofs/HistRefine.lean)

  The specification is the reference of the property itself (`Spec` of lib/hist.py, here `Hist.Spec`):
  a log of runs `SRun` = {DAG, start time, request id, last status or none, age}; `open` appends a run,
  `write`/`update` replace its last status, `rename` moves the runs of a DAG, `removeOld` forgets old
  runs. `Sim s sp` relates a store state to a log: every run has exactly one file that is its record
  (the original file while the run is open, abandoned or without a status; the `_c` twin after a close
  with a status), the last complete line of that file is (request id, last payload) of the run, its
  mtime age is the run's age, every file is the record of a run, and the recorders hold the same runs.
  Quantification: every store state, every log, every operation, every operation sequence — under the
  side condition `Admissible` (what the callers guarantee; a decidable statement about the log). -/

theorem mem_recorded {s : Store} {d : Nat} {f : RunFile} :
    f ∈ recorded s d ↔ f ∈ s.files ∧ f.dag = d ∧ (parse f).isSome = true := by
  simp only [recorded, filesOf, List.mem_filter, beq_iff_eq]
  constructor
  · rintro ⟨⟨a, b⟩, c⟩; exact ⟨a, b, c⟩
  · rintro ⟨a, b, c⟩; exact ⟨⟨a, b⟩, c⟩

/-- a recorded file is the record of a recorded run, and conversely -/
theorem recorded_file_run {s sp} (h : Sim s sp) {d : Nat} {f : RunFile} (hf : f ∈ recorded s d) :
    ∃ r ∈ Spec.recorded sp d, Matches f r := by
  obtain ⟨h1, h2, h3⟩ := mem_recorded.mp hf
  obtain ⟨r, hr, m⟩ := h.file_run f h1
  refine ⟨r, Spec.mem_recorded.mpr ⟨hr, by rw [← m.fields.1]; exact h2, ?_⟩, m⟩
  rw [m.status] at h3
  simpa [SRun.status] using h3

theorem recorded_run_file {s sp} (h : Sim s sp) {d : Nat} {r : SRun} (hr : r ∈ Spec.recorded sp d) :
    ∃ f ∈ recorded s d, Matches f r := by
  obtain ⟨h1, h2, h3⟩ := Spec.mem_recorded.mp hr
  obtain ⟨f, hf, m⟩ := h.run_file r h1
  refine ⟨f, mem_recorded.mpr ⟨hf, by rw [m.fields.1]; exact h2, ?_⟩, m⟩
  rw [m.status]
  simpa [SRun.status] using h3

/-- **C06 (refinement, initial state).** The empty store is the empty log. -/
theorem C06_sim_init : Sim {} [] := sim_init

/-- **C06 (refinement, one operation).** For every store state `s` and log `sp` with `Sim s sp` and
    every operation that is admissible in `sp`: the store after the operation is the log after the
    operation. -/
theorem C06_sim_step (s : Store) (sp : Spec) (op : HOp) (h : Sim s sp) (ha : Admissible sp op) :
    Sim (applyStore s op) (applySpec sp op) := sim_step h op ha

/-- **C06 (lookup = last status recorded for that run).** Under `Sim s sp`: the lookup of request id
    `req` in DAG `d` answers with status (req, p) iff the log has a run of `d` with that request id whose
    last recorded payload is `p`; it answers "not found" iff no recorded run of `d` has that id; and
    there is at most one run of `d` with that id. -/
theorem C06_spec_lookup (s : Store) (sp : Spec) (h : Sim s sp) (d req : Nat) :
    (∀ p, (∃ f, find s d req = some (f, ⟨req, p⟩)) ↔ ∃ r ∈ sp, r.dag = d ∧ r.req = req ∧ r.last = some p) ∧
    (find s d req = none ↔ ∀ r ∈ Spec.recorded sp d, r.req ≠ req) ∧
    (∀ a ∈ sp, ∀ b ∈ sp, a.dag = d → b.dag = d → a.req = req → b.req = req → a = b) := by
  have hsound : ∀ f l, find s d req = some (f, l) →
      ∃ r ∈ sp, Matches f r ∧ r.dag = d ∧ r.req = req ∧ r.last = some l.pay ∧ l.req = req := by
    intro f l hf
    obtain ⟨h1, h2, h3, h4⟩ := find_dag hf
    obtain ⟨r, hr, m⟩ := h.file_run f h1
    have hs := status_eq_some (by rw [← m.status]; exact h3)
    exact ⟨r, hr, m, by rw [← m.fields.1]; exact h2, by rw [← hs.2]; exact h4, hs.1, h4⟩
  have huniq : ∀ a ∈ sp, ∀ b ∈ sp, a.dag = d → b.dag = d → a.req = req → b.req = req → a = b := by
    intro a ha b hb h1 h2 h3 h4
    exact h.eq_of_clash ha hb ⟨by rw [h1, h2], Or.inl (by rw [h3, h4])⟩
  refine ⟨?_, ?_, huniq⟩
  · intro p
    constructor
    · rintro ⟨f, hf⟩
      obtain ⟨r, hr, _, h1, h2, h3, _⟩ := hsound f _ hf
      exact ⟨r, hr, h1, h2, h3⟩
    · rintro ⟨r, hr, h1, h2, h3⟩
      obtain ⟨f, hf, m⟩ := h.run_file r hr
      have hp : f.lines.getLast? = some ⟨req, p⟩ := by
        have := m.status; simpa [parse, SRun.status, h3, h2] using this
      have hfo : f ∈ filesOf s d := by
        simp only [filesOf, List.mem_filter, beq_iff_eq]
        exact ⟨hf, by rw [m.fields.1]; exact h1⟩
      have hsome := C06_lookup_complete s d req f _ hfo hp rfl
      obtain ⟨⟨f', l'⟩, hfl⟩ := Option.isSome_iff_exists.mp hsome
      obtain ⟨r', hr', _, g1, g2, g3, g4⟩ := hsound f' l' hfl
      have : r' = r := huniq r' hr' r hr g1 h1 g2 h2
      subst this
      rw [h3] at g3
      have : l' = ⟨req, p⟩ := by
        cases l'; simp only [Line.mk.injEq]; simp at g3 g4; exact ⟨g4, g3.symm⟩
      exact ⟨f', by rw [hfl, this]⟩
  · constructor
    · intro hn r hr hq
      obtain ⟨f, hf, m⟩ := recorded_run_file h hr
      obtain ⟨h1, h2, h3⟩ := mem_recorded.mp hf
      obtain ⟨l, hl⟩ := Option.isSome_iff_exists.mp h3
      have hs := status_eq_some (by rw [← m.status]; exact hl)
      exact find_none hn f h1 h2 l hl (by rw [hs.2]; exact hq)
    · intro hall
      cases hf : find s d req with
      | none => rfl
      | some fl =>
        obtain ⟨f, l⟩ := fl
        obtain ⟨r, hr, _, h1, h2, h3, _⟩ := hsound f l hf
        exact absurd h2 (hall r (Spec.mem_recorded.mpr ⟨hr, h1, by simp [h3]⟩))

/-- **C06 (latest = last status of the most recently started run).** Under `Sim s sp`: the
    latest-status query of DAG `d` returns the last status of a recorded run of `d` that no recorded run
    of `d` was started after; it answers `none` iff the log has no recorded run of `d`. -/
theorem C06_spec_latest (s : Store) (sp : Spec) (h : Sim s sp) (d : Nat) :
    (∀ l, latest s d = some l →
        ∃ r ∈ Spec.recorded sp d, r.status = some l ∧ ∀ r' ∈ Spec.recorded sp d, r'.t ≤ r.t) ∧
    (latest s d = none ↔ Spec.recorded sp d = []) := by
  obtain ⟨h1, h2⟩ := C06_latest s d
  constructor
  · intro l hl
    obtain ⟨f, hf, hp, hmax⟩ := h1 l hl
    obtain ⟨r, hr, m⟩ := recorded_file_run h hf
    refine ⟨r, hr, by rw [← m.status]; exact hp, ?_⟩
    intro r' hr'
    obtain ⟨g, hg, mg⟩ := recorded_run_file h hr'
    have := hmax g hg
    rw [mg.fields.2.1, m.fields.2.1] at this
    exact this
  · rw [h2]
    constructor
    · intro he
      rw [List.eq_nil_iff_forall_not_mem]
      intro r hr
      obtain ⟨f, hf, _⟩ := recorded_run_file h hr
      rw [he] at hf; cases hf
    · intro he
      rw [List.eq_nil_iff_forall_not_mem]
      intro f hf
      obtain ⟨r, hr, _⟩ := recorded_file_run h hf
      rw [he] at hr; cases hr

/-- **C06 (recent = the n most recently started runs, newest first).** Under `Sim s sp`:
    `recent d n` lists the last statuses of `min n (number of recorded runs of d)` pairwise different
    recorded runs of `d`, in the order of their start times, newest first, and every recorded run of `d`
    that is left out was started no later than every listed one. -/
theorem C06_spec_recent (s : Store) (sp : Spec) (h : Sim s sp) (d n : Nat) :
    ∃ rs : List SRun,
      recent s d n = rs.filterMap SRun.status ∧ (recent s d n).length = rs.length ∧
      rs.length = min n (Spec.recorded sp d).length ∧ rs.Nodup ∧
      (∀ r ∈ rs, r ∈ Spec.recorded sp d) ∧ rs.Pairwise (fun a b => b.t ≤ a.t) ∧
      ∀ g ∈ Spec.recorded sp d, g ∉ rs → ∀ r ∈ rs, g.t ≤ r.t := by
  obtain ⟨fs, e1, e2, e3, e4, e5, e6, e7⟩ := C06_recent s d n
  have hfs : ∀ f ∈ fs, f ∈ s.files := fun f hf => (mem_recorded.mp (e4 f hf)).1
  obtain ⟨rs, l1, l2, l3, l4, l5, l6, l7⟩ := h.lift fs hfs
  have hrec : ∀ r ∈ rs, r ∈ Spec.recorded sp d := by
    intro r hr
    obtain ⟨f, hf, m⟩ := l6 r hr
    obtain ⟨r', hr', m'⟩ := recorded_file_run h (e4 f hf)
    rw [h.run_unique (l2 r hr) (Spec.mem_recorded.mp hr').1 m m']
    exact hr'
  have hnd : rs.Nodup := by
    have hn : (rs.filterMap (fun r => r.status.map (·.req))).Nodup := by rw [← l4]; exact e6
    have hall : rs.filterMap (fun r => r.status.map (·.req)) = rs.map (·.req) := by
      apply filterMap_eq_map_of
      intro r hr
      obtain ⟨p, hp⟩ := Option.isSome_iff_exists.mp (Spec.mem_recorded.mp (hrec r hr)).2.2
      simp [SRun.status, hp]
    rw [hall, List.nodup_iff_pairwise_ne, List.pairwise_map] at hn
    rw [List.nodup_iff_pairwise_ne]
    exact hn.imp (fun hne e => hne (by rw [e]))
  have hdesc : rs.Pairwise (fun a b => b.t ≤ a.t) := by
    have : (fs.map (·.stamp)).Pairwise (fun a b => b ≤ a) := by
      rw [List.pairwise_map]; exact e5
    rw [l5, List.pairwise_map] at this
    exact this
  have hrest : ∀ g ∈ Spec.recorded sp d, g ∉ rs → fs.length = n ∧ ∀ r ∈ rs, g.t ≤ r.t := by
    intro g hg hnot
    obtain ⟨fg, hfg, mg⟩ := recorded_run_file h hg
    have hgsp := (Spec.mem_recorded.mp hg).1
    have hfgn : fg ∉ fs := by
      intro hin
      obtain ⟨r, hr, m⟩ := l7 fg hin
      exact hnot (by rw [h.run_unique hgsp (l2 r hr) mg m]; exact hr)
    rcases e7 fg hfg hfgn with ⟨f, hf, hq, _⟩ | ⟨hfull, hle⟩
    · exfalso
      obtain ⟨r, hr, m⟩ := l7 f hf
      have hrr := Spec.mem_recorded.mp (hrec r hr)
      have hgg := Spec.mem_recorded.mp hg
      obtain ⟨p, hp⟩ := Option.isSome_iff_exists.mp hrr.2.2
      obtain ⟨pg, hpg⟩ := Option.isSome_iff_exists.mp hgg.2.2
      have : r.req = g.req := by
        simpa [reqOf, m.status, mg.status, SRun.status, hp, hpg] using hq
      have : r = g := h.eq_of_clash hrr.1 hgg.1 ⟨by rw [hrr.2.1, hgg.2.1], Or.inl this⟩
      exact hnot (this ▸ hr)
    · refine ⟨hfull, ?_⟩
      intro r hr
      obtain ⟨f, hf, m⟩ := l6 r hr
      have := hle f hf
      rw [mg.fields.2.1, m.fields.2.1] at this
      exact this
  refine ⟨rs, by rw [e1, l3], by rw [← e2, l1], ?_, hnd, hrec, hdesc, fun g hg hn => (hrest g hg hn).2⟩
  have hle : rs.length ≤ (Spec.recorded sp d).length := length_le_of_nodup_subset hnd hrec
  rcases Nat.lt_or_ge rs.length n with hlt | hge
  · have hall : ∀ g ∈ Spec.recorded sp d, g ∈ rs := by
      intro g hg
      apply Classical.byContradiction
      intro hn
      have := (hrest g hg hn).1
      omega
    have := length_le_of_nodup_subset (h.recorded_nodup d) hall
    omega
  · omega

/-- **C06 (refinement, operation sequences).** For EVERY sequence of operations — runs being opened,
    recorded, closed or abandoned by any number of recorders, manual status updates, renames, ageing and
    retention clean-ups over any set of DAGs — each admissible in the log state it is applied to:
    the store reached from the empty store is the log reached from the empty log. -/
theorem C06_refinement (ops : List HOp) (ha : AdmissibleSeq [] ops) :
    Sim (ops.foldl applyStore {}) (ops.foldl applySpec []) := sim_seq sim_init ops ha

/-- … hence a lookup by request id returns the last status recorded for that run, -/
theorem C06_refinement_lookup (ops : List HOp) (ha : AdmissibleSeq [] ops) (d req : Nat) :
    (∀ p, (∃ f, find (ops.foldl applyStore {}) d req = some (f, ⟨req, p⟩)) ↔
        ∃ r ∈ ops.foldl applySpec [], r.dag = d ∧ r.req = req ∧ r.last = some p) ∧
    (find (ops.foldl applyStore {}) d req = none ↔ ∀ r ∈ Spec.recorded (ops.foldl applySpec []) d, r.req ≠ req) ∧
    (∀ a ∈ ops.foldl applySpec [], ∀ b ∈ ops.foldl applySpec [],
        a.dag = d → b.dag = d → a.req = req → b.req = req → a = b) :=
  C06_spec_lookup _ _ (C06_refinement ops ha) d req

/-- … the latest-status query returns the last status of the most recently started run, -/
theorem C06_refinement_latest (ops : List HOp) (ha : AdmissibleSeq [] ops) (d : Nat) :
    (∀ l, latest (ops.foldl applyStore {}) d = some l →
        ∃ r ∈ Spec.recorded (ops.foldl applySpec []) d, r.status = some l ∧
          ∀ r' ∈ Spec.recorded (ops.foldl applySpec []) d, r'.t ≤ r.t) ∧
    (latest (ops.foldl applyStore {}) d = none ↔ Spec.recorded (ops.foldl applySpec []) d = []) :=
  C06_spec_latest _ _ (C06_refinement ops ha) d

/-- … and the recent-history query returns the n most recently started runs, newest first. -/
theorem C06_refinement_recent (ops : List HOp) (ha : AdmissibleSeq [] ops) (d n : Nat) :
    ∃ rs : List SRun,
      recent (ops.foldl applyStore {}) d n = rs.filterMap SRun.status ∧
      (recent (ops.foldl applyStore {}) d n).length = rs.length ∧
      rs.length = min n (Spec.recorded (ops.foldl applySpec []) d).length ∧ rs.Nodup ∧
      (∀ r ∈ rs, r ∈ Spec.recorded (ops.foldl applySpec []) d) ∧ rs.Pairwise (fun a b => b.t ≤ a.t) ∧
      ∀ g ∈ Spec.recorded (ops.foldl applySpec []) d, g ∉ rs → ∀ r ∈ rs, g.t ≤ r.t :=
  C06_spec_recent _ _ (C06_refinement ops ha) d n

/-- … every run of the log has exactly one file in the store (its record), and no file name occurs
    twice. -/
theorem C06_refinement_one_file (ops : List HOp) (ha : AdmissibleSeq [] ops) :
    KeysNodup (ops.foldl applyStore {}) ∧
    ∀ r ∈ ops.foldl applySpec [], ∃ f, Matches f r ∧
      (ops.foldl applyStore {}).files.filter (fun g => g.key == r.fileKey) = [f] :=
  have hn := keysNodup_seq ops {} (by simp [KeysNodup])
  ⟨hn, fun r hr => (C06_refinement ops ha).one_file hn r hr⟩

/-! non-vacuity of the refinement: run 70 of DAG 0 is recorded twice, closed (compacted), edited by hand
    and renamed to DAG 1; a second run (80) of DAG 1 is started; later both files age 3 days, run 80 is
    edited (its file is fresh again) and retention (2 days) forgets run 70 -/
def rops1 : List HOp :=
  [.openRun 0 0 1000 7 70, .write 0 ⟨70, 1⟩, .write 0 ⟨70, 2⟩, .close 0, .update 0 ⟨70, 3⟩, .rename 0 1,
   .openRun 1 1 1500 8 80, .write 1 ⟨80, 4⟩]
def rops2 : List HOp := rops1 ++ [.close 1, .age 1 3, .update 1 ⟨80, 5⟩, .removeOld 1 2]

example : AdmissibleSeq [] rops1 := by decide
example : AdmissibleSeq [] rops2 := by decide
example : rops1.foldl applySpec [] =
    [{ dag := 1, t := 1000, req8 := 7, req := 70, last := some 3, comp := true },
     { dag := 1, t := 1500, req8 := 8, req := 80, last := some 4, holder := some 1 }] := by decide
example : (find (rops1.foldl applyStore {}) 1 70).map (·.2) = some ⟨70, 3⟩ := by decide
example : (find (rops1.foldl applyStore {}) 0 70).map (·.2) = none := by decide
example : latest (rops1.foldl applyStore {}) 1 = some ⟨80, 4⟩ := by decide
example : recent (rops1.foldl applyStore {}) 1 5 = [⟨80, 4⟩, ⟨70, 3⟩] := by decide
example : rops2.foldl applySpec [] =
    [{ dag := 1, t := 1500, req8 := 8, req := 80, last := some 5, comp := true }] := by decide
example : (find (rops2.foldl applyStore {}) 1 70).map (·.2) = none := by decide
example : (find (rops2.foldl applyStore {}) 1 80).map (·.2) = some ⟨80, 5⟩ := by decide
example : latest (rops2.foldl applyStore {}) 1 = some ⟨80, 5⟩ := by decide
example : recent (rops2.foldl applyStore {}) 1 5 = [⟨80, 5⟩] := by decide
/-- the side condition is not vacuous either: renaming a DAG whose run is still being recorded is refused -/
example : ¬ AdmissibleSeq [] [.openRun 0 0 1000 7 70, .rename 0 1] := by decide
/-- … and for a reason: the status written after such a rename is lost (the log holds it, the lookup
    does not find it) — callers must not rename a DAG that is running -/
example : (find ([HOp.openRun 0 0 1000 7 70, .rename 0 1, .write 0 ⟨70, 1⟩].foldl applyStore {}) 1 70).map (·.2) = none ∧
    ([HOp.openRun 0 0 1000 7 70, .rename 0 1, .write 0 ⟨70, 1⟩].foldl applySpec []).map (fun r => (r.dag, r.status)) =
      [(1, some ⟨70, 1⟩)] := by decide

end BdModel.P06

#print axioms BdModel.P06.C06_lookup_sound
#print axioms BdModel.P06.C06_lookup_complete
#print axioms BdModel.P06.C06_latest
#print axioms BdModel.P06.C06_recent
#print axioms BdModel.P06.C06_independence
#print axioms BdModel.P06.C06_independence_seq
#print axioms BdModel.P06.C06_retention
#print axioms BdModel.P06.C06_rename
#print axioms BdModel.P06.C06_glob
#print axioms BdModel.P06.C06_glob_selects_own
#print axioms BdModel.P06.C06_glob_only_own
#print axioms BdModel.P06.C06_sim_init
#print axioms BdModel.P06.C06_sim_step
#print axioms BdModel.P06.C06_spec_lookup
#print axioms BdModel.P06.C06_spec_latest
#print axioms BdModel.P06.C06_spec_recent
#print axioms BdModel.P06.C06_refinement
#print axioms BdModel.P06.C06_refinement_lookup
#print axioms BdModel.P06.C06_refinement_latest
#print axioms BdModel.P06.C06_refinement_recent
#print axioms BdModel.P06.C06_refinement_one_file
