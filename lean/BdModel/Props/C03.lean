import BdModel.Proofs.Sched.Limit
import BdModel.Sched.Argv
import BdModel.Proofs.Lock
/-
  C03 — each runnable step runs exactly once; retries are bounded; dry-run runs nothing.
-/
namespace BdModel.P03
open BdModel.Sched

/-- **C03 (bookkeeping).** In every reachable state the number of command starts of a step equals its
    recorded retry count, plus one while/after its current attempt. -/
theorem C03_execs (c : Cfg) (hn : NoRep c) (hd : c.dry = false) (s : State) (hr : Reach c s) (i : Nat) :
    (s.nd i).execs = (s.nd i).retry + (if (s.nd i).ranLast then 1 else 0) :=
  execs_eq c hn hd s hr i

/-- **C03 (bounded).** The retry count never exceeds `retryPolicy.limit`. -/
theorem C03_bounded (c : Cfg) (s : State) (hr : Reach c s) (i : Nat) :
    (s.nd i).retry ≤ (c.node i).limit :=
  retry_le_limit c s hr i

/-- **C03 (final accounting)** of a run that was neither stopped nor timed out:
    finished ⇒ executed retryCount + 1 times; failed ⇒ set-up failure, or all limit + 1 attempts used;
    canceled ⇒ never executed; skipped ⇒ not executed in its last launch, and never if it was skipped
    because of a dependency. -/
theorem C03_final (c : Cfg) (hw : WF c) (hn : NoRep c) (hdry : c.dry = false) (hf : c.tdFaults = false)
    (s : State) (hr : Reach c s) (hc : s.canceled = false) (ht : s.timedOut = false)
    (hl : LoopDone s) (i : Nat) (hi : i < c.n) :
    ((s.nd i).status = .success → (s.nd i).execs = (s.nd i).retry + 1) ∧
    ((s.nd i).status = .error →
        ((s.nd i).setupFailed = true ∧ (s.nd i).execs = (s.nd i).retry) ∨
        ((s.nd i).execs = (c.node i).limit + 1 ∧ (s.nd i).retry = (c.node i).limit)) ∧
    ((s.nd i).status = .cancel → (s.nd i).execs = 0) ∧
    ((s.nd i).status = .skipped →
        (s.nd i).execs = (s.nd i).retry ∧ ((s.nd i).preSkip = false → (s.nd i).execs = 0)) :=
  final_counts c hw hn hdry hf s hr hc ht hl i hi

/-- **C03 (dry-run).** In dry-run mode no step command is ever started. -/
theorem C03_dry (c : Cfg) (hd : c.dry = true) (s : State) (hr : Reach c s) (i : Nat) :
    (s.nd i).execs = 0 :=
  dry_no_exec c hd s hr i

/-! non-vacuity: limit 2, fails twice, succeeds on the third attempt -/
def demo : Cfg := { n := 1, node := fun _ => { limit := 2 } }
def attempt (ok : Bool) : List Act :=
  [.visitDecide 0, .visitLaunch 0 true, .setupDone 0 true, .check 0, .execStart 0, .execEnd 0 ok]
example : ((runActs demo (init demo) (attempt false ++ [.retryWake 0] ++ attempt false ++ [.retryWake 0] ++
    attempt true ++ [.tail 0, .teardown 0 true, .deferred 0, .loopExit])).map fun s =>
    ((s.nd 0).status, (s.nd 0).execs, (s.nd 0).retry, s.loop)) = some (.success, 3, 2, .waiting) := by decide


/-! ### the command line of retried attempts (node.go `setupExec`, fix d91a64b; finding F12) -/
section argv
open BdModel.Argv

theorem runs_fixed (s : StepCmd) (persisted : List Nat) (hp : persisted = s.args) (sfs : List Nat) :
    Argv.runs Argv.attempt s persisted sfs =
      sfs.map (fun sf => s.cmd :: (if s.script then s.args ++ [sf] else s.args)) := by
  induction sfs generalizing persisted with
  | nil => rfl
  | cons sf rest ih =>
    subst hp
    simp only [Argv.runs, Argv.attempt, List.map_cons]
    cases s.strForm <;> simp [ih]

/-- **C03 (every attempt runs the step's own command).** For every step (string form or argument
    list, with or without `script:`) and any number of attempts, attempt k is started with exactly the
    command and arguments of the definition, followed by ITS OWN script file and nothing else — so a
    retry re-executes the same command and can succeed. -/
theorem C03_argv (s : StepCmd) (sfs : List Nat) :
    Argv.runs Argv.attempt s s.args sfs = sfs.map (fun sf => s.cmd :: (if s.script then s.args ++ [sf] else s.args)) :=
  runs_fixed s s.args rfl sfs

/-- on the pinned tree an argument-list step with `script:` handed attempt 2 the (removed) script of
    attempt 1 as well: `sh <script 1> <script 2>` — the retry could never succeed (F12) -/
theorem C03_argv_pinned_refuted :
    Argv.runs Argv.attemptPinned { cmd := 0, args := [], strForm := false, script := true } [] [101, 102] = [[0, 101], [0, 101, 102]] := by
  decide

example : Argv.runs Argv.attempt { cmd := 0, args := [], strForm := false, script := true } [] [101, 102] = [[0, 101], [0, 102]] := by decide

end argv

/-- **C03 (dry-run writes no history).** In every world reachable by ANY interleaving of any number of
    agents (model of `Agent.Run`'s call order, area Lock: setup, preconditions, `if a.dry { return
    a.dryRun() }` BEFORE the lock, the probe, `setupDatabase`, the first status write and the socket), an
    agent started in dry-run mode has performed no history operation, written no status record, and
    touched neither socket nor lock; with `C03_dry` (no command is started in a dry run of the scheduler)
    this is the dry-run clause in full. -/
theorem C03_dry_no_history (w : BdModel.Lock.World) (h : BdModel.Lock.Reach w) (a : Nat)
    (hd : (w.agents a).dry = true) :
    (w.agents a).hist = 0 ∧ (w.agents a).recs = 0 ∧ (w.agents a).execs = 0 ∧ (w.agents a).hexecs = 0 ∧
    (w.agents a).binds = 0 ∧ (w.agents a).unlinks = 0 := by
  obtain ⟨⟨h1, h2, h3, h4, h5, h6⟩, -⟩ := BdModel.Lock.reach_dry h a hd
  exact ⟨h3, h4, h1, h2, h6, h5⟩

/-- non-vacuity: a dry agent runs through setup, preconditions and the dry run and is done -/
example : ((BdModel.Lock.run (BdModel.Lock.init [{ dag := 0, dry := true, steps := 2 }])
    [(0, .setup true), (0, .precond true), (0, .dryRun)]).map fun w => ((w.agents 0).pc, (w.agents 0).hist)) =
    some (.done, 0) := by decide

end BdModel.P03

#print axioms BdModel.P03.C03_execs
#print axioms BdModel.P03.C03_bounded
#print axioms BdModel.P03.C03_final
#print axioms BdModel.P03.C03_dry
#print axioms BdModel.P03.C03_dry_no_history
#print axioms BdModel.P03.C03_argv
#print axioms BdModel.P03.C03_argv_pinned_refuted
