import BdModel.Defs.Store
import BdModel.Proofs.DefsNames
import BdModel.Props.C06
/-
  C18 — DAG definitions are created, saved, renamed and deleted safely.
  Quantification: every world (any definitions, any history), every name / text / validity verdict.
  Names: a DAG is the FILE a name denotes (`Defs.resolve` = util.AddYamlExtension); the abstract names of the
  store model are `keyOf` of the spellings (C18_names_*), `renameSp` is the client's rename called with spellings.
-/
namespace BdModel.P18
open BdModel.Defs BdModel.Hist

theorem lookup_setDef_ne (w : World) (n m t : Nat) (h : m ≠ n) : lookup (setDef w n t) m = lookup w m := by
  simp only [lookup, setDef, List.find?_append]
  have h1 : List.find? (fun p => p.1 == m) [(n, t)] = none := by simp [Ne.symm h]
  rw [h1, Option.or_none, List.find?_filter]
  congr 2
  funext p
  by_cases hp : p.1 = m
  · subst hp; simp [h]
  · simp [hp]

theorem lookup_setDef_self (w : World) (n t : Nat) : lookup (setDef w n t) n = some t := by
  simp only [lookup, setDef, List.find?_append]
  have : List.find? (fun p => p.1 == n) (List.filter (fun p => p.1 != n) w.defs) = none := by
    rw [List.find?_eq_none]
    intro p hp
    have := (List.mem_filter.mp hp).2
    simpa using this
  simp [this]

theorem lookup_dropDef_ne (w : World) (n m : Nat) (h : m ≠ n) : lookup (dropDef w n) m = lookup w m := by
  simp only [lookup, dropDef, List.find?_filter]
  congr 2
  funext p
  by_cases hp : p.1 = m
  · subst hp; simp [h]
  · simp [hp]

theorem lookup_dropDef_self (w : World) (n : Nat) : lookup (dropDef w n) n = none := by
  simp only [lookup, dropDef, Option.map_eq_none_iff, List.find?_eq_none]
  intro p hp
  have := (List.mem_filter.mp hp).2
  simpa using this

/-- **C18 (create never overwrites).** Creating under an existing name is refused and changes nothing;
    otherwise only that name changes. -/
theorem C18_create (w : World) (n tmpl : Nat) :
    (exists? w n = true → create w n tmpl = (w, .err)) ∧
    (∀ m, m ≠ n → lookup (create w n tmpl).1 m = lookup w m) ∧ (create w n tmpl).1.hist = w.hist := by
  refine ⟨fun h => by simp [create, h], fun m hm => ?_, ?_⟩
  · unfold create; split
    · rfl
    · exact lookup_setDef_ne w n m tmpl hm
  · unfold create; split <;> rfl

/-- **C18 (save).** An invalid text, or a save under a name that does not exist, is refused and changes
    nothing at all; an accepted save replaces exactly that definition. -/
theorem C18_save (valid : Nat → Bool) (w : World) (n t : Nat) :
    ((valid t = false ∨ exists? w n = false) → save valid w n t = (w, .err)) ∧
    ((save valid w n t).2 = .ok → lookup (save valid w n t).1 n = some t) ∧
    (∀ m, m ≠ n → lookup (save valid w n t).1 m = lookup w m) ∧ (save valid w n t).1.hist = w.hist := by
  refine ⟨?_, ?_, ?_, ?_⟩
  · rintro (h | h)
    · simp [save, h]
    · unfold save; split
      · rfl
      · simp [h]
  · unfold save
    split
    · intro h; cases h
    · split
      · intro h; cases h
      · intro _; exact lookup_setDef_self w n t
  · intro m hm
    unfold save
    split
    · rfl
    · split
      · rfl
      · exact lookup_setDef_ne w n m t hm
  · unfold save
    split
    · rfl
    · split <;> rfl

/-- **C18 (save is all-or-nothing under a crash).** In EVERY state a kill during a save can leave, the
    definition holds the complete old or the complete new text, and every other definition and the
    history are untouched. -/
theorem C18_save_atomic (valid : Nat → Bool) (w : World) (n t : Nat) (w' : World) (h : w' ∈ saveStates valid w n t) :
    (lookup w' n = lookup w n ∨ lookup w' n = some t) ∧ (∀ m, m ≠ n → lookup w' m = lookup w m) ∧ w'.hist = w.hist := by
  unfold saveStates at h
  split at h
  · simp at h; subst h; exact ⟨Or.inl rfl, fun _ _ => rfl, rfl⟩
  · simp only [List.mem_cons, List.not_mem_nil, or_false] at h
    rcases h with rfl | rfl | rfl
    · exact ⟨Or.inl rfl, fun _ _ => rfl, rfl⟩
    · exact ⟨Or.inl rfl, fun _ _ => rfl, rfl⟩
    · exact ⟨Or.inr (lookup_setDef_self w n t), fun m hm => lookup_setDef_ne w n m t hm, rfl⟩

/-- **C18 (rename never overwrites, carries text and history).** -/
theorem C18_rename (w : World) (a b : Nat) :
    (exists? w b = true → Defs.rename w a b = (w, .err)) ∧
    ((Defs.rename w a b).2 = .ok → a ≠ b →
        lookup (Defs.rename w a b).1 b = lookup w a ∧ lookup (Defs.rename w a b).1 a = none ∧
        filesOf (Defs.rename w a b).1.hist a = [] ∧
        ∀ f ∈ filesOf w.hist a, ({ f with dag := b } : RunFile) ∈ filesOf (Defs.rename w a b).1.hist b) ∧
    (∀ m, m ≠ a → m ≠ b → lookup (Defs.rename w a b).1 m = lookup w m ∧
        filesOf (Defs.rename w a b).1.hist m = filesOf w.hist m) := by
  refine ⟨?_, ?_, ?_⟩
  · intro h
    unfold Defs.rename
    split
    · rfl
    · simp [h]
  · intro hok hab
    unfold Defs.rename at hok ⊢
    split at hok
    · cases hok
    · rename_i t ht
      simp only [ht]
      split at hok
      · cases hok
      · rename_i hb
        simp only [hb]
        have hr := P06.C06_rename w.hist a b hab
        refine ⟨?_, ?_, hr.1, hr.2⟩
        · show lookup (setDef (dropDef w a) b t) b = _
          rw [lookup_setDef_self]
        · show lookup (setDef (dropDef w a) b t) a = none
          rw [lookup_setDef_ne _ _ _ _ hab, lookup_dropDef_self]
  · intro m hma hmb
    unfold Defs.rename
    split
    · exact ⟨rfl, rfl⟩
    · split
      · exact ⟨rfl, rfl⟩
      · rename_i t _ _
        constructor
        · show lookup (setDef (dropDef w a) b t) m = _
          rw [lookup_setDef_ne _ _ _ _ hmb, lookup_dropDef_ne _ _ _ hma]
        · exact filesOf_apply w.hist (.rename a b) m (by simp [touches, hma, hmb])

/-- **C18 (delete removes its own definition and history and nothing else).** -/
theorem C18_delete (w : World) (n : Nat) :
    lookup (delete w n).1 n = none ∧ filesOf (delete w n).1.hist n = [] ∧
    (∀ m, m ≠ n → lookup (delete w n).1 m = lookup w m ∧ filesOf (delete w n).1.hist m = filesOf w.hist m) := by
  have hh : ∀ w' : World, w'.hist = Hist.removeOld w.hist n 0 →
      filesOf w'.hist n = [] ∧ ∀ m, m ≠ n → filesOf w'.hist m = filesOf w.hist m := by
    intro w' e
    rw [e]
    constructor
    · rw [P06.C06_retention]; simp
    · intro m hm
      exact filesOf_apply w.hist (.removeOld n 0) m (by simp [touches, hm])
  unfold delete
  simp only
  split
  · rename_i h
    refine ⟨lookup_dropDef_self _ n, (hh _ rfl).1, fun m hm => ⟨?_, (hh _ rfl).2 m hm⟩⟩
    rw [lookup_dropDef_ne _ _ _ hm]; rfl
  · rename_i h
    refine ⟨?_, (hh _ rfl).1, fun m hm => ⟨rfl, (hh _ rfl).2 m hm⟩⟩
    have : lookup w n = none := by
      simp only [exists?] at h
      cases hl : lookup w n <;> simp_all
    exact this

/-- **C18 (names: the spellings of one DAG).** For an extension-free name `n`: `n`, `n.yml`, `n.yaml` denote the same
    file `n.yaml` — creating / renaming onto any of them is creating / renaming onto that DAG —, while `n.yml.yaml`
    is another DAG; for ANY `n` the spellings `n.yml` and `n.yaml` denote the same file; a resolved file denotes itself. -/
theorem C18_names_alias (n : List Char) :
    ((∀ c ∈ n, c ≠ '.') → resolve n = n ++ yamlExt ∧ resolve (n ++ ymlExt) = resolve n ∧ resolve (n ++ yamlExt) = resolve n ∧
        resolve (n ++ ymlExt ++ yamlExt) ≠ resolve n) ∧
    resolve (n ++ ymlExt) = resolve (n ++ yamlExt) ∧ resolve (resolve n) = resolve n := by
  refine ⟨fun h => ?_, by rw [resolve_yml, resolve_yaml], resolve_idem n⟩
  rw [resolve_bare n h, resolve_yml, resolve_yaml, resolve_yaml]
  refine ⟨rfl, rfl, rfl, ?_⟩
  rw [List.append_assoc]
  intro e
  have := List.append_cancel_left e
  revert this; decide

/-- **C18 (names ↦ model names).** Two spellings of a case get the same abstract name iff they denote the same file. -/
theorem C18_names_key (sps : List (List Char)) (i j : Nat) (si sj : List Char)
    (hi : sps[i]? = some si) (hj : sps[j]? = some sj) :
    keyOf sps i = keyOf sps j ↔ resolve si = resolve sj := keyOf_eq_iff sps i j si sj hi hj

/-- **C18 (names: the client finds what the store files).** `dagStore.Find` (fixed `find`, F50) reaches, for EVERY
    spelling, the file the store reads / writes for it, and every file it probes before that one is a file the
    store never writes (no name resolves to it — in particular never `x.yml`); so the client's rename looks both
    names up like the store does (`srcLit = dstLit = false` in `renameSp`). Before F50 a `.yml` spelling was
    probed literally only and missed its file (`findsOwnFilePre`, the regression witness). -/
theorem C18_names_literal (s : List Char) :
    findsOwnFile s = true ∧
    (∃ pre post, findCandidates s = pre ++ resolve s :: post ∧ ∀ c ∈ pre, ∀ t, resolve t ≠ c) ∧
    findsOwnFilePre (s ++ ymlExt) = false :=
  ⟨findsOwnFile_true s, find_first_hit s, findsOwnFilePre_yml s⟩

/-- **C18 (rename with spelled names never overwrites).** Whatever the spellings of the two names: a rename onto
    ANOTHER existing DAG is refused and changes nothing; a rename onto (another spelling of) the DAG itself changes
    nothing; no third DAG's definition or history is ever touched; for spellings the client looks up like the store
    (`srcLit = dstLit = false` — every spelling after F50, `C18_names_literal`) it is `Defs.rename`, so `C18_rename`
    applies; and with such a TARGET spelling a refused rename changes nothing at all. -/
theorem C18_rename_spelled (w : World) (a b : Nat) (sl dl : Bool) :
    (a ≠ b → exists? w b = true → renameSp w a b sl dl = (w, .err)) ∧
    (a = b → (renameSp w a b sl dl).1 = w) ∧
    (∀ m, m ≠ a → m ≠ b → lookup (renameSp w a b sl dl).1 m = lookup w m ∧
        filesOf (renameSp w a b sl dl).1.hist m = filesOf w.hist m) ∧
    (a ≠ b → renameSp w a b false false = Defs.rename w a b) ∧
    (dl = false → (renameSp w a b sl dl).2 = .err → (renameSp w a b sl dl).1 = w) := by
  refine ⟨?_, ?_, ?_, ?_, ?_⟩
  · intro hab hb
    unfold renameSp
    split
    · rfl
    · split
      · rfl
      · rfl
  · intro hab
    subst hab
    unfold renameSp
    split
    · rfl
    · split
      · rfl
      · simp
  · intro m hma hmb
    unfold renameSp
    split
    · exact ⟨rfl, rfl⟩
    · split
      · exact ⟨rfl, rfl⟩
      · rename_i t _
        split
        · exact ⟨rfl, rfl⟩
        · split
          · exact ⟨rfl, rfl⟩
          · split
            · constructor
              · show lookup (setDef (dropDef w a) b t) m = _
                rw [lookup_setDef_ne _ _ _ _ hmb, lookup_dropDef_ne _ _ _ hma]
              · rfl
            · constructor
              · show lookup (setDef (dropDef w a) b t) m = _
                rw [lookup_setDef_ne _ _ _ _ hmb, lookup_dropDef_ne _ _ _ hma]
              · exact filesOf_apply w.hist (.rename a b) m (by simp [touches, hma, hmb])
  · intro hab
    unfold renameSp Defs.rename
    cases lookup w a <;> simp [hab]
  · intro hdl herr
    subst hdl
    unfold renameSp at herr ⊢
    by_cases hs : sl = true
    · simp [hs]
    · simp only [hs] at herr ⊢
      cases hl : lookup w a with
      | none => simp
      | some t =>
        simp only [hl] at herr ⊢
        by_cases hab : a = b
        · simp [hab]
        · by_cases hb : exists? w b = true
          · simp [hab, hb]
          · simp [hab, hb] at herr

/-- **C18 (a rename that reports failure has changed nothing).** The full-strength reading, for the client's rename
    as the code is (every spelling is looked up like the store does, `C18_names_literal`): an error answer means the
    world — every definition, every history — is exactly what it was. -/
theorem C18_rename_refusal_full (w : World) (a b : Nat) :
    (renameSp w a b false false).2 = .err → (renameSp w a b false false).1 = w :=
  (C18_rename_spelled w a b false false).2.2.2.2 rfl

/-- regression witness (F50, fixed by 8b26466): with the PRE-fix lookup of a target typed `.yml` (`dstLit = true`) the
    statement fails — DAG 0 exists, name 1 is free: the definition moves although the answer is an error (and the
    history stays behind: `renameSp` leaves `hist` alone in that branch). -/
example : ¬ ∀ (w : World) (a b : Nat) (sl dl : Bool), (renameSp w a b sl dl).2 = .err → (renameSp w a b sl dl).1 = w := by
  intro h
  have := h { defs := [(0, 5)] } 0 1 false true (by decide)
  revert this; decide

end BdModel.P18

#print axioms BdModel.P18.C18_create
#print axioms BdModel.P18.C18_save
#print axioms BdModel.P18.C18_save_atomic
#print axioms BdModel.P18.C18_rename
#print axioms BdModel.P18.C18_delete
#print axioms BdModel.P18.C18_names_alias
#print axioms BdModel.P18.C18_names_key
#print axioms BdModel.P18.C18_names_literal
#print axioms BdModel.P18.C18_rename_spelled
#print axioms BdModel.P18.C18_rename_refusal_full
