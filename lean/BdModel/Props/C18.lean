import BdModel.Defs.Store
import BdModel.Props.C06
/-
  C18 — DAG definitions are created, saved, renamed and deleted safely.
  Quantification: every world (any definitions, any history), every name / text / validity verdict.
-/
namespace BdModel.P18
open BdModel.Defs BdModel.Hist

theorem lookup_setDef_ne (w : World) (n m t : Nat) (h : m ≠ n) : lookup (setDef w n t) m = lookup w m := by
  simp only [lookup, setDef, List.find?_append]
  have h1 : List.find? (fun p => p.1 == m) [(n, t)] = none := by simp [Ne.symm h]
  rw [h1, Option.or_none, List.find?_filter]
  congr 2
  funext p
  by_cases hp : p.1 = m
  · subst hp; simp [h]
  · simp [hp]

theorem lookup_setDef_self (w : World) (n t : Nat) : lookup (setDef w n t) n = some t := by
  simp only [lookup, setDef, List.find?_append]
  have : List.find? (fun p => p.1 == n) (List.filter (fun p => p.1 != n) w.defs) = none := by
    rw [List.find?_eq_none]
    intro p hp
    have := (List.mem_filter.mp hp).2
    simpa using this
  simp [this]

theorem lookup_dropDef_ne (w : World) (n m : Nat) (h : m ≠ n) : lookup (dropDef w n) m = lookup w m := by
  simp only [lookup, dropDef, List.find?_filter]
  congr 2
  funext p
  by_cases hp : p.1 = m
  · subst hp; simp [h]
  · simp [hp]

theorem lookup_dropDef_self (w : World) (n : Nat) : lookup (dropDef w n) n = none := by
  simp only [lookup, dropDef, Option.map_eq_none_iff, List.find?_eq_none]
  intro p hp
  have := (List.mem_filter.mp hp).2
  simpa using this

/-- **C18 (create never overwrites).** Creating under an existing name is refused and changes nothing;
    otherwise only that name changes. -/
theorem C18_create (w : World) (n tmpl : Nat) :
    (exists? w n = true → create w n tmpl = (w, .err)) ∧
    (∀ m, m ≠ n → lookup (create w n tmpl).1 m = lookup w m) ∧ (create w n tmpl).1.hist = w.hist := by
  refine ⟨fun h => by simp [create, h], fun m hm => ?_, ?_⟩
  · unfold create; split
    · rfl
    · exact lookup_setDef_ne w n m tmpl hm
  · unfold create; split <;> rfl

/-- **C18 (save).** An invalid text, or a save under a name that does not exist, is refused and changes
    nothing at all; an accepted save replaces exactly that definition. -/
theorem C18_save (valid : Nat → Bool) (w : World) (n t : Nat) :
    ((valid t = false ∨ exists? w n = false) → save valid w n t = (w, .err)) ∧
    ((save valid w n t).2 = .ok → lookup (save valid w n t).1 n = some t) ∧
    (∀ m, m ≠ n → lookup (save valid w n t).1 m = lookup w m) ∧ (save valid w n t).1.hist = w.hist := by
  refine ⟨?_, ?_, ?_, ?_⟩
  · rintro (h | h)
    · simp [save, h]
    · unfold save; split
      · rfl
      · simp [h]
  · unfold save
    split
    · intro h; cases h
    · split
      · intro h; cases h
      · intro _; exact lookup_setDef_self w n t
  · intro m hm
    unfold save
    split
    · rfl
    · split
      · rfl
      · exact lookup_setDef_ne w n m t hm
  · unfold save
    split
    · rfl
    · split <;> rfl

/-- **C18 (save is all-or-nothing under a crash).** In EVERY state a kill during a save can leave, the
    definition holds the complete old or the complete new text, and every other definition and the
    history are untouched. -/
theorem C18_save_atomic (valid : Nat → Bool) (w : World) (n t : Nat) (w' : World) (h : w' ∈ saveStates valid w n t) :
    (lookup w' n = lookup w n ∨ lookup w' n = some t) ∧ (∀ m, m ≠ n → lookup w' m = lookup w m) ∧ w'.hist = w.hist := by
  unfold saveStates at h
  split at h
  · simp at h; subst h; exact ⟨Or.inl rfl, fun _ _ => rfl, rfl⟩
  · simp only [List.mem_cons, List.not_mem_nil, or_false] at h
    rcases h with rfl | rfl | rfl
    · exact ⟨Or.inl rfl, fun _ _ => rfl, rfl⟩
    · exact ⟨Or.inl rfl, fun _ _ => rfl, rfl⟩
    · exact ⟨Or.inr (lookup_setDef_self w n t), fun m hm => lookup_setDef_ne w n m t hm, rfl⟩

/-- **C18 (rename never overwrites, carries text and history).** -/
theorem C18_rename (w : World) (a b : Nat) :
    (exists? w b = true → Defs.rename w a b = (w, .err)) ∧
    ((Defs.rename w a b).2 = .ok → a ≠ b →
        lookup (Defs.rename w a b).1 b = lookup w a ∧ lookup (Defs.rename w a b).1 a = none ∧
        filesOf (Defs.rename w a b).1.hist a = [] ∧
        ∀ f ∈ filesOf w.hist a, ({ f with dag := b } : RunFile) ∈ filesOf (Defs.rename w a b).1.hist b) ∧
    (∀ m, m ≠ a → m ≠ b → lookup (Defs.rename w a b).1 m = lookup w m ∧
        filesOf (Defs.rename w a b).1.hist m = filesOf w.hist m) := by
  refine ⟨?_, ?_, ?_⟩
  · intro h
    unfold Defs.rename
    split
    · rfl
    · simp [h]
  · intro hok hab
    unfold Defs.rename at hok ⊢
    split at hok
    · cases hok
    · rename_i t ht
      simp only [ht]
      split at hok
      · cases hok
      · rename_i hb
        simp only [hb]
        have hr := P06.C06_rename w.hist a b hab
        refine ⟨?_, ?_, hr.1, hr.2⟩
        · show lookup (setDef (dropDef w a) b t) b = _
          rw [lookup_setDef_self]
        · show lookup (setDef (dropDef w a) b t) a = none
          rw [lookup_setDef_ne _ _ _ _ hab, lookup_dropDef_self]
  · intro m hma hmb
    unfold Defs.rename
    split
    · exact ⟨rfl, rfl⟩
    · split
      · exact ⟨rfl, rfl⟩
      · rename_i t _ _
        constructor
        · show lookup (setDef (dropDef w a) b t) m = _
          rw [lookup_setDef_ne _ _ _ _ hmb, lookup_dropDef_ne _ _ _ hma]
        · exact filesOf_apply w.hist (.rename a b) m (by simp [touches, hma, hmb])

/-- **C18 (delete removes its own definition and history and nothing else).** -/
theorem C18_delete (w : World) (n : Nat) :
    lookup (delete w n).1 n = none ∧ filesOf (delete w n).1.hist n = [] ∧
    (∀ m, m ≠ n → lookup (delete w n).1 m = lookup w m ∧ filesOf (delete w n).1.hist m = filesOf w.hist m) := by
  have hh : ∀ w' : World, w'.hist = Hist.removeOld w.hist n 0 →
      filesOf w'.hist n = [] ∧ ∀ m, m ≠ n → filesOf w'.hist m = filesOf w.hist m := by
    intro w' e
    rw [e]
    constructor
    · rw [P06.C06_retention]; simp
    · intro m hm
      exact filesOf_apply w.hist (.removeOld n 0) m (by simp [touches, hm])
  unfold delete
  simp only
  split
  · rename_i h
    refine ⟨lookup_dropDef_self _ n, (hh _ rfl).1, fun m hm => ⟨?_, (hh _ rfl).2 m hm⟩⟩
    rw [lookup_dropDef_ne _ _ _ hm]; rfl
  · rename_i h
    refine ⟨?_, (hh _ rfl).1, fun m hm => ⟨rfl, (hh _ rfl).2 m hm⟩⟩
    have : lookup w n = none := by
      simp only [exists?] at h
      cases hl : lookup w n <;> simp_all
    exact this

end BdModel.P18

#print axioms BdModel.P18.C18_create
#print axioms BdModel.P18.C18_save
#print axioms BdModel.P18.C18_save_atomic
#print axioms BdModel.P18.C18_rename
#print axioms BdModel.P18.C18_delete
