import BdModel.Config.Resolver
/-
  C15, the way a limit reaches the run: `maxActiveRuns: k` of an installation's base configuration is respected only if every
  command resolves the SAME base configuration file the installation keeps.  These are the resolution rules of
  internal/config (model: BdModel/Config/Resolver.lean, tied to the real `config.Load()` by the correspondence
  `correspondence:resolver` of lib/x_resolver.py) and the merge of the base's limit with the DAG file's.
-/
namespace BdModel.P15Config
open BdModel.Config.Resolver

/-! ### the three cases of `newResolver` -/

theorem resolve_home {e : Env} {v : Path} (h : getenv e.bdHome = some v) :
    resolve e = { configDir := v, dagsDir := v ++ ["dags"], baseConfigFile := v ++ ["base.yaml"], useXDGRules := false } := by
  unfold resolve newResolver; rw [h]; rfl

theorem resolve_legacy {e : Env} (h : getenv e.bdHome = none) (hl : e.legacyExists = true) :
    resolve e = { configDir := legacyPath e, dagsDir := legacyPath e ++ ["dags"],
                  baseConfigFile := legacyPath e ++ ["base.yaml"], useXDGRules := false } := by
  unfold resolve newResolver; rw [h, hl]; rfl

theorem resolve_xdg {e : Env} (h : getenv e.bdHome = none) (hl : e.legacyExists = false) :
    resolve e = { configDir := xdgHome e ++ [appName], dagsDir := xdgHome e ++ [appName, "dags"],
                  baseConfigFile := xdgHome e ++ [appName, "base.yaml"], useXDGRules := true } := by
  unfold resolve newResolver; rw [h, hl]; rfl

/-- nothing explicit: `cfg.BaseConfig` is the resolver's default -/
theorem base_default {e : Env} (h1 : getenv e.envBase = none) (h0 : e.explicitCfg = none) (h2 : e.cfgKey (configDir e) = none) :
    baseConfigFile e = defaultBase e := by
  unfold baseConfigFile viperGet cfgSource; rw [h1, h0]; simp only; rw [h2]

/-- BLACKDAGGER_HOME set (and not empty) ⇒ the configuration directory IS that directory and the base configuration is its
    `base.yaml` (and the DAGs its `dags/`), whatever else exists — legacy directory, XDG directory, XDG_CONFIG_HOME; an explicit
    `baseConfig` (key of THAT directory's config.yaml, or BLACKDAGGER_BASE_CONFIG) is the only thing that redirects it. -/
theorem C15_resolver_home_overrides (e : Env) (v : Path) (h : getenv e.bdHome = some v) :
    configDir e = v ∧ defaultBase e = v ++ ["base.yaml"] ∧ dagsDir e = v ++ ["dags"] ∧
    (getenv e.envBase = none → e.explicitCfg = none → e.cfgKey v = none → baseConfigFile e = v ++ ["base.yaml"]) := by
  have hr := resolve_home h
  have hc : configDir e = v := by unfold configDir; rw [hr]
  have hd : defaultBase e = v ++ ["base.yaml"] := by unfold defaultBase; rw [hr]
  refine ⟨hc, hd, by unfold dagsDir; rw [hr], fun h1 h0 h2 => ?_⟩
  rw [base_default h1 h0 (by rw [hc]; exact h2), hd]

/-- no BLACKDAGGER_HOME and `~/.blackdagger` exists ⇒ the legacy directory is the configuration directory and its `base.yaml`
    the base configuration — WHETHER OR NOT the XDG directory exists (the answer does not change when `xdgExists` does) and
    whatever XDG_CONFIG_HOME says.  (The fact the seeded change C15-6 broke.) -/
theorem C15_resolver_legacy_wins (e : Env) (h : getenv e.bdHome = none) (hl : e.legacyExists = true) :
    configDir e = e.home ++ [".blackdagger"] ∧
    defaultBase e = e.home ++ [".blackdagger", "base.yaml"] ∧
    dagsDir e = e.home ++ [".blackdagger", "dags"] ∧
    (getenv e.envBase = none → e.explicitCfg = none → e.cfgKey (e.home ++ [".blackdagger"]) = none →
      baseConfigFile e = e.home ++ [".blackdagger", "base.yaml"]) ∧
    (∀ b x, resolve { e with xdgExists := b, xdgConfigHome := x } = resolve e) := by
  have hr := resolve_legacy h hl
  have hc : configDir e = e.home ++ [".blackdagger"] := by unfold configDir; rw [hr]; rfl
  have hd : defaultBase e = e.home ++ [".blackdagger", "base.yaml"] := by
    unfold defaultBase; rw [hr]; simp [legacyPath]
  refine ⟨hc, hd, by unfold dagsDir; rw [hr]; simp [legacyPath], fun h1 h0 h2 => ?_, fun b x => ?_⟩
  · rw [base_default h1 h0 (by rw [hc]; exact h2), hd]
  · rw [hr]; exact resolve_legacy (e := { e with xdgExists := b, xdgConfigHome := x }) h hl

/-- neither ⇒ the XDG rules: `${XDG_CONFIG_HOME:-~/.config}/blackdagger` is the configuration directory and its `base.yaml` the
    base configuration. -/
theorem C15_resolver_xdg_otherwise (e : Env) (h : getenv e.bdHome = none) (hl : e.legacyExists = false) :
    configDir e = xdgHome e ++ ["blackdagger"] ∧
    defaultBase e = xdgHome e ++ ["blackdagger", "base.yaml"] ∧
    dagsDir e = xdgHome e ++ ["blackdagger", "dags"] ∧
    (getenv e.xdgConfigHome = none → xdgHome e = e.home ++ [".config"]) ∧
    (∀ x, getenv e.xdgConfigHome = some x → xdgHome e = x) ∧
    (getenv e.envBase = none → e.explicitCfg = none → e.cfgKey (xdgHome e ++ ["blackdagger"]) = none →
      baseConfigFile e = xdgHome e ++ ["blackdagger", "base.yaml"]) := by
  have hr := resolve_xdg h hl
  have hc : configDir e = xdgHome e ++ ["blackdagger"] := by unfold configDir; rw [hr]; rfl
  have hd : defaultBase e = xdgHome e ++ ["blackdagger", "base.yaml"] := by unfold defaultBase; rw [hr]; rfl
  refine ⟨hc, hd, by unfold dagsDir; rw [hr]; rfl, fun hx => by unfold xdgHome; rw [hx],
          fun x hx => by unfold xdgHome; rw [hx], fun h1 h0 h2 => ?_⟩
  rw [base_default h1 h0 (by rw [hc]; exact h2), hd]

/-- an explicit base configuration overrides the default, in viper's order: a non-empty BLACKDAGGER_BASE_CONFIG first, then the
    `baseConfig:` key of the ONE configuration file read — the file given with `--config` if any (then no config.yaml is read),
    else the config.yaml OF THE RESOLVED DIRECTORY (no other directory's) — then the default. -/
theorem C15_resolver_explicit_base (e : Env) :
    (∀ v, getenv e.envBase = some v → baseConfigFile e = v) ∧
    (∀ k v, getenv e.envBase = none → e.explicitCfg = some k → baseConfigFile e = k.getD (defaultBase e) ∧
        (k = some v → baseConfigFile e = v)) ∧
    (∀ v, getenv e.envBase = none → e.explicitCfg = none → e.cfgKey (configDir e) = some v → baseConfigFile e = v) ∧
    (getenv e.envBase = none → e.explicitCfg = none → e.cfgKey (configDir e) = none → baseConfigFile e = defaultBase e) ∧
    (∀ k, (∀ d, d = configDir e → k d = e.cfgKey d) → baseConfigFile { e with cfgKey := k } = baseConfigFile e) := by
  refine ⟨fun v h => by unfold baseConfigFile viperGet; rw [h],
          fun k v h1 h0 => ?_,
          fun v h1 h0 h2 => by unfold baseConfigFile viperGet cfgSource; rw [h1, h0]; simp only; rw [h2],
          fun h1 h0 h2 => base_default h1 h0 h2, fun k hk => ?_⟩
  · have : baseConfigFile e = k.getD (defaultBase e) := by
      unfold baseConfigFile viperGet cfgSource; rw [h1, h0]; cases k <;> rfl
    exact ⟨this, fun hk => by rw [this, hk]; rfl⟩
  · show viperGet e.envBase (match e.explicitCfg with | some k => k | none => k (configDir e)) (defaultBase e) =
         viperGet e.envBase (match e.explicitCfg with | some k => k | none => e.cfgKey (configDir e)) (defaultBase e)
    rw [hk _ rfl]

/-- which of the three cases of `newResolver` an environment is in -/
inductive Case | home | legacy | xdg
deriving DecidableEq, Repr

def HomeCase (e : Env) : Prop := ∃ v, getenv e.bdHome = some v
def LegacyCase (e : Env) : Prop := getenv e.bdHome = none ∧ e.legacyExists = true
def XdgCase (e : Env) : Prop := getenv e.bdHome = none ∧ e.legacyExists = false

/-- exactly one of the three cases applies to every environment, and the answer is a function of what the code reads: two
    environments that agree on BLACKDAGGER_HOME, XDG_CONFIG_HOME, HOME, the existence of the legacy directory, the config.yaml
    keys, BLACKDAGGER_BASE_CONFIG and the `--config` file get the same directory and the same base configuration (the existence of the XDG directory
    is not among them). -/
theorem C15_resolver_total (e : Env) :
    ((HomeCase e ∧ ¬ LegacyCase e ∧ ¬ XdgCase e) ∨ (¬ HomeCase e ∧ LegacyCase e ∧ ¬ XdgCase e) ∨
     (¬ HomeCase e ∧ ¬ LegacyCase e ∧ XdgCase e)) ∧
    (∀ e' : Env, e'.bdHome = e.bdHome → e'.xdgConfigHome = e.xdgConfigHome → e'.home = e.home →
       e'.legacyExists = e.legacyExists → e'.cfgKey = e.cfgKey → e'.envBase = e.envBase → e'.explicitCfg = e.explicitCfg →
       resolve e' = resolve e ∧ baseConfigFile e' = baseConfigFile e) := by
  constructor
  · unfold HomeCase LegacyCase XdgCase
    cases hb : getenv e.bdHome <;> cases hl : e.legacyExists <;> simp
  · intro e' h1 h2 h3 h4 h5 h6 h7
    cases e; cases e'
    simp only at h1 h2 h3 h4 h5 h6 h7
    subst h1 h2 h3 h4 h5 h6 h7
    exact ⟨rfl, rfl⟩

/-- the limit a run is under: a DAG file that does not set `maxActiveRuns` (0 / absent) runs under the base configuration's; a
    DAG file's own non-zero limit wins, larger or smaller. -/
theorem C15_limit_inherited (baseLimit dagLimit : Nat) :
    effectiveLimit baseLimit 0 = baseLimit ∧
    (dagLimit ≠ 0 → effectiveLimit baseLimit dagLimit = dagLimit) ∧
    (effectiveLimit baseLimit dagLimit = 0 ↔ baseLimit = 0 ∧ dagLimit = 0) := by
  refine ⟨by simp [effectiveLimit], fun h => by simp [effectiveLimit, h], ?_⟩
  unfold effectiveLimit
  by_cases h : dagLimit = 0 <;> simp [h]

/-! ### the seeded change C15-6 (`legacy only if the XDG directory is absent`) violates `legacy_wins` -/

/-- what `C15_resolver_legacy_wins` says of a resolver, as a predicate on the resolver -/
def LegacyWins (r : Env → Res) : Prop :=
  ∀ e : Env, getenv e.bdHome = none → e.legacyExists = true →
    (r e).configDir = e.home ++ [".blackdagger"] ∧ (r e).baseConfigFile = e.home ++ [".blackdagger", "base.yaml"]

theorem legacyWins_real : LegacyWins resolve := fun e h hl =>
  ⟨(C15_resolver_legacy_wins e h hl).1, (C15_resolver_legacy_wins e h hl).2.1⟩

/-- the layout `both` of lib/x_c15_cmd.py: `~/.blackdagger` and `~/.config/blackdagger` exist, nothing set -/
def bothLayout : Env :=
  { bdHome := none, xdgConfigHome := none, home := ["H"], legacyExists := true, xdgExists := true,
    cfgKey := fun _ => none, envBase := none }

theorem C15_6_mutant_refuted : ¬ LegacyWins resolveC15_6 := by
  intro h
  have := (h bothLayout (by decide) (by decide)).2
  revert this
  decide

/-- and the base configuration a command of the changed tree loads in that layout is the XDG directory's -/
example : baseConfigFileC15_6 bothLayout = ["H", ".config", "blackdagger", "base.yaml"] := by decide
example : baseConfigFile bothLayout = ["H", ".blackdagger", "base.yaml"] := by decide

/-! ### non-vacuity: every case has an environment, and the explicit settings act -/

def envhome : Env := { bothLayout with bdHome := some ["H", "bdhome"] }
def xdgenv : Env := { bothLayout with legacyExists := false, xdgConfigHome := some ["H", "cfgroot"] }
def cfgkey : Env :=
  { bothLayout with cfgKey := fun d => if d = ["H", ".blackdagger"] then some ["H", "custom", "base.yaml"]
                                       else if d = ["H", ".config", "blackdagger"] then some ["H", "other", "base.yaml"] else none }

example : HomeCase envhome ∧ baseConfigFile envhome = ["H", "bdhome", "base.yaml"] := ⟨⟨_, rfl⟩, by decide⟩
example : LegacyCase bothLayout := ⟨rfl, rfl⟩
example : XdgCase xdgenv ∧ baseConfigFile xdgenv = ["H", "cfgroot", "blackdagger", "base.yaml"] := ⟨⟨rfl, rfl⟩, by decide⟩
example : baseConfigFile { bothLayout with legacyExists := false } = ["H", ".config", "blackdagger", "base.yaml"] := by decide
example : baseConfigFile cfgkey = ["H", "custom", "base.yaml"] := by decide
example : baseConfigFile { cfgkey with envBase := some ["H", "env", "b.yaml"] } = ["H", "env", "b.yaml"] := by decide
/-- `--config FILE`: FILE's key, not the directory's config.yaml; the directory (DAGs) stays the resolved one -/
example : baseConfigFile { cfgkey with explicitCfg := some (some ["H", "custom", "flag.yaml"]) } = ["H", "custom", "flag.yaml"] ∧
          baseConfigFile { cfgkey with explicitCfg := some none } = ["H", ".blackdagger", "base.yaml"] ∧
          dagsDir { cfgkey with explicitCfg := some none } = ["H", ".blackdagger", "dags"] := by decide
/-- a variable set to the empty string is an unset one -/
example : baseConfigFile { cfgkey with envBase := some [], bdHome := some [] } = ["H", "custom", "base.yaml"] := by decide
example : effectiveLimit 2 0 = 2 ∧ effectiveLimit 2 5 = 5 ∧ effectiveLimit 2 1 = 1 ∧ effectiveLimit 0 0 = 0 := by decide

end BdModel.P15Config

#print axioms BdModel.P15Config.C15_resolver_home_overrides
#print axioms BdModel.P15Config.C15_resolver_legacy_wins
#print axioms BdModel.P15Config.C15_resolver_xdg_otherwise
#print axioms BdModel.P15Config.C15_resolver_explicit_base
#print axioms BdModel.P15Config.C15_resolver_total
#print axioms BdModel.P15Config.C15_limit_inherited
#print axioms BdModel.P15Config.C15_6_mutant_refuted
