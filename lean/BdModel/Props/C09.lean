import BdModel.Proofs.CronDedupe
/-
  C09 — the scheduler daemon starts each DAG exactly at its scheduled minutes.

  Instants are seconds since Go's zero time; a tick is `60*m` (minute `m`), `fires s m` is "schedule s
  matches minute m" (UTC civil calendar), `runTick dags susp st t` is the list of client calls one tick
  issues.  Everything is stated for ALL schedules (any bit sets, parsed or not), DAG sets, ticks, clock
  readings and status answers; nothing is bounded.

  On the current tree the property holds as stated: `C09_full` is PROVED (`C09_full_proved`).  It was
  refuted on the pinned tree by three defects, all repaired in /repo; the model follows the fixed code:
    F8   a valid expression that never fires inside robfig's 5-year horizon (`0 0 31 2 *`) gets the zero
         time from `Next`, which is not after `now`: the entry used to be invoked at EVERY tick; since
         3d1ee58 `run` skips it (`invokedPinned` keeps the old test only for `C09_F8_pinned_witness`).
    F10  two start schedules of one DAG firing in the same minute used to be invoked in two goroutines
         that both pass the guard: two Start calls; since 922dee6 `run` keeps a per-tick map keyed by
         entry type + DAG and invokes only the first due entry of each key (`dedupe`; `runTickPinned`
         keeps the old loop only for `C09_F10_pinned_witness`).
    F9 / F26  `schedule: {foo: …}` and `schedule: "TZ=UTC"` used to panic in the loader and kill the daemon
         for every DAG; fixed by 2134a7a and 677265a: `buildSchedule` never answers panic.
-/
namespace BdModel.P09
open BdModel.Cron

/-! ### (a) tick coverage -/

/-- **Ticks cover every minute.** Whatever the clock answers when the loop re-arms its timer (late,
    bunched, early), the ticks run are `trunc now0, +1 min, +2 min, …`: none skipped, none repeated. -/
theorem C09_ticks_cover (now0 : Nat) (nows : List Nat) :
    (daemonTicks now0 nows).map (·.1) = (List.range nows.length).map (fun k => truncMin now0 + 60 * k) := by
  obtain ⟨m, hm⟩ := truncMin_dvd now0
  unfold daemonTicks
  rw [hm, loopTicks_fst]
  apply List.map_congr_left
  intro k _
  omega

/-- a late clock programs a zero wait (the next tick fires at once) -/
theorem C09_late_tick_fires_at_once (t now : Nat) (rest : List Nat) (h : nextTick t ≤ now) :
    (loopTicks t (now :: rest)).head? = some (t, 0) := by
  simp [loopTicks]; omega

/-! ### (b) `Next` and the invoke test -/

/-- **`Next` returns the least firing minute** after `u` inside robfig's horizon (1 January of
    `year(u+1s)+6`), and the zero time iff there is none; proved by induction on the search. -/
theorem C09_next_least (s : Spec) (u : Nat) :
    (∀ r, next s u = some r ↔
      (u < 60 * r ∧ r < horizon u ∧ fires s r = true ∧ ∀ k, u < 60 * k → k < r → fires s k = false)) ∧
    (next s u = none ↔ ∀ k, u < 60 * k → k < horizon u → fires s k = false) := by
  refine ⟨fun r => ⟨next_some s u r, fun ⟨a, b, c, d⟩ => next_complete s u r a b c d⟩, next_none s u, ?_⟩
  intro h
  cases hn : next s u with
  | none => rfl
  | some r =>
    obtain ⟨a, b, c, _⟩ := next_some s u r hn
    have := h r a b
    simp [c] at this

/-- **invoke_iff.** At tick `60*m` an entry is invoked iff its schedule fires in minute `m` —
    for every schedule, no side condition. -/
theorem C09_invoke_iff (s : Spec) (m : Nat) (hm : 0 < m) :
    invoked s (60 * m) = true ↔ fires s m = true :=
  invoked_iff_fires s m hm

/-- a schedule with nothing inside the horizon (zero `Next`) is never invoked (F8 fix) -/
theorem C09_zero_next_never_invoked (s : Spec) (t : Nat) (h : next s (t - 1) = none) : invoked s t = false :=
  not_invoked_of_none s t h

/-! ### (c) start clause -/

/-- the condition of the property text, for DAG `d` at minute `m` -/
def StartCond (dags : List Dag) (susp : Nat → Bool) (st : Nat → Status) (d m : Nat) : Prop :=
  (∃ x ∈ dags, x.id = d ∧ ∃ sp ∈ x.starts, fires sp m = true) ∧ susp d = false ∧
  (st d).err = false ∧ (st d).running = false ∧ ∀ l, (st d).started = some l → truncMin l < 60 * m

theorem entryAct_eq (st : Nat → Status) (m i : Nat) (k : Kind) (sp : Spec) (hm : 0 < m) :
    entryAct st (60 * m) ⟨i, k, sp⟩ = if fires sp m = true then invoke ⟨i, k, sp⟩ (60 * m) (st i) else none := by
  unfold entryAct
  by_cases hf : fires sp m = true
  · have hi := (invoked_iff_fires sp m hm).mpr hf
    simp only [hi, hf, if_true, nextTime_of_invoked sp m hm hi]
  · have hi : ¬ invoked sp (60 * m) = true := fun x => hf ((invoked_iff_fires sp m hm).mp x)
    simp [hi, hf]

/-- **start_iff.** A Start call is issued for DAG `d` at minute `m` iff one of its start schedules
    fires in `m`, it is not suspended, its status is readable and not running, and its last start
    (truncated to the minute; an unparsable time counts as none) is before `m`. -/
theorem C09_start_iff (dags : List Dag) (susp : Nat → Bool) (st : Nat → Status) (d m : Nat) (hm : 0 < m) :
    Act.start d ∈ runTick dags susp st (60 * m) ↔ StartCond dags susp st d m := by
  rw [mem_runTick]
  constructor
  · rintro ⟨x, hx, hs, e, he, ha⟩
    obtain ⟨hdag, hk⟩ := (mem_entriesOf x e).mp he
    obtain ⟨_, hshape⟩ := entryAct_shape st _ e _ ha
    rcases hshape with ⟨hkind, heq⟩ | ⟨_, heq⟩ | ⟨_, heq⟩
    · have hed : e.dag = d := by injection heq with h; exact h.symm
      have hxd : x.id = d := by rw [← hdag]; exact hed
      have hsp : e.spec ∈ x.starts := by
        rcases hk with ⟨_, h⟩ | ⟨h, _⟩ | ⟨h, _⟩
        · exact h
        · rw [hkind] at h; cases h
        · rw [hkind] at h; cases h
      have hform : e = ⟨e.dag, .start, e.spec⟩ := by cases e; simp_all
      rw [hform, entryAct_eq st m e.dag .start e.spec hm] at ha
      by_cases hf : fires e.spec m = true
      · simp only [hf, if_true, invoke] at ha
        rw [hed] at ha
        obtain ⟨g1, g2, g3⟩ := (jobStart_iff d (60 * m) (st d)).mp ha
        exact ⟨⟨x, hx, hxd, e.spec, hsp, hf⟩, by rw [← hxd]; exact hs, g1, g2, g3⟩
      · simp [hf] at ha
    · cases heq
    · cases heq
  · rintro ⟨⟨x, hx, hxd, sp, hsp, hf⟩, hs, g1, g2, g3⟩
    refine ⟨x, hx, by rw [hxd]; exact hs, ⟨x.id, .start, sp⟩, ?_, ?_⟩
    · exact (mem_entriesOf x _).mpr ⟨rfl, Or.inl ⟨rfl, hsp⟩⟩
    · rw [entryAct_eq st m x.id .start sp hm]
      simp only [hf, if_true, invoke, hxd]
      exact (jobStart_iff d (60 * m) (st d)).mpr ⟨g1, g2, g3⟩

/-- **Never twice across restarts / repeated ticks.** Once the history shows a run that is still
    running, or that started in or after minute `m`, NO daemon instance (any DAG set) issues a Start
    for that DAG at tick `m` again. -/
theorem C09_no_second_start (dags : List Dag) (susp : Nat → Bool) (st : Nat → Status) (d m : Nat)
    (h : (st d).running = true ∨ ∃ l, (st d).started = some l ∧ 60 * m ≤ truncMin l) :
    Act.start d ∉ runTick dags susp st (60 * m) := by
  intro hmem
  obtain ⟨x, _, _, e, _, ha⟩ := (mem_runTick _ _ _ _ _).mp hmem
  obtain ⟨hinv, hshape⟩ := entryAct_shape st _ e _ ha
  rcases hshape with ⟨hkind, heq⟩ | ⟨_, heq⟩ | ⟨_, heq⟩
  · have hed : e.dag = d := by injection heq with h; exact h.symm
    unfold entryAct at ha
    simp only [hinv, if_true, invoke, hkind, hed] at ha
    obtain ⟨_, g2, g3⟩ := (jobStart_iff d _ (st d)).mp ha
    have hle : nextTime e.spec (60 * m - 1) ≤ 60 * m := by
      obtain ⟨r, hn, hr⟩ := invoked_next e.spec _ hinv
      simp only [nextTime, hn]; exact hr
    rcases h with hr | ⟨l, hl, hge⟩
    · rw [g2] at hr; cases hr
    · have := g3 l hl; omega
  · cases heq
  · cases heq

/-- **The start guard does not look at how the latest run ended.** Two readable statuses that are
    both not running and carry the same start time — finished, failed, canceled, or "none" — get the
    same answer from `jobImpl.Start`: running ⇒ refused; any other label ⇒ refused iff the run started in
    or after the scheduled minute (`jobStart_iff`, used by `C09_start_iff` / `C09_no_second_start`,
    whose conditions mention `running` and `started` only). -/
theorem C09_guard_label_independent (d j : Nat) (s1 s2 : Status) (he : s1.err = s2.err)
    (hs : s1.started = s2.started) (h1 : s1.running = false) (h2 : s2.running = false) :
    jobStart d j s1 = jobStart d j s2 := by
  unfold jobStart
  simp only [he, hs, h1, h2]

/-- the guard of seeded mutant C09-3: the start time is consulted for success / error only -/
def jobStartMutant (dag jnext : Nat) (st : Status) : Option Act :=
  if st.err then none
  else match st.label with
    | .running => none
    | .success | .error =>
      (match st.started with
       | some l => if truncMin l ≥ jnext then none else some (.start dag)
       | none => some (.start dag))
    | _ => some (.start dag)

/-- **Once per tick.** No client call — Start, Stop or Restart of a DAG — is issued twice in one tick,
    however many schedules of that kind fire in the minute (per-tick de-duplication of `run`). -/
theorem C09_at_most_once (dags : List Dag) (susp : Nat → Bool) (st : Nat → Status) (t : Nat) (a : Act) :
    (runTick dags susp st t).count a ≤ 1 :=
  count_runTick_le_one dags susp st t a

/-- **Exactly once.** The number of Start calls for DAG `d` at minute `m` is 1 when the condition of the
    property holds and 0 otherwise. -/
theorem C09_start_exactly_once (dags : List Dag) (susp : Nat → Bool) (st : Nat → Status) (d m : Nat) (hm : 0 < m) :
    (StartCond dags susp st d m → (runTick dags susp st (60 * m)).count (Act.start d) = 1) ∧
    (¬ StartCond dags susp st d m → (runTick dags susp st (60 * m)).count (Act.start d) = 0) := by
  constructor
  · intro hc
    have hmem := (C09_start_iff dags susp st d m hm).mpr hc
    have hpos := List.count_pos_iff.mpr hmem
    have hle := C09_at_most_once dags susp st (60 * m) (Act.start d)
    omega
  · intro hc
    exact List.count_eq_zero.mpr (fun hmem => hc ((C09_start_iff dags susp st d m hm).mp hmem))

/-! ### (d) stop and restart clauses -/

/-- **stop_iff.** Stop is issued iff a stop schedule fires, the DAG is not suspended and it IS running. -/
theorem C09_stop_iff (dags : List Dag) (susp : Nat → Bool) (st : Nat → Status) (d m : Nat) (hm : 0 < m) :
    Act.stop d ∈ runTick dags susp st (60 * m) ↔
      (∃ x ∈ dags, x.id = d ∧ ∃ sp ∈ x.stops, fires sp m = true) ∧ susp d = false ∧
      (st d).err = false ∧ (st d).running = true := by
  rw [mem_runTick]
  constructor
  · rintro ⟨x, hx, hs, e, he, ha⟩
    obtain ⟨hdag, hk⟩ := (mem_entriesOf x e).mp he
    obtain ⟨_, hshape⟩ := entryAct_shape st _ e _ ha
    rcases hshape with ⟨_, heq⟩ | ⟨hkind, heq⟩ | ⟨_, heq⟩
    · cases heq
    · have hed : e.dag = d := by injection heq with h; exact h.symm
      have hxd : x.id = d := by rw [← hdag]; exact hed
      have hsp : e.spec ∈ x.stops := by
        rcases hk with ⟨h, _⟩ | ⟨_, h⟩ | ⟨h, _⟩
        · rw [hkind] at h; cases h
        · exact h
        · rw [hkind] at h; cases h
      have hform : e = ⟨e.dag, .stop, e.spec⟩ := by cases e; simp_all
      rw [hform, entryAct_eq st m e.dag .stop e.spec hm] at ha
      by_cases hf : fires e.spec m = true
      · simp only [hf, if_true, invoke, jobStop, hed] at ha
        refine ⟨⟨x, hx, hxd, e.spec, hsp, hf⟩, by rw [← hxd]; exact hs, ?_⟩
        cases h1 : (st d).err <;> cases h2 : (st d).running <;> simp [h1, h2] at ha ⊢
      · simp [hf] at ha
    · cases heq
  · rintro ⟨⟨x, hx, hxd, sp, hsp, hf⟩, hs, g1, g2⟩
    refine ⟨x, hx, by rw [hxd]; exact hs, ⟨x.id, .stop, sp⟩, ?_, ?_⟩
    · exact (mem_entriesOf x _).mpr ⟨rfl, Or.inr (Or.inl ⟨rfl, hsp⟩)⟩
    · rw [entryAct_eq st m x.id .stop sp hm]
      simp [hf, invoke, jobStop, hxd, g1, g2]

/-- **restart_iff.** Restart is issued at each minute in which a restart schedule fires (unless suspended). -/
theorem C09_restart_iff (dags : List Dag) (susp : Nat → Bool) (st : Nat → Status) (d m : Nat) (hm : 0 < m) :
    Act.restart d ∈ runTick dags susp st (60 * m) ↔
      (∃ x ∈ dags, x.id = d ∧ ∃ sp ∈ x.restarts, fires sp m = true) ∧ susp d = false := by
  rw [mem_runTick]
  constructor
  · rintro ⟨x, hx, hs, e, he, ha⟩
    obtain ⟨hdag, hk⟩ := (mem_entriesOf x e).mp he
    obtain ⟨_, hshape⟩ := entryAct_shape st _ e _ ha
    rcases hshape with ⟨_, heq⟩ | ⟨_, heq⟩ | ⟨hkind, heq⟩
    · cases heq
    · cases heq
    · have hed : e.dag = d := by injection heq with h; exact h.symm
      have hxd : x.id = d := by rw [← hdag]; exact hed
      have hsp : e.spec ∈ x.restarts := by
        rcases hk with ⟨h, _⟩ | ⟨h, _⟩ | ⟨_, h⟩
        · rw [hkind] at h; cases h
        · rw [hkind] at h; cases h
        · exact h
      have hform : e = ⟨e.dag, .restart, e.spec⟩ := by cases e; simp_all
      rw [hform, entryAct_eq st m e.dag .restart e.spec hm] at ha
      by_cases hf : fires e.spec m = true
      · exact ⟨⟨x, hx, hxd, e.spec, hsp, hf⟩, by rw [← hxd]; exact hs⟩
      · simp [hf] at ha
  · rintro ⟨⟨x, hx, hxd, sp, hsp, hf⟩, hs⟩
    refine ⟨x, hx, by rw [hxd]; exact hs, ⟨x.id, .restart, sp⟩, ?_, ?_⟩
    · exact (mem_entriesOf x _).mpr ⟨rfl, Or.inr (Or.inr ⟨rfl, hsp⟩)⟩
    · rw [entryAct_eq st m x.id .restart sp hm]
      simp [hf, invoke, jobRestart, hxd]

/-! ### (e) isolation -/

/-- **An unloadable file changes nothing** — at start-up (anywhere in the directory listing) and when
    the watcher sees it written. -/
theorem C09_bad_file_isolated (pre post : List (Nat × Load)) (id : Nat) (m : List Dag) :
    initDags (pre ++ (id, .err) :: post) [] = initDags (pre ++ post) [] ∧
    applyEvent m (.write id .err) = some m :=
  ⟨initDags_skip_err pre post id [], rfl⟩

/-- **Any file whose load does not panic leaves the other DAGs' calls unchanged** (added or edited
    while the daemon runs, or present at start-up). -/
theorem C09_other_dags_unaffected (m : List Dag) (id : Nat) (l : Load) (hp : l ≠ .panic) :
    ∃ m', loadFile m id l = some m' ∧ ∀ susp st t d, d ≠ id →
      (runTick m' susp st t).filter (fun a => a.dag == d) = (runTick m susp st t).filter (fun a => a.dag == d) := by
  cases l with
  | panic => exact absurd rfl hp
  | err => exact ⟨m, rfl, fun _ _ _ _ _ => rfl⟩
  | zone => exact ⟨m, rfl, fun _ _ _ _ _ => rfl⟩
  | ok a b c =>
    refine ⟨upsert m ⟨id, a, b, c⟩, rfl, fun susp st t d hd => ?_⟩
    rw [runTick_filter_dag, runTick_filter_dag, upsert_filter_other m ⟨id, a, b, c⟩ d (fun h => hd h.symm)]

/-- removing a file likewise -/
theorem C09_remove_unaffected (m : List Dag) (id : Nat) (susp : Nat → Bool) (st : Nat → Status) (t d : Nat)
    (hd : d ≠ id) :
    ∃ m', applyEvent m (.remove id) = some m' ∧
      (runTick m' susp st t).filter (fun a => a.dag == d) = (runTick m susp st t).filter (fun a => a.dag == d) := by
  refine ⟨_, rfl, ?_⟩
  rw [runTick_filter_dag, runTick_filter_dag, List.filter_filter]
  congr 1
  apply List.filter_congr
  intro x _
  by_cases h : x.id = d
  · simp [h, hd]
  · simp [h]

/-! ### the full statement, its refutation, and the strongest true part -/

/-- start clause as the property text has it (for every DAG set) -/
def C09_exact_start : Prop :=
  ∀ (dags : List Dag) (susp : Nat → Bool) (st : Nat → Status) (d m : Nat), 0 < m →
    (Act.start d ∈ runTick dags susp st (60 * m) ↔ StartCond dags susp st d m)

/-- "none is run twice": at most one Start per DAG and tick when file ids are distinct -/
def C09_never_twice : Prop :=
  ∀ (dags : List Dag) (susp : Nat → Bool) (st : Nat → Status) (d t : Nat),
    (dags.map (·.id)).Nodup → (runTick dags susp st t).count (Act.start d) ≤ 1

/-- "a malformed or unloadable file never prevents the other DAGs from being scheduled" -/
def C09_isolation : Prop :=
  ∀ (files : List (Nat × SchedDef)) (extra : Nat × SchedDef),
    (initDags (files.map (fun f => (f.1, buildSchedule f.2))) []).isSome = true →
    (initDags ((files ++ [extra]).map (fun f => (f.1, buildSchedule f.2))) []).isSome = true

/-- one call per DAG, kind and minute — Start, Stop and Restart alike -/
def C09_once_per_minute : Prop :=
  ∀ (dags : List Dag) (susp : Nat → Bool) (st : Nat → Status) (t : Nat) (a : Act),
    (runTick dags susp st t).count a ≤ 1

def C09_full : Prop := C09_exact_start ∧ C09_never_twice ∧ C09_once_per_minute ∧ C09_isolation

/-- `0 0 31 2 *` -/
def feb31 : Spec := ⟨⟨1, false⟩, ⟨1, false⟩, ⟨0x80000000, false⟩, ⟨4, false⟩, ⟨0x7f, true⟩⟩
/-- `* * * * *` -/
def everyMinute : Spec := ⟨⟨2 ^ 60 - 1, true⟩, ⟨2 ^ 24 - 1, true⟩, ⟨2 ^ 32 - 2, true⟩, ⟨2 ^ 13 - 2, true⟩, ⟨127, true⟩⟩
def neverRun : Nat → Status := fun _ => ⟨false, .none, none⟩
/-- minute of 2024-01-01T00:07Z -/
def m2024 : Nat := 28401127 + unixEpochMin

example : parseStr "0 0 31 2 *" = .ok feb31 := by decide
example : parseStr "* * * * *" = .ok everyMinute := by decide

/-- **The start clause holds exactly** (since the F8 fix). -/
theorem C09_exact_start_holds : C09_exact_start :=
  fun dags susp st d m hm => C09_start_iff dags susp st d m hm

/-- the invoke test as it was before 3d1ee58: the zero time is "not after now" -/
def invokedPinned (s : Spec) (t : Nat) : Bool := !decide (nextTime s (t - 1) > t)

set_option maxRecDepth 100000 in
/-- F8, as it was: `0 0 31 2 *` never fires, the old test invoked it at 2024-01-01T00:07Z (and at every
    other tick); the current test does not, and no call is issued -/
theorem C09_F8_pinned_witness :
    invokedPinned feb31 (60 * m2024) = true ∧ fires feb31 m2024 = false ∧ invoked feb31 (60 * m2024) = false ∧
    runTick [⟨1, [feb31], [], []⟩] (fun _ => false) neverRun (60 * m2024) = [] := by
  decide

/-- F10, as it was: two start schedules firing in the same minute gave two Start calls in the loop
    without de-duplication; the current loop issues exactly one -/
theorem C09_F10_pinned_witness :
    (runTickPinned [⟨1, [everyMinute, everyMinute], [], []⟩] (fun _ => false) neverRun (60 * m2024)).count (Act.start 1) = 2 ∧
    runTick [⟨1, [everyMinute, everyMinute], [], []⟩] (fun _ => false) neverRun (60 * m2024) = [Act.start 1] := by
  decide

/-- a latest run that was CANCELED (or carries no final label) after starting in minute m blocks a second
    Start for m exactly like a finished one: the real guard refuses, the mutant's would start again -/
theorem C09_canceled_run_blocks_witness :
    jobStart 1 (60 * m2024) ⟨false, .cancel, some (60 * m2024 + 13)⟩ = none ∧
    jobStartMutant 1 (60 * m2024) ⟨false, .cancel, some (60 * m2024 + 13)⟩ = some (.start 1) ∧
    jobStart 1 (60 * m2024) ⟨false, .none, some (60 * m2024 + 13)⟩ = none ∧
    jobStartMutant 1 (60 * m2024) ⟨false, .none, some (60 * m2024 + 13)⟩ = some (.start 1) ∧
    runTick [⟨1, [everyMinute], [], []⟩] (fun _ => false) (fun _ => ⟨false, .cancel, some (60 * m2024 + 13)⟩) (60 * m2024) = [] ∧
    runTick [⟨1, [everyMinute], [], []⟩] (fun _ => false) (fun _ => ⟨false, .cancel, some (60 * m2024 - 1)⟩) (60 * m2024) = [.start 1] := by
  decide

/-- **"None is run twice" holds** (within a tick by the de-duplication; across ticks and daemon restarts
    by `C09_no_second_start`). -/
theorem C09_never_twice_holds : C09_never_twice :=
  fun dags susp st d t _ => C09_at_most_once dags susp st t (Act.start d)

theorem C09_once_per_minute_holds : C09_once_per_minute := C09_at_most_once

/-- the former F9 witness (`schedule: {foo: "* * * * *"}`) and F26 witnesses (`schedule: "TZ=UTC"`) are
    plain load errors now; robfig's parser itself still panics on the latter -/
theorem C09_F9_F26_regression :
    buildSchedule (.map [(.unknown, .str "* * * * *".toList)]) = .err ∧
    buildSchedule (.val (.str "TZ=UTC".toList)) = .err ∧
    buildSchedule (.map [(.start, .str "TZ=UTC".toList)]) = .err ∧
    parse "TZ=UTC".toList = .panic := by
  decide

/-- **Isolation holds.** Whatever a file in the DAGs directory contains, loading it cannot take the
    daemon down: `buildSchedule` answers ok or error for every decoded value, so `initDags` always
    yields a DAG map. -/
theorem C09_isolation_holds : C09_isolation := by
  intro files extra _
  apply initDags_isSome
  intro f hf
  obtain ⟨g, _, rfl⟩ := List.mem_map.mp hf
  exact buildSchedule_no_panic g.2

/-- **Any file, good or bad, leaves the other DAGs' calls unchanged** — at start-up and when the watcher
    sees it created or edited while the daemon runs. -/
theorem C09_any_file_isolated (m : List Dag) (id : Nat) (d : SchedDef) :
    ∃ m', loadFile m id (buildSchedule d) = some m' ∧ ∀ susp st t x, x ≠ id →
      (runTick m' susp st t).filter (fun a => a.dag == x) = (runTick m susp st t).filter (fun a => a.dag == x) :=
  C09_other_dags_unaffected m id (buildSchedule d) (buildSchedule_no_panic d)

/-- **C09_full holds on the current tree.** -/
theorem C09_full_proved : C09_full :=
  ⟨C09_exact_start_holds, C09_never_twice_holds, C09_once_per_minute_holds, C09_isolation_holds⟩

/-! ### non-vacuity: the hypotheses are met by concrete, non-trivial states -/

/-- `*/15 0 1,15 * 1-5` -/
def quarterly : Spec := ⟨⟨0x200040008001, false⟩, ⟨1, false⟩, ⟨0x8002, false⟩, ⟨0x1ffe, true⟩, ⟨0x3e, false⟩⟩
example : parseStr "*/15 0 1,15 * 1-5" = .ok quarterly := by decide
-- 2024-01-01 is a Monday and the 1st: fires at 00:00, 00:15; not 00:07; `Next` is not the zero time
example : fires quarterly (m2024 - 7) = true ∧ fires quarterly (m2024 + 8) = true ∧ fires quarterly m2024 = false := by decide
example : next quarterly (60 * m2024 - 1) = some (m2024 + 8) := by decide
example : runTick [⟨1, [quarterly], [everyMinute], []⟩, ⟨2, [], [], [everyMinute]⟩] (fun _ => false)
    (fun _ => ⟨false, .running, some (60 * m2024 - 500)⟩) (60 * (m2024 + 8)) = [.stop 1, .restart 2] := by decide
example : runTick [⟨1, [quarterly], [], []⟩] (fun _ => false) neverRun (60 * (m2024 + 8)) = [.start 1] := by decide
-- started in the same minute already (e.g. by the daemon instance that was just restarted): no second start
example : runTick [⟨1, [quarterly], [], []⟩] (fun _ => false) (fun _ => ⟨false, .success, some (60 * (m2024 + 8) + 13)⟩)
    (60 * (m2024 + 8)) = [] := by decide
example : (daemonTicks 1000000007 [1000000300, 1000000301, 1000000302]).map (·.1) = [999999960, 1000000020, 1000000080] := by decide

end BdModel.P09

#print axioms BdModel.P09.C09_ticks_cover
#print axioms BdModel.P09.C09_late_tick_fires_at_once
#print axioms BdModel.P09.C09_next_least
#print axioms BdModel.P09.C09_invoke_iff
#print axioms BdModel.P09.C09_zero_next_never_invoked
#print axioms BdModel.P09.C09_start_iff
#print axioms BdModel.P09.C09_no_second_start
#print axioms BdModel.P09.C09_guard_label_independent
#print axioms BdModel.P09.C09_at_most_once
#print axioms BdModel.P09.C09_start_exactly_once
#print axioms BdModel.P09.C09_stop_iff
#print axioms BdModel.P09.C09_restart_iff
#print axioms BdModel.P09.C09_bad_file_isolated
#print axioms BdModel.P09.C09_other_dags_unaffected
#print axioms BdModel.P09.C09_remove_unaffected
#print axioms BdModel.P09.C09_exact_start_holds
#print axioms BdModel.P09.C09_F8_pinned_witness
#print axioms BdModel.P09.C09_F10_pinned_witness
#print axioms BdModel.P09.C09_canceled_run_blocks_witness
#print axioms BdModel.P09.C09_never_twice_holds
#print axioms BdModel.P09.C09_once_per_minute_holds
#print axioms BdModel.P09.C09_F9_F26_regression
#print axioms BdModel.P09.C09_isolation_holds
#print axioms BdModel.P09.C09_any_file_isolated
#print axioms BdModel.P09.C09_full_proved
