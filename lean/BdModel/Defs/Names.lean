/-
  Which file a DAG NAME denotes in the definition store (internal/persistence/local/dag_store.go
  `fileLocation` = `util.AddYamlExtension (path.Join dir name)`, internal/util/utils.go):

      ext := filepath.Ext(file)            -- the suffix from the LAST '.', "" if there is none
      ext == ""     -> file + ".yaml"
      ext == ".yml" -> strings.TrimSuffix(file, ext) + ".yaml"
      otherwise     -> file                -- ".yaml" included; ANY other dotted suffix is taken literally

  Names are `List Char` without a path separator (the check's assumption: names with '/' take the
  backward-compatibility path and are not generated), so the extension of `dir/name` is the extension
  of `name`. Several spellings denote ONE file (`x`, `x.yml`, `x.yaml` -> `x.yaml`); the C18 stream
  and the `Defs.Store` model identify a DAG with that file: the model's abstract name (a `Nat`) is the
  index of `resolve spelling` among the distinct resolved files of a case. Core-only.
-/
namespace BdModel.Defs

/-- `(stem, ext)` with `ext` = the suffix that starts at the LAST `'.'` (`filepath.Ext`), `[]` if none -/
def splitExt : List Char → List Char × List Char
  | [] => ([], [])
  | c :: cs =>
    let p := splitExt cs
    if p.2 ≠ [] then (c :: p.1, p.2)        -- a later dot exists
    else if c = '.' then ([], c :: cs)      -- this is the last dot
    else (c :: p.1, [])

def yamlExt : List Char := ['.', 'y', 'a', 'm', 'l']
def ymlExt : List Char := ['.', 'y', 'm', 'l']

/-- `util.AddYamlExtension` on the name part -/
def resolve (s : List Char) : List Char :=
  let p := splitExt s
  if p.2 = [] then s ++ yamlExt
  else if p.2 = ymlExt then p.1 ++ yamlExt
  else s

/-- `dagStoreImpl.find` (behind `Find`, which `client.Rename` calls for both names), AFTER fix F50 (8b26466): the
    files it probes, in order, for a spelling — without an extension `.yaml` then `.yml`; with an extension the
    spelling literally, then (if different) the file the other store operations use for it (`AddYamlExtension`) -/
def findCandidates (s : List Char) : List (List Char) :=
  if (splitExt s).2 = [] then [s ++ yamlExt, s ++ ymlExt]
  else if resolve s = s then [s] else [s, resolve s]

/-- the same BEFORE F50 (up to bdc6981): a spelling with an extension was probed literally only — regression witness -/
def findCandidatesPre (s : List Char) : List (List Char) :=
  if (splitExt s).2 = [] then [s ++ yamlExt, s ++ ymlExt] else [s]

/-- `find` can reach the file the store reads / writes for the spelling -/
def findsOwnFile (s : List Char) : Bool := (findCandidates s).contains (resolve s)
def findsOwnFilePre (s : List Char) : Bool := (findCandidatesPre s).contains (resolve s)

/-- position of the first occurrence (length if none) -/
def firstIdx (x : List Char) : List (List Char) → Nat
  | [] => 0
  | y :: ys => if y = x then 0 else firstIdx x ys + 1

/-- the model's abstract name of the `i`-th spelling of a case: the position of the first spelling that
    resolves to the same file (a name index without spelling is its own key) -/
def keyOf (sps : List (List Char)) (i : Nat) : Nat :=
  match sps[i]? with
  | none => i
  | some s => firstIdx (resolve s) (sps.map resolve)

end BdModel.Defs
