import BdModel.Hist.Store
/-
  Model of the DAG definition store (internal/persistence/local/dag_store.go) together with the
  client operations that also touch history (client.go: CreateDAG, UpdateDAG, Rename, DeleteDAG),
  AFTER the fixes for F21 (rename refuses an existing target) and F22 (save = write a temporary file,
  then rename it over the definition). A definition text is an opaque id; `valid` is the loader's
  verdict on it (dag.LoadYAML, property C13). Core-only.
-/
namespace BdModel.Defs
open BdModel.Hist

structure World where
  defs : List (Nat × Nat) := []      -- DAG name ↦ text id (at most one entry per name)
  tmp  : List (Nat × Nat) := []      -- temporary files left in the DAGs directory (name ↦ text id)
  hist : Store := {}
deriving DecidableEq

inductive Res | ok | err
deriving DecidableEq, Repr

def lookup (w : World) (n : Nat) : Option Nat := (w.defs.find? (fun p => p.1 == n)).map (·.2)

def exists? (w : World) (n : Nat) : Bool := (lookup w n).isSome

def setDef (w : World) (n t : Nat) : World :=
  { w with defs := (w.defs.filter (fun p => p.1 != n)) ++ [(n, t)] }

def dropDef (w : World) (n : Nat) : World := { w with defs := w.defs.filter (fun p => p.1 != n) }

/-- `Create`: refuses an existing name -/
def create (w : World) (n tmpl : Nat) : World × Res :=
  if exists? w n then (w, .err) else (setDef w n tmpl, .ok)

/-- `UpdateSpec`: validate first, then the file must exist, then replace it atomically -/
def save (valid : Nat → Bool) (w : World) (n t : Nat) : World × Res :=
  if !valid t then (w, .err)
  else if !exists? w n then (w, .err)
  else (setDef w n t, .ok)

/-- the states a kill during an accepted `save` can leave: nothing yet; the temporary file written
    (possibly partially: its content is never read); the temporary file renamed over the definition -/
def saveStates (valid : Nat → Bool) (w : World) (n t : Nat) : List World :=
  if !valid t || !exists? w n then [w]
  else [w, { w with tmp := (n, t) :: w.tmp }, setDef w n t]

/-- client `Rename`: source must exist, target must not; the definition moves, then its history -/
def rename (w : World) (a b : Nat) : World × Res :=
  match lookup w a with
  | none => (w, .err)
  | some t =>
    if exists? w b then (w, .err)
    else ({ (setDef (dropDef w a) b t) with hist := Hist.rename w.hist a b }, .ok)

/-- client `Rename` as called with SPELLED names (Defs/Names.lean: several spellings denote one file; `a`, `b`
    are the keys = resolved files). `srcLit` / `dstLit`: `dagStore.Find` does NOT reach the file the store reads /
    writes for the spelling of the old / new name (`= !findsOwnFile spelling`).
    The code as it is (after fix F50, 8b26466: `find` falls back to the `AddYamlExtension` file) has
    `srcLit = dstLit = false` for every spelling (`C18_names_literal`); the driver evaluates exactly that.
    `true` is the behaviour BEFORE F50, kept as the regression witness (a spelling `x.yml` was probed literally):
      1. `Find(oldID)` fails for such a source spelling (and for a missing source): refused, nothing changed;
      2. `dagStoreImpl.Rename`: same file -> `os.Rename(f, f)`, a no-op; another file that exists -> refused;
      3. `Find(newID)` failed for such a target spelling AFTER the file had moved: an error was returned and the
         history stayed under the old name (F50; the last-but-one branch);
      4. the history follows (`Hist.rename`; onto itself: nothing moves). -/
def renameSp (w : World) (a b : Nat) (srcLit dstLit : Bool) : World × Res :=
  if srcLit then (w, .err)
  else match lookup w a with
  | none => (w, .err)
  | some t =>
    if a = b then (w, if dstLit then .err else .ok)
    else if exists? w b then (w, .err)
    else if dstLit then (setDef (dropDef w a) b t, .err)
    else ({ (setDef (dropDef w a) b t) with hist := Hist.rename w.hist a b }, .ok)

/-- client `DeleteDAG`: history first (`RemoveAll`), then the file (error if it does not exist) -/
def delete (w : World) (n : Nat) : World × Res :=
  let w1 := { w with hist := Hist.removeOld w.hist n 0 }
  if exists? w n then (dropDef w1 n, .ok) else (w1, .err)

end BdModel.Defs
