/- CANONICAL copy of Extracted/Sched.lean: the source facts the model was written against (updated only by ./check --recanon after the model was re-validated). -/
namespace BdModel.Canon.Sched

/-- hash of the normalised skeleton of Schedule (internal/dag/scheduler/scheduler.go) -/
def h_sched_Schedule : Nat := 0x86304ac014d3c816

/-- hash of the normalised skeleton of isReady (internal/dag/scheduler/scheduler.go) -/
def h_sched_isReady : Nat := 0xfa451317c79e8e2a

/-- hash of the normalised skeleton of Status (internal/dag/scheduler/scheduler.go) -/
def h_sched_Status : Nat := 0x4acff1f0bbe4da67

/-- hash of the normalised skeleton of Signal (internal/dag/scheduler/scheduler.go) -/
def h_sched_Signal : Nat := 0x32fb27f5ad1d1778

/-- hash of the normalised skeleton of Cancel (internal/dag/scheduler/scheduler.go) -/
def h_sched_Cancel : Nat := 0xc7db22a64325b786

/-- hash of the normalised skeleton of runHandlerNode (internal/dag/scheduler/scheduler.go) -/
def h_sched_runHandlerNode : Nat := 0x219012b70603158c

/-- hash of the normalised skeleton of setupNode (internal/dag/scheduler/scheduler.go) -/
def h_sched_setupNode : Nat := 0x4842d2f66195918b

/-- hash of the normalised skeleton of teardownNode (internal/dag/scheduler/scheduler.go) -/
def h_sched_teardownNode : Nat := 0x6fa2b97b0827dcbc

/-- hash of the normalised skeleton of execNode (internal/dag/scheduler/scheduler.go) -/
def h_sched_execNode : Nat := 0x68f34b68306028fe

/-- hash of the normalised skeleton of isFinished (internal/dag/scheduler/scheduler.go) -/
def h_sched_isFinished : Nat := 0xcfa6daa6bc457c4d

/-- hash of the normalised skeleton of isSucceed (internal/dag/scheduler/scheduler.go) -/
def h_sched_isSucceed : Nat := 0x6881c4c8f36f4f07

/-- hash of the normalised skeleton of runningCount (internal/dag/scheduler/scheduler.go) -/
def h_sched_runningCount : Nat := 0x56a8d559fc69b4ce

/-- hash of the normalised skeleton of isTimeout (internal/dag/scheduler/scheduler.go) -/
def h_sched_isTimeout : Nat := 0x425acdcb2d87cacc

/-- hash of the normalised skeleton of isCanceled (internal/dag/scheduler/scheduler.go) -/
def h_sched_isCanceled : Nat := 0xf5a67124dc139a28

/-- hash of the normalised skeleton of setCanceled (internal/dag/scheduler/scheduler.go) -/
def h_sched_setCanceled : Nat := 0x6580e2541b8f862e

/-- hash of the normalised skeleton of setup (internal/dag/scheduler/scheduler.go) -/
def h_sched_setup : Nat := 0xe6bb087f88155663

/-- hash of the normalised skeleton of signal (internal/dag/scheduler/node.go) -/
def h_node_signal : Nat := 0x463ede1434525399

/-- hash of the normalised skeleton of cancel (internal/dag/scheduler/node.go) -/
def h_node_cancel : Nat := 0x74816414b79524b0

/-- hash of the normalised skeleton of setErr (internal/dag/scheduler/node.go) -/
def h_node_setErr : Nat := 0x35428438b603832d

/-- hash of the normalised skeleton of setStatus (internal/dag/scheduler/node.go) -/
def h_node_setStatus : Nat := 0x648579034e8932b1

/-- hash of the normalised skeleton of eval (internal/dag/condition.go) -/
def h_cond_Condition_eval : Nat := 0xdc138b4d1c550363

/-- hash of the normalised skeleton of evalCondition (internal/dag/condition.go) -/
def h_cond_evalCondition : Nat := 0x2cb580039a385f6e

/-- hash of the normalised skeleton of EvalConditions (internal/dag/condition.go) -/
def h_cond_EvalConditions : Nat := 0x42a2aeda70db84a4

/-- hash of the normalised skeleton of finish (internal/dag/scheduler/node.go) -/
def h_node_finish : Nat := 0x66b0b281098a44e2

/-- hash of the normalised skeleton of State (internal/dag/scheduler/node.go) -/
def h_node_State : Nat := 0x937d4bd7a13083fc

/-- hash of the normalised skeleton of SetError (internal/dag/scheduler/node.go) -/
def h_node_SetError : Nat := 0x3e4a0d36440aaf3f

/-- hash of the normalised skeleton of getRetryCount (internal/dag/scheduler/node.go) -/
def h_node_getRetryCount : Nat := 0xe74990bb6d619407

/-- hash of the normalised skeleton of setRetriedAt (internal/dag/scheduler/node.go) -/
def h_node_setRetriedAt : Nat := 0x2f4ed76d845e0b6b

/-- hash of the normalised skeleton of getDoneCount (internal/dag/scheduler/node.go) -/
def h_node_getDoneCount : Nat := 0x9be03b6a2a9ae47d

/-- hash of the normalised skeleton of clearState (internal/dag/scheduler/node.go) -/
def h_node_clearState : Nat := 0x0cd364175773c3b7

/-- hash of the normalised skeleton of incRetryCount (internal/dag/scheduler/node.go) -/
def h_node_incRetryCount : Nat := 0x4a36ab112044b73b

/-- hash of the normalised skeleton of incDoneCount (internal/dag/scheduler/node.go) -/
def h_node_incDoneCount : Nat := 0x902bb2e29b9efac1

/-- hash of the normalised skeleton of setCmdRunning (internal/dag/scheduler/node.go) -/
def h_node_setCmdRunning : Nat := 0x1ccfad945ee66013

/-- hash of the normalised skeleton of isCmdRunning (internal/dag/scheduler/node.go) -/
def h_node_isCmdRunning : Nat := 0x3ebe6abf4c92454b

/-- hash of the normalised skeleton of init (internal/dag/scheduler/node.go) -/
def h_node_init : Nat := 0x01461d709eb184c3

/-- hash of the normalised skeleton of IsRunning (internal/dag/scheduler/graph.go) -/
def h_graph_IsRunning : Nat := 0x7ff8cd9864f9fa04

/-- hash of the normalised skeleton of * (internal/dag/scheduler/scheduler.go) -/
def h_rest_sched_dag_scheduler_scheduler_go : Nat := 0xa0151aae56bcad6b

/-- hash of the normalised skeleton of * (internal/dag/scheduler/node.go) -/
def h_rest_sched_dag_scheduler_node_go : Nat := 0x6b43ae1d1a44c105

/-- hash of the normalised skeleton of * (internal/dag/scheduler/graph.go) -/
def h_rest_sched_dag_scheduler_graph_go : Nat := 0xf45e0f2994ddccec

/-- hash of the normalised skeleton of * (internal/dag/condition.go) -/
def h_rest_sched_dag_condition_go : Nat := 0x08d42a7ecec719d6

/-- hash of the normalised skeleton of * (internal/patternutil/patternutil.go) -/
def h_rest_sched_patternutil_patternutil_go : Nat := 0x3daef2ecd52f8982

/-- hash of the normalised skeleton of * (internal/dag/executor/executor.go) -/
def h_rest_sched_dag_executor_executor_go : Nat := 0xff3866fd225f7261

/-- hash of the normalised skeleton of * (internal/dag/executor/command.go) -/
def h_rest_sched_dag_executor_command_go : Nat := 0xb59f538fbe36a633

def dryGuards : List String := ["setupNode: if !sc.dry { return node.setup(sc.logDir, sc.requestID) }; return nil", "teardownNode: if !sc.dry { return node.teardown() }; return nil", "execNode: if !sc.dry { return n.Execute(ctx) }; return nil"]

def errSwitch : List (List String) := [
  ["status == NodeStatusSuccess || status == NodeStatusCancel", ""],
  ["sc.isTimeout(g.startedAt)", "node.setStatus(NodeStatusCancel); sc.setLastError(execErr)"],
  ["sc.isCanceled()", "node.setStatus(NodeStatusCancel); sc.setLastError(execErr)"],
  ["node.data.Step.RetryPolicy != nil && node.data.Step.RetryPolicy.Limit > node.getRetryCount()", "node.incRetryCount(); time.Sleep(node.data.Step.RetryPolicy.Interval); node.setRetriedAt(time.Now()); _ = sc.teardownNode(node); released = true; node.setStatus(NodeStatusNone)"],
  ["default", "node.setStatus(NodeStatusError); node.setErr(execErr); sc.setLastError(execErr)"]]

def exitAppend : String := "handlers = append(handlers, dag.HandlerOnExit)"

def handlerSwitch : List (List String) := [
  ["StatusSuccess", "handlers = append(handlers, dag.HandlerOnSuccess)"],
  ["StatusError", "handlers = append(handlers, dag.HandlerOnFailure)"],
  ["StatusCancel", "handlers = append(handlers, dag.HandlerOnCancel)"],
  ["StatusNone", ""],
  ["StatusRunning", ""]]

def isReadyTable : List (List String) := [
  ["Success", "", "go", ""],
  ["Error", "Failure", "block", "Cancel"],
  ["Skipped", "Skipped", "block", "Skipped"],
  ["Cancel", "", "block", "Cancel"],
  ["None", "", "wait", ""],
  ["Running", "", "wait", ""],
  ["default", "", "wait", ""]]

def nodeSignalSkeleton : List String := ["n.mu.Lock()", "defer n.mu.Unlock()", "status := n.data.State.Status", "if n.cmdRunning && n.cmd != nil", ".sigsig := sig", ".if allowOverride && n.data.Step.SignalOnStop != \"\"", "..sigsig = unix.SignalNum(n.data.Step.SignalOnStop)", ".util.LogErr(\"sending signal\", n.cmd.Kill(sigsig))", "if status == NodeStatusRunning", ".n.data.State.Status = NodeStatusCancel"]

def pred_isFinished : List String := ["node.State().Status == NodeStatusRunning || node.State().Status == NodeStatusNone => return false"]

def pred_isSucceed : List String := ["nodeStatus == NodeStatusSuccess || nodeStatus == NodeStatusSkipped => continue"]

def pred_runningCount : List String := ["node.State().Status == NodeStatusRunning => count++"]

def scheduleIfConds : List String := ["err != nil", "sc.timeout > 0", "sc.isCanceled()", "node.State().Status != NodeStatusNone || !isReady(g, node)", "sc.isCanceled()", "sc.maxActiveRuns > 0 && sc.runningCount(g) >= sc.maxActiveRuns", "len(node.data.Step.Preconditions) > 0", "err != nil", "err != nil", "!released", "execErr != nil", "node.State().Status != NodeStatusCancel", "node.data.Step.RepeatPolicy.Repeat", "execErr == nil || node.data.Step.ContinueOn.Failure", "!sc.isCanceled()", "execErr != nil && done != nil", "node.State().Status == NodeStatusRunning", "executed", "!released", "err != nil", "done != nil", "n != nil", "err != nil", "done != nil"]

def signalSkeleton : List String := ["if !sc.isCanceled()", ".sc.setCanceled()", "range _,node := g.Nodes()", ".if !node.data.Step.RepeatPolicy.Repeat || sig == syscall.SIGKILL", "..node.signal(sig, allowOverride)", "if done != nil", ".func#0()()", "..func#0 body", "...done <- true", ".defer ^", ".for ;g.IsRunning() || sc.isExecuting(g);", "..time.Sleep(sc.pause)"]

def statusCascade : List (List String) := [
  ["?", "if outcome, ok := sc.getOutcome(); ok { return outcome }"],
  ["sc.isCanceled() && !sc.isSucceed(g)", "StatusCancel"],
  ["!g.IsStarted()", "StatusNone"],
  ["g.IsRunning()", "StatusRunning"],
  ["sc.isError()", "StatusError"],
  ["", "StatusSuccess"]]

end BdModel.Canon.Sched
