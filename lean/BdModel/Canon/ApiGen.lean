/- CANONICAL copy of Extracted/ApiGen.lean: the source facts the model was written against (updated only by ./check --recanon after the model was re-validated). -/
namespace BdModel.Canon.ApiGen

/-- hash of the normalised skeleton of * (internal/frontend/dag/error.go) -/
def h_rest_apigen_internal_frontend_dag_error_go : Nat := 0x610a8a73c5ad2e9a

/-- hash of the normalised skeleton of * (internal/frontend/middleware/logging.go) -/
def h_rest_apigen_internal_frontend_middleware_logging_go : Nat := 0x74b11639b263a8af

/-- hash of the normalised skeleton of * (internal/frontend/server/routes.go) -/
def h_rest_apigen_internal_frontend_server_routes_go : Nat := 0x7dfad12e83d198aa

/-- hash of the normalised skeleton of * (internal/frontend/server/templates.go) -/
def h_rest_apigen_internal_frontend_server_templates_go : Nat := 0x8f26dc283c947aad

/-- hash of the normalised skeleton of * (internal/frontend/gen/restapi/server.go) -/
def h_rest_apigen_internal_frontend_gen_restapi_server_go : Nat := 0xa6c6080125ff8e90

/-- hash of the normalised skeleton of * (internal/frontend/gen/restapi/operations/blackdagger_api.go) -/
def h_rest_apigen_internal_frontend_gen_restapi_operations_blackdagger_api_go : Nat := 0xfcba14f9a29d42d4

/-- hash of the normalised skeleton of * (internal/frontend/gen/models/api_error.go) -/
def h_rest_apigen_internal_frontend_gen_models_api_error_go : Nat := 0x5512fc9d3c0c5d63

/-- hash of the normalised skeleton of * (internal/frontend/gen/models/condition.go) -/
def h_rest_apigen_internal_frontend_gen_models_condition_go : Nat := 0xd0dc87fc423eb2bd

/-- hash of the normalised skeleton of * (internal/frontend/gen/models/create_dag_response.go) -/
def h_rest_apigen_internal_frontend_gen_models_create_dag_response_go : Nat := 0xc8f040a83144e148

/-- hash of the normalised skeleton of * (internal/frontend/gen/models/dag.go) -/
def h_rest_apigen_internal_frontend_gen_models_dag_go : Nat := 0x17d1928b97433b67

/-- hash of the normalised skeleton of * (internal/frontend/gen/models/dag_detail.go) -/
def h_rest_apigen_internal_frontend_gen_models_dag_detail_go : Nat := 0x1a0e8c3fbb228ead

/-- hash of the normalised skeleton of * (internal/frontend/gen/models/dag_list_item.go) -/
def h_rest_apigen_internal_frontend_gen_models_dag_list_item_go : Nat := 0x3c1350ba7840bbee

/-- hash of the normalised skeleton of * (internal/frontend/gen/models/dag_log_grid_item.go) -/
def h_rest_apigen_internal_frontend_gen_models_dag_log_grid_item_go : Nat := 0x90ec0a16fa458238

/-- hash of the normalised skeleton of * (internal/frontend/gen/models/dag_log_response.go) -/
def h_rest_apigen_internal_frontend_gen_models_dag_log_response_go : Nat := 0xffbd6f9820fb0340

/-- hash of the normalised skeleton of * (internal/frontend/gen/models/dag_scheduler_log_response.go) -/
def h_rest_apigen_internal_frontend_gen_models_dag_scheduler_log_response_go : Nat := 0x3dcb330f8470ef05

/-- hash of the normalised skeleton of * (internal/frontend/gen/models/dag_status.go) -/
def h_rest_apigen_internal_frontend_gen_models_dag_status_go : Nat := 0xade100a036f4083b

/-- hash of the normalised skeleton of * (internal/frontend/gen/models/dag_status_detail.go) -/
def h_rest_apigen_internal_frontend_gen_models_dag_status_detail_go : Nat := 0x7190b8442715e020

/-- hash of the normalised skeleton of * (internal/frontend/gen/models/dag_status_file.go) -/
def h_rest_apigen_internal_frontend_gen_models_dag_status_file_go : Nat := 0x4d161797100a74b3

/-- hash of the normalised skeleton of * (internal/frontend/gen/models/dag_status_with_details.go) -/
def h_rest_apigen_internal_frontend_gen_models_dag_status_with_details_go : Nat := 0xfe655b911c230da4

/-- hash of the normalised skeleton of * (internal/frontend/gen/models/dag_step_log_response.go) -/
def h_rest_apigen_internal_frontend_gen_models_dag_step_log_response_go : Nat := 0x4eb8ab143ef71d33

/-- hash of the normalised skeleton of * (internal/frontend/gen/models/get_dag_details_response.go) -/
def h_rest_apigen_internal_frontend_gen_models_get_dag_details_response_go : Nat := 0xa9e601e6c19ebf01

/-- hash of the normalised skeleton of * (internal/frontend/gen/models/handler_on.go) -/
def h_rest_apigen_internal_frontend_gen_models_handler_on_go : Nat := 0x442e931e36039d69

/-- hash of the normalised skeleton of * (internal/frontend/gen/models/list_dags_response.go) -/
def h_rest_apigen_internal_frontend_gen_models_list_dags_response_go : Nat := 0x4c355fd0a33554c1

/-- hash of the normalised skeleton of * (internal/frontend/gen/models/list_tag_response.go) -/
def h_rest_apigen_internal_frontend_gen_models_list_tag_response_go : Nat := 0x0f48ac760ea17e70

/-- hash of the normalised skeleton of * (internal/frontend/gen/models/post_dag_action_response.go) -/
def h_rest_apigen_internal_frontend_gen_models_post_dag_action_response_go : Nat := 0xb5e5fc5e63e2dfb0

/-- hash of the normalised skeleton of * (internal/frontend/gen/models/repeat_policy.go) -/
def h_rest_apigen_internal_frontend_gen_models_repeat_policy_go : Nat := 0x48bbcf8b2f3aacd5

/-- hash of the normalised skeleton of * (internal/frontend/gen/models/schedule.go) -/
def h_rest_apigen_internal_frontend_gen_models_schedule_go : Nat := 0x48108b3b5eb2f87c

/-- hash of the normalised skeleton of * (internal/frontend/gen/models/search_dags_match_item.go) -/
def h_rest_apigen_internal_frontend_gen_models_search_dags_match_item_go : Nat := 0xf65711f7006c3b14

/-- hash of the normalised skeleton of * (internal/frontend/gen/models/search_dags_response.go) -/
def h_rest_apigen_internal_frontend_gen_models_search_dags_response_go : Nat := 0x4c19c6dce2a8fd54

/-- hash of the normalised skeleton of * (internal/frontend/gen/models/search_dags_result_item.go) -/
def h_rest_apigen_internal_frontend_gen_models_search_dags_result_item_go : Nat := 0xc3c908508805b690

/-- hash of the normalised skeleton of * (internal/frontend/gen/models/status_detail.go) -/
def h_rest_apigen_internal_frontend_gen_models_status_detail_go : Nat := 0xefb701e4b031c751

/-- hash of the normalised skeleton of * (internal/frontend/gen/models/status_node.go) -/
def h_rest_apigen_internal_frontend_gen_models_status_node_go : Nat := 0xbe9666aff22e931e

/-- hash of the normalised skeleton of * (internal/frontend/gen/models/step_object.go) -/
def h_rest_apigen_internal_frontend_gen_models_step_object_go : Nat := 0xdfe79d55dc4d4380

/-- hash of the normalised skeleton of * (internal/frontend/gen/restapi/operations/dags/create_dag.go) -/
def h_rest_apigen_internal_frontend_gen_restapi_operations_dags_create_dag_go : Nat := 0xa3c4fe74dbb63b3f

/-- hash of the normalised skeleton of * (internal/frontend/gen/restapi/operations/dags/create_dag_parameters.go) -/
def h_rest_apigen_internal_frontend_gen_restapi_operations_dags_create_dag_parameters_go : Nat := 0x9672c24ef29f446b

/-- hash of the normalised skeleton of * (internal/frontend/gen/restapi/operations/dags/create_dag_responses.go) -/
def h_rest_apigen_internal_frontend_gen_restapi_operations_dags_create_dag_responses_go : Nat := 0xcad93f0cd1b29eca

/-- hash of the normalised skeleton of * (internal/frontend/gen/restapi/operations/dags/create_dag_urlbuilder.go) -/
def h_rest_apigen_internal_frontend_gen_restapi_operations_dags_create_dag_urlbuilder_go : Nat := 0x55dddcef47cc7ff4

/-- hash of the normalised skeleton of * (internal/frontend/gen/restapi/operations/dags/delete_dag.go) -/
def h_rest_apigen_internal_frontend_gen_restapi_operations_dags_delete_dag_go : Nat := 0xc459774005ef214b

/-- hash of the normalised skeleton of * (internal/frontend/gen/restapi/operations/dags/delete_dag_parameters.go) -/
def h_rest_apigen_internal_frontend_gen_restapi_operations_dags_delete_dag_parameters_go : Nat := 0xe5b206e08b057fcb

/-- hash of the normalised skeleton of * (internal/frontend/gen/restapi/operations/dags/delete_dag_responses.go) -/
def h_rest_apigen_internal_frontend_gen_restapi_operations_dags_delete_dag_responses_go : Nat := 0xb63855626ec654c2

/-- hash of the normalised skeleton of * (internal/frontend/gen/restapi/operations/dags/delete_dag_urlbuilder.go) -/
def h_rest_apigen_internal_frontend_gen_restapi_operations_dags_delete_dag_urlbuilder_go : Nat := 0x941ea6634e9469b3

/-- hash of the normalised skeleton of * (internal/frontend/gen/restapi/operations/dags/get_dag_details.go) -/
def h_rest_apigen_internal_frontend_gen_restapi_operations_dags_get_dag_details_go : Nat := 0x3530d416a22ce08e

/-- hash of the normalised skeleton of * (internal/frontend/gen/restapi/operations/dags/get_dag_details_parameters.go) -/
def h_rest_apigen_internal_frontend_gen_restapi_operations_dags_get_dag_details_parameters_go : Nat := 0x9e775e127c621358

/-- hash of the normalised skeleton of * (internal/frontend/gen/restapi/operations/dags/get_dag_details_responses.go) -/
def h_rest_apigen_internal_frontend_gen_restapi_operations_dags_get_dag_details_responses_go : Nat := 0xc64bf00c0f880f8c

/-- hash of the normalised skeleton of * (internal/frontend/gen/restapi/operations/dags/get_dag_details_urlbuilder.go) -/
def h_rest_apigen_internal_frontend_gen_restapi_operations_dags_get_dag_details_urlbuilder_go : Nat := 0x6804c8fb82e96602

/-- hash of the normalised skeleton of * (internal/frontend/gen/restapi/operations/dags/list_dags.go) -/
def h_rest_apigen_internal_frontend_gen_restapi_operations_dags_list_dags_go : Nat := 0xee73675512fd951a

/-- hash of the normalised skeleton of * (internal/frontend/gen/restapi/operations/dags/list_dags_parameters.go) -/
def h_rest_apigen_internal_frontend_gen_restapi_operations_dags_list_dags_parameters_go : Nat := 0x311bc94956f26d45

/-- hash of the normalised skeleton of * (internal/frontend/gen/restapi/operations/dags/list_dags_responses.go) -/
def h_rest_apigen_internal_frontend_gen_restapi_operations_dags_list_dags_responses_go : Nat := 0x3306c762cc712511

/-- hash of the normalised skeleton of * (internal/frontend/gen/restapi/operations/dags/list_dags_urlbuilder.go) -/
def h_rest_apigen_internal_frontend_gen_restapi_operations_dags_list_dags_urlbuilder_go : Nat := 0x59719892a43bd30b

/-- hash of the normalised skeleton of * (internal/frontend/gen/restapi/operations/dags/list_tags.go) -/
def h_rest_apigen_internal_frontend_gen_restapi_operations_dags_list_tags_go : Nat := 0xdd140d332ff98aea

/-- hash of the normalised skeleton of * (internal/frontend/gen/restapi/operations/dags/list_tags_parameters.go) -/
def h_rest_apigen_internal_frontend_gen_restapi_operations_dags_list_tags_parameters_go : Nat := 0x284938cd40bb47de

/-- hash of the normalised skeleton of * (internal/frontend/gen/restapi/operations/dags/list_tags_responses.go) -/
def h_rest_apigen_internal_frontend_gen_restapi_operations_dags_list_tags_responses_go : Nat := 0x3e8fbcf5fb5c8da5

/-- hash of the normalised skeleton of * (internal/frontend/gen/restapi/operations/dags/list_tags_urlbuilder.go) -/
def h_rest_apigen_internal_frontend_gen_restapi_operations_dags_list_tags_urlbuilder_go : Nat := 0x1672fef0f535af59

/-- hash of the normalised skeleton of * (internal/frontend/gen/restapi/operations/dags/post_dag_action.go) -/
def h_rest_apigen_internal_frontend_gen_restapi_operations_dags_post_dag_action_go : Nat := 0xb27c4677f3e912e7

/-- hash of the normalised skeleton of * (internal/frontend/gen/restapi/operations/dags/post_dag_action_parameters.go) -/
def h_rest_apigen_internal_frontend_gen_restapi_operations_dags_post_dag_action_parameters_go : Nat := 0x9fa3442205e4f177

/-- hash of the normalised skeleton of * (internal/frontend/gen/restapi/operations/dags/post_dag_action_responses.go) -/
def h_rest_apigen_internal_frontend_gen_restapi_operations_dags_post_dag_action_responses_go : Nat := 0xd54a55dea2dae017

/-- hash of the normalised skeleton of * (internal/frontend/gen/restapi/operations/dags/post_dag_action_urlbuilder.go) -/
def h_rest_apigen_internal_frontend_gen_restapi_operations_dags_post_dag_action_urlbuilder_go : Nat := 0xe8e3e1c11ffe5000

/-- hash of the normalised skeleton of * (internal/frontend/gen/restapi/operations/dags/search_dags.go) -/
def h_rest_apigen_internal_frontend_gen_restapi_operations_dags_search_dags_go : Nat := 0x52b514108e5dbd0f

/-- hash of the normalised skeleton of * (internal/frontend/gen/restapi/operations/dags/search_dags_parameters.go) -/
def h_rest_apigen_internal_frontend_gen_restapi_operations_dags_search_dags_parameters_go : Nat := 0x59b4cd86d9e37b58

/-- hash of the normalised skeleton of * (internal/frontend/gen/restapi/operations/dags/search_dags_responses.go) -/
def h_rest_apigen_internal_frontend_gen_restapi_operations_dags_search_dags_responses_go : Nat := 0x2973529e9101a4a2

/-- hash of the normalised skeleton of * (internal/frontend/gen/restapi/operations/dags/search_dags_urlbuilder.go) -/
def h_rest_apigen_internal_frontend_gen_restapi_operations_dags_search_dags_urlbuilder_go : Nat := 0x7ae67cb5a3c340ba

end BdModel.Canon.ApiGen
