/- CANONICAL copy of Extracted/Auth.lean: the source facts the model was written against (updated only by ./check --recanon after the model was re-validated). -/
namespace BdModel.Canon.Auth

/-- hash of the normalised skeleton of SetupGlobalMiddleware (internal/frontend/middleware/global.go) -/
def h_mw_SetupGlobalMiddleware : Nat := 0xc12a8b8bf6d28126

/-- hash of the normalised skeleton of prefixChecker (internal/frontend/middleware/global.go) -/
def h_mw_prefixChecker : Nat := 0x89be9266bbde8443

/-- hash of the normalised skeleton of isAuthenticated (internal/frontend/middleware/global.go) -/
def h_mw_isAuthenticated : Nat := 0xe1743f536afcda0c

/-- hash of the normalised skeleton of withAuthenticated (internal/frontend/middleware/global.go) -/
def h_mw_withAuthenticated : Nat := 0x2ee7f9bd633c9878

/-- hash of the normalised skeleton of cors (internal/frontend/middleware/global.go) -/
def h_mw_cors : Nat := 0xc9b986636ac269f9

/-- hash of the normalised skeleton of Setup (internal/frontend/middleware/global.go) -/
def h_mw_Setup : Nat := 0xdf190c11c3dcc377

/-- hash of the normalised skeleton of BasicAuth (internal/frontend/middleware/basic_auth.go) -/
def h_mw_BasicAuth : Nat := 0x87491e8e9901435a

/-- hash of the normalised skeleton of skipBasicAuth (internal/frontend/middleware/basic_auth.go) -/
def h_mw_skipBasicAuth : Nat := 0xcd9848d6d520eae2

/-- hash of the normalised skeleton of TokenAuth (internal/frontend/middleware/token_auth.go) -/
def h_mw_TokenAuth : Nat := 0xb918b82e717f58be

/-- hash of the normalised skeleton of skipTokenAuth (internal/frontend/middleware/token_auth.go) -/
def h_mw_skipTokenAuth : Nat := 0x0aaa1814424c4ba3

/-- hash of the normalised skeleton of * (internal/frontend/middleware/basic_auth.go) -/
def h_rest_auth_frontend_middleware_basic_auth_go : Nat := 0xf0e063241a9fda73

/-- hash of the normalised skeleton of * (internal/frontend/middleware/token_auth.go) -/
def h_rest_auth_frontend_middleware_token_auth_go : Nat := 0x9bbe53b119152e2f

/-- hash of the normalised skeleton of * (internal/frontend/middleware/global.go) -/
def h_rest_auth_frontend_middleware_global_go : Nat := 0xfc8895e33cc08d48

/-- hash of the normalised skeleton of * (internal/frontend/frontend.go) -/
def h_rest_auth_frontend_frontend_go : Nat := 0x2e0a6aa4be0681b2

/-- hash of the normalised skeleton of * (internal/frontend/server/server.go) -/
def h_rest_auth_frontend_server_server_go : Nat := 0x60a027172e5ae808

/-- hash of the normalised skeleton of * (internal/config/config.go) -/
def h_rest_auth_config_config_go : Nat := 0xb0b482f837a8d4c3

/-- hash of the normalised skeleton of * (internal/frontend/gen/restapi/configure_blackdagger.go) -/
def h_rest_auth_frontend_gen_restapi_configure_blackdagger_go : Nat := 0x3b291ce73b57afae

def skipBasicCond : String := "return authToken != nil && len(authHeader) >= 2 && authHeader[0] == \"Bearer\""

def wrapOrder : List (List String) := [
  ["cors", ""],
  ["middleware.RequestID", ""],
  ["logging", "appLogger != nil"],
  ["middleware.Logger", "!(appLogger != nil)"],
  ["middleware.Recoverer", ""],
  ["TokenAuth", "authToken != nil"],
  ["BasicAuth", "authBasic != nil"],
  ["prefixChecker", ""]]

end BdModel.Canon.Auth
