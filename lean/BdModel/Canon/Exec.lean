/- CANONICAL copy of Extracted/Exec.lean: the source facts the model was written against (updated only by ./check --recanon after the model was re-validated). -/
namespace BdModel.Canon.Exec

/-- hash of the normalised skeleton of Kill (internal/dag/executor/command.go) -/
def h_exec_commandExecutor_Kill : Nat := 0x9cbc6d4c730e9f6a

/-- hash of the normalised skeleton of Run (internal/dag/executor/command.go) -/
def h_exec_commandExecutor_Run : Nat := 0x36a7e9ecb008df69

/-- hash of the normalised skeleton of newCommand (internal/dag/executor/command.go) -/
def h_exec_newCommand : Nat := 0xbc7fe9e4f609f755

/-- hash of the normalised skeleton of SetStdout (internal/dag/executor/command.go) -/
def h_exec_commandExecutor_SetStdout : Nat := 0xc5994b381f93dada

/-- hash of the normalised skeleton of SetStderr (internal/dag/executor/command.go) -/
def h_exec_commandExecutor_SetStderr : Nat := 0xfa933cea6b5a50a6

/-- hash of the normalised skeleton of * (internal/dag/executor/command.go) -/
def h_rest_exec_dag_executor_command_go : Nat := 0x0d2b7579cc469571

end BdModel.Canon.Exec
