/- CANONICAL copy of Extracted/Params.lean: the source facts the model was written against (updated only by ./check --recanon after the model was re-validated). -/
namespace BdModel.Canon.Params

/-- hash of the normalised skeleton of parseParamValue (internal/dag/parser.go) -/
def h_params_parseParamValue : Nat := 0xe4266f67ae3127f6

/-- hash of the normalised skeleton of stringifyParam (internal/dag/parser.go) -/
def h_params_stringifyParam : Nat := 0xe75eff079534ec98

/-- hash of the normalised skeleton of parseParams (internal/dag/parser.go) -/
def h_params_parseParams : Nat := 0xbeec01e50e009280

/-- hash of the normalised skeleton of buildParams (internal/dag/builder.go) -/
def h_params_buildParams : Nat := 0xc661a241aa7c3385

/-- hash of the normalised skeleton of Params (internal/persistence/model/status.go) -/
def h_params_modelParams : Nat := 0x19c637a53fbf593c

/-- hash of the normalised skeleton of removeQuotes (cmd/start.go) -/
def h_params_removeQuotes : Nat := 0xfea83fbd662f4e7f

/-- hash of the normalised skeleton of escapeArg (internal/client/client.go) -/
def h_params_escapeArg : Nat := 0xa5f59814c72ce93b

/-- hash of the normalised skeleton of Start (internal/client/client.go) -/
def h_params_clientStart : Nat := 0x2abef1e02d2a7b52

/-- hash of the normalised skeleton of Execute (internal/dag/scheduler/node.go) -/
def h_params_nodeExecute : Nat := 0xa011c6431e0f8e5a

/-- hash of the normalised skeleton of newCommand (internal/dag/executor/command.go) -/
def h_params_newCommand : Nat := 0xbc7fe9e4f609f755

/-- hash of the normalised skeleton of NewExecutionGraphForRetry (internal/dag/scheduler/graph.go) -/
def h_params_NewExecutionGraphForRetry : Nat := 0x859d7c2a46d2316d

/-- hash of the normalised skeleton of setupExec (internal/dag/scheduler/node.go) -/
def h_params_nodeSetupExec : Nat := 0xcfa69c496e6e333d

/-- hash of the normalised skeleton of * (internal/dag/parser.go) -/
def h_rest_params_dag_parser_go : Nat := 0xfed53ef7b66dc18d

/-- hash of the normalised skeleton of * (internal/persistence/model/status.go) -/
def h_rest_params_persistence_model_status_go : Nat := 0xbc8e5d3265b85b24

/-- hash of the normalised skeleton of * (cmd/start.go) -/
def h_rest_params_cmd_start_go : Nat := 0x2e014ea9d86ba5cc

/-- hash of the normalised skeleton of * (cmd/retry.go) -/
def h_rest_params_cmd_retry_go : Nat := 0x6b2856f491b7ee72

/-- hash of the normalised skeleton of * (cmd/restart.go) -/
def h_rest_params_cmd_restart_go : Nat := 0x00f3f7576f81cca1

/-- hash of the normalised skeleton of * (internal/dag/scheduler/node.go) -/
def h_rest_params_dag_scheduler_node_go : Nat := 0x73005fa231f869e6

end BdModel.Canon.Params
