/- CANONICAL copy of Extracted/Api.lean: the source facts the model was written against (updated only by ./check --recanon after the model was re-validated). -/
namespace BdModel.Canon.Api

/-- hash of the normalised skeleton of postAction (internal/frontend/dag/handler.go) -/
def h_api_handler_postAction : Nat := 0xc42ae5c4d14d5ab7

/-- hash of the normalised skeleton of processUpdateStatus (internal/frontend/dag/handler.go) -/
def h_api_handler_processUpdateStatus : Nat := 0x099bd459b5843b57

/-- hash of the normalised skeleton of GetStatus (internal/client/client.go) -/
def h_api_client_GetStatus : Nat := 0x3282268e30410712

/-- hash of the normalised skeleton of GetLatestStatus (internal/client/client.go) -/
def h_api_client_GetLatestStatus : Nat := 0x51464a23d1cad9d6

/-- hash of the normalised skeleton of currentStatus (internal/client/client.go) -/
def h_api_client_currentStatus : Nat := 0x795ad5b48b10d443

/-- hash of the normalised skeleton of GetStatusByRequestID (internal/client/client.go) -/
def h_api_client_GetStatusByRequestID : Nat := 0xf6d0be6f4b8a6c06

/-- hash of the normalised skeleton of StartAsync (internal/client/client.go) -/
def h_api_client_StartAsync : Nat := 0x58681eb1070b50cf

/-- hash of the normalised skeleton of Start (internal/client/client.go) -/
def h_api_client_Start : Nat := 0x2abef1e02d2a7b52

/-- hash of the normalised skeleton of Stop (internal/client/client.go) -/
def h_api_client_Stop : Nat := 0xed998b7a84217796

/-- hash of the normalised skeleton of Retry (internal/client/client.go) -/
def h_api_client_Retry : Nat := 0xbe692cbe8a2495c0

/-- hash of the normalised skeleton of UpdateStatus (internal/client/client.go) -/
def h_api_client_UpdateStatus : Nat := 0x82712e8aff0641b4

/-- hash of the normalised skeleton of ToggleSuspend (internal/client/client.go) -/
def h_api_client_ToggleSuspend : Nat := 0x0d590c5601c4f7a5

/-- hash of the normalised skeleton of UpdateDAG (internal/client/client.go) -/
def h_api_client_UpdateDAG : Nat := 0xb9f6821fac177f33

/-- hash of the normalised skeleton of Rename (internal/client/client.go) -/
def h_api_client_Rename : Nat := 0xd1ab37d36f47679d

/-- hash of the normalised skeleton of escapeArg (internal/client/client.go) -/
def h_api_client_escapeArg : Nat := 0xa5f59814c72ce93b

/-- hash of the normalised skeleton of CorrectRunningStatus (internal/persistence/model/status.go) -/
def h_api_model_CorrectRunningStatus : Nat := 0x504f146ae069e9e6

/-- hash of the normalised skeleton of Update (internal/persistence/jsondb/jsondb.go) -/
def h_api_jsondb_Update : Nat := 0xcf516de5ddbb05fc

/-- hash of the normalised skeleton of removeQuotes (cmd/start.go) -/
def h_api_cmd_removeQuotes : Nat := 0xfea83fbd662f4e7f

/-- hash of the normalised skeleton of Rename (internal/persistence/local/dag_store.go) -/
def h_api_dagstore_Rename : Nat := 0x5595bc95f94647b4

/-- hash of the normalised skeleton of UpdateSpec (internal/persistence/local/dag_store.go) -/
def h_api_dagstore_UpdateSpec : Nat := 0xb5527aefd5ce0df6

/-- hash of the normalised skeleton of ToggleSuspend (internal/persistence/local/flag_store.go) -/
def h_api_flagstore_ToggleSuspend : Nat := 0x323448cdd011ace6

/-- hash of the normalised skeleton of FindByRequestID (internal/persistence/jsondb/jsondb.go) -/
def h_api_jsondb_FindByRequestID : Nat := 0xe5e17c4a1536fecd

/-- hash of the normalised skeleton of * (internal/frontend/dag/handler.go) -/
def h_rest_api_frontend_dag_handler_go : Nat := 0x1a5690ff016033e1

/-- hash of the normalised skeleton of * (internal/frontend/dag/convert.go) -/
def h_rest_api_frontend_dag_convert_go : Nat := 0xc2c66e60825fe98c

/-- hash of the normalised skeleton of * (internal/client/client.go) -/
def h_rest_api_client_client_go : Nat := 0x17c2ffbc68b96fd9

/-- hash of the normalised skeleton of * (cmd/start.go) -/
def h_rest_api_cmd_start_go : Nat := 0x2e014ea9d86ba5cc

/-- hash of the normalised skeleton of * (internal/persistence/model/status.go) -/
def h_rest_api_persistence_model_status_go : Nat := 0xbeb2f7a53253ed76

end BdModel.Canon.Api
