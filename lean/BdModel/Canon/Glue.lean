/- CANONICAL copy of Extracted/Glue.lean: the source facts the model was written against (updated only by ./check --recanon after the model was re-validated). -/
namespace BdModel.Canon.Glue

/-- hash of the normalised skeleton of * (cmd/start.go) -/
def h_rest_glue_cmd_start_go : Nat := 0x473e5060645f4fd5

/-- hash of the normalised skeleton of * (cmd/retry.go) -/
def h_rest_glue_cmd_retry_go : Nat := 0x6b2856f491b7ee72

/-- hash of the normalised skeleton of * (cmd/restart.go) -/
def h_rest_glue_cmd_restart_go : Nat := 0x00f3f7576f81cca1

/-- hash of the normalised skeleton of * (cmd/dry.go) -/
def h_rest_glue_cmd_dry_go : Nat := 0x1f28a9247358bd98

/-- hash of the normalised skeleton of * (cmd/stop.go) -/
def h_rest_glue_cmd_stop_go : Nat := 0xacf56f0712f0c57c

/-- hash of the normalised skeleton of * (cmd/status.go) -/
def h_rest_glue_cmd_status_go : Nat := 0x792916d1798e6579

/-- hash of the normalised skeleton of * (cmd/scheduler.go) -/
def h_rest_glue_cmd_scheduler_go : Nat := 0x3c43505e4dbc9033

/-- hash of the normalised skeleton of * (cmd/server.go) -/
def h_rest_glue_cmd_server_go : Nat := 0xd3e4227d0e62d35b

/-- hash of the normalised skeleton of * (cmd/root.go) -/
def h_rest_glue_cmd_root_go : Nat := 0x3fbb585785bea69d

/-- hash of the normalised skeleton of * (cmd/signal.go) -/
def h_rest_glue_cmd_signal_go : Nat := 0xbac6e0e320d3f1d7

/-- hash of the normalised skeleton of * (cmd/reqid.go) -/
def h_rest_glue_cmd_reqid_go : Nat := 0xec60d67d4c71da74

/-- hash of the normalised skeleton of * (cmd/start_all.go) -/
def h_rest_glue_cmd_start_all_go : Nat := 0x57aa03a662dce641

/-- hash of the normalised skeleton of * (internal/agent/agent.go) -/
def h_rest_glue_internal_agent_agent_go : Nat := 0x82e414f7c64adc13

/-- hash of the normalised skeleton of * (internal/client/client.go) -/
def h_rest_glue_internal_client_client_go : Nat := 0xe07e21f2dfcfd000

/-- hash of the normalised skeleton of * (internal/client/interface.go) -/
def h_rest_glue_internal_client_interface_go : Nat := 0x104d96c7a0817510

/-- hash of the normalised skeleton of * (internal/dag/loader.go) -/
def h_rest_glue_internal_dag_loader_go : Nat := 0xd48a4fd343d53e01

/-- hash of the normalised skeleton of * (internal/dag/builder.go) -/
def h_rest_glue_internal_dag_builder_go : Nat := 0x059281e83b487df3

/-- hash of the normalised skeleton of * (internal/dag/parser.go) -/
def h_rest_glue_internal_dag_parser_go : Nat := 0x4234612c8b13a9f8

/-- hash of the normalised skeleton of * (internal/dag/dag.go) -/
def h_rest_glue_internal_dag_dag_go : Nat := 0x77433398b0cf4ad9

/-- hash of the normalised skeleton of * (internal/dag/step.go) -/
def h_rest_glue_internal_dag_step_go : Nat := 0xb42d085be1e17491

/-- hash of the normalised skeleton of * (internal/dag/condition.go) -/
def h_rest_glue_internal_dag_condition_go : Nat := 0xe23a2e3d0ad2fb68

/-- hash of the normalised skeleton of * (internal/dag/definition.go) -/
def h_rest_glue_internal_dag_definition_go : Nat := 0x7a4e87c86e94d58e

/-- hash of the normalised skeleton of * (internal/dag/context.go) -/
def h_rest_glue_internal_dag_context_go : Nat := 0xe62ba6e43dfb07cc

/-- hash of the normalised skeleton of * (internal/dag/assert.go) -/
def h_rest_glue_internal_dag_assert_go : Nat := 0x82f13f6caa1aa968

/-- hash of the normalised skeleton of * (internal/dag/errors.go) -/
def h_rest_glue_internal_dag_errors_go : Nat := 0x1ecee6b56e984c3d

/-- hash of the normalised skeleton of * (internal/dag/syncmap.go) -/
def h_rest_glue_internal_dag_syncmap_go : Nat := 0x8cc4f4db8968ec69

/-- hash of the normalised skeleton of * (internal/config/config.go) -/
def h_rest_glue_internal_config_config_go : Nat := 0xb0b482f837a8d4c3

/-- hash of the normalised skeleton of * (internal/frontend/frontend.go) -/
def h_rest_glue_internal_frontend_frontend_go : Nat := 0x2e0a6aa4be0681b2

/-- hash of the normalised skeleton of * (internal/frontend/server/server.go) -/
def h_rest_glue_internal_frontend_server_server_go : Nat := 0x60a027172e5ae808

/-- hash of the normalised skeleton of * (internal/persistence/client/store_factory.go) -/
def h_rest_glue_internal_persistence_client_store_factory_go : Nat := 0xb7b7f2299b9d1ef8

/-- hash of the normalised skeleton of * (internal/persistence/interface.go) -/
def h_rest_glue_internal_persistence_interface_go : Nat := 0x2303d419217ce922

/-- hash of the normalised skeleton of * (internal/persistence/model/status.go) -/
def h_rest_glue_internal_persistence_model_status_go : Nat := 0xa99de046e51c60df

/-- hash of the normalised skeleton of * (internal/persistence/model/node.go) -/
def h_rest_glue_internal_persistence_model_node_go : Nat := 0x42fc9e336bdfd1bb

/-- hash of the normalised skeleton of * (internal/util/utils.go) -/
def h_rest_glue_internal_util_utils_go : Nat := 0xd121931bb1e443f4

/-- hash of the normalised skeleton of * (internal/sock/client.go) -/
def h_rest_glue_internal_sock_client_go : Nat := 0xbde387884a65c0fd

/-- hash of the normalised skeleton of * (internal/sock/server.go) -/
def h_rest_glue_internal_sock_server_go : Nat := 0xaa216abd9a897380

/-- hash of the normalised skeleton of * (internal/dag/executor/executor.go) -/
def h_rest_glue_internal_dag_executor_executor_go : Nat := 0xff3866fd225f7261

/-- hash of the normalised skeleton of * (internal/dag/executor/command.go) -/
def h_rest_glue_internal_dag_executor_command_go : Nat := 0xb59f538fbe36a633

/-- hash of the normalised skeleton of * (main.go) -/
def h_rest_glue_main_go : Nat := 0x2a82391a7e65a974

end BdModel.Canon.Glue
