/- CANONICAL copy of Extracted/Notify.lean: the source facts the model was written against (updated only by ./check --recanon after the model was re-validated). -/
namespace BdModel.Canon.Notify

/-- hash of the normalised skeleton of * (internal/scheduler/filenotify/filenotify.go) -/
def h_rest_notify_internal_scheduler_filenotify_filenotify_go : Nat := 0x3ffc811b8fa4fe87

/-- hash of the normalised skeleton of * (internal/scheduler/filenotify/fsnotify.go) -/
def h_rest_notify_internal_scheduler_filenotify_fsnotify_go : Nat := 0x3f6a9658e7de9cba

/-- hash of the normalised skeleton of * (internal/scheduler/filenotify/poller.go) -/
def h_rest_notify_internal_scheduler_filenotify_poller_go : Nat := 0x19d0482b83189aac

end BdModel.Canon.Notify
