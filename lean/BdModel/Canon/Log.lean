/- CANONICAL copy of Extracted/Log.lean: the source facts the model was written against (updated only by ./check --recanon after the model was re-validated). -/
namespace BdModel.Canon.Log

/-- hash of the normalised skeleton of setup (internal/dag/scheduler/node.go) -/
def h_log_setup : Nat := 0x184c21bdfaa16ee0

/-- hash of the normalised skeleton of setupLog (internal/dag/scheduler/node.go) -/
def h_log_setupLog : Nat := 0x1005f4001cc4af38

/-- hash of the normalised skeleton of setupStdout (internal/dag/scheduler/node.go) -/
def h_log_setupStdout : Nat := 0x8097ec63859c0b0c

/-- hash of the normalised skeleton of setupStderr (internal/dag/scheduler/node.go) -/
def h_log_setupStderr : Nat := 0xed53154efdd5d062

/-- hash of the normalised skeleton of setupScript (internal/dag/scheduler/node.go) -/
def h_log_setupScript : Nat := 0x184f66e6e65f3d09

/-- hash of the normalised skeleton of setupExec (internal/dag/scheduler/node.go) -/
def h_log_setupExec : Nat := 0xcfa69c496e6e333d

/-- hash of the normalised skeleton of teardown (internal/dag/scheduler/node.go) -/
def h_log_teardown : Nat := 0xf5debaeff168a37c

/-- hash of the normalised skeleton of Execute (internal/dag/scheduler/node.go) -/
def h_log_Execute : Nat := 0xa011c6431e0f8e5a

/-- hash of the normalised skeleton of OpenOrCreateFile (internal/util/utils.go) -/
def h_log_OpenOrCreateFile : Nat := 0xab958d9ca1635f4b

/-- hash of the normalised skeleton of openFile (internal/util/utils.go) -/
def h_log_openFile : Nat := 0x8a9c3bde26b1aeb2

/-- hash of the normalised skeleton of SetStdout (internal/dag/executor/command.go) -/
def h_log_cmdSetStdout : Nat := 0xc5994b381f93dada

/-- hash of the normalised skeleton of SetStderr (internal/dag/executor/command.go) -/
def h_log_cmdSetStderr : Nat := 0xfa933cea6b5a50a6

/-- hash of the normalised skeleton of Run (internal/dag/executor/command.go) -/
def h_log_cmdRun : Nat := 0x36a7e9ecb008df69

/-- hash of the normalised skeleton of * (internal/dag/scheduler/node.go) -/
def h_rest_log_dag_scheduler_node_go : Nat := 0xd42b32c666181e44

/-- hash of the normalised skeleton of * (internal/dag/executor/command.go) -/
def h_rest_log_dag_executor_command_go : Nat := 0x9e6d29595f3ee3ae

/-- hash of the normalised skeleton of * (internal/util/utils.go) -/
def h_rest_log_util_utils_go : Nat := 0x1d9ed057d15280b3

end BdModel.Canon.Log
