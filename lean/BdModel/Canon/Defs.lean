/- CANONICAL copy of Extracted/Defs.lean: the source facts the model was written against (updated only by ./check --recanon after the model was re-validated). -/
namespace BdModel.Canon.Defs

/-- hash of the normalised skeleton of UpdateSpec (internal/persistence/local/dag_store.go) -/
def h_defs_dagStoreImpl_UpdateSpec : Nat := 0xb5527aefd5ce0df6

/-- hash of the normalised skeleton of Create (internal/persistence/local/dag_store.go) -/
def h_defs_dagStoreImpl_Create : Nat := 0xfa50b9641d47e00f

/-- hash of the normalised skeleton of Delete (internal/persistence/local/dag_store.go) -/
def h_defs_dagStoreImpl_Delete : Nat := 0x7f674ea9001d3f89

/-- hash of the normalised skeleton of Rename (internal/persistence/local/dag_store.go) -/
def h_defs_dagStoreImpl_Rename : Nat := 0x5595bc95f94647b4

/-- hash of the normalised skeleton of fileLocation (internal/persistence/local/dag_store.go) -/
def h_defs_dagStoreImpl_fileLocation : Nat := 0x9fdc96735713d546

/-- hash of the normalised skeleton of exists (internal/persistence/local/dag_store.go) -/
def h_defs__exists : Nat := 0x5b9d5565edcdccaf

/-- hash of the normalised skeleton of writeFileAtomic (internal/persistence/local/dag_store.go) -/
def h_defs__writeFileAtomic : Nat := 0x877ea0f423a3a73b

/-- hash of the normalised skeleton of ensureDirExist (internal/persistence/local/dag_store.go) -/
def h_defs_dagStoreImpl_ensureDirExist : Nat := 0x48b8b553420bc2d7

/-- hash of the normalised skeleton of checkExtension (internal/persistence/local/dag_store.go) -/
def h_defs__checkExtension : Nat := 0xaf2889c5c023fc4f

/-- hash of the normalised skeleton of AddYamlExtension (internal/util/utils.go) -/
def h_defs_AddYamlExtension : Nat := 0xe4474089b67ae684

/-- hash of the normalised skeleton of find (internal/persistence/local/dag_store.go) -/
def h_defs__find : Nat := 0xb9666a9950fe20ea

/-- hash of the normalised skeleton of resolve (internal/persistence/local/dag_store.go) -/
def h_defs_dagStoreImpl_resolve : Nat := 0x9fc8d6d457d7027b

/-- hash of the normalised skeleton of CreateDAG (internal/client/client.go) -/
def h_defs_client_CreateDAG : Nat := 0x38f9312946999665

/-- hash of the normalised skeleton of Rename (internal/client/client.go) -/
def h_defs_client_Rename : Nat := 0xd1ab37d36f47679d

/-- hash of the normalised skeleton of UpdateDAG (internal/client/client.go) -/
def h_defs_client_UpdateDAG : Nat := 0xb9f6821fac177f33

/-- hash of the normalised skeleton of DeleteDAG (internal/client/client.go) -/
def h_defs_client_DeleteDAG : Nat := 0x5b3ced16f8054715

/-- hash of the normalised skeleton of * (internal/persistence/local/dag_store.go) -/
def h_rest_defs_persistence_local_dag_store_go : Nat := 0x589d0261292c1a48

/-- hash of the normalised skeleton of * (internal/client/client.go) -/
def h_rest_defs_client_client_go : Nat := 0x1a3c5e62adde9845

/-- hash of the normalised skeleton of * (internal/frontend/dag/handler.go) -/
def h_rest_defs_frontend_dag_handler_go : Nat := 0x570888df31ae40f2

end BdModel.Canon.Defs
