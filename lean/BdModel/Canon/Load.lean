/- CANONICAL copy of Extracted/Load.lean: the source facts the model was written against (updated only by ./check --recanon after the model was re-validated). -/
namespace BdModel.Canon.Load

/-- hash of the normalised skeleton of build (internal/dag/builder.go) -/
def h_load_build : Nat := 0x8428c258eac514ad

/-- hash of the normalised skeleton of buildSchedule (internal/dag/builder.go) -/
def h_load_buildSchedule : Nat := 0x00b30cd98ddcedc4

/-- hash of the normalised skeleton of buildSteps (internal/dag/builder.go) -/
def h_load_buildSteps : Nat := 0x31383757e76c8926

/-- hash of the normalised skeleton of buildHandlers (internal/dag/builder.go) -/
def h_load_buildHandlers : Nat := 0x5b2e5d7231fd11d0

/-- hash of the normalised skeleton of buildMiscs (internal/dag/builder.go) -/
def h_load_buildMiscs : Nat := 0x07818b1e327f9b15

/-- hash of the normalised skeleton of buildEnvs (internal/dag/builder.go) -/
def h_load_buildEnvs : Nat := 0xe986ccbd25e3ee3f

/-- hash of the normalised skeleton of buildLogDir (internal/dag/builder.go) -/
def h_load_buildLogDir : Nat := 0x96b0fc3f687d641c

/-- hash of the normalised skeleton of buildParams (internal/dag/builder.go) -/
def h_load_buildParams : Nat := 0xc661a241aa7c3385

/-- hash of the normalised skeleton of buildSMTPConfig (internal/dag/builder.go) -/
def h_load_buildSMTPConfig : Nat := 0x1d94c3c97faedd1c

/-- hash of the normalised skeleton of buildStep (internal/dag/builder.go) -/
def h_load_buildStep : Nat := 0x0765d9ef2cce5f32

/-- hash of the normalised skeleton of buildConditions (internal/dag/builder.go) -/
def h_load_buildConditions : Nat := 0xeea3f36621d2484e

/-- hash of the normalised skeleton of loadVariables (internal/dag/builder.go) -/
def h_load_loadVariables : Nat := 0xae5fbfb7a21fe645

/-- hash of the normalised skeleton of parseCommand (internal/dag/builder.go) -/
def h_load_parseCommand : Nat := 0x9476e6673b7eec90

/-- hash of the normalised skeleton of parseExecutor (internal/dag/builder.go) -/
def h_load_parseExecutor : Nat := 0x454342d1ab4ab5e4

/-- hash of the normalised skeleton of convertMap (internal/dag/builder.go) -/
def h_load_convertMap : Nat := 0x1523275538e145ca

/-- hash of the normalised skeleton of parseSubWorkflow (internal/dag/builder.go) -/
def h_load_parseSubWorkflow : Nat := 0xb61e976007d9d6cb

/-- hash of the normalised skeleton of substituteCommands (internal/dag/builder.go) -/
def h_load_substituteCommands : Nat := 0x245a86bdba18526b

/-- hash of the normalised skeleton of parseScheduleMap (internal/dag/parser.go) -/
def h_load_parseScheduleMap : Nat := 0x0f6c332ab69ab709

/-- hash of the normalised skeleton of parseSchedules (internal/dag/parser.go) -/
def h_load_parseSchedules : Nat := 0xfa004ee265a6313e

/-- hash of the normalised skeleton of parseFuncCall (internal/dag/parser.go) -/
def h_load_parseFuncCall : Nat := 0x4f9ab465d61277ff

/-- hash of the normalised skeleton of parseMiscs (internal/dag/parser.go) -/
def h_load_parseMiscs : Nat := 0xceb9747cae9921a8

/-- hash of the normalised skeleton of parseKeyValue (internal/dag/parser.go) -/
def h_load_parseKeyValue : Nat := 0x9fa6d44ada9bfb72

/-- hash of the normalised skeleton of parseParams (internal/dag/parser.go) -/
def h_load_parseParams : Nat := 0xbeec01e50e009280

/-- hash of the normalised skeleton of parseParamValue (internal/dag/parser.go) -/
def h_load_parseParamValue : Nat := 0xe4266f67ae3127f6

/-- hash of the normalised skeleton of assertStepDef (internal/dag/assert.go) -/
def h_load_assertStepDef : Nat := 0xbd844e433c0fabef

/-- hash of the normalised skeleton of assertFunctions (internal/dag/assert.go) -/
def h_load_assertFunctions : Nat := 0x3243f58976e004c8

/-- hash of the normalised skeleton of decode (internal/dag/loader.go) -/
def h_load_decode : Nat := 0x0b5da2d976f0b36a

/-- hash of the normalised skeleton of unmarshalData (internal/dag/loader.go) -/
def h_load_unmarshalData : Nat := 0x135c6cf3da164f7f

/-- hash of the normalised skeleton of loadYAML (internal/dag/loader.go) -/
def h_load_loadYAML : Nat := 0x843f06992da74796

/-- hash of the normalised skeleton of loadDAG (internal/dag/loader.go) -/
def h_load_loadDAG : Nat := 0x258e14797b185962

/-- hash of the normalised skeleton of Load (internal/dag/loader.go) -/
def h_load_Load : Nat := 0xba00a144de0cd96d

/-- hash of the normalised skeleton of LoadWithoutEval (internal/dag/loader.go) -/
def h_load_LoadWithoutEval : Nat := 0x67504b01b5cf47a3

/-- hash of the normalised skeleton of LoadMetadata (internal/dag/loader.go) -/
def h_load_LoadMetadata : Nat := 0x8721ef01861d7acb

/-- hash of the normalised skeleton of LoadYAML (internal/dag/loader.go) -/
def h_load_LoadYAML : Nat := 0xda10e8470dc4bdb5

/-- hash of the normalised skeleton of UpdateSpec (internal/persistence/local/dag_store.go) -/
def h_load_storeUpdateSpec : Nat := 0xb5527aefd5ce0df6

/-- hash of the normalised skeleton of GetDetails (internal/persistence/local/dag_store.go) -/
def h_load_storeGetDetails : Nat := 0x5f4e8343652ef4d0

/-- hash of the normalised skeleton of GetMetadata (internal/persistence/local/dag_store.go) -/
def h_load_storeGetMetadata : Nat := 0xc6c05ea878310e80

/-- hash of the normalised skeleton of List (internal/persistence/local/dag_store.go) -/
def h_load_storeList : Nat := 0x6094db4012900944

/-- hash of the normalised skeleton of assertNoNullElements (internal/dag/assert.go) -/
def h_load_assertNoNullElements : Nat := 0x22bd1e207844663c

/-- hash of the normalised skeleton of parseCron (internal/dag/parser.go) -/
def h_load_parseCron : Nat := 0x581687a9e38c9bc0

/-- hash of the normalised skeleton of convertValue (internal/dag/builder.go) -/
def h_load_convertValue : Nat := 0xfa47929827bca68c

/-- hash of the normalised skeleton of * (internal/dag/loader.go) -/
def h_rest_load_dag_loader_go : Nat := 0x8fcbc7276fab2dec

/-- hash of the normalised skeleton of * (internal/dag/builder.go) -/
def h_rest_load_dag_builder_go : Nat := 0x0eb8f82d0e321c14

/-- hash of the normalised skeleton of * (internal/dag/parser.go) -/
def h_rest_load_dag_parser_go : Nat := 0x8c65d6653688c2d7

/-- hash of the normalised skeleton of * (internal/dag/dag.go) -/
def h_rest_load_dag_dag_go : Nat := 0x77433398b0cf4ad9

/-- hash of the normalised skeleton of * (internal/dag/step.go) -/
def h_rest_load_dag_step_go : Nat := 0xb42d085be1e17491

/-- hash of the normalised skeleton of * (internal/dag/condition.go) -/
def h_rest_load_dag_condition_go : Nat := 0xe23a2e3d0ad2fb68

/-- hash of the normalised skeleton of * (internal/patternutil/patternutil.go) -/
def h_rest_load_patternutil_patternutil_go : Nat := 0x3daef2ecd52f8982

/-- hash of the normalised skeleton of * (internal/persistence/model/status.go) -/
def h_rest_load_persistence_model_status_go : Nat := 0xa99de046e51c60df

/-- hash of the normalised skeleton of * (internal/persistence/model/node.go) -/
def h_rest_load_persistence_model_node_go : Nat := 0x42fc9e336bdfd1bb

/-- hash of the normalised skeleton of * (internal/persistence/local/dag_store.go) -/
def h_rest_load_persistence_local_dag_store_go : Nat := 0x7b2566f08a9f9502

def builderFields : List (List String) := [
  ["build", "DelaySec"],
  ["build", "Description"],
  ["build", "Functions"],
  ["build", "Group"],
  ["build", "Name"],
  ["build", "RestartWaitSec"],
  ["build", "Tags"],
  ["build", "TimeoutSec"],
  ["buildSchedule", "Schedule"],
  ["buildMailOn", "MailOn"],
  ["buildEnvs", "Env"],
  ["buildLogDir", "LogDir"],
  ["buildParams", "Params"],
  ["buildHandlers", "Functions"],
  ["buildHandlers", "HandlerOn"],
  ["buildMiscs", "HistRetentionDays"],
  ["buildMiscs", "MaxActiveRuns"],
  ["buildMiscs", "MaxCleanUpTimeSec"],
  ["buildMiscs", "Preconditions"],
  ["buildSteps", "Functions"],
  ["buildSteps", "Steps"],
  ["buildSMTPConfig", "SMTP"],
  ["buildErrMailConfig", "ErrorMail"],
  ["buildInfoMailConfig", "InfoMail"]]

def callEdges : List (List String) := [
  ["build", "parseTags", "-", "-"],
  ["build", "callBuilderFunc", "-", "-"],
  ["build", "buildEnvs", "-", "-"],
  ["build", "buildSchedule", "-", "-"],
  ["build", "buildMailOn", "-", "-"],
  ["build", "buildParams", "-", "-"],
  ["build", "callBuilderFunc", "-", "F"],
  ["build", "buildSteps", "-", "F"],
  ["build", "buildLogDir", "-", "F"],
  ["build", "buildHandlers", "-", "F"],
  ["build", "buildSMTPConfig", "-", "F"],
  ["build", "buildErrMailConfig", "-", "F"],
  ["build", "buildInfoMailConfig", "-", "F"],
  ["build", "buildMiscs", "-", "F"],
  ["buildSchedule", "parseScheduleMap", "-", "-"],
  ["buildSchedule", "parseSchedules", "-", "-"],
  ["buildEnvs", "loadVariables", "-", "-"],
  ["buildEnvs", "buildConfigEnv", "-", "-"],
  ["buildLogDir", "substituteCommands", "F", "-"],
  ["buildParams", "parseParams", "-", "-"],
  ["buildHandlers", "buildStep", "-", "-"],
  ["buildMiscs", "buildConditions", "-", "-"],
  ["loadVariables", "parseKeyValue", "-", "-"],
  ["loadVariables", "substituteCommands", "F", "-"],
  ["buildSteps", "buildStep", "-", "-"],
  ["buildErrMailConfig", "buildMailConfig", "-", "-"],
  ["buildInfoMailConfig", "buildMailConfig", "-", "-"],
  ["buildStep", "buildConditions", "-", "-"],
  ["buildStep", "parseFuncCall", "-", "-"],
  ["buildStep", "parseCommand", "-", "-"],
  ["buildStep", "parseExecutor", "-", "-"],
  ["buildStep", "parseSubWorkflow", "-", "-"],
  ["buildStep", "parseMiscs", "-", "-"],
  ["parseExecutor", "convertMap", "-", "-"],
  ["convertMap", "convertValue", "-", "-"],
  ["convertValue", "parseKey", "-", "-"],
  ["parseSchedules", "parseCron", "-", "-"],
  ["parseScheduleMap", "parseCron", "-", "-"],
  ["parseParams", "parseParamValue", "-", "-"],
  ["parseParams", "stringifyParam", "-", "-"],
  ["parseFuncCall", "assignValues", "-", "-"],
  ["Load", "loadDAG", "-", "-"],
  ["LoadWithoutEval", "loadDAG", "-", "-"],
  ["LoadMetadata", "loadDAG", "-", "-"],
  ["LoadYAML", "loadYAML", "-", "-"],
  ["loadYAML", "unmarshalData", "-", "-"],
  ["loadYAML", "decode", "-", "-"],
  ["loadYAML", "build", "-", "-"],
  ["loadBaseConfig", "readFile", "-", "-"],
  ["loadBaseConfig", "decode", "-", "-"],
  ["loadBaseConfig", "build", "-", "-"],
  ["loadDAG", "craftFilePath", "-", "-"],
  ["loadDAG", "loadBaseConfigIfRequired", "-", "-"],
  ["loadDAG", "readFile", "-", "-"],
  ["loadDAG", "decode", "-", "-"],
  ["loadDAG", "build", "-", "-"],
  ["loadDAG", "merge", "-", "-"],
  ["loadDAG", "defaultName", "-", "-"],
  ["loadBaseConfigIfRequired", "loadBaseConfig", "-", "F"],
  ["readFile", "unmarshalData", "-", "-"]]

def defStructs : List (List String) := [
  ["definition", "Name", "string"],
  ["definition", "Group", "string"],
  ["definition", "Description", "string"],
  ["definition", "Schedule", "any"],
  ["definition", "LogDir", "string"],
  ["definition", "Env", "any"],
  ["definition", "HandlerOn", "handlerOnDef"],
  ["definition", "Functions", "[]*funcDef"],
  ["definition", "Steps", "[]*stepDef"],
  ["definition", "SMTP", "smtpConfigDef"],
  ["definition", "MailOn", "*mailOnDef"],
  ["definition", "ErrorMail", "mailConfigDef"],
  ["definition", "InfoMail", "mailConfigDef"],
  ["definition", "TimeoutSec", "int"],
  ["definition", "DelaySec", "int"],
  ["definition", "RestartWaitSec", "int"],
  ["definition", "HistRetentionDays", "*int"],
  ["definition", "Preconditions", "[]*conditionDef"],
  ["definition", "MaxActiveRuns", "int"],
  ["definition", "Params", "string"],
  ["definition", "MaxCleanUpTimeSec", "*int"],
  ["definition", "Tags", "any"],
  ["conditionDef", "Condition", "string"],
  ["conditionDef", "Expected", "string"],
  ["handlerOnDef", "Failure", "*stepDef"],
  ["handlerOnDef", "Success", "*stepDef"],
  ["handlerOnDef", "Cancel", "*stepDef"],
  ["handlerOnDef", "Exit", "*stepDef"],
  ["stepDef", "Name", "string"],
  ["stepDef", "Description", "string"],
  ["stepDef", "Dir", "string"],
  ["stepDef", "Executor", "any"],
  ["stepDef", "Command", "any"],
  ["stepDef", "Script", "string"],
  ["stepDef", "Stdout", "string"],
  ["stepDef", "Stderr", "string"],
  ["stepDef", "Output", "string"],
  ["stepDef", "Depends", "[]string"],
  ["stepDef", "ContinueOn", "*continueOnDef"],
  ["stepDef", "RetryPolicy", "*retryPolicyDef"],
  ["stepDef", "RepeatPolicy", "*repeatPolicyDef"],
  ["stepDef", "MailOnError", "bool"],
  ["stepDef", "Preconditions", "[]*conditionDef"],
  ["stepDef", "SignalOnStop", "*string"],
  ["stepDef", "Env", "string"],
  ["stepDef", "Call", "*callFuncDef"],
  ["stepDef", "Run", "string"],
  ["stepDef", "Params", "string"],
  ["funcDef", "Name", "string"],
  ["funcDef", "Params", "string"],
  ["funcDef", "Command", "string"],
  ["callFuncDef", "Function", "string"],
  ["callFuncDef", "Args", "map[string]any"],
  ["continueOnDef", "Failure", "bool"],
  ["continueOnDef", "Skipped", "bool"],
  ["repeatPolicyDef", "Repeat", "bool"],
  ["repeatPolicyDef", "IntervalSec", "int"],
  ["retryPolicyDef", "Limit", "int"],
  ["retryPolicyDef", "IntervalSec", "int"],
  ["smtpConfigDef", "Host", "string"],
  ["smtpConfigDef", "Port", "string"],
  ["smtpConfigDef", "Username", "string"],
  ["smtpConfigDef", "Password", "string"],
  ["mailConfigDef", "From", "string"],
  ["mailConfigDef", "To", "string"],
  ["mailConfigDef", "Prefix", "string"],
  ["mailConfigDef", "AttachLogs", "bool"],
  ["mailOnDef", "Failure", "bool"],
  ["mailOnDef", "Success", "bool"]]

def displayEdges : List (List String) := [
  ["client.GetDAGSpec", "local.GetSpec"],
  ["client.CreateDAG", "local.Create"],
  ["client.Grep", "local.Grep"],
  ["client.Rename", "local.Find"],
  ["client.Rename", "local.Rename"],
  ["client.StartAsync", "client.Start"],
  ["client.Start", "model.Params"],
  ["client.Start", "client.escapeArg"],
  ["client.Restart", "client.Start"],
  ["client.Retry", "client.Start"],
  ["client.GetCurrentStatus", "model.NewStatusDefault"],
  ["client.GetCurrentStatus", "model.StatusFromJSON"],
  ["client.GetStatusByRequestID", "client.GetCurrentStatus"],
  ["client.GetStatusByRequestID", "model.CorrectRunningStatus"],
  ["client.currentStatus", "model.StatusFromJSON"],
  ["client.GetLatestStatus", "client.currentStatus"],
  ["client.GetLatestStatus", "model.NewStatusDefault"],
  ["client.GetLatestStatus", "model.CorrectRunningStatus"],
  ["client.UpdateStatus", "model.StatusFromJSON"],
  ["client.UpdateDAG", "local.UpdateSpec"],
  ["client.DeleteDAG", "local.Delete"],
  ["client.GetAllStatus", "local.List"],
  ["client.GetAllStatus", "client.readStatus"],
  ["client.GetAllStatusPagination", "client.currentStatus"],
  ["client.GetAllStatusPagination", "local.ListPagination"],
  ["client.GetAllStatusPagination", "client.readStatus"],
  ["client.GetAllStatusPagination", "client.getPageCount"],
  ["client.getDAG", "local.GetDetails"],
  ["client.getDAG", "client.emptyDAGIfNil"],
  ["client.GetStatus", "client.getDAG"],
  ["client.GetStatus", "client.GetLatestStatus"],
  ["client.GetStatus", "client.IsSuspended"],
  ["client.GetStatus", "local.IsSuspended"],
  ["client.ToggleSuspend", "local.ToggleSuspend"],
  ["client.readStatus", "client.GetLatestStatus"],
  ["client.readStatus", "client.IsSuspended"],
  ["client.readStatus", "local.IsSuspended"],
  ["client.IsSuspended", "local.IsSuspended"],
  ["client.escapeArg", "model.String"],
  ["client.GetTagList", "local.TagList"],
  ["model.FromSteps", "model.NewNode"],
  ["model.FromNodes", "model.FromNode"],
  ["model.FromNode", "model.String"],
  ["model.FromNode", "model.errText"],
  ["model.ToNode", "model.errFromText"],
  ["model.NewNode", "model.String"],
  ["model.FromNodesOrSteps", "model.FromNodes"],
  ["model.FromNodesOrSteps", "model.FromSteps"],
  ["model.NewStatusDefault", "model.NewStatus"],
  ["model.NewStatus", "model.String"],
  ["model.NewStatus", "model.FromNodesOrSteps"],
  ["model.NewStatus", "model.nodeOrNil"],
  ["model.NewStatus", "model.Params"],
  ["model.CorrectRunningStatus", "model.String"],
  ["model.nodeOrNil", "model.NewNode"],
  ["local.GetMetadata", "local.fileLocation"],
  ["local.GetDetails", "local.fileLocation"],
  ["local.GetSpec", "local.fileLocation"],
  ["local.UpdateSpec", "local.fileLocation"],
  ["local.UpdateSpec", "local.exists"],
  ["local.UpdateSpec", "local.writeFileAtomic"],
  ["local.Create", "local.ensureDirExist"],
  ["local.Create", "local.fileLocation"],
  ["local.Create", "local.exists"],
  ["local.Delete", "local.fileLocation"],
  ["local.ensureDirExist", "local.exists"],
  ["local.searchName", "local.fileName"],
  ["local.ListPagination", "local.checkExtension"],
  ["local.ListPagination", "local.GetMetadata"],
  ["local.ListPagination", "local.searchName"],
  ["local.ListPagination", "local.searchTags"],
  ["local.List", "local.ensureDirExist"],
  ["local.List", "local.checkExtension"],
  ["local.List", "local.GetMetadata"],
  ["local.Grep", "local.ensureDirExist"],
  ["local.Rename", "local.fileLocation"],
  ["local.Rename", "local.exists"],
  ["local.Find", "local.resolve"],
  ["local.resolve", "local.find"],
  ["local.TagList", "local.checkExtension"],
  ["local.TagList", "local.GetMetadata"],
  ["local.TagList", "local.getTagList"],
  ["local.TagList", "fdag.getTagList"],
  ["local.ToggleSuspend", "local.Create"],
  ["local.ToggleSuspend", "local.fileName"],
  ["local.ToggleSuspend", "client.IsSuspended"],
  ["local.ToggleSuspend", "local.IsSuspended"],
  ["local.ToggleSuspend", "local.Delete"],
  ["local.IsSuspended", "local.fileName"],
  ["local.fileName", "local.normalizeFilename"],
  ["fdag.Configure", "fdag.handleRemoteNodeProxy"],
  ["fdag.Configure", "fdag.getList"],
  ["fdag.Configure", "fdag.getDetail"],
  ["fdag.Configure", "fdag.postAction"],
  ["fdag.Configure", "fdag.createDAG"],
  ["fdag.Configure", "fdag.deleteDAG"],
  ["fdag.Configure", "fdag.searchDAGs"],
  ["fdag.Configure", "local.getTagList"],
  ["fdag.Configure", "fdag.getTagList"],
  ["fdag.handleRemoteNodeProxy", "fdag.doRemoteProxy"],
  ["fdag.createDAG", "client.CreateDAG"],
  ["fdag.deleteDAG", "client.GetStatus"],
  ["fdag.deleteDAG", "client.DeleteDAG"],
  ["fdag.getList", "client.GetAllStatusPagination"],
  ["fdag.getList", "model.Params"],
  ["fdag.getList", "fdag.convertToDAG"],
  ["fdag.getDetail", "client.GetStatus"],
  ["fdag.getDetail", "fdag.convertToStepObject"],
  ["fdag.getDetail", "model.Params"],
  ["fdag.getDetail", "fdag.convertToStatusDetail"],
  ["fdag.getDetail", "fdag.processSpecRequest"],
  ["fdag.getDetail", "fdag.processLogRequest"],
  ["fdag.getDetail", "fdag.processStepLogRequest"],
  ["fdag.getDetail", "fdag.processSchedulerLogRequest"],
  ["fdag.processSchedulerLogRequest", "client.GetLatestStatus"],
  ["fdag.processSchedulerLogRequest", "fdag.readFileContent"],
  ["fdag.processStepLogRequest", "client.GetLatestStatus"],
  ["fdag.processStepLogRequest", "fdag.readFileContent"],
  ["fdag.processStepLogRequest", "fdag.convertToNode"],
  ["fdag.processSpecRequest", "client.GetDAGSpec"],
  ["fdag.processLogRequest", "client.GetRecentHistory"],
  ["fdag.processLogRequest", "fdag.addNodeStatus"],
  ["fdag.processLogRequest", "model.String"],
  ["fdag.processLogRequest", "fdag.convertToStatusDetail"],
  ["fdag.postAction", "client.GetStatus"],
  ["fdag.postAction", "client.StartAsync"],
  ["fdag.postAction", "model.Params"],
  ["fdag.postAction", "client.ToggleSuspend"],
  ["fdag.postAction", "local.ToggleSuspend"],
  ["fdag.postAction", "client.Stop"],
  ["fdag.postAction", "client.Retry"],
  ["fdag.postAction", "fdag.processUpdateStatus"],
  ["fdag.postAction", "client.UpdateDAG"],
  ["fdag.postAction", "client.Rename"],
  ["fdag.postAction", "local.Rename"],
  ["fdag.processUpdateStatus", "client.GetStatusByRequestID"],
  ["fdag.processUpdateStatus", "model.String"],
  ["fdag.processUpdateStatus", "client.UpdateStatus"],
  ["fdag.searchDAGs", "client.Grep"],
  ["fdag.searchDAGs", "local.Grep"],
  ["fdag.searchDAGs", "fdag.convertToDAG"],
  ["fdag.getTagList", "client.GetTagList"],
  ["fdag.convertToDAG", "model.Params"],
  ["fdag.convertToStatusDetail", "model.Params"],
  ["fdag.convertToStatusDetail", "fdag.convertToNode"],
  ["fdag.convertToNode", "fdag.convertToStepObject"],
  ["fdag.convertToStepObject", "model.Params"]]

def displayFuncs : List (List String) := [
  ["client.CreateDAG"],
  ["client.DeleteDAG"],
  ["client.GetAllStatus"],
  ["client.GetAllStatusPagination"],
  ["client.GetCurrentStatus"],
  ["client.GetDAGSpec"],
  ["client.GetLatestStatus"],
  ["client.GetRecentHistory"],
  ["client.GetStatus"],
  ["client.GetStatusByRequestID"],
  ["client.GetTagList"],
  ["client.Grep"],
  ["client.IsSuspended"],
  ["client.New"],
  ["client.Rename"],
  ["client.Restart"],
  ["client.Retry"],
  ["client.Start"],
  ["client.StartAsync"],
  ["client.Stop"],
  ["client.ToggleSuspend"],
  ["client.UpdateDAG"],
  ["client.UpdateStatus"],
  ["client.currentStatus"],
  ["client.emptyDAGIfNil"],
  ["client.escapeArg"],
  ["client.getDAG"],
  ["client.getPageCount"],
  ["client.readStatus"],
  ["fdag.Configure"],
  ["fdag.NewHandler"],
  ["fdag.addNodeStatus"],
  ["fdag.convertToDAG"],
  ["fdag.convertToNode"],
  ["fdag.convertToStatusDetail"],
  ["fdag.convertToStepObject"],
  ["fdag.createDAG"],
  ["fdag.deleteDAG"],
  ["fdag.doRemoteProxy"],
  ["fdag.getDetail"],
  ["fdag.getList"],
  ["fdag.getTagList"],
  ["fdag.handleRemoteNodeProxy"],
  ["fdag.postAction"],
  ["fdag.processLogRequest"],
  ["fdag.processSchedulerLogRequest"],
  ["fdag.processSpecRequest"],
  ["fdag.processStepLogRequest"],
  ["fdag.processUpdateStatus"],
  ["fdag.readFileContent"],
  ["fdag.searchDAGs"],
  ["local.Create"],
  ["local.Delete"],
  ["local.Find"],
  ["local.GetDetails"],
  ["local.GetMetadata"],
  ["local.GetSpec"],
  ["local.Grep"],
  ["local.IsSuspended"],
  ["local.List"],
  ["local.ListPagination"],
  ["local.NewDAGStore"],
  ["local.NewFlagStore"],
  ["local.Rename"],
  ["local.TagList"],
  ["local.ToggleSuspend"],
  ["local.UpdateSpec"],
  ["local.checkExtension"],
  ["local.ensureDirExist"],
  ["local.exists"],
  ["local.fileLocation"],
  ["local.fileName"],
  ["local.find"],
  ["local.getTagList"],
  ["local.normalizeFilename"],
  ["local.resolve"],
  ["local.searchName"],
  ["local.searchTags"],
  ["local.writeFileAtomic"],
  ["model.CorrectRunningStatus"],
  ["model.FormatTime"],
  ["model.FromNode"],
  ["model.FromNodes"],
  ["model.FromNodesOrSteps"],
  ["model.FromSteps"],
  ["model.IsRunning"],
  ["model.NewNode"],
  ["model.NewStatus"],
  ["model.NewStatusDefault"],
  ["model.Params"],
  ["model.StatusFromJSON"],
  ["model.String"],
  ["model.Time"],
  ["model.ToJSON"],
  ["model.ToNode"],
  ["model.errFromText"],
  ["model.errText"],
  ["model.nodeOrNil"]]

def displayLoaderCalls : List (List String) := [
  ["local.GetMetadata", "LoadMetadata"],
  ["local.GetDetails", "LoadWithoutEval"],
  ["local.UpdateSpec", "LoadYAML"],
  ["local.Grep", "LoadMetadata"],
  ["local.Find", "LoadWithoutEval"]]

def displaySites : List (List String) := [
  ["client.Start", "exec.Command", "0", "exec"],
  ["client.Restart", "exec.Command", "0", "exec"],
  ["client.Retry", "exec.Command", "0", "exec"]]

def effectSites : List (List String) := [
  ["buildLogDir", "os.ExpandEnv", "0", "expand", "F", "-"],
  ["loadVariables", "os.ExpandEnv", "0", "expand", "F", "-"],
  ["loadVariables", "os.Setenv", "0", "setenv", "F", "-"],
  ["buildSMTPConfig", "os.ExpandEnv", "0", "expand", "-", "-"],
  ["buildSMTPConfig", "os.ExpandEnv", "1", "expand", "-", "-"],
  ["buildSMTPConfig", "os.ExpandEnv", "2", "expand", "-", "-"],
  ["buildSMTPConfig", "os.ExpandEnv", "3", "expand", "-", "-"],
  ["substituteCommands", "exec.Command", "0", "exec", "-", "-"],
  ["parseParams", "os.ExpandEnv", "0", "expand", "F", "-"],
  ["parseParams", "os.Setenv", "0", "setenv", "F", "-"],
  ["parseParams", "os.Setenv", "1", "setenv", "F", "-"],
  ["parseParamValue", "os.ExpandEnv", "0", "expand", "F", "-"],
  ["parseParamValue", "exec.Command", "0", "exec", "F", "-"]]

def entryOpts : List (List String) := [
  ["Load", "false", "false"],
  ["LoadWithoutEval", "false", "true"],
  ["LoadMetadata", "true", "true"],
  ["LoadYAML", "false", "true"]]

end BdModel.Canon.Load
