/- CANONICAL copy of Extracted/Lock.lean: the source facts the model was written against (updated only by ./check --recanon after the model was re-validated). -/
namespace BdModel.Canon.Lock

/-- hash of the normalised skeleton of Run (internal/agent/agent.go) -/
def h_lock_agent_Run : Nat := 0x7a140875874af04e

/-- hash of the normalised skeleton of setup (internal/agent/agent.go) -/
def h_lock_agent_setup : Nat := 0x0098c187f52ef343

/-- hash of the normalised skeleton of checkPreconditions (internal/agent/agent.go) -/
def h_lock_agent_checkPreconditions : Nat := 0x51fc4fb4cf70ca2e

/-- hash of the normalised skeleton of checkIsAlreadyRunning (internal/agent/agent.go) -/
def h_lock_agent_checkIsAlreadyRunning : Nat := 0xd74aa0f77b2a793a

/-- hash of the normalised skeleton of setupDatabase (internal/agent/agent.go) -/
def h_lock_agent_setupDatabase : Nat := 0x32c62ce8bf0beba0

/-- hash of the normalised skeleton of setupSocketServer (internal/agent/agent.go) -/
def h_lock_agent_setupSocketServer : Nat := 0x36f629bcf55d82ad

/-- hash of the normalised skeleton of HandleHTTP (internal/agent/agent.go) -/
def h_lock_agent_HandleHTTP : Nat := 0x493fc7cf66390e9a

/-- hash of the normalised skeleton of NewServer (internal/sock/server.go) -/
def h_lock_sock_NewServer : Nat := 0xaa40cc2f672e14a1

/-- hash of the normalised skeleton of Serve (internal/sock/server.go) -/
def h_lock_sock_Serve : Nat := 0x600fb26db4d31f15

/-- hash of the normalised skeleton of Shutdown (internal/sock/server.go) -/
def h_lock_sock_Shutdown : Nat := 0xc53f8dac7322e087

/-- hash of the normalised skeleton of Request (internal/sock/client.go) -/
def h_lock_sock_Request : Nat := 0xfdb772f719e1f2da

/-- hash of the normalised skeleton of GetCurrentStatus (internal/client/client.go) -/
def h_lock_client_GetCurrentStatus : Nat := 0x639b1bec2f33bb20

/-- hash of the normalised skeleton of SockAddr (internal/dag/dag.go) -/
def h_lock_dag_SockAddr : Nat := 0x832fbcd7c98247ae

/-- hash of the normalised skeleton of dryRun (internal/agent/agent.go) -/
def h_lock_agent_dryRun : Nat := 0x8414dd1c30f3f649

/-- hash of the normalised skeleton of * (internal/agent/agent.go) -/
def h_rest_lock_agent_agent_go : Nat := 0x3ff18b87579734a2

/-- hash of the normalised skeleton of * (internal/sock/server.go) -/
def h_rest_lock_sock_server_go : Nat := 0x0655865fc99f782e

/-- hash of the normalised skeleton of * (internal/sock/client.go) -/
def h_rest_lock_sock_client_go : Nat := 0x31e5290ed0110ca3

end BdModel.Canon.Lock
