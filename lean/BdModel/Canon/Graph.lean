/- CANONICAL copy of Extracted/Graph.lean: the source facts the model was written against (updated only by ./check --recanon after the model was re-validated). -/
namespace BdModel.Canon.Graph

/-- hash of the normalised skeleton of setup (internal/dag/scheduler/graph.go) -/
def h_graph_setup : Nat := 0xf58b84945ce65d70

/-- hash of the normalised skeleton of hasCycle (internal/dag/scheduler/graph.go) -/
def h_graph_hasCycle : Nat := 0xd719e19d04239851

/-- hash of the normalised skeleton of addEdge (internal/dag/scheduler/graph.go) -/
def h_graph_addEdge : Nat := 0x5543e7c7ac1c31af

/-- hash of the normalised skeleton of findStep (internal/dag/scheduler/graph.go) -/
def h_graph_findStep : Nat := 0xa4ee71033e7e5fa5

/-- hash of the normalised skeleton of setupRetry (internal/dag/scheduler/graph.go) -/
def h_graph_setupRetry : Nat := 0x6659ffee3f324453

/-- hash of the normalised skeleton of NewExecutionGraph (internal/dag/scheduler/graph.go) -/
def h_graph_NewExecutionGraph : Nat := 0x870d8099848258ce

/-- hash of the normalised skeleton of NewExecutionGraphForRetry (internal/dag/scheduler/graph.go) -/
def h_graph_NewExecutionGraphForRetry : Nat := 0x859d7c2a46d2316d

/-- hash of the normalised skeleton of clearState (internal/dag/scheduler/node.go) -/
def h_graph_node_clearState : Nat := 0x0cd364175773c3b7

/-- hash of the normalised skeleton of * (internal/dag/scheduler/graph.go) -/
def h_rest_graph_dag_scheduler_graph_go : Nat := 0x259aeadfae735839

def hasCycleFacts : List String := ["range g.to", "range g.nodes", "if inDegrees[node.id] != 0 => continue", "for len(q) > 0", "range tos", "inDegrees[to]--", "if inDegrees[to] == 0 => q = append(q, to)", "range inDegrees", "if degree > 0 => return true"]

def setupRetryFacts : List String := ["if len(node.data.Step.Depends) == 0 => frontier = append(frontier, node.id)", "if retry[u] || dict[u] == NodeStatusError || dict[u] == NodeStatusCancel || dict[u] == NodeStatusRunning || dict[u] == NodeStatusNone => g.dict[u].clearState(); retry[u] = true", "if retry[u] => retry[v] = true"]

end BdModel.Canon.Graph
