/- CANONICAL copy of Extracted/Cron.lean: the source facts the model was written against (updated only by ./check --recanon after the model was re-validated). -/
namespace BdModel.Canon.Cron

/-- hash of the normalised skeleton of run (internal/scheduler/scheduler.go) -/
def h_cron_run : Nat := 0x05c4fcce2847241e

/-- hash of the normalised skeleton of nextTick (internal/scheduler/scheduler.go) -/
def h_cron_nextTick : Nat := 0xc09559c4f5bd4ae2

/-- hash of the normalised skeleton of start (internal/scheduler/scheduler.go) -/
def h_cron_start : Nat := 0x57695ababa6053be

/-- hash of the normalised skeleton of Invoke (internal/scheduler/scheduler.go) -/
def h_cron_Invoke : Nat := 0xc45e02025b58c6ef

/-- hash of the normalised skeleton of now (internal/scheduler/scheduler.go) -/
def h_cron_now : Nat := 0x64cdf6ccf28a883f

/-- hash of the normalised skeleton of Start (internal/scheduler/job.go) -/
def h_cron_jobStart : Nat := 0x11b44fc450507523

/-- hash of the normalised skeleton of Stop (internal/scheduler/job.go) -/
def h_cron_jobStop : Nat := 0xef168a4812017c6a

/-- hash of the normalised skeleton of Restart (internal/scheduler/job.go) -/
def h_cron_jobRestart : Nat := 0x85f6a90210c00fd7

/-- hash of the normalised skeleton of Read (internal/scheduler/entryreader.go) -/
def h_cron_Read : Nat := 0x4fa4918da55f033f

/-- hash of the normalised skeleton of initDags (internal/scheduler/entryreader.go) -/
def h_cron_initDags : Nat := 0x4f595a07e0c9db92

/-- hash of the normalised skeleton of watchDags (internal/scheduler/entryreader.go) -/
def h_cron_watchDags : Nat := 0xacdad70afded4283

/-- hash of the normalised skeleton of newEntryReader (internal/scheduler/entryreader.go) -/
def h_cron_newEntryReader : Nat := 0x13d6684eac190c82

/-- hash of the normalised skeleton of buildSchedule (internal/dag/builder.go) -/
def h_cron_buildSchedule : Nat := 0x00b30cd98ddcedc4

/-- hash of the normalised skeleton of parseSchedules (internal/dag/parser.go) -/
def h_cron_parseSchedules : Nat := 0xfa004ee265a6313e

/-- hash of the normalised skeleton of parseScheduleMap (internal/dag/parser.go) -/
def h_cron_parseScheduleMap : Nat := 0x0f6c332ab69ab709

/-- hash of the normalised skeleton of ParseTime (internal/util/utils.go) -/
def h_cron_ParseTime : Nat := 0x179654190ee03bc8

/-- hash of the normalised skeleton of parseCron (internal/dag/parser.go) -/
def h_cron_parseCron : Nat := 0x581687a9e38c9bc0

/-- hash of the normalised skeleton of * (internal/scheduler/scheduler.go) -/
def h_rest_cron_scheduler_scheduler_go : Nat := 0x9d1992e1cdf904d6

/-- hash of the normalised skeleton of * (internal/scheduler/job.go) -/
def h_rest_cron_scheduler_job_go : Nat := 0x61f1c2e29873763b

/-- hash of the normalised skeleton of * (internal/scheduler/entryreader.go) -/
def h_rest_cron_scheduler_entryreader_go : Nat := 0x808acd2a7384ccd6

/-- hash of the normalised skeleton of * (internal/persistence/local/flag_store.go) -/
def h_rest_cron_persistence_local_flag_store_go : Nat := 0x9ca2f4d9ad22e50c

/-- hash of the normalised skeleton of * (internal/persistence/local/storage/storage.go) -/
def h_rest_cron_persistence_local_storage_storage_go : Nat := 0x878d3d799fdfb72e

/-- hash of the normalised skeleton of * (internal/client/client.go) -/
def h_rest_cron_client_client_go : Nat := 0xe07e21f2dfcfd000

/-- hash of the normalised skeleton of * (internal/dag/parser.go) -/
def h_rest_cron_dag_parser_go : Nat := 0xd29bfaf6bdcd20ad

end BdModel.Canon.Cron
