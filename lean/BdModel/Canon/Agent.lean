/- CANONICAL copy of Extracted/Agent.lean: the source facts the model was written against (updated only by ./check --recanon after the model was re-validated). -/
namespace BdModel.Canon.Agent

/-- hash of the normalised skeleton of Status (internal/agent/agent.go) -/
def h_agent_Agent_Status : Nat := 0x05778f85d70816ed

/-- hash of the normalised skeleton of Run (internal/agent/agent.go) -/
def h_agent_Agent_Run : Nat := 0x7a140875874af04e

/-- hash of the normalised skeleton of GetLatestStatus (internal/client/client.go) -/
def h_agent_client_GetLatestStatus : Nat := 0x51464a23d1cad9d6

/-- hash of the normalised skeleton of currentStatus (internal/client/client.go) -/
def h_agent_client_currentStatus : Nat := 0x795ad5b48b10d443

/-- hash of the normalised skeleton of CorrectRunningStatus (internal/persistence/model/status.go) -/
def h_agent_Status_CorrectRunningStatus : Nat := 0x504f146ae069e9e6

/-- hash of the normalised skeleton of signal (internal/agent/agent.go) -/
def h_agent_Agent_signal : Nat := 0xe8f87d0717116a2b

/-- hash of the normalised skeleton of Signal (internal/agent/agent.go) -/
def h_agent_Agent_Signal : Nat := 0xb269b57c1b0b5730

/-- hash of the normalised skeleton of HandleHTTP (internal/agent/agent.go) -/
def h_agent_Agent_HandleHTTP : Nat := 0x493fc7cf66390e9a

/-- hash of the normalised skeleton of * (internal/agent/agent.go) -/
def h_rest_agent_agent_agent_go : Nat := 0x0432cbb7b0186cc8

/-- hash of the normalised skeleton of * (internal/persistence/model/status.go) -/
def h_rest_agent_persistence_model_status_go : Nat := 0xbeb2f7a53253ed76

/-- hash of the normalised skeleton of * (internal/persistence/model/node.go) -/
def h_rest_agent_persistence_model_node_go : Nat := 0x42fc9e336bdfd1bb

/-- hash of the normalised skeleton of * (internal/client/client.go) -/
def h_rest_agent_client_client_go : Nat := 0x651e066169377167

/-- hash of the normalised skeleton of * (internal/sock/client.go) -/
def h_rest_agent_sock_client_go : Nat := 0xbde387884a65c0fd

/-- hash of the normalised skeleton of * (internal/sock/server.go) -/
def h_rest_agent_sock_server_go : Nat := 0xaa216abd9a897380

end BdModel.Canon.Agent
