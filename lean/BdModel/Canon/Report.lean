/- CANONICAL copy of Extracted/Report.lean: the source facts the model was written against (updated only by ./check --recanon after the model was re-validated). -/
namespace BdModel.Canon.Report

/-- hash of the normalised skeleton of * (internal/agent/reporter.go) -/
def h_rest_report_internal_agent_reporter_go : Nat := 0x7d1c11b0e24e7f61

/-- hash of the normalised skeleton of * (internal/mailer/mailer.go) -/
def h_rest_report_internal_mailer_mailer_go : Nat := 0x81d76d6a1faabc12

/-- hash of the normalised skeleton of * (internal/logger/file.go) -/
def h_rest_report_internal_logger_file_go : Nat := 0x447726151128d5e1

/-- hash of the normalised skeleton of * (internal/logger/logger.go) -/
def h_rest_report_internal_logger_logger_go : Nat := 0xe1a40203d98e9a53

/-- hash of the normalised skeleton of * (internal/config/resolver.go) -/
def h_rest_report_internal_config_resolver_go : Nat := 0xbefb60d9d7b1505c

/-- hash of the normalised skeleton of * (internal/constants/constants.go) -/
def h_rest_report_internal_constants_constants_go : Nat := 0x89d676a9def4da49

end BdModel.Canon.Report
