/- CANONICAL copy of Extracted/ExecRest.lean: the source facts the model was written against (updated only by ./check --recanon after the model was re-validated). -/
namespace BdModel.Canon.ExecRest

/-- hash of the normalised skeleton of * (internal/dag/executor/docker.go) -/
def h_rest_execrest_internal_dag_executor_docker_go : Nat := 0x1efbb5ab97b2c5e6

/-- hash of the normalised skeleton of * (internal/dag/executor/http.go) -/
def h_rest_execrest_internal_dag_executor_http_go : Nat := 0x056c6b28d07acbf4

/-- hash of the normalised skeleton of * (internal/dag/executor/jq.go) -/
def h_rest_execrest_internal_dag_executor_jq_go : Nat := 0xfcffbb9b8a4310c2

/-- hash of the normalised skeleton of * (internal/dag/executor/mail.go) -/
def h_rest_execrest_internal_dag_executor_mail_go : Nat := 0xe9365487cdb6be1d

/-- hash of the normalised skeleton of * (internal/dag/executor/ssh.go) -/
def h_rest_execrest_internal_dag_executor_ssh_go : Nat := 0x5d56716751af209d

/-- hash of the normalised skeleton of * (internal/dag/executor/sub.go) -/
def h_rest_execrest_internal_dag_executor_sub_go : Nat := 0x9ebac64576a87e84

end BdModel.Canon.ExecRest
