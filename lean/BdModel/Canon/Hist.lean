/- CANONICAL copy of Extracted/Hist.lean: the source facts the model was written against (updated only by ./check --recanon after the model was re-validated). -/
namespace BdModel.Canon.Hist

/-- hash of the normalised skeleton of Update (internal/persistence/jsondb/jsondb.go) -/
def h_hist_Update : Nat := 0xcf516de5ddbb05fc

/-- hash of the normalised skeleton of Open (internal/persistence/jsondb/jsondb.go) -/
def h_hist_Open : Nat := 0xbd0103a6a6628aca

/-- hash of the normalised skeleton of Write (internal/persistence/jsondb/jsondb.go) -/
def h_hist_Write : Nat := 0x0fb20704b8d6c928

/-- hash of the normalised skeleton of Close (internal/persistence/jsondb/jsondb.go) -/
def h_hist_Close : Nat := 0xff87a0a8b957f800

/-- hash of the normalised skeleton of newWriter (internal/persistence/jsondb/jsondb.go) -/
def h_hist_newWriter : Nat := 0x54bfc2c9643102b8

/-- hash of the normalised skeleton of ReadStatusRecent (internal/persistence/jsondb/jsondb.go) -/
def h_hist_ReadStatusRecent : Nat := 0xe2f5b08fb63526b7

/-- hash of the normalised skeleton of ReadStatusToday (internal/persistence/jsondb/jsondb.go) -/
def h_hist_ReadStatusToday : Nat := 0xc1cc802b7b6a800c

/-- hash of the normalised skeleton of FindByRequestID (internal/persistence/jsondb/jsondb.go) -/
def h_hist_FindByRequestID : Nat := 0xe5e17c4a1536fecd

/-- hash of the normalised skeleton of RemoveAll (internal/persistence/jsondb/jsondb.go) -/
def h_hist_RemoveAll : Nat := 0x034f8782486251af

/-- hash of the normalised skeleton of RemoveOld (internal/persistence/jsondb/jsondb.go) -/
def h_hist_RemoveOld : Nat := 0x6341e20d9a78f698

/-- hash of the normalised skeleton of Compact (internal/persistence/jsondb/jsondb.go) -/
def h_hist_Compact : Nat := 0xfa2cf46d36e75d5a

/-- hash of the normalised skeleton of Rename (internal/persistence/jsondb/jsondb.go) -/
def h_hist_Rename : Nat := 0xf8bfa7ad5dda9263

/-- hash of the normalised skeleton of getDirectory (internal/persistence/jsondb/jsondb.go) -/
def h_hist_getDirectory : Nat := 0x0357e71077189172

/-- hash of the normalised skeleton of newFile (internal/persistence/jsondb/jsondb.go) -/
def h_hist_newFile : Nat := 0x789a4c126cf4b5b6

/-- hash of the normalised skeleton of latestToday (internal/persistence/jsondb/jsondb.go) -/
def h_hist_latestToday : Nat := 0x4fca359d8e4c3222

/-- hash of the normalised skeleton of latest (internal/persistence/jsondb/jsondb.go) -/
def h_hist_latest : Nat := 0x776a6f0b4651178d

/-- hash of the normalised skeleton of globPattern (internal/persistence/jsondb/jsondb.go) -/
def h_hist_globPattern : Nat := 0xee4f20f2fb86ca6c

/-- hash of the normalised skeleton of escapeGlob (internal/persistence/jsondb/jsondb.go) -/
def h_hist_escapeGlob : Nat := 0x2c6badd0c7c4c22f

/-- hash of the normalised skeleton of prefixWithDirectory (internal/persistence/jsondb/jsondb.go) -/
def h_hist_prefixWithDirectory : Nat := 0x89e13c3eb6b0dec6

/-- hash of the normalised skeleton of ParseFile (internal/persistence/jsondb/jsondb.go) -/
def h_hist_ParseFile : Nat := 0x37b1ef6b3670135f

/-- hash of the normalised skeleton of filterLatest (internal/persistence/jsondb/jsondb.go) -/
def h_hist_filterLatest : Nat := 0x33d0a67ed13e22cb

/-- hash of the normalised skeleton of timestamp (internal/persistence/jsondb/jsondb.go) -/
def h_hist_timestamp : Nat := 0x9105fb0aacf4df75

/-- hash of the normalised skeleton of readLineFrom (internal/persistence/jsondb/jsondb.go) -/
def h_hist_readLineFrom : Nat := 0xee2c0c929567d5c2

/-- hash of the normalised skeleton of prefix (internal/persistence/jsondb/jsondb.go) -/
def h_hist_prefix : Nat := 0x591e8671ee91a5f7

/-- hash of the normalised skeleton of open (internal/persistence/jsondb/writer.go) -/
def h_hist_writer_open : Nat := 0xd5b581c090f5a97a

/-- hash of the normalised skeleton of write (internal/persistence/jsondb/writer.go) -/
def h_hist_writer_write : Nat := 0x460ec8fde817bd61

/-- hash of the normalised skeleton of close (internal/persistence/jsondb/writer.go) -/
def h_hist_writer_close : Nat := 0xc54a34126244062d

/-- hash of the normalised skeleton of OpenOrCreateFile (internal/util/utils.go) -/
def h_hist_OpenOrCreateFile : Nat := 0xab958d9ca1635f4b

/-- hash of the normalised skeleton of openFile (internal/util/utils.go) -/
def h_hist_openFile : Nat := 0x8a9c3bde26b1aeb2

/-- hash of the normalised skeleton of createFile (internal/util/utils.go) -/
def h_hist_createFile : Nat := 0xbce55f01177cf10f

/-- hash of the normalised skeleton of LoadLatest (internal/persistence/filecache/filecache.go) -/
def h_fcache_Cache_LoadLatest : Nat := 0x975fd437f751abb2

/-- hash of the normalised skeleton of IsStale (internal/persistence/filecache/filecache.go) -/
def h_fcache_Cache_IsStale : Nat := 0xa0f4c95dd2940a0c

/-- hash of the normalised skeleton of Store (internal/persistence/filecache/filecache.go) -/
def h_fcache_Cache_Store : Nat := 0xdc01969b5b6b1be7

/-- hash of the normalised skeleton of Entry (internal/persistence/filecache/filecache.go) -/
def h_fcache_Cache_Entry : Nat := 0xd3438ffb37ef079b

/-- hash of the normalised skeleton of Invalidate (internal/persistence/filecache/filecache.go) -/
def h_fcache_Cache_Invalidate : Nat := 0x576bd7e83207dc3c

/-- hash of the normalised skeleton of Load (internal/persistence/filecache/filecache.go) -/
def h_fcache_Cache_Load : Nat := 0x02d4ce9d73a1f0f5

/-- hash of the normalised skeleton of evict (internal/persistence/filecache/filecache.go) -/
def h_fcache_Cache_evict : Nat := 0xc49a2b8e995d37a1

/-- hash of the normalised skeleton of newEntry (internal/persistence/filecache/filecache.go) -/
def h_fcache__newEntry : Nat := 0xd68a5875d07119f5

/-- hash of the normalised skeleton of * (internal/persistence/jsondb/jsondb.go) -/
def h_rest_hist_persistence_jsondb_jsondb_go : Nat := 0xfea9e9ac5c5ceca0

/-- hash of the normalised skeleton of * (internal/persistence/jsondb/writer.go) -/
def h_rest_hist_persistence_jsondb_writer_go : Nat := 0x8b554e313923373b

/-- hash of the normalised skeleton of * (internal/persistence/filecache/filecache.go) -/
def h_rest_hist_persistence_filecache_filecache_go : Nat := 0xed8caf81e75741d8

/-- hash of the normalised skeleton of * (internal/persistence/model/status.go) -/
def h_rest_hist_persistence_model_status_go : Nat := 0xa99de046e51c60df

/-- hash of the normalised skeleton of * (internal/persistence/model/node.go) -/
def h_rest_hist_persistence_model_node_go : Nat := 0x42fc9e336bdfd1bb

def dateFormat : List String := ["\"20060102\""]

def dateTimeFormat : List String := ["\"20060102.15:04:05.000\""]

def extDat : List String := ["\".dat\""]

def globEscaper : List String := ["strings.NewReplacer( `\\`, `\\\\`, `*`, `\\*`, `?`, `\\?`, `[`, `\\[`, )"]

def rTimestamp : List String := ["regexp.MustCompile(`2\\d{7}.\\d{2}:\\d{2}:\\d{2}(\\.\\d{3})?`)"]

def requestIDLenSafe : List String := ["8"]

end BdModel.Canon.Hist
