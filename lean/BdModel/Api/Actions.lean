/-
  Model of the control actions of the web API: `POST /dags/{dagId}` with a body
  {action, value, requestId, step, params}.

  Transcribed from (pinned tree):
    internal/frontend/dag/handler.go   postAction (guards in source order), processUpdateStatus
    internal/client/client.go          GetStatus (load + graph check), GetLatestStatus / currentStatus
                                       (socket answers ⇒ that status, else history + running→failed
                                       correction), StartAsync/Start (argv), Stop (POST /stop on the
                                       socket), Retry (argv), GetStatusByRequestID (+ correction),
                                       UpdateStatus, ToggleSuspend, UpdateDAG, Rename, escapeArg
    internal/persistence/jsondb        FindByRequestID (newest first, first match), Update (append to
                                       that run's file), Rename (move files, merge)
    internal/persistence/local         dag_store UpdateSpec (validate, exists, write), Rename (target must not
                                       exist, then os.Rename),
                                       flag_store ToggleSuspend
    cmd/start.go                       removeQuotes (what the spawned `start` does with `-p`)

  World: per DAG id — definition file (if any), suspend flag, live run (its socket answers `running`
  with a request id), recorded runs (newest first); plus the log of commands handed to the
  executable (start / retry) and stop requests sent to a live run.  Strings are code-point lists,
  DAG / step / request ids are numbers (0 = the empty string).  Core-only.
-/
namespace BdModel.Api

abbrev Str := List Nat

/-- a definition file: an opaque content id, whether it loads, whether its graph is well-formed -/
structure Spec where
  id : Nat
  yamlOk : Bool := true
  graphOk : Bool := true
deriving DecidableEq, Repr

/-- one recorded run = the last status line of its history file -/
structure Run where
  ts : Nat                     -- start time (orders the files)
  reqId : Nat
  status : Nat                 -- scheduler.Status: 0 none 1 running 2 failed 3 canceled 4 finished
  nodes : List (Nat × Nat)     -- (step name, scheduler.NodeStatus)
  rest : Nat                   -- everything else in the record (opaque)
deriving DecidableEq, Repr

inductive Cmd where
  | start (dag : Nat) (arg : Option Str)    -- `start [-p arg] location`
  | retry (dag : Nat) (reqId : Nat)         -- `retry --req=<id> location`
  | stop (dag : Nat)                        -- POST /stop on the live run's socket
deriving DecidableEq, Repr

structure World where
  dags : Nat → Option Spec
  susp : Nat → Bool
  live : Nat → Option Nat      -- request id reported by the answering socket (always status running)
  hist : Nat → List Run        -- newest first
  log : List Cmd               -- oldest first

inductive Action where
  | start | stop | retry | suspend | markSuccess | markFailed | save | rename | unknown
deriving DecidableEq, Repr

structure Body where
  action : Option Action := none   -- none = field missing
  requestId : Nat := 0             -- 0 = ""
  step : Nat := 0                  -- 0 = ""
  params : Str := []
  valueTrue : Bool := false        -- suspend: value == "true"
  newSpec : Spec := { id := 0 }    -- save: the submitted definition
  target : Option Nat := none      -- rename: value ("" = none)
deriving Repr

structure Resp where
  code : Nat
  newDagId : Option Nat := none
deriving DecidableEq, Repr

def upd {α : Type} (f : Nat → α) (k : Nat) (v : α) : Nat → α := fun x => if x = k then v else f x

/-! ### parameter hand-over -/

/-- client.escapeArg: CR ↦ `\r`, LF ↦ `\n`, everything else unchanged -/
def escapeArg : Str → Str
  | [] => []
  | c :: rest => if c = 13 then 92 :: 114 :: escapeArg rest
                 else if c = 10 then 92 :: 110 :: escapeArg rest
                 else c :: escapeArg rest

/-- client.Start: `-p "<escaped>"` only when params ≠ "" -/
def startArg (p : Str) : Option Str := if p = [] then none else some (34 :: (escapeArg p ++ [34]))

/-- cmd/start.go removeQuotes -/
def removeQuotes : Str → Str
  | [] => []
  | c :: rest => if c = 34 ∧ rest ≠ [] ∧ rest.getLast? = some 34 then rest.dropLast else c :: rest

/-- the parameter string the spawned `start` command hands to `dag.Load` -/
def received : Option Str → Str
  | none => []
  | some a => removeQuotes a

def noLineBreak (p : Str) : Prop := ∀ c ∈ p, c ≠ 13 ∧ c ≠ 10

/-! ### status edit -/

/-- jsondb.FindByRequestID: files newest first, first record with that request id -/
def findRunIdx : List Run → Nat → Option Nat
  | [], _ => none
  | r :: rs, q => if r.reqId = q then some 0 else (findRunIdx rs q).map (· + 1)

/-- processUpdateStatus's loop has no `break`: the LAST node with that step name -/
def lastNodeIdx : List (Nat × Nat) → Nat → Option Nat
  | [], _ => none
  | n :: ns, s => match lastNodeIdx ns s with
    | some i => some (i + 1)
    | none => if n.1 = s then some 0 else none

/-- model.Status.CorrectRunningStatus -/
def correct (r : Run) : Run := if r.status = 1 then { r with status := 2 } else r

def editRun (r : Run) (i : Nat) (step to : Nat) : Run :=
  { correct r with nodes := r.nodes.set i (step, to) }

/-- jsondb.Rename: the old name's files are moved under the new name (merged by time stamp) -/
def mergeRuns : List Run → List Run → List Run
  | [], l => l
  | a :: as, l => (l.filter (fun r => decide (a.ts < r.ts))) ++ a :: mergeRuns as (l.filter (fun r => !decide (a.ts < r.ts)))

def ok : Resp := { code := 200 }
def bad : Resp := { code := 400 }
def err : Resp := { code := 500 }

def edit (w : World) (d : Nat) (b : Body) (to : Nat) : World × Resp :=
  if b.requestId = 0 then (w, bad)
  else if b.step = 0 then (w, bad)
  else if (w.live d).isSome then (w, bad)                       -- "the DAG is still running"
  else match findRunIdx (w.hist d) b.requestId with
    | none => (w, err)                                          -- GetStatusByRequestID fails
    | some k => match (w.hist d)[k]? with
      | none => (w, err)
      | some r => match lastNodeIdx r.nodes b.step with
        | none => (w, bad)                                      -- "step not found"
        | some i => ({ w with hist := upd w.hist d ((w.hist d).set k (editRun r i b.step to)) }, ok)

/-- handler.postAction -/
def post (w : World) (d : Nat) (b : Body) : World × Resp :=
  match b.action with
  | none => (w, bad)
  | some .save =>
      -- no status lookup for save; dag_store.UpdateSpec: validate, exists, write
      if !b.newSpec.yamlOk then (w, err)
      else match w.dags d with
        | none => (w, err)
        | some _ => ({ w with dags := upd w.dags d (some b.newSpec) }, ok)
  | some a =>
      -- client.GetStatus: the definition must load and its graph must be well-formed
      match w.dags d with
      | none => (w, bad)
      | some sp =>
        if !(sp.yamlOk && sp.graphOk) then (w, bad)
        else match a with
          | .start =>
              if (w.live d).isSome then (w, bad)
              else ({ w with log := w.log ++ [.start d (startArg b.params)] }, ok)
          | .suspend => ({ w with susp := upd w.susp d b.valueTrue }, ok)
          | .stop =>
              if (w.live d).isSome then ({ w with log := w.log ++ [.stop d] }, ok)
              else (w, bad)
          | .retry =>
              if b.requestId = 0 then (w, bad)
              else ({ w with log := w.log ++ [.retry d b.requestId] }, ok)
          | .markSuccess => edit w d b 4
          | .markFailed => edit w d b 2
          | .rename =>
              match b.target with
              | none => (w, bad)
              | some t =>
                if t = d then (w, { code := 200, newDagId := some t })
                else if (w.dags t).isSome then (w, err)      -- dag_store.Rename refuses an existing target (fix of F21)
                else ({ w with dags := upd (upd w.dags t (some sp)) d none
                               hist := upd (upd w.hist t (mergeRuns (w.hist d) (w.hist t))) d [] },
                      { code := 200, newDagId := some t })
          | .save => (w, err)      -- unreachable (handled above)
          | .unknown => (w, bad)

/-- not an API call: a run of DAG `d` comes alive (its socket answers with request id `q`) or goes away -/
def setLive (w : World) (d : Nat) (q : Option Nat) : World := { w with live := upd w.live d q }

end BdModel.Api
