import BdModel.Sched.Model
/-
  Agent layer over the fine system (agent.go: `Status`, and client.go: `GetLatestStatus` +
  model.Status.CorrectRunningStatus), after fix 8e42043 (F7).
  The agent persists `agentStatus` of the CURRENT scheduler state at: start-up (before `Schedule`),
  every `done` send, +100 ms, and after `Schedule` has returned; it answers the status socket with the
  same function. After the process is gone the client reports the last persisted status with
  `running` relabelled `failed`. Core-only.
-/
namespace BdModel.Sched

/-- `Agent.Status()`'s overall status. `started` = `graph.IsStarted()` (false only before `Schedule`
    begins); `graph.IsFinished()` = the loop has returned. -/
def agentStatus (c : Cfg) (started : Bool) (s : State) : SStatus :=
  if !started then .none
  else
    let o := reported c s
    if (o == .none || o == .success) && s.loop != .returned then .running else o

/-- the mapping of the pinned tree (before 8e42043): only `none` was lifted to `running` -/
def agentStatusPinned (c : Cfg) (started : Bool) (s : State) : SStatus :=
  if !started then .none
  else
    let o := overall c s
    if o == .none then .running else o

/-- `CorrectRunningStatus`: what the client makes of a persisted status when no process answers -/
def afterDeath : SStatus → SStatus
  | .running => .error
  | x => x

end BdModel.Sched
