import BdModel.Sched.Model
import BdModel.Canon.Sched
/-
  Interpreters that turn the decision tables extracted from the Go source into the model's
  decision functions, and the proofs that — for the canonical tables — they ARE the model's functions.
  Together with `Extracted.Sched.x = Canon.Sched.x` (checked by `decide` on every run) this ties
  `readyEffect`, `overall`, `handlerOf` to scheduler.go.
-/
namespace BdModel.Sched

def statusName : NStatus → String
  | .none => "None" | .running => "Running" | .error => "Error"
  | .cancel => "Cancel" | .success => "Success" | .skipped => "Skipped"

def statusOfName (s : String) : Option NStatus :=
  if s == "None" then some .none else if s == "Running" then some .running
  else if s == "Error" then some .error else if s == "Cancel" then some .cancel
  else if s == "Success" then some .success else if s == "Skipped" then some .skipped else none

/-- effect described by the columns (effect, label) of a row -/
def rowEffect (eff lab : String) : Option ReadyEffect :=
  if eff == "go" then some .go
  else if eff == "wait" then some .wait
  else if eff == "block" then (statusOfName lab).map .block
  else none

/-- interpretation of the extracted `isReady` switch: first row whose label is the status name
    (else the `default` row); a guarded row applies its effect only if the guard flag is off -/
def readyEffectOf (tbl : List (List String)) (st : NStatus) (cf cs : Bool) : Option ReadyEffect :=
  let row? := (tbl.find? (fun r => r.head? == some (statusName st))).orElse
              (fun _ => tbl.find? (fun r => r.head? == some "default"))
  match row? with
  | some [_, guard, eff, lab] =>
    if guard == "" then rowEffect eff lab
    else if guard == "Failure" then (if cf then some .go else rowEffect eff lab)
    else if guard == "Skipped" then (if cs then some .go else rowEffect eff lab)
    else none
  | _ => none

theorem readyEffectOf_canon (st : NStatus) (cf cs : Bool) :
    readyEffectOf Canon.Sched.isReadyTable st cf cs = some (readyEffect st cf cs) := by
  cases st <;> cases cf <;> cases cs <;> decide

/-- semantic reading of the condition strings of `Scheduler.Status` -/
def cascadeCond (c : Cfg) (s : State) (cond : String) : Option Bool :=
  if cond == "sc.isCanceled() && !sc.isSucceed(g)" then some (s.canceled && !allSucc c s)
  else if cond == "!g.IsStarted()" then some false     -- the graph is started in every model state
  else if cond == "g.IsRunning()" then some (anyRunning c s)
  else if cond == "sc.isError()" then some s.lastErr
  else if cond == "" then some true
  else none

def sstatusOfName (s : String) : Option SStatus :=
  if s == "StatusNone" then some .none else if s == "StatusRunning" then some .running
  else if s == "StatusError" then some .error else if s == "StatusCancel" then some .cancel
  else if s == "StatusSuccess" then some .success else none

/-- the first statement of `Status` since fix 6076232: the recorded outcome wins -/
def outcomeRow : String := "if outcome, ok := sc.getOutcome(); ok { return outcome }"

/-- the cascade proper (rows after the outcome row) -/
def cascadeOf (c : Cfg) (s : State) : List (List String) → Option SStatus
  | [] => none
  | [cond, res] :: rest =>
    match cascadeCond c s cond with
    | some true => sstatusOfName res
    | some false => cascadeOf c s rest
    | none => none
  | _ :: _ => none

/-- interpretation of the extracted `Status` table: an outcome row first, then the cascade -/
def overallOf (c : Cfg) (s : State) : List (List String) → Option SStatus
  | [cond, res] :: rest =>
    if cond == "?" && res == outcomeRow then
      (match s.atWait with
       | some o => some o
       | none => cascadeOf c s rest)
    else none
  | _ => none

theorem cascadeOf_canon (c : Cfg) (s : State) :
    cascadeOf c s (Canon.Sched.statusCascade.drop 1) = some (overall c s) := by
  simp only [Canon.Sched.statusCascade, List.drop, cascadeOf, cascadeCond, overall]
  cases hc : (s.canceled && !allSucc c s) <;> cases hr : anyRunning c s <;> cases he : s.lastErr <;>
    simp_all [sstatusOfName] <;> decide

theorem canon_head : Canon.Sched.statusCascade.head? = some ["?", outcomeRow] := by decide

theorem overallOf_canon (c : Cfg) (s : State) :
    overallOf c s Canon.Sched.statusCascade = some (reported c s) := by
  have hsplit : Canon.Sched.statusCascade = ["?", outcomeRow] :: Canon.Sched.statusCascade.drop 1 := by decide
  rw [hsplit]
  have hq : (("?" : String) == "?" && outcomeRow == outcomeRow) = true := by decide
  simp only [overallOf, hq, if_true, reported]
  cases ha : s.atWait with
  | some o => rfl
  | none => exact cascadeOf_canon c s

def handlerOfName (s : String) : Option (Option Handler) :=
  if s == "" then some none
  else if s == "handlers = append(handlers, dag.HandlerOnSuccess)" then some (some .onSuccess)
  else if s == "handlers = append(handlers, dag.HandlerOnFailure)" then some (some .onFailure)
  else if s == "handlers = append(handlers, dag.HandlerOnCancel)" then some (some .onCancel)
  else none

def sstatusName : SStatus → String
  | .none => "StatusNone" | .running => "StatusRunning" | .error => "StatusError"
  | .cancel => "StatusCancel" | .success => "StatusSuccess"

def handlerOfTable (tbl : List (List String)) (o : SStatus) : Option (Option Handler) :=
  match tbl.find? (fun r => r.head? == some (sstatusName o)) with
  | some [_, act] => handlerOfName act
  | _ => none

theorem handlerOfTable_canon (o : SStatus) :
    handlerOfTable Canon.Sched.handlerSwitch o = some (handlerOf o) := by
  cases o <;> decide

end BdModel.Sched
