import BdModel.Sched.Model
/-
  Vocabulary of the scheduler property theorems (C01–C05, C15). Definitions only.
-/
namespace BdModel.Sched

/-- dependency indices are in range -/
def WF (c : Cfg) : Prop := ∀ i, i < c.n → ∀ d ∈ (c.node i).deps, d < c.n

/-- no step has a repeatPolicy (the quantifiers of C01–C04, C15 do not range over it) -/
def NoRep (c : Cfg) : Prop := ∀ i, (c.node i).rep = false

/-- a topological rank exists (what `ExecutionGraph.setup` guarantees by C14) -/
def Ranked (c : Cfg) : Prop := ∃ rank : Nat → Nat, ∀ i, i < c.n → ∀ d ∈ (c.node i).deps, rank d < rank i

/-- worker pcs from which a command can still be started or is running / pending -/
def PC.active : PC → Bool
  | .setup | .check | .starting | .exec | .wErr | .wTimeout | .retrySleep => true
  | _ => false

/-- dependency `d` is in a state from which dependents may proceed -/
def Licensed (c : Cfg) (s : State) (d : Nat) : Prop :=
  (s.nd d).status = .success ∨ ((s.nd d).status = .error ∧ (c.node d).contFail = true) ∨
  ((s.nd d).status = .skipped ∧ (c.node d).contSkip = true)

/-- `d` blocks its dependents -/
def Blocker (c : Cfg) (s : State) (d : Nat) : Prop :=
  ((s.nd d).status = .error ∧ (c.node d).contFail = false) ∨ (s.nd d).status = .cancel ∨
  ((s.nd d).status = .skipped ∧ (c.node d).contSkip = false)

/-- no worker of `d` will ever start a command again / is running one -/
def Settled (s : State) (d : Nat) : Prop := (s.nd d).pc.active = false

def Terminal (st : NStatus) : Prop := st = .error ∨ st = .cancel ∨ st = .success ∨ st = .skipped

/-- number of workers that are before or in a command execution (incl. retry sleep) -/
def activeWorkers (c : Cfg) (s : State) : Nat :=
  (List.range c.n).countP (fun j => (s.nd j).pc.active)

/-- number of commands executing or waiting out a retry interval -/
def executing (c : Cfg) (s : State) : Nat :=
  (List.range c.n).countP (fun j => (s.nd j).pc == .exec || (s.nd j).pc == .retrySleep)

/-- the loop has left its scanning phase -/
def LoopDone (s : State) : Prop := s.loop = .waiting ∨ (∃ l, s.loop = .handlers l) ∨ s.loop = .returned

end BdModel.Sched
