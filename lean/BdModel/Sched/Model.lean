/-
  The *fine system*: a transition-system model of `internal/dag/scheduler/scheduler.go`
  (`Schedule`, worker goroutine, `isReady`, `Signal`, `Status`, handler selection) and of the
  status-relevant parts of `node.go` (`signal`, `setErr`, `setStatus`).
  Core-only: the same `step` is compiled into the driver and is the subject of the theorems.

  Granularity: one action = one mutex-protected access or one decision of one thread; see
  DESIGN.md Appendix A for the table action ↔ source lines.
-/
namespace BdModel.Sched

inductive NStatus | none | running | error | cancel | success | skipped
deriving DecidableEq, Repr, Inhabited

/-- program counter of the worker goroutine of a node -/
inductive PC
  | idle        -- no worker (never launched, or the previous worker has left after a retry)
  | setup       -- goroutine started, `setupNode` not yet returned
  | check       -- at the head of `for setupSucceed && !sc.isCanceled()`
  | starting    -- passed that test; `setupExec` (executor creation, `n.cmd = cmd`) not yet run
  | exec        -- command running
  | wErr        -- default branch chosen, `setStatus(error)` pending
  | wTimeout    -- timeout branch chosen, `setStatus(cancel)` pending
  | retrySleep  -- retry branch chosen (`retryCount` already incremented), sleeping
  | tail        -- after the loop: `if status == running { setStatus(executed ? success : cancel) }`
  | td          -- explicit `teardownNode` (flush/sync error ⇒ lastError, status := error), `done <- node`
  | deferred    -- remaining: deferred teardown (no-op), `finish`, `wg.Done`
  | gone
deriving DecidableEq, Repr, Inhabited

inductive Handler | onSuccess | onFailure | onCancel | onExit
deriving DecidableEq, Repr

/-- overall status (`scheduler.Status`) -/
inductive SStatus | none | running | error | cancel | success
deriving DecidableEq, Repr

structure NodeCfg where
  deps     : List Nat := []
  contFail : Bool := false
  contSkip : Bool := false
  limit    : Nat := 0          -- retryPolicy.limit (0 = no policy)
  hasPre   : Bool := false     -- step has preconditions
  rep      : Bool := false     -- repeatPolicy.repeat
  sigOnStop : Option Nat := none
deriving Repr, Inhabited

structure Cfg where
  n         : Nat
  node      : Nat → NodeCfg
  maxActive : Nat := 0
  dry       : Bool := false
  doneChan  : Bool := true     -- `done != nil` (agent path); the bare path is test-only
  hasTimeout : Bool := false
  tdFaults  : Bool := false    -- a log flush/sync error at teardown can occur (I/O fault)
  hSuccess  : Bool := false
  hFailure  : Bool := false
  hCancel   : Bool := false
  hExit     : Bool := false

structure NodeSt where
  status  : NStatus := .none
  retry   : Nat := 0
  doneCnt : Nat := 0
  pc      : PC := .idle
  zombies : Nat := 0      -- old workers of this node that only have their deferred part left
  cmd     : Bool := false -- `n.cmd != nil`
  ran     : Bool := false -- `executed`: the current worker has called execNode at least once
  -- ghost
  execs    : Nat := 0     -- number of command starts
  ranLast  : Bool := false -- the current attempt has been started and not been given up for a retry
  launches : Nat := 0     -- number of times the loop flipped the node to running
  preSkip  : Bool := false -- skipped by its own precondition
  setupFailed : Bool := false
  sigs     : List Nat := [] -- signals delivered to the current / last process
deriving Repr, Inhabited

inductive LoopPC
  | scanning
  | launching (i : Nat)           -- readiness, cancel flag and limit passed; preconditions being evaluated
  | waiting                       -- `wg.Wait()`
  | handlers (todo : List Handler)
  | returned
deriving DecidableEq, Repr

structure State where
  nd       : Nat → NodeSt
  canceled : Bool := false
  lastErr  : Bool := false
  timedOut : Bool := false
  loop     : LoopPC := .scanning
  -- ghost
  hlog     : List Handler := []          -- handlers run so far, in order
  hplan    : Option (List Handler) := none -- list computed after `wg.Wait()`
  atWait   : Option SStatus := none      -- overall status read after `wg.Wait()`
  execsAtWait : Nat := 0

inductive Act
  | visitDecide (i : Nat)
  | visitLaunch (i : Nat) (preOk : Bool)
  | loopExit
  | setupDone (i : Nat) (ok : Bool)
  | check (i : Nat)
  | execStart (i : Nat)
  | execEnd (i : Nat) (ok : Bool)
  | postWrite (i : Nat)
  | retryWake (i : Nat)
  | tail (i : Nat)
  | teardown (i : Nat) (tdOk : Bool)
  | deferred (i : Nat)
  | zombie (i : Nat)
  | setCanceled
  | signalNode (i : Nat) (sig : Nat) (ovr : Bool)
  | timeout
  | waitAll
  | handlerRun (ok : Bool)
  | finish
deriving DecidableEq, Repr

def updN (f : Nat → NodeSt) (i : Nat) (v : NodeSt) : Nat → NodeSt := fun j => if j = i then v else f j

def State.setNode (s : State) (i : Nat) (v : NodeSt) : State := { s with nd := updN s.nd i v }

def init (_c : Cfg) : State := { nd := fun _ => {} }

/-- start from a recorded status vector (retry): statuses and retry counts as given, no worker -/
def initFrom (st : Nat → NStatus) : State := { nd := fun i => { status := st i } }

/-! ### `isReady` (scheduler.go:360-389) as a fold over the dependency list -/

inductive ReadyEffect | go | wait | block (label : NStatus)
deriving DecidableEq, Repr

/-- effect of one dependency in status `st` with its continueOn flags -/
def readyEffect (st : NStatus) (contFail contSkip : Bool) : ReadyEffect :=
  match st with
  | .success => .go
  | .error   => if contFail then .go else .block .cancel
  | .skipped => if contSkip then .go else .block .skipped
  | .cancel  => .block .cancel
  | .none    => .wait
  | .running => .wait

/-- (ready, label to write) after walking the dependency list; the last blocker's label wins -/
def readyFold (c : Cfg) (s : State) : List Nat → Bool × Option NStatus → Bool × Option NStatus
  | [], acc => acc
  | d :: ds, (r, l) =>
    match readyEffect (s.nd d).status (c.node d).contFail (c.node d).contSkip with
    | .go => readyFold c s ds (r, l)
    | .wait => readyFold c s ds (false, l)
    | .block lab => readyFold c s ds (false, some lab)

def isReady (c : Cfg) (s : State) (i : Nat) : Bool × Option NStatus :=
  readyFold c s (c.node i).deps (true, none)

def runningCount (c : Cfg) (s : State) : Nat :=
  (List.range c.n).countP (fun j => (s.nd j).status == .running)

def isFinished (c : Cfg) (s : State) : Bool :=
  (List.range c.n).all (fun j => (s.nd j).status != .running && (s.nd j).status != .none)

def allSucc (c : Cfg) (s : State) : Bool :=
  (List.range c.n).all (fun j => (s.nd j).status == .success || (s.nd j).status == .skipped)

def anyRunning (c : Cfg) (s : State) : Bool :=
  (List.range c.n).any (fun j => (s.nd j).status == .running)

/-- `Scheduler.Status` (scheduler.go:323-337); the graph is started in every state of the model -/
def overall (c : Cfg) (s : State) : SStatus :=
  if s.canceled && !allSucc c s then .cancel
  else if anyRunning c s then .running
  else if s.lastErr then .error
  else .success

/-- what `Scheduler.Status` RETURNS (since fix 6076232, finding F44): once all steps have finished the
    outcome read at that moment (`atWait`) is recorded and reported from then on; before that the
    live cascade `overall` -/
def reported (c : Cfg) (s : State) : SStatus :=
  match s.atWait with
  | some o => o
  | none => overall c s

def handlerOf : SStatus → Option Handler
  | .success => some .onSuccess
  | .error   => some .onFailure
  | .cancel  => some .onCancel
  | .none    => none
  | .running => none

def configured (c : Cfg) : Handler → Bool
  | .onSuccess => c.hSuccess
  | .onFailure => c.hFailure
  | .onCancel  => c.hCancel
  | .onExit    => c.hExit

/-- handler list of scheduler.go:230-241, filtered by `sc.handlers[h] != nil` -/
def handlerPlan (c : Cfg) (o : SStatus) : List Handler :=
  ((handlerOf o).toList ++ [Handler.onExit]).filter (configured c)

/-- the part of the worker after the error switch (scheduler.go:195-210), given the attempt's result -/
def afterExec (c : Cfg) (s : State) (i : Nat) (ok : Bool) : State :=
  let nd := s.nd i
  let nd := if nd.status != .cancel then { nd with doneCnt := nd.doneCnt + 1 } else nd
  let k := c.node i
  if k.rep && (ok || k.contFail) && !s.canceled then
    s.setNode i { nd with pc := .check }
  else if !ok && c.doneChan then
    s.setNode i { nd with pc := .deferred }
  else
    s.setNode i { nd with pc := .tail }

def workersDone (c : Cfg) (s : State) : Bool :=
  (List.range c.n).all (fun j => ((s.nd j).pc == .idle || (s.nd j).pc == .gone) && (s.nd j).zombies == 0)

def totalExecs (c : Cfg) (s : State) : Nat :=
  ((List.range c.n).map (fun j => (s.nd j).execs)).sum

/-- one transition; `none` = the action is not enabled -/
def step (c : Cfg) (s : State) : Act → Option State
  | .visitDecide i =>
    if s.loop = .scanning ∧ i < c.n then
      if (s.nd i).status ≠ .none then some s
      else
        let (ready, lab) := isReady c s i
        let s1 := match lab with
          | some l => s.setNode i { s.nd i with status := l }
          | none => s
        if !ready then some s1
        else if s.canceled then some s1
        else if c.maxActive > 0 ∧ runningCount c s ≥ c.maxActive then some s1
        else some { s1 with loop := .launching i }
    else none
  | .visitLaunch i preOk =>
    -- `preOk` = "dag.EvalConditions(node.data.Step.Preconditions) returned nil". EvalConditions returns the first
    -- error of evalCondition, which has two sources: the value differs from `expected` (errConditionNotMet) and
    -- the condition could not be evaluated at all - `Condition.eval` failed, i.e. a command substitution in it
    -- exited non-zero or could not be started (errEvalCondition). Schedule tests `err != nil` only, so an
    -- unevaluable precondition is the same transition as an unmet one: the step is labelled skipped, no worker is
    -- started and lastError is NOT set (the run's outcome is unaffected). The sentinels are unexported: no caller
    -- can tell them apart. (tie: h_sched_Schedule / scheduleIfConds; internal/dag/condition.go)
    if s.loop = .launching i then
      if (c.node i).hasPre ∧ preOk = false then
        some { (s.setNode i { s.nd i with status := .skipped, preSkip := true }) with loop := .scanning }
      else
        some { (s.setNode i { s.nd i with status := .running, pc := .setup, ran := false,
                                           launches := (s.nd i).launches + 1 }) with loop := .scanning }
    else none
  | .loopExit =>
    if s.loop = .scanning ∧ (isFinished c s ∨ s.canceled) then some { s with loop := .waiting } else none
  | .setupDone i ok =>
    if (s.nd i).pc = .setup then
      if c.dry ∨ ok then some (s.setNode i { s.nd i with pc := .check })
      else some { (s.setNode i { s.nd i with pc := .tail, status := .error, setupFailed := true }) with lastErr := true }
    else none
  | .check i =>
    if (s.nd i).pc = .check then
      if s.canceled then some (s.setNode i { s.nd i with pc := .tail })
      else some (s.setNode i { s.nd i with pc := .starting })
    else none
  | .execStart i =>
    if (s.nd i).pc = .starting then
      if c.dry then some (s.setNode i { s.nd i with pc := .exec, ran := true })
      else some (s.setNode i { s.nd i with pc := .exec, ran := true, cmd := true, execs := (s.nd i).execs + 1,
                                            ranLast := true, sigs := [] })
    else none
  | .execEnd i ok =>
    if (s.nd i).pc = .exec then
      if c.dry ∨ ok then some (afterExec c s i true)
      else
        let nd := s.nd i
        if nd.status = .success ∨ nd.status = .cancel then some (afterExec c s i false)
        else if s.timedOut then some (s.setNode i { nd with pc := .wTimeout })
        else if s.canceled then
          some (afterExec c { (s.setNode i { nd with status := .cancel }) with lastErr := true } i false)
        else if (c.node i).limit > nd.retry then
          some (s.setNode i { nd with retry := nd.retry + 1, ranLast := false, pc := .retrySleep })
        else some (s.setNode i { nd with pc := .wErr })
    else none
  | .postWrite i =>
    if (s.nd i).pc = .wErr then
      some (afterExec c { (s.setNode i { s.nd i with status := .error }) with lastErr := true } i false)
    else if (s.nd i).pc = .wTimeout then
      some (afterExec c { (s.setNode i { s.nd i with status := .cancel }) with lastErr := true } i false)
    else none
  | .retryWake i =>
    if (s.nd i).pc = .retrySleep then
      let s1 := afterExec c (s.setNode i { s.nd i with status := .none }) i false
      if (s1.nd i).pc = .check then some s1   -- repeat ∧ continueOn.failure: the old worker goes on (status none)
      else some (s1.setNode i { s1.nd i with pc := .idle, zombies := (s1.nd i).zombies + 1 })
    else none
  | .tail i =>
    if (s.nd i).pc = .tail then
      let nd := s.nd i
      let nd := if nd.status = .running then
                  { nd with status := if nd.ran then .success else .cancel }  -- never executed ⇒ canceled
                else nd
      some (s.setNode i { nd with pc := .td })
    else none
  | .teardown i tdOk =>
    if (s.nd i).pc = .td then
      if c.dry ∨ tdOk ∨ c.tdFaults = false then some (s.setNode i { s.nd i with pc := .deferred })
      else some { (s.setNode i { s.nd i with pc := .deferred, status := .error }) with lastErr := true }
    else none
  | .deferred i =>
    if (s.nd i).pc = .deferred then some (s.setNode i { s.nd i with pc := .gone }) else none
  | .zombie i =>
    if (s.nd i).zombies > 0 then some (s.setNode i { s.nd i with zombies := (s.nd i).zombies - 1 }) else none
  | .setCanceled => some { s with canceled := true }
  | .signalNode i sig ovr =>
    -- `Signal` skips repeating steps except for the final SIGKILL
    if s.canceled ∧ ((c.node i).rep = false ∨ sig = 9) then
      let nd := s.nd i
      let eff := match ovr, (c.node i).sigOnStop with
        | true, some g => g
        | _, _ => sig
      -- forwarded while the command is running (`n.cmdRunning && n.cmd != nil`), whatever the label
      let nd := if nd.cmd ∧ nd.pc = .exec then { nd with sigs := nd.sigs ++ [eff] } else nd
      if nd.status = .running then some (s.setNode i { nd with status := .cancel })
      else some (s.setNode i nd)
    else none
  | .timeout => if c.hasTimeout then some { s with timedOut := true } else none
  | .waitAll =>
    if s.loop = .waiting ∧ workersDone c s then
      let o := overall c s
      some { s with loop := .handlers (handlerPlan c o), hplan := some (handlerPlan c o), atWait := some o,
                    execsAtWait := totalExecs c s }
    else none
  | .handlerRun _ok =>
    match s.loop with
    | .handlers (h :: rest) => some { s with loop := .handlers rest, hlog := s.hlog ++ [h] }
    | _ => none
  | .finish =>
    match s.loop with
    | .handlers [] => some { s with loop := .returned }
    | _ => none

def runActs (c : Cfg) (s : State) : List Act → Option State
  | [] => some s
  | a :: as => match step c s a with
    | some s' => runActs c s' as
    | none => none

/-- every state some interleaving of the threads can reach -/
inductive Reach (c : Cfg) : State → Prop
  | init : Reach c (init c)
  | step {s s' : State} (a : Act) : Reach c s → step c s a = some s' → Reach c s'

/-- reachable from a recorded status vector (retry runs) -/
inductive ReachFrom (c : Cfg) (s0 : State) : State → Prop
  | init : ReachFrom c s0 s0
  | step {s s' : State} (a : Act) : ReachFrom c s0 s → step c s a = some s' → ReachFrom c s0 s'

end BdModel.Sched
