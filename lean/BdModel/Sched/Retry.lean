import BdModel.Sched.Cycle
import BdModel.Sched.Model
/-
  Model of `ExecutionGraph.setupRetry` (graph.go:178-210): level-by-level walk from the steps without
  dependencies; a step is cleared when it is reached with its retry mark set or with a recorded status
  in the reset set; the mark is propagated to every successor; successors are appended to the next
  frontier with multiplicity (no visited set). Core-only.
-/
namespace BdModel.Retry
open BdModel.Cycle BdModel.Sched

def updB (f : Nat → Bool) (i : Nat) (v : Bool) : Nat → Bool := fun j => if j = i then v else f j

structure Marks where
  retry   : Nat → Bool := fun _ => false
  cleared : Nat → Bool := fun _ => false

/-- inner `for _, v := range g.from[u]` -/
def propagate (u : Nat) : List Nat → Marks × List Nat → Marks × List Nat
  | [], acc => acc
  | v :: vs, (m, next) =>
    let m' := if m.retry u then { m with retry := updB m.retry v true } else m
    propagate u vs (m', next ++ [v])

/-- body of `for _, u := range frontier` -/
def processNode (es : List (Nat × Nat)) (st : Nat → NStatus) (R : NStatus → Bool)
    (acc : Marks × List Nat) (u : Nat) : Marks × List Nat :=
  let (m, next) := acc
  let m := if m.retry u || R (st u) then { retry := updB m.retry u true, cleared := updB m.cleared u true } else m
  propagate u (succs es u) (m, next)

def level (es : List (Nat × Nat)) (st : Nat → NStatus) (R : NStatus → Bool) (m : Marks) (frontier : List Nat) :
    Marks × List Nat :=
  frontier.foldl (processNode es st R) (m, [])

/-- `for len(frontier) > 0`, with fuel (sufficient: `n + 1` for an acyclic graph on n nodes) -/
def loop (es : List (Nat × Nat)) (st : Nat → NStatus) (R : NStatus → Bool) : Nat → Marks → List Nat → Marks × List Nat
  | 0, m, fr => (m, fr)
  | _ + 1, m, [] => (m, [])
  | fuel + 1, m, fr =>
    let (m', next) := level es st R m fr
    loop es st R fuel m' next

/-- steps with `len(Depends) == 0`, in node order -/
def sources (n : Nat) (es : List (Nat × Nat)) : List Nat := (List.range n).filter (fun v => indeg es v == 0)

def setupRetry (n : Nat) (es : List (Nat × Nat)) (st : Nat → NStatus) (R : NStatus → Bool) : Marks × List Nat :=
  loop es st R (n + 1) {} (sources n es)

/-- the status vector the retry run starts from: cleared steps are `none` again -/
def statusAfter (n : Nat) (es : List (Nat × Nat)) (st : Nat → NStatus) (R : NStatus → Bool) : Nat → NStatus :=
  fun v => if (setupRetry n es st R).1.cleared v then .none else st v

/-- the reset set of the code: `dict[u] == NodeStatusError || dict[u] == NodeStatusCancel ||
    dict[u] == NodeStatusRunning || dict[u] == NodeStatusNone` (`running` since fix 5b4cd49, finding
    F11; `none` since fix 58ed5db, finding F45) -/
def resetSet : NStatus → Bool
  | .error => true
  | .cancel => true
  | .running => true
  | .none => true
  | _ => false

/-- the reset set before fix 58ed5db (F45): a step recorded `not started` kept its recorded counters -/
def resetSetF45 : NStatus → Bool
  | .error => true
  | .cancel => true
  | .running => true
  | _ => false

/-- the reset set of the pinned tree (before the fix): a recorded `running` step was kept -/
def resetSetPinned : NStatus → Bool
  | .error => true
  | .cancel => true
  | _ => false

/-- recorded state of the retried run → state the retry run starts from: cleared steps start from
    scratch (`clearState` zeroes status, retry count and done count), the others keep their record -/
def initRetry (n : Nat) (es : List (Nat × Nat)) (st : Nat → NStatus) (rc dc : Nat → Nat) (R : NStatus → Bool) : State :=
  let cl := (setupRetry n es st R).1.cleared
  { nd := fun i => if i < n then (if cl i then {} else { status := st i, retry := rc i, doneCnt := dc i }) else {} }

end BdModel.Retry
