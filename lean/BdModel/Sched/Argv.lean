/-
  Command line of the attempts of one step (node.go: `setupExec`, after fix d91a64b).
  A step is given either in string form (`CmdWithArgs`, split again at every attempt) or as an
  argument list (`Command`/`Args`); with `script:` every attempt writes a fresh temporary script
  file whose path is the last argument of THAT attempt. `persisted` is `n.data.Step.Args`, the
  arguments kept in the node between attempts. Core-only.
-/
namespace BdModel.Argv

structure StepCmd where
  cmd      : Nat
  args     : List Nat            -- arguments of the definition
  strForm  : Bool                -- given as one string: split again at every attempt
  script   : Bool

/-- one attempt with script file `sf` (fixed code): the executor gets a COPY of the step with the
    script appended; the node keeps what it had (string form: the freshly split arguments) -/
def attempt (s : StepCmd) (persisted : List Nat) (sf : Nat) : List Nat × List Nat :=
  let base := if s.strForm then s.args else persisted
  (base, s.cmd :: (if s.script then base ++ [sf] else base))

/-- the pinned tree appended the script path to the node's own arguments -/
def attemptPinned (s : StepCmd) (persisted : List Nat) (sf : Nat) : List Nat × List Nat :=
  let base := if s.strForm then s.args else persisted
  let a := if s.script then base ++ [sf] else base
  (a, s.cmd :: a)

/-- command lines of successive attempts with script files `sfs` -/
def runs (att : StepCmd → List Nat → Nat → List Nat × List Nat) (s : StepCmd) : List Nat → List Nat → List (List Nat)
  | _, [] => []
  | persisted, sf :: rest =>
    let (p', argv) := att s persisted sf
    argv :: runs att s p' rest

end BdModel.Argv
