/-
  Model of `internal/dag/scheduler/graph.go`: `setup`, `findStep`, `addEdge`, `hasCycle`.
  Core-only (linked into the driver).

  Go code modelled (graph.go:212-278):
    setup:    for every node, for every dep name: findStep(dep) (error if absent), addEdge(dep, node);
              then `if hasCycle() -> errCycleDetected`.
    hasCycle: inDegrees[v] = len(to[v]); queue seeded in node order with in-degree-0 nodes;
              pop front, for every successor (in `from[f]` order, with multiplicity): deg--, `== 0` => push back;
              finally: some degree `> 0` => cycle.
-/
namespace BdModel.Cycle

/-- point update of a function -/
def upd (f : Nat → Nat) (i v : Nat) : Nat → Nat := fun j => if j = i then v else f j

/-- in-degree = `len(g.to[v])`: number of edges (with multiplicity) ending in `v` -/
def indeg (es : List (Nat × Nat)) (v : Nat) : Nat := es.countP (fun e => e.2 == v)

/-- `g.from[u]` in `addEdge` order, with multiplicity -/
def succs (es : List (Nat × Nat)) (u : Nat) : List Nat := (es.filter (fun e => e.1 == u)).map (·.2)

/-- inner loop of `hasCycle`: `inDegrees[to]--; if inDegrees[to] == 0 { q = append(q, to) }` -/
def relax (deg : Nat → Nat) (q : List Nat) : List Nat → (Nat → Nat) × List Nat
  | [] => (deg, q)
  | t :: ts =>
    let deg' := upd deg t (deg t - 1)
    relax deg' (if deg' t = 0 then q ++ [t] else q) ts

/-- outer loop `for len(q) > 0`, with fuel (shown sufficient in the proofs: `fuel = n + 1`).
    Returns the final degrees and whatever is left of the queue. -/
def kahn (es : List (Nat × Nat)) : Nat → (Nat → Nat) → List Nat → (Nat → Nat) × List Nat
  | 0, deg, q => (deg, q)
  | _ + 1, deg, [] => (deg, [])
  | fuel + 1, deg, f :: q =>
    let (deg', q') := relax deg q (succs es f)
    kahn es fuel deg' q'

/-- seeding of the queue in node order: `if inDegrees[node.id] != 0 { continue }` -/
def seed (n : Nat) (es : List (Nat × Nat)) : List Nat :=
  (List.range n).filter (fun v => indeg es v == 0)

/-- final scan: `degree > 0` for some node -/
def hasCycle (n : Nat) (es : List (Nat × Nat)) : Bool :=
  let r := kahn es (n + 1) (indeg es) (seed n es)
  (List.range n).any (fun v => decide (0 < r.1 v))

/-- did the fuel suffice, i.e. is the queue empty at the end (proved to be always true) -/
def queueDrained (n : Nat) (es : List (Nat × Nat)) : Bool :=
  (kahn es (n + 1) (indeg es) (seed n es)).2.isEmpty

/-! ### name resolution -/

structure Step (α : Type) where
  name : α
  depends : List α
deriving Repr

/-- `findStep` on distinct names: index of the step with that name -/
def findStep {α} [DecidableEq α] (steps : List (Step α)) (d : α) : Option Nat :=
  steps.findIdx? (fun s => decide (s.name = d))

/-- (dependency name, dependent index) in the order `setup` walks them -/
def depPairs {α} (steps : List (Step α)) : List (α × Nat) :=
  steps.zipIdx.flatMap (fun p => p.1.depends.map (fun d => (d, p.2)))

/-- all edges `(from, to)` in `addEdge` order, or `none` if some dependency name does not resolve -/
def edgesOf {α} [DecidableEq α] (steps : List (Step α)) : Option (List (Nat × Nat)) :=
  (depPairs steps).mapM (fun p => (findStep steps p.1).map (fun j => (j, p.2)))

inductive Verdict | ok | notFound | cycle
deriving DecidableEq, Repr

/-- `ExecutionGraph.setup` -/
def setupGraph {α} [DecidableEq α] (steps : List (Step α)) : Verdict :=
  match edgesOf steps with
  | none => .notFound
  | some es => if hasCycle steps.length es then .cycle else .ok

def accept {α} [DecidableEq α] (steps : List (Step α)) : Bool := setupGraph steps == .ok

/-- the dependency relation between step indices: `j` is named in `depends` of step `i` -/
def DependsOn {α} (steps : List (Step α)) (j i : Nat) : Prop :=
  ∃ s t, steps[i]? = some s ∧ steps[j]? = some t ∧ t.name ∈ s.depends

end BdModel.Cycle
