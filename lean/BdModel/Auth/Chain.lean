import BdModel.Auth.Base64
/-
  Model of the auth middleware chain (internal/frontend/middleware): wrap order
  prefixChecker → BasicAuth (if configured; skipped for `Bearer …` headers when a token is
  configured) → TokenAuth (if configured; skipped when basic auth succeeded) → API.
  Strings are byte lists. Core-only.
-/
namespace BdModel.Auth

structure Cfg where
  basic : Option (Bytes × Bytes) := none   -- (username, password)
  token : Option Bytes := none
  basePath : Bytes := []

inductive Decision | api | default | unauthorized | redirect | notFound
deriving DecidableEq, Repr

/-- `strings.Split(s, " ")` -/
def splitSpace : Bytes → List Bytes
  | [] => [[]]
  | ch :: rest =>
    if ch = 32 then [] :: splitSpace rest
    else match splitSpace rest with
      | [] => [[ch]]           -- unreachable: splitSpace is never empty
      | f :: fs => (ch :: f) :: fs

def lower (ch : Nat) : Nat := if 65 ≤ ch ∧ ch ≤ 90 then ch + 32 else ch

def isPrefixOf (p s : Bytes) : Bool := s.take p.length == p

def basicPrefix : Bytes := [66, 97, 115, 105, 99, 32]      -- "Basic "
def bearer : Bytes := [66, 101, 97, 114, 101, 114]         -- "Bearer"
def apiPrefix : Bytes := [47, 97, 112, 105]                -- "/api"

/-- `strings.Cut(s, ":")` -/
def cutColon : Bytes → Option (Bytes × Bytes)
  | [] => none
  | ch :: rest =>
    if ch = 58 then some ([], rest)
    else (cutColon rest).map (fun (u, p) => (ch :: u, p))

/-- `net/http.parseBasicAuth`: case-insensitive `Basic ` prefix, base64 decode, cut at the first colon -/
def parseBasic (hdr : Bytes) : Option (Bytes × Bytes) :=
  if hdr.length < 6 then none
  else if (hdr.take 6).map lower != basicPrefix.map lower then none
  else match decode (hdr.drop 6) with
    | none => none
    | some bs => cutColon bs

/-- TokenAuth, `authed` = the request was marked authenticated by BasicAuth -/
def tokenStage (cfg : Cfg) (fields : List Bytes) (authed : Bool) : Decision :=
  match cfg.token with
  | none => .api
  | some t =>
    if authed then .api
    else match fields with
      | _ :: f1 :: _ => if f1 = [] then .unauthorized else if f1 = t then .api else .unauthorized
      | _ => .unauthorized

def authChain (cfg : Cfg) (hdr : Bytes) : Decision :=
  let fields := splitSpace hdr
  match cfg.basic with
  | none => tokenStage cfg fields false
  | some (u, p) =>
    if cfg.token.isSome ∧ fields.length ≥ 2 ∧ fields.head? = some bearer then tokenStage cfg fields false
    else match parseBasic hdr with
      | none => .unauthorized
      | some (u', p') => if u' = u ∧ p' = p then tokenStage cfg fields true else .unauthorized

/-- `prefixChecker` + `http.StripPrefix(basePath, …)`; `path` is the URL path (`r.URL.Path`: percent-decoded, NOT
    cleaned — net/http without a ServeMux hands dot segments and doubled slashes through as sent). The path is part of
    the model's request only here: it selects API side / UI side by the literal prefix `/api`; `authChain` does not take
    it (`C17_path_blind`). What the go-openapi router behind the chain does with the path is outside the model and is
    covered by the real-server path stream of the check. -/
def decide (cfg : Cfg) (path hdr : Bytes) : Decision :=
  if cfg.basePath ≠ [] ∧ path = [47] then .redirect
  else
    let stripped : Option Bytes :=
      if cfg.basePath = [] then some path
      else if isPrefixOf cfg.basePath path then some (path.drop cfg.basePath.length) else none
    match stripped with
    | none => .notFound
    | some p => if isPrefixOf apiPrefix p then authChain cfg hdr else .default

/-- second space-separated field of the header, if any -/
def field1 (hdr : Bytes) : Option Bytes :=
  match splitSpace hdr with
  | _ :: f1 :: _ => some f1
  | _ => none

end BdModel.Auth
