/-
  Standard base64 (RFC 4648, alphabet A–Z a–z 0–9 + /, '=' padding) over bytes modelled as `Nat`s,
  as used by `net/http`'s `Request.BasicAuth` (`base64.StdEncoding.DecodeString`, non-strict:
  CR and LF are skipped, padding is required, trailing bits are not checked). Core-only.
-/
namespace BdModel.Auth

abbrev Bytes := List Nat      -- each element < 256 for well-formed strings

/-- sextet → alphabet character code -/
def b64char (v : Nat) : Nat :=
  if v < 26 then 65 + v            -- 'A'..'Z'
  else if v < 52 then 97 + (v - 26) -- 'a'..'z'
  else if v < 62 then 48 + (v - 52) -- '0'..'9'
  else if v = 62 then 43            -- '+'
  else 47                           -- '/'

/-- alphabet character code → sextet -/
def b64val (ch : Nat) : Option Nat :=
  if 65 ≤ ch ∧ ch ≤ 90 then some (ch - 65)
  else if 97 ≤ ch ∧ ch ≤ 122 then some (ch - 97 + 26)
  else if 48 ≤ ch ∧ ch ≤ 57 then some (ch - 48 + 52)
  else if ch = 43 then some 62
  else if ch = 47 then some 63
  else none

def pad : Nat := 61   -- '='

def encode : Bytes → Bytes
  | [] => []
  | [a] => [b64char (a / 4), b64char ((a % 4) * 16), pad, pad]
  | [a, b] => [b64char (a / 4), b64char ((a % 4) * 16 + b / 16), b64char ((b % 16) * 4), pad]
  | a :: b :: c :: rest =>
    b64char (a / 4) :: b64char ((a % 4) * 16 + b / 16) :: b64char ((b % 16) * 4 + c / 64) :: b64char (c % 64) ::
      encode rest

/-- decode a string from which CR/LF have been removed -/
def decodeClean : Bytes → Option Bytes
  | [] => some []
  | [c0, c1, c2, c3] =>
    match b64val c0, b64val c1 with
    | some v0, some v1 =>
      if c2 = pad ∧ c3 = pad then some [(v0 * 4 + v1 / 16) % 256]
      else match b64val c2 with
        | some v2 =>
          if c3 = pad then some [(v0 * 4 + v1 / 16) % 256, ((v1 % 16) * 16 + v2 / 4) % 256]
          else match b64val c3 with
            | some v3 => some [(v0 * 4 + v1 / 16) % 256, ((v1 % 16) * 16 + v2 / 4) % 256, ((v2 % 4) * 64 + v3) % 256]
            | none => none
        | none => none
    | _, _ => none
  | c0 :: c1 :: c2 :: c3 :: rest =>
    match b64val c0, b64val c1, b64val c2, b64val c3 with
    | some v0, some v1, some v2, some v3 =>
      (decodeClean rest).map (fun t =>
        (v0 * 4 + v1 / 16) % 256 :: ((v1 % 16) * 16 + v2 / 4) % 256 :: ((v2 % 4) * 64 + v3) % 256 :: t)
    | _, _, _, _ => none
  | _ => none

def decode (s : Bytes) : Option Bytes := decodeClean (s.filter (fun ch => ch != 13 && ch != 10))

end BdModel.Auth
