import BdModel.Canon.Load
/-
  C19 — side effects of loading. The model is an INTERPRETER of the effect-site table that the extractor
  regenerates from internal/dag/{builder,parser,loader}.go on every run (tie: Extracted.Load.* = Canon.Load.*):

    effectSites   [func, callee, idx, kind, needNoEval, needMetadataOnly]
    callEdges     [caller, callee, needNoEval, needMetadataOnly]
    builderFields [builder step function, definition field it reads]
    entryOpts     [entry point, metadataOnly, noEval]

  An effect (exec / setenv) is reachable from an entry point for a definition field iff a builder step that
  reads the field is run by `build` under the entry's options and a chain of calls whose guards hold under
  those options leads to the site, whose own guard holds too.

  History: on the tree before 37ddbbb / e8e8d59 this table had `buildLogDir → substituteCommands` and the
  `os.Setenv($n)` of parseParams without a `noEval` guard, and `C19_full` was refuted (F23, F24); both are
  guarded now and `C19_full` is proved by `decide` over the regenerated table.
-/
namespace BdModel.Load.Effects

structure Tables where
  sites : List (List String)
  edges : List (List String)
  fields : List (List String)
  entries : List (List String)

def canon : Tables :=
  { sites := Canon.Load.effectSites, edges := Canon.Load.callEdges,
    fields := Canon.Load.builderFields, entries := Canon.Load.entryOpts }

structure EOpts where
  noEval : Bool
  metadataOnly : Bool
deriving DecidableEq, Repr

def col (r : List String) (i : Nat) : String := r.getD i ""

/-- guard column: "T" needs the option set, "F" needs it unset, anything else: no constraint -/
def holds (g : String) (v : Bool) : Bool := if g == "T" then v else if g == "F" then !v else true

def optsOf (T : Tables) (entry : String) : Option EOpts :=
  (T.entries.find? (fun r => col r 0 == entry)).map (fun r => { noEval := col r 2 == "true", metadataOnly := col r 1 == "true" })

def edgeOk (o : EOpts) (r : List String) : Bool := holds (col r 2) o.noEval && holds (col r 3) o.metadataOnly

def addNew (acc : List String) : List String → List String
  | [] => acc
  | x :: xs => if acc.contains x then addNew acc xs else addNew (acc ++ [x]) xs

/-- one round: callees of the functions reached so far, over edges whose guard holds -/
def stepFns (T : Tables) (o : EOpts) (fs : List String) : List String :=
  addNew fs ((T.edges.filter (fun r => edgeOk o r && fs.contains (col r 0))).map (fun r => col r 1))

def closure (T : Tables) (o : EOpts) : Nat → List String → List String
  | 0, fs => fs
  | n + 1, fs =>
    let fs' := stepFns T o fs
    if fs'.length == fs.length then fs else closure T o n fs'   -- nothing new: fix-point

/-- functions reachable from `start` (fuel = number of edges: every round adds a function or is a fix-point) -/
def reachFns (T : Tables) (o : EOpts) (start : List String) : List String := closure T o T.edges.length start

structure Effect where
  fn : String
  callee : String
  idx : String
deriving DecidableEq, Repr

def isEffectRow (r : List String) : Bool := col r 3 == "exec" || col r 3 == "setenv"

/-- builder steps that read the field and that `build` runs under the options -/
def builders (T : Tables) (o : EOpts) (field : String) : List String :=
  ((T.fields.filter (fun r => col r 1 == field && col r 0 != "build")).map (fun r => col r 0)).filter
    (fun b => T.edges.any (fun e => col e 0 == "build" && col e 1 == b && edgeOk o e))

def reachO (T : Tables) (o : EOpts) (field : String) : List Effect :=
  let fns := reachFns T o (builders T o field)
  (T.sites.filter (fun r => isEffectRow r && fns.contains (col r 0) && holds (col r 4) o.noEval && holds (col r 5) o.metadataOnly)).map
    (fun r => { fn := col r 0, callee := col r 1, idx := col r 2 })

/-- effects reachable from an entry point through a definition field -/
def reach (T : Tables) (entry field : String) : List Effect :=
  match optsOf T entry with
  | some o => if (reachFns T o [entry]).contains "build" then reachO T o field else []
  | none => []

/-- the definition fields some builder step reads -/
def mentioned (T : Tables) : List String := addNew [] (T.fields.map (fun r => col r 1))

def nonEvaluatingEntries : List String := ["LoadYAML", "LoadMetadata", "LoadWithoutEval"]

end BdModel.Load.Effects
