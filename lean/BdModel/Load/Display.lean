import BdModel.Load.Effects
/-
  C19 — the DISPLAY path. A definition is not only loaded: it is shown. The code between "the loader returned" and "the
  API answered" — the client's status / list / search / save calls, the placeholder status
  `model.NewStatusDefault → NewStatus → FromSteps / nodeOrNil → NewNode` that `client.GetLatestStatus` / `GetCurrentStatus`
  build for a DAG with no recorded status and no live agent, the local DAG store, the API handlers and their converters — is
  read by the extractor into a second effect table (tie: Extracted.Load.display* = Canon.Load.display*):

    displayFuncs       ["pkg.func"]                  every function of client.go, model/{node,status}.go,
                                                     local/{dag_store,flag_store}.go, frontend/dag/{handler,convert}.go
    displaySites       [func, callee, idx, kind]     calls of exec.Command / os.Setenv / util.SplitCommandWithParse / …
    displayEdges       [caller, callee]              calls between those functions (methods resolved BY NAME: over-approximation)
    displayLoaderCalls [func, loader function]       where the display path enters internal/dag's loader

  The model is the SAME interpreter as for the loader table (`Effects.reachFns`: closure over the call edges; the display
  edges carry no option guard), so "a display entry reaches an effect" is a fact of the regenerated table.
-/
namespace BdModel.Load.Display
open BdModel.Load.Effects

structure DTables where
  funcs : List (List String)
  sites : List (List String)
  edges : List (List String)
  loaders : List (List String)

def canonD : DTables :=
  { funcs := Canon.Load.displayFuncs, sites := Canon.Load.displaySites,
    edges := Canon.Load.displayEdges, loaders := Canon.Load.displayLoaderCalls }

/-- the display tables as an (unguarded) `Effects.Tables`: the guard columns are absent, and an absent guard holds -/
def asTables (D : DTables) : Tables := { sites := D.sites, edges := D.edges, fields := [], entries := [] }

def noOpts : EOpts := { noEval := true, metadataOnly := false }

/-- functions of the display files reachable from `entry` -/
def fnsFrom (D : DTables) (entry : String) : List String := reachFns (asTables D) noOpts [entry]

/-- effect sites (exec / setenv) in the display files reachable from `entry` -/
def effectsFrom (D : DTables) (entry : String) : List Effect :=
  let fns := fnsFrom D entry
  (D.sites.filter (fun r => isEffectRow r && fns.contains (col r 0))).map
    (fun r => { fn := col r 0, callee := col r 1, idx := col r 2 })

/-- loader functions of internal/dag entered from `entry` -/
def loadersFrom (D : DTables) (entry : String) : List String :=
  let fns := fnsFrom D entry
  addNew [] ((D.loaders.filter (fun r => fns.contains (col r 0))).map (fun r => col r 1))

def isFunc (D : DTables) (f : String) : Bool := D.funcs.any (fun r => col r 0 == f)

/-- The entry points that list, display, search, validate-on-save or act on a DAG WITHOUT starting it: the API handlers
    (list, DAG page with all tabs, search, tags, delete, create) and every client call behind them and behind the POST actions
    save / suspend / stop / mark-success / mark-failed / rename (each of which reads the status first). -/
def displayEntries : List String :=
  ["fdag.getList", "fdag.getDetail", "fdag.searchDAGs", "fdag.getTagList", "fdag.deleteDAG", "fdag.createDAG",
   "fdag.processUpdateStatus",
   "client.GetStatus", "client.GetAllStatus", "client.GetAllStatusPagination", "client.GetLatestStatus",
   "client.GetCurrentStatus", "client.GetStatusByRequestID", "client.GetRecentHistory", "client.GetDAGSpec",
   "client.Grep", "client.GetTagList", "client.UpdateDAG", "client.UpdateStatus", "client.ToggleSuspend",
   "client.IsSuspended", "client.Rename", "client.DeleteDAG", "client.CreateDAG", "client.Stop",
   "model.NewStatusDefault", "model.NewStatus", "model.FromSteps", "model.NewNode"]

/-- the entry points that START a run (positive control: the table does contain effect sites) -/
def startEntries : List String := ["client.Start", "client.StartAsync", "client.Restart", "client.Retry"]

/-- one more call edge / one more effect site (what a change of the display code adds to the table) -/
def addEdge (D : DTables) (e : List String) : DTables := { D with edges := D.edges ++ [e] }
def addSite (D : DTables) (s : List String) : DTables := { D with sites := D.sites ++ [s] }

/-- seeded mutant C19-5: `NewNode` re-splits a quoted command line with the runner's splitter -/
def seedC19_5 : DTables :=
  addSite (addEdge canonD ["model.NewNode", "model.splitQuotedArgs"])
    ["model.splitQuotedArgs", "util.SplitCommandWithParse", "0", "exec"]

end BdModel.Load.Display
