import BdModel.Load.Tree
/-
  `decode` (internal/dag/loader.go) = mapstructure v1.5.0 with `ErrorUnused: true`, no weak typing, for the
  shape of `definition` (internal/dag/definition.go):
    * a key that matches no field (case-insensitively), or two keys matching one field  ⇒ error
    * a NON-STRING key in a map decoded into a struct ⇒ PANIC (`rawKey.(string)` while listing unused keys)
    * string field ← string | null;  int field ← int | float | null;  bool ← bool | null;  any ← anything
    * `*T` / element of `[]*T` ← null gives a NIL pointer (the source of the nil dereferences in the builder)
    * errors are collected, decoding continues: a panic further on wins over an earlier error.
  Only the fields that decide C13 keep their value; the others are type-checked and dropped.
-/
namespace BdModel.Load

structure CondDef where
  cond : Str := []
  expected : Str := []
deriving Repr, Inhabited

structure FuncDef where
  name : Str := []
  params : Str := []
  command : Str := []
deriving Repr, Inhabited

structure CallDef where
  function : Str := []
  args : List (Str × Tree) := []
deriving Repr, Inhabited

structure StepDef where
  name : Str := []
  command : Tree := .null
  script : Str := []
  executor : Tree := .null
  depends : List Str := []
  preconds : List (Option CondDef) := []
  signal : Option Str := none
  call : Option CallDef := none
  run : Str := []
  params : Str := []
deriving Repr, Inhabited

structure Def where
  name : Str := []
  schedule : Tree := .null
  env : Tree := .null
  logDir : Str := []
  params : Str := []
  onFailure : Option StepDef := none
  onSuccess : Option StepDef := none
  onCancel : Option StepDef := none
  onExit : Option StepDef := none
  functions : List (Option FuncDef) := []
  steps : List (Option StepDef) := []
  preconds : List (Option CondDef) := []
deriving Repr, Inhabited

def S (s : String) : Str := s.toList

/-! ### field tables (Go field names; matching is case-insensitive) -/
def condFields : List Str := [S "Condition", S "Expected"]
def funcFields : List Str := [S "Name", S "Params", S "Command"]
def callFields : List Str := [S "Function", S "Args"]
def continueOnFields : List Str := [S "Failure", S "Skipped"]
def retryFields : List Str := [S "Limit", S "IntervalSec"]
def repeatFields : List Str := [S "Repeat", S "IntervalSec"]
def smtpFields : List Str := [S "Host", S "Port", S "Username", S "Password"]
def mailCfgFields : List Str := [S "From", S "To", S "Prefix", S "AttachLogs"]
def mailOnFields : List Str := [S "Failure", S "Success"]
def handlerFields : List Str := [S "Failure", S "Success", S "Cancel", S "Exit"]
def stepFields : List Str :=
  [S "Name", S "Description", S "Dir", S "Executor", S "Command", S "Script", S "Stdout", S "Stderr", S "Output",
   S "Depends", S "ContinueOn", S "RetryPolicy", S "RepeatPolicy", S "MailOnError", S "Preconditions",
   S "SignalOnStop", S "Env", S "Call", S "Run", S "Params"]
def defFields : List Str :=
  [S "Name", S "Group", S "Description", S "Schedule", S "LogDir", S "Env", S "HandlerOn", S "Functions", S "Steps",
   S "SMTP", S "MailOn", S "ErrorMail", S "InfoMail", S "TimeoutSec", S "DelaySec", S "RestartWaitSec",
   S "HistRetentionDays", S "Preconditions", S "MaxActiveRuns", S "Params", S "MaxCleanUpTimeSec", S "Tags"]

/-! ### scalar decoders: (status, value) -/
def decStr : Tree → St × Str
  | .null => (.ok, [])
  | .str s => (.ok, s)
  | _ => (.err, [])

def stStr (t : Tree) : St := (decStr t).1

def stInt : Tree → St
  | .null => .ok | .int _ => .ok | .float _ => .ok
  | _ => .err

def stBool : Tree → St
  | .null => .ok | .bool _ => .ok
  | _ => .err

/-- `*string` -/
def decPtrStr : Tree → St × Option Str
  | .null => (.ok, none)
  | .str s => (.ok, some s)
  | _ => (.err, none)

/-- `[]string`: a null element stays "" -/
def decStrList : Tree → St × List Str
  | .null => (.ok, [])
  | .list xs => (St.joinAll (xs.map stStr), xs.map (fun x => (decStr x).2))
  | _ => (.err, [])

/-! ### struct decoding -/
def matchesField (f : Str) (kv : Tree × Tree) : Bool :=
  match kv.1 with
  | .str k => foldEq k f
  | _ => false

/-- value bound to a field (null when absent) -/
def getField (kvs : List (Tree × Tree)) (f : Str) : Tree :=
  match kvs.find? (matchesField f) with
  | some kv => kv.2
  | none => .null

/-- key discipline of `decodeStructFromMap` with ErrorUnused.
    `nested = true`: the source is a `map[any]any` (every map below the top level) -/
def keysStatus (nested : Bool) (flds : List Str) (kvs : List (Tree × Tree)) : St :=
  if kvs.any (fun kv => kv.1.strKey?.isNone) then (if nested then .panic else .err)
  else if kvs.all (fun kv => flds.any (fun f => matchesField f kv))
        && flds.all (fun f => (kvs.filter (matchesField f)).length ≤ 1) then .ok
  else .err

/-- decode a struct-typed position: null ⇒ zero value, map ⇒ fields + key discipline, else error -/
def decStruct {α} (flds : List Str) (zero : α) (body : (Str → Tree) → St × α) : Tree → St × α
  | .null => (.ok, zero)
  | .map kvs =>
    let r := body (getField kvs)
    (St.join r.1 (keysStatus true flds kvs), r.2)
  | _ => (.err, zero)

/-- `*T` -/
def decPtr {α} (dec : Tree → St × α) : Tree → St × Option α
  | .null => (.ok, none)
  | t => let r := dec t; (r.1, some r.2)

/-- `[]*T`: null element ⇒ nil pointer -/
def decPtrList {α} (dec : Tree → St × α) : Tree → St × List (Option α)
  | .null => (.ok, [])
  | .list xs => (St.joinAll (xs.map (fun x => (decPtr dec x).1)), xs.map (fun x => (decPtr dec x).2))
  | _ => (.err, [])

def decCond : Tree → St × CondDef :=
  decStruct condFields {} fun g =>
    (St.join (stStr (g (S "Condition"))) (stStr (g (S "Expected"))),
     { cond := (decStr (g (S "Condition"))).2, expected := (decStr (g (S "Expected"))).2 })

def decFunc : Tree → St × FuncDef :=
  decStruct funcFields {} fun g =>
    (St.joinAll [stStr (g (S "Name")), stStr (g (S "Params")), stStr (g (S "Command"))],
     { name := (decStr (g (S "Name"))).2, params := (decStr (g (S "Params"))).2, command := (decStr (g (S "Command"))).2 })

/-- `map[string]any`: a null key decodes to "", any other non-string key is an error -/
def decArgs : Tree → St × List (Str × Tree)
  | .null => (.ok, [])
  | .map kvs =>
    (St.joinAll (kvs.map (fun kv => match kv.1 with | .null => .ok | .str _ => .ok | _ => .err)),
     kvs.filterMap (fun kv => match kv.1 with | .null => some ([], kv.2) | .str k => some (k, kv.2) | _ => none))
  | _ => (.err, [])

def decCall : Tree → St × CallDef :=
  decStruct callFields {} fun g =>
    let a := decArgs (g (S "Args"))
    (St.join (stStr (g (S "Function"))) a.1, { function := (decStr (g (S "Function"))).2, args := a.2 })

def decFlags2 (flds : List Str) (st1 st2 : Tree → St) : Tree → St × Unit :=
  decStruct flds () fun g =>
    (St.join (st1 (g (flds.getD 0 []))) (st2 (g (flds.getD 1 []))), ())

def decStep : Tree → St × StepDef :=
  decStruct stepFields {} fun g =>
    let pre := decPtrList decCond (g (S "Preconditions"))
    let dep := decStrList (g (S "Depends"))
    let sig := decPtrStr (g (S "SignalOnStop"))
    let call := decPtr decCall (g (S "Call"))
    (St.joinAll [stStr (g (S "Name")), stStr (g (S "Description")), stStr (g (S "Dir")), stStr (g (S "Script")),
        stStr (g (S "Stdout")), stStr (g (S "Stderr")), stStr (g (S "Output")), dep.1,
        (decPtr (decFlags2 continueOnFields stBool stBool) (g (S "ContinueOn"))).1,
        (decPtr (decFlags2 retryFields stInt stInt) (g (S "RetryPolicy"))).1,
        (decPtr (decFlags2 repeatFields stBool stInt) (g (S "RepeatPolicy"))).1,
        stBool (g (S "MailOnError")), pre.1, sig.1, stStr (g (S "Env")), call.1, stStr (g (S "Run")), stStr (g (S "Params"))],
     { name := (decStr (g (S "Name"))).2, command := g (S "Command"), script := (decStr (g (S "Script"))).2,
       executor := g (S "Executor"), depends := dep.2, preconds := pre.2, signal := sig.2, call := call.2,
       run := (decStr (g (S "Run"))).2, params := (decStr (g (S "Params"))).2 })

structure HandlerDefs where
  failure : Option StepDef := none
  success : Option StepDef := none
  cancel : Option StepDef := none
  exit : Option StepDef := none
deriving Inhabited

def decHandlers : Tree → St × HandlerDefs :=
  decStruct handlerFields {} fun g =>
    let f := decPtr decStep (g (S "Failure")); let s := decPtr decStep (g (S "Success"))
    let c := decPtr decStep (g (S "Cancel")); let e := decPtr decStep (g (S "Exit"))
    (St.joinAll [f.1, s.1, c.1, e.1], { failure := f.2, success := s.2, cancel := c.2, exit := e.2 })

def decStrs4 (flds : List Str) (last : Tree → St) : Tree → St × Unit :=
  decStruct flds () fun g =>
    (St.joinAll [stStr (g (flds.getD 0 [])), stStr (g (flds.getD 1 [])), stStr (g (flds.getD 2 [])), last (g (flds.getD 3 []))], ())

def decodeBody (g : Str → Tree) : St × Def :=
  let h := decHandlers (g (S "HandlerOn"))
  let fns := decPtrList decFunc (g (S "Functions"))
  let steps := decPtrList decStep (g (S "Steps"))
  let pre := decPtrList decCond (g (S "Preconditions"))
  (St.joinAll [stStr (g (S "Name")), stStr (g (S "Group")), stStr (g (S "Description")), stStr (g (S "LogDir")),
      h.1, fns.1, steps.1, (decStrs4 smtpFields stStr (g (S "SMTP"))).1,
      (decPtr (decFlags2 mailOnFields stBool stBool) (g (S "MailOn"))).1,
      (decStrs4 mailCfgFields stBool (g (S "ErrorMail"))).1, (decStrs4 mailCfgFields stBool (g (S "InfoMail"))).1,
      stInt (g (S "TimeoutSec")), stInt (g (S "DelaySec")), stInt (g (S "RestartWaitSec")), stInt (g (S "HistRetentionDays")),
      pre.1, stInt (g (S "MaxActiveRuns")), stStr (g (S "Params")), stInt (g (S "MaxCleanUpTimeSec"))],
   { name := (decStr (g (S "Name"))).2, schedule := g (S "Schedule"), env := g (S "Env"),
     logDir := (decStr (g (S "LogDir"))).2, params := (decStr (g (S "Params"))).2,
     onFailure := h.2.failure, onSuccess := h.2.success, onCancel := h.2.cancel, onExit := h.2.exit,
     functions := fns.2, steps := steps.2, preconds := pre.2 })

/-- `unmarshalData` + `decode`: the document must be a mapping (or empty); top-level keys are strings
    (yaml.v2 decodes into `map[string]any`, a scalar key becomes its text, which matches no field) -/
def decode : Tree → St × Def
  | .null => (.ok, {})
  | .map kvs =>
    let r := decodeBody (getField kvs)
    (St.join r.1 (keysStatus false defFields kvs), r.2)
  | _ => (.err, {})

end BdModel.Load
