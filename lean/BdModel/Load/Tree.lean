/-
  Load area (C13, C19): the untyped YAML tree as gopkg.in/yaml.v2 hands it to the loader
  (`map[string]any` at the top, `map[any]any` / `[]any` / scalars below), result types, and the small
  string helpers the builder model needs. Core-only.

  Strings are `List Char` so that concrete witnesses reduce in the kernel.
-/
namespace BdModel.Load

abbrev Str := List Char

/-- untyped YAML value. `float fin`: `fin = false` for `.nan` / `.inf` / `-.inf`. Maps are association
    lists in document order; yaml.v2 keeps the LAST of two equal keys — that normalisation is done where
    the tree is read (driver), the theorems hold for every association list. -/
inductive Tree where
  | null
  | bool (b : Bool)
  | int (i : Int)
  | float (fin : Bool)
  | str (s : Str)
  | list (xs : List Tree)
  | map (kvs : List (Tree × Tree))
deriving Repr, Inhabited

/-- places where the builder dereferences a pointer that is nil for a null list element (name of the
    function). Since 208b483 `assertNoNullElements` runs first, so none of them is reachable — that is
    PROVED (Props/C13.lean), not assumed: the constructors stay in the model.
    Gone with the fixes: mapstructure's unused-key panic is recovered in `decode` (d52d2ba), an unknown
    schedule key is an error (2134a7a), robfig/cron's `TZ=` slice panic is recovered in `parseCron` (677265a). -/
inductive Site where
  | assertStepDef         -- `def.Name` on a nil *stepDef; `funcDef.Name` on a nil *funcDef
  | buildConditions       -- `v.Condition` on a nil *conditionDef
  | assertFunctions       -- `funcDef.Name` on a nil *funcDef
  | parseFuncCall         -- `funcDef.Name` on a nil *funcDef
deriving DecidableEq, Repr, Inhabited

/-- result of a loader stage / of the whole load -/
inductive Res (α : Type) where
  | ok (a : α)
  | err
  | panic (s : Site)
deriving Repr

namespace Res
def bind {α β} (r : Res α) (f : α → Res β) : Res β :=
  match r with
  | .ok a => f a
  | .err => .err
  | .panic s => .panic s
instance : Monad Res where
  pure := .ok
  bind := Res.bind
def isPanic {α} : Res α → Bool
  | .panic _ => true
  | _ => false
def isOk {α} : Res α → Bool
  | .ok _ => true
  | _ => false
end Res

/-- status of a mapstructure decode: errors are collected and decoding goes on, so a panic anywhere
    below dominates an error found earlier (the panic is recovered by `decode` and reported as an error) -/
inductive St where
  | ok | err | panic
deriving DecidableEq, Repr, Inhabited

def St.join : St → St → St
  | .panic, _ => .panic
  | _, .panic => .panic
  | .err, _ => .err
  | _, .err => .err
  | .ok, .ok => .ok

def St.joinAll : List St → St
  | [] => .ok
  | s :: ss => St.join s (St.joinAll ss)

/-! ### string helpers -/

/-- `strings.EqualFold` on ASCII (mapstructure's default `MatchName`) -/
def foldEq (a b : Str) : Bool := a.map Char.toLower == b.map Char.toLower

def isSpaceC (c : Char) : Bool :=
  c == ' ' || c == '\t' || c == '\n' || c == '\r' || c.toNat == 11 || c.toNat == 12

def isWordC (c : Char) : Bool := c.isAlphanum || c == '_'

/-- `strings.Split(s, " ")` -/
def splitSpace : Str → List Str
  | [] => [[]]
  | c :: rest =>
    if c == ' ' then [] :: splitSpace rest
    else match splitSpace rest with
      | [] => [[c]]
      | f :: fs => (c :: f) :: fs

/-- `strings.Fields` (ASCII white space) -/
def fieldsAux : Str → Str → List Str
  | [], cur => if cur.isEmpty then [] else [cur.reverse]
  | c :: rest, cur =>
    if isSpaceC c then (if cur.isEmpty then fieldsAux rest [] else cur.reverse :: fieldsAux rest [])
    else fieldsAux rest (c :: cur)
def fields (s : Str) : List Str := fieldsAux s []

/-- text before the first space: `strings.SplitN(cmd, " ", 2)[0]` -/
def firstWord : Str → Str
  | [] => []
  | c :: rest => if c == ' ' then [] else c :: firstWord rest

def isPrefix : Str → Str → Bool
  | [], _ => true
  | _ :: _, [] => false
  | a :: as, b :: bs => a == b && isPrefix as bs

/-- `strings.ReplaceAll(s, pat, rep)` for a non-empty pattern (left to right, non-overlapping) -/
def replaceAllAux (pat rep : Str) : Str → Nat → Str
  | [], _ => []
  | _ :: rest, skip + 1 => replaceAllAux pat rep rest skip
  | c :: rest, 0 =>
    if isPrefix pat (c :: rest) then rep ++ replaceAllAux pat rep rest (pat.length - 1)
    else c :: replaceAllAux pat rep rest 0
def replaceAll (s pat rep : Str) : Str := if pat.isEmpty then s else replaceAllAux pat rep s 0

/-- `regexp.MustCompile("\\$\\w+").ReplaceAllString(s, "")` -/
def stripParamsAux : Str → Bool → Str
  | [], _ => []
  | c :: rest, inVar =>
    if inVar && isWordC c then stripParamsAux rest true
    else if c == '$' && (match rest with | d :: _ => isWordC d | [] => false) then stripParamsAux rest true
    else c :: stripParamsAux rest false
def stripParams (s : Str) : Str := stripParamsAux s false

/-- `extractParamNames`: the `$`-prefixed words with the `$` removed -/
def extractParamNames (cmd : Str) : List Str :=
  (fields cmd).filterMap (fun w => match w with | '$' :: r => some r | _ => none)

/-! ### tree helpers -/

def Tree.isNull : Tree → Bool
  | .null => true
  | _ => false

def Tree.strKey? : Tree → Option Str
  | .str s => some s
  | _ => none

mutual
/-- `convertValue` (b765887) succeeds on the value — every map, also inside lists, has only string keys and
    no float is NaN/±Inf — which is exactly when `encoding/json` can marshal the converted value (all maps
    are `map[string]any` then) -/
def Tree.jsonOk : Tree → Bool
  | .map kvs => jsonOkM kvs
  | .list xs => jsonOkL xs
  | .float fin => fin
  | _ => true
def jsonOkL : List Tree → Bool
  | [] => true
  | x :: xs => x.jsonOk && jsonOkL xs
def jsonOkM : List (Tree × Tree) → Bool
  | [] => true
  | (k, v) :: rest => (k.strKey?).isSome && v.jsonOk && jsonOkM rest
end

end BdModel.Load
