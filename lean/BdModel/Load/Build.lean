import BdModel.Load.Decode
/-
  `builder.build` (internal/dag/builder.go) and its helpers in parser.go / assert.go, transcribed in their
  real order, as the code stands after the loader fixes:
    208b483  `assertNoNullElements` runs before every stage (also under metadataOnly) and rejects null entries
    2134a7a  an unknown schedule-map key is an error (before its values are looked at)
    677265a  `parseCron` recovers robfig/cron's panic on a `TZ=` / `CRON_TZ=` prefix without a space
    d52d2ba  `decode` recovers mapstructure's panic on a non-string key in a struct-typed mapping
    6a100f2  `buildStep` rejects a step with nothing to execute
    b765887  `convertMap`/`convertValue` descend into lists and reject NaN / ±Inf
    0f8807c  patternutil falls back to the default logger (an invalid `re:` pattern is logged, not a crash)
  Every dereference of a pointer that is nil for a null list element is STILL an explicit `Res.panic site`:
  that these are unreachable behind `assertNoNullElements` is a theorem (Props/C13.lean), not a modelling choice.

  What is NOT modelled (assumptions of the correspondence, stated in the check): the outcome of command
  substitutions under the evaluating entry point (generated definitions contain none that fail), `os.Setenv`
  failures other than an invalid key, the base configuration (`Load` is driven with base = "").
-/
namespace BdModel.Load

/-- facts about strings that come from libraries outside the model (reported by the harness per case):
    robfig/cron validity, `unix.SignalNum ≠ 0` (of the string exactly as given: the table knows only the
    canonical upper-case `SIGxxx` names) -/
structure Orc where
  cronOk : Str → Bool
  sigOk : Str → Bool

structure Opts where
  noEval : Bool := true
  metadataOnly : Bool := false
  /-- default name of file-based entry points (`defaultName(file)`); "" for LoadYAML -/
  fileName : Str := []

structure Cond where
  cond : Str
  expected : Str
deriving Repr

structure Step where
  name : Str := []
  /-- `Step.Command`; `['?']` stands for the `%v` rendering of a non-string array element (never empty) -/
  command : Str := []
  cmdWithArgs : Str := []
  execType : Str := []
  sub : Bool := false
  config : List (Str × Tree) := []
  signal : Str := []
  preconds : List Cond := []
deriving Repr, Inhabited

structure Dag where
  name : Str := []
  starts : List Str := []
  stops : List Str := []
  restarts : List Str := []
  steps : List Step := []
  onExit : Option Step := none
  onSuccess : Option Step := none
  onFailure : Option Step := none
  onCancel : Option Step := none
  preconds : List Cond := []
deriving Repr, Inhabited

/-! ### cron -/

/-- robfig/cron `Parse`: a `TZ=` / `CRON_TZ=` prefix is cut at the first space with `spec[eq+1 : i]`;
    without a space `i = -1` and the slice expression panics inside the library -/
def cronPanics (s : Str) : Bool :=
  (isPrefix (S "TZ=") s || isPrefix (S "CRON_TZ=") s) && !s.contains ' '

/-- `parseCron` (677265a): the library panic is recovered and reported as an error -/
def cronParse (o : Orc) (s : Str) : Res Unit :=
  if cronPanics s then .err
  else if o.cronOk s then .ok () else .err

/-- `parseSchedules` -/
def parseSchedules (o : Orc) : List Str → Res (List Str)
  | [] => .ok []
  | v :: rest =>
    match cronParse o v with
    | .ok _ => (match parseSchedules o rest with
                | .ok r => .ok (v :: r)
                | .err => .err
                | .panic s => .panic s)
    | .err => .err
    | .panic s => .panic s

/-- the strings of a `string | []string` schedule value; `none` = a non-string element -/
def allStrs : List Tree → Option (List Str)
  | [] => some []
  | .str s :: rest => (allStrs rest).map (s :: ·)
  | _ :: _ => none

structure Sched where
  starts : List Str := []
  stops : List Str := []
  restarts : List Str := []

inductive Target | start | stop | restart | none
deriving DecidableEq

def targetOf (key : Str) : Target :=
  if key == S "start" then .start else if key == S "stop" then .stop
  else if key == S "restart" then .restart else .none

/-- the inner loop of `parseScheduleMap`: parse, then append through the target pointer (never nil any
    more: the `default:` of the key switch returns before the loop, 2134a7a) -/
def addValues (o : Orc) (tg : Target) : List Str → Sched → Res Sched
  | [], acc => .ok acc
  | v :: rest, acc =>
    match cronParse o v with
    | .err => .err
    | .panic s => .panic s
    | .ok _ =>
      match tg with
      | .none => .err   -- not reached: see parseScheduleMap
      | .start => addValues o tg rest { acc with starts := acc.starts ++ [v] }
      | .stop => addValues o tg rest { acc with stops := acc.stops ++ [v] }
      | .restart => addValues o tg rest { acc with restarts := acc.restarts ++ [v] }

/-- `parseScheduleMap` (entries in document order; Go's map order is arbitrary — every order is some tree).
    What the code does with the value of a key, transcribed as it is: a string is one expression, a list must
    consist of strings (a non-string element is a load error), and ANY OTHER value — null, a number, a bool,
    a map — matches no case of the type switch and is silently ignored: that key contributes nothing and, in
    particular, does not touch the lists of the other keys. (Odd next to `schedule: 5` at the top level, which
    is a load error; the model follows the code.) Each key's values start from an empty slice. -/
def parseScheduleMap (o : Orc) : List (Tree × Tree) → Sched → Res Sched
  | [], acc => .ok acc
  | (k, v) :: rest, acc =>
    match k with
    | .str key =>
      let vals : Option (List Str) :=
        match v with
        | .str s => some [s]
        | .list xs => allStrs xs
        | _ => some []
      (match vals with
       | none => .err
       | some vs =>
         if targetOf key == .none then .err   -- `default: return errInvalidScheduleKey`
         else
         match addValues o (targetOf key) vs acc with
         | .ok acc' => parseScheduleMap o rest acc'
         | .err => .err
         | .panic s => .panic s)
    | _ => .err

/-- first half of `buildSchedule`: the type switch collecting starts / stops / restarts -/
def collectSchedule (o : Orc) (schedule : Tree) : Res Sched :=
  match schedule with
  | .str s => .ok { starts := [s] }
  | .list xs => (match allStrs xs with | some vs => .ok { starts := vs } | none => .err)
  | .map kvs => parseScheduleMap o kvs {}
  | .null => .ok {}
  | _ => .err

/-- second half: `parseSchedules` on the three lists -/
def finishSchedule (o : Orc) (sc : Sched) : Res Sched :=
  match parseSchedules o sc.starts with
  | .err => .err
  | .panic s => .panic s
  | .ok a =>
    match parseSchedules o sc.stops with
    | .err => .err
    | .panic s => .panic s
    | .ok b =>
      match parseSchedules o sc.restarts with
      | .err => .err
      | .panic s => .panic s
      | .ok c => .ok { starts := a, stops := b, restarts := c }

/-- `buildSchedule` -/
def buildSchedule (o : Orc) (schedule : Tree) : Res Sched :=
  match collectSchedule o schedule with
  | .err => .err
  | .panic s => .panic s
  | .ok sc => finishSchedule o sc

/-! ### env -/

def envKeyOk (k : Str) : Bool := !k.isEmpty && !k.contains '=' && !k.contains (Char.ofNat 0)

def keysAllStr (kvs : List (Tree × Tree)) : Bool := kvs.all (fun kv => kv.1.strKey?.isSome)

def envPairs : Tree → Option (List Str)
  | .map kvs => if keysAllStr kvs then some (kvs.filterMap (·.1.strKey?)) else none
  | .list xs =>
    xs.foldr (fun x acc =>
      match x, acc with
      | .map kvs, some r => if keysAllStr kvs then some (kvs.filterMap (·.1.strKey?) ++ r) else none
      | .map _, none => none
      | _, a => a) (some [])
  | _ => some []

/-- `buildEnvs` / `loadVariables`: a non-string key is an error; when evaluating, `os.Setenv` rejects an
    empty key or one containing `=` / NUL -/
def buildEnvs (opts : Opts) (env : Tree) : Res Unit :=
  match envPairs env with
  | none => .err
  | some keys => if opts.noEval || keys.all envKeyOk then .ok () else .err

/-! ### steps -/

def buildConditions : List (Option CondDef) → Res (List Cond)
  | [] => .ok []
  | none :: _ => .panic .buildConditions
  | some c :: rest =>
    match buildConditions rest with
    | .ok r => .ok ({ cond := c.cond, expected := c.expected } :: r)
    | .err => .err
    | .panic s => .panic s

/-- `for _, funcDef := range funcs { if funcDef.Name == name { …; break } }` -/
def findFunc (site : Site) (name : Str) : List (Option FuncDef) → Res (Option FuncDef)
  | [] => .ok none
  | none :: _ => .panic site
  | some f :: rest => if f.name == name then .ok (some f) else findFunc site name rest

def assertStepDef (sd : Option StepDef) (fns : List (Option FuncDef)) : Res StepDef :=
  match sd with
  | none => .panic .assertStepDef
  | some d =>
    if d.name.isEmpty then .err
    else if d.executor.isNull && d.command.isNull && d.call.isNone && d.run.isEmpty then .err
    else match d.call with
      | none => .ok d
      | some c =>
        match findFunc .assertStepDef c.function fns with
        | .panic s => .panic s
        | .err => .err
        | .ok f? =>
          let f := f?.getD {}
          if f.name.isEmpty then .err
          else
            let names := splitSpace f.params
            if c.args.length != names.length then .err
            else if names.all (fun n => c.args.any (fun a => a.1 == n)) then .ok d else .err

def intStr (i : Int) : Str := (toString i).toList

/-- `assignValues`: replace `$k` by the argument, argument by argument -/
def assignValues (cmd : Str) : List (Str × Str) → Str
  | [] => cmd
  | (k, v) :: rest => assignValues (replaceAll cmd ('$' :: k) v) rest

def passedArgs : List (Str × Tree) → Option (List (Str × Str))
  | [] => some []
  | (k, .str s) :: rest => (passedArgs rest).map ((k, s) :: ·)
  | (k, .int i) :: rest => (passedArgs rest).map ((k, intStr i) :: ·)
  | _ :: _ => none

/-- `parseFuncCall`: (Command, CmdWithArgs) -/
def parseFuncCall (call : Option CallDef) (fns : List (Option FuncDef)) : Res (Str × Str) :=
  match call with
  | none => .ok ([], [])
  | some c =>
    match passedArgs c.args with
    | none => .err
    | some pa =>
      match findFunc .parseFuncCall c.function fns with
      | .panic s => .panic s
      | .err => .err
      | .ok f? =>
        let f := f?.getD {}
        .ok (stripParams f.command, assignValues f.command pa)

/-- `parseCommand` on top of what `parseFuncCall` left in (Command, CmdWithArgs) -/
def parseCommand (command : Tree) (cur : Str × Str) : Res (Str × Str) :=
  match command with
  | .null => .ok cur
  | .str s => if s.isEmpty then .err else .ok (firstWord s, s)
  | .list xs =>
    .ok (xs.foldl (fun cmd v =>
          if cmd.isEmpty then (match v with | .str s => s | _ => ['?']) else cmd) cur.1, cur.2)
  | _ => .err

structure Exec where
  type : Str := []
  config : List (Str × Tree) := []

/-- the loop over the executor map in `parseExecutor` -/
def execEntries : List (Tree × Tree) → Exec → Option Exec
  | [], acc => some acc
  | (k, v) :: rest, acc =>
    match k with
    | .str key =>
      if key == S "type" then
        (match v with | .str t => execEntries rest { acc with type := t } | _ => none)
      else if key == S "config" then
        (match v with
         | .map cfg => if keysAllStr cfg then
              execEntries rest { acc with config := acc.config ++ cfg.filterMap (fun kv => kv.1.strKey?.map (·, kv.2)) }
            else none
         | _ => none)
      else none
    | _ => none

/-- `parseExecutor` followed by `convertMap` (every config value through `convertValue`) -/
def parseExecutor (executor : Tree) : Res Exec :=
  let e : Option Exec :=
    match executor with
    | .null => some {}
    | .str s => some { type := s }
    | .map kvs => execEntries kvs {}
    | _ => none
  match e with
  | none => .err
  | some ex => if ex.config.all (fun kv => kv.2.jsonOk) then .ok ex else .err

/-- the command the node will start: `CmdWithArgs` up to the first space if set, else `Command` -/
def Step.effCommand (s : Step) : Str := if s.cmdWithArgs.isEmpty then s.command else firstWord s.cmdWithArgs

/-- something to execute: a command, an executor type or a sub-workflow -/
def Step.hasExec (s : Step) : Bool := !s.effCommand.isEmpty || !s.execType.isEmpty || s.sub

/-- the Step after parseCommand, parseExecutor and parseSubWorkflow (`run:` overrides type and command) -/
def mkStep (d : StepDef) (cmd cwa : Str) (ex : Exec) (conds : List Cond) : Step :=
  if d.run.isEmpty then
    { name := d.name, command := cmd, cmdWithArgs := cwa, execType := ex.type, config := ex.config, preconds := conds }
  else
    { name := d.name, command := S "run", cmdWithArgs := d.run ++ [' '] ++ d.params, execType := S "subworkflow",
      sub := true, config := ex.config, preconds := conds }

/-- parseMiscs (signal name) and the final "something to execute" test (6a100f2) -/
def finishStep (o : Orc) (st : Step) : Option Str → Res Step
  | none => if st.hasExec then .ok st else .err
  | some sg => if o.sigOk sg then (if st.hasExec then .ok { st with signal := sg } else .err) else .err

/-- `buildStep`: assertStepDef, the Step literal (buildConditions), parseFuncCall, then
    parseCommand, parseExecutor, parseSubWorkflow, parseMiscs, and the final "something to execute" test (6a100f2) -/
def buildStep (o : Orc) (fns : List (Option FuncDef)) (sd : Option StepDef) : Res Step :=
  match assertStepDef sd fns with
  | .panic s => .panic s
  | .err => .err
  | .ok d =>
    match buildConditions d.preconds with
    | .panic s => .panic s
    | .err => .err
    | .ok conds =>
      match parseFuncCall d.call fns with
      | .panic s => .panic s
      | .err => .err
      | .ok cc =>
        match parseCommand d.command cc with
        | .panic s => .panic s
        | .err => .err
        | .ok (cmd, cwa) =>
          match parseExecutor d.executor with
          | .panic s => .panic s
          | .err => .err
          | .ok ex => finishStep o (mkStep d cmd cwa ex conds) d.signal

def buildSteps (o : Orc) (fns : List (Option FuncDef)) : List (Option StepDef) → Res (List Step)
  | [] => .ok []
  | sd :: rest =>
    match buildStep o fns sd with
    | .panic s => .panic s
    | .err => .err
    | .ok st =>
      match buildSteps o fns rest with
      | .ok r => .ok (st :: r)
      | .err => .err
      | .panic s => .panic s

/-- one handler: nil ⇒ skipped, otherwise the name is overwritten and the step built -/
def buildHandler (o : Orc) (fns : List (Option FuncDef)) (name : Str) : Option StepDef → Res (Option Step)
  | none => .ok none
  | some d =>
    match buildStep o fns (some { d with name := name }) with
    | .ok st => .ok (some st)
    | .err => .err
    | .panic s => .panic s

structure Handlers where
  exit : Option Step := none
  success : Option Step := none
  failure : Option Step := none
  cancel : Option Step := none

/-- `buildHandlers`: exit, success, failure, cancel — the first failure returns -/
def buildHandlers (o : Orc) (d : Def) : Res Handlers :=
  match buildHandler o d.functions (S "onExit") d.onExit with
  | .panic s => .panic s
  | .err => .err
  | .ok e =>
    match buildHandler o d.functions (S "onSuccess") d.onSuccess with
    | .panic s => .panic s
    | .err => .err
    | .ok su =>
      match buildHandler o d.functions (S "onFailure") d.onFailure with
      | .panic s => .panic s
      | .err => .err
      | .ok f =>
        match buildHandler o d.functions (S "onCancel") d.onCancel with
        | .panic s => .panic s
        | .err => .err
        | .ok c => .ok { exit := e, success := su, failure := f, cancel := c }

/-- `assertFunctions` -/
def assertFunctionsAux : List (Option FuncDef) → List Str → Res Unit
  | [], _ => .ok ()
  | none :: _, _ => .panic .assertFunctions
  | some f :: rest, seen =>
    if seen.contains f.name then .err
    else if splitSpace f.params != extractParamNames f.command then .err
    else assertFunctionsAux rest (f.name :: seen)
def assertFunctions (fns : List (Option FuncDef)) : Res Unit := assertFunctionsAux fns []

/-! ### the builder -/

/-- `callBuilderFunc` collects errors and goes on: of all stages, the FIRST panic (in call order) wins,
    otherwise any error makes the build fail -/
def firstPanic : List (Option (Option Site)) → Option Site
  | [] => none
  | some (some s) :: _ => some s
  | _ :: rest => firstPanic rest

/-- stage summary: `none` = ok, `some none` = error, `some (some s)` = panic at s -/
def Res.cls {α} : Res α → Option (Option Site)
  | .ok _ => none
  | .err => some none
  | .panic s => some (some s)

def Res.val {α} [Inhabited α] : Res α → α
  | .ok a => a
  | _ => default

instance : Inhabited Sched := ⟨{}⟩
instance : Inhabited Handlers := ⟨{}⟩

/-- the `callBuilderFunc` stages in call order (buildMailOn, buildParams, buildLogDir, buildSMTPConfig,
    buildErrMailConfig, buildInfoMailConfig have no failure in the model: buildLogDir/buildParams only through
    command substitution — C19) ; the second group runs unless `metadataOnly` -/
def stagesOf (o : Orc) (opts : Opts) (d : Def) : List (Option (Option Site)) :=
  [(buildEnvs opts d.env).cls, (buildSchedule o d.schedule).cls] ++
    (if opts.metadataOnly then [] else
      [(buildSteps o d.functions d.steps).cls, (buildHandlers o d).cls, (buildConditions d.preconds).cls,
       (assertFunctions d.functions).cls])

/-- the DAG assembled from the stage results -/
def assemble (o : Orc) (opts : Opts) (d : Def) : Dag :=
  let name := if d.name.isEmpty then opts.fileName else d.name
  let sc := (buildSchedule o d.schedule).val
  let hs := (buildHandlers o d).val
  if opts.metadataOnly then { name := name, starts := sc.starts, stops := sc.stops, restarts := sc.restarts }
  else { name := name, starts := sc.starts, stops := sc.stops, restarts := sc.restarts,
         steps := (buildSteps o d.functions d.steps).val,
         onExit := hs.exit, onSuccess := hs.success, onFailure := hs.failure, onCancel := hs.cancel,
         preconds := (buildConditions d.preconds).val }

def condsOk (l : List (Option CondDef)) : Bool := l.all Option.isSome

def stepDefOk : Option StepDef → Bool
  | none => false
  | some d => condsOk d.preconds

def handlerDefOk : Option StepDef → Bool
  | none => true
  | some d => condsOk d.preconds

/-- `assertNoNullElements` (208b483): no nil step, no nil precondition of the DAG / a step / a handler, no
    nil function -/
def noNullElements (d : Def) : Bool :=
  d.steps.all stepDefOk && d.functions.all Option.isSome && condsOk d.preconds &&
  handlerDefOk d.onExit && handlerDefOk d.onSuccess && handlerDefOk d.onFailure && handlerDefOk d.onCancel

/-- `builder.build` on a decoded definition: the null-element test returns at once; then the stages -/
def buildDef (o : Orc) (opts : Opts) (d : Def) : Res Dag :=
  if !noNullElements d then .err
  else
    match firstPanic (stagesOf o opts d) with
    | some s => .panic s
    | none => if (stagesOf o opts d).any Option.isSome then .err else .ok (assemble o opts d)

/-- the whole load of a document: decode, then build -/
def build (o : Orc) (opts : Opts) (t : Tree) : Res Dag :=
  match decode t with
  | (.panic, _) => .err   -- mapstructure's panic is recovered in `decode` (d52d2ba)
  | (.err, _) => .err
  | (.ok, d) => buildDef o opts d

/-! ### what an accepted DAG must satisfy -/

/-- the status of the step can be marshalled by `encoding/json` -/
def Step.serial (s : Step) : Bool := s.config.all (fun kv => kv.2.jsonOk)

/-- evaluating the condition cannot crash: since 0f8807c an `expected: "re:<invalid>"` is logged through the
    default logger and skipped (before: a call on a nil logger) -/
def condSafe (_c : Cond) : Bool := true

def Dag.allSteps (d : Dag) : List Step :=
  d.steps ++ d.onExit.toList ++ d.onSuccess.toList ++ d.onFailure.toList ++ d.onCancel.toList

/-- named steps, parseable schedules, valid signals. `s.signal` is the spelling STORED in `Step.SignalOnStop`
    and `o.sigOk` is `unix.SignalNum(·) ≠ 0` of that very string — the call `scheduler.Node.signal` makes on the
    stored name at stop time. So the clause says: every stored, non-empty stop signal resolves to a real signal
    on the stop path (an empty one means "no override"). A loader that validates a canonicalised copy but stores
    the spelling as written violates exactly this clause. -/
def Dag.wellFormedCore (o : Orc) (d : Dag) : Prop :=
  (∀ s ∈ d.allSteps, s.name ≠ [] ∧ (s.signal = [] ∨ o.sigOk s.signal = true)) ∧
  (∀ e ∈ d.starts ++ d.stops ++ d.restarts, o.cronOk e = true ∧ cronPanics e = false)

/-- `wellFormedCore` + every step has something to execute -/
def Dag.wellFormed (o : Orc) (d : Dag) : Prop :=
  d.wellFormedCore o ∧ ∀ s ∈ d.allSteps, s.hasExec = true

def Dag.serialisable (d : Dag) : Prop := ∀ s ∈ d.allSteps, s.serial = true

def Dag.evalSafe (d : Dag) : Prop :=
  (∀ c ∈ d.preconds, condSafe c = true) ∧ ∀ s ∈ d.allSteps, ∀ c ∈ s.preconds, condSafe c = true

end BdModel.Load
