/-
  Log — the writer wiring of a step (internal/dag/scheduler/node.go), core Lean only.

  setup (per attempt: the scheduler calls setupNode again for a retried node)
      State.Log   := <logDir>/<step>.<start time, ms>.<reqid>.log           (a NEW file per attempt)
      logWriter   := bufio.NewWriter(logFile)                                (capacity 4096)
      stdoutWriter:= bufio.NewWriter(stdoutFile)   if `stdout:` is set       (same path each attempt, O_APPEND)
      stderrWriter:= bufio.NewWriter(stderrFile)   if `stderr:` is set
      scriptFile  := temp file with the script     if `script:` is set
      done = false            (fix 80fb8fd / F16; before it the flag set by the first teardown was never reset)
  setupExec (per attempt)
      stdout := logWriter
      if stdoutWriter ≠ nil : stdout := MultiWriter(logWriter, stdoutWriter)
      if output ≠ ""        : stdout := MultiWriter(stdout, capture pipe)
      cmd.Stdout := stdout ;  cmd.Stderr := stderrWriter if set, else stdout (the SAME writer, one pipe)
  os/exec copies the child's pipe into the writer with io.Copy.  When the writer is the bare
  *bufio.Writer, io.Copy uses bufio.Writer.ReadFrom, which (empty buffer, underlying *os.File) hands the
  whole copy to the file: the bytes never sit in the buffer (`direct`).  Behind a MultiWriter every
  chunk goes through bufio.Writer.Write (`buffered`): up to 4096 bytes stay in memory until Flush.
  Schedule: every attempt ends with a teardown BEFORE the node is handed back for the retry, and the
      worker that handed it back does not touch the node again (`released`, fix 80fb8fd)
  teardown
      if done { return } ; done = true ; Flush logWriter, stdoutWriter ; Sync+Close logFile, stdoutFile
      (stderrWriter is never flushed — it is always `direct`) ; remove the script file

  A chunk = one Write call as io.Copy issues it (whatever the pipe read returned); the theorems
  quantify over ALL chunkings.
-/
namespace BdModel.Log

abbrev Bytes := List Nat

/-- capacity of bufio.NewWriter -/
def cap : Nat := 4096

/-- a file behind a bufio.Writer: bytes on disk and bytes still in the buffer -/
structure BW where
  disk : Bytes := []
  buf  : Bytes := []
  deriving DecidableEq, Repr

/-- bufio.Writer.Write -/
def BW.write (w : BW) (p : Bytes) : BW :=
  if p.length ≤ cap - w.buf.length then { w with buf := w.buf ++ p }
  else if w.buf = [] then { w with disk := w.disk ++ p }          -- large write, empty buffer: straight to the file
  else
    let k := cap - w.buf.length                                   -- fill the buffer, flush it
    let disk' := w.disk ++ w.buf ++ p.take k
    let p' := p.drop k
    if p'.length ≤ cap then { disk := disk', buf := p' } else { disk := disk' ++ p', buf := [] }

/-- io.Copy through bufio.Writer.ReadFrom with an empty buffer: the file receives the bytes -/
def BW.direct (w : BW) (p : Bytes) : BW := { w with disk := w.disk ++ w.buf ++ p, buf := [] }

/-- bufio.Writer.Flush -/
def BW.flush (w : BW) : BW := { disk := w.disk ++ w.buf, buf := [] }

/-- a new bufio.Writer on the same file: what the old writer still held is gone -/
def BW.reopen (w : BW) : BW := { disk := w.disk, buf := [] }

/-- step configuration (the four settings that select the wiring) -/
structure Cfg where
  stdoutFile : Bool := false
  stderrFile : Bool := false
  output     : Bool := false
  script     : Bool := false
  deriving DecidableEq, Repr

/-- the log writer sits behind a MultiWriter -/
def Cfg.buffered (c : Cfg) : Bool := c.stdoutFile || c.output

/-- one Write call: (to stderr?, bytes) in the order the child wrote them -/
abbrev Chunk := Bool × Bytes
/-- one attempt = what its process printed -/
abbrev Attempt := List Chunk

structure St where
  done     : Bool := false
  log      : BW := {}        -- the log file of the CURRENT attempt (State.Log)
  out      : BW := {}        -- the `stdout:` file
  err      : BW := {}        -- the `stderr:` file
  pipe     : Bytes := []     -- what went into the capture pipe in the current attempt
  script   : Bool := false   -- the temporary script file of the current attempt exists
  left     : Nat := 0        -- script files of earlier attempts that were never removed
  deriving DecidableEq, Repr

/-- node.setup -/
def setup (c : Cfg) (s : St) : St :=
  { done := false
    log := {}                                             -- fresh file, fresh writer
    out := if c.stdoutFile then s.out.reopen else s.out
    err := if c.stderrFile then s.err.reopen else s.err
    pipe := []
    script := c.script
    left := s.left + (if s.script then 1 else 0) }

/-- the stdout sink receives a chunk -/
def toStdout (c : Cfg) (s : St) (p : Bytes) : St :=
  let s1 : St := if c.buffered then { s with log := s.log.write p } else { s with log := s.log.direct p }
  let s2 : St := if c.stdoutFile then { s1 with out := s1.out.write p } else s1
  if c.output then { s2 with pipe := s2.pipe ++ p } else s2

/-- a chunk arrives -/
def feed (c : Cfg) (s : St) (ch : Chunk) : St :=
  if ch.1 && c.stderrFile then { s with err := s.err.direct ch.2 } else toStdout c s ch.2

/-- Execute: the process prints its chunks -/
def exec (c : Cfg) (s : St) (a : Attempt) : St := a.foldl (feed c) s

/-- node.teardown (`if n.done { return nil }` comes first: nothing is flushed, closed or removed then) -/
def teardown (s : St) : St :=
  if s.done then s
  else { s with done := true, log := s.log.flush, out := s.out.flush, script := false }

/-- temporary script files lying in the step's directory -/
def St.scriptsLeft (s : St) : Nat := s.left + (if s.script then 1 else 0)

/-- one attempt of the node: setup, Execute, teardown -/
def attempt (c : Cfg) (s : St) (a : Attempt) : St := teardown (exec c (setup c s) a)

/-- the node after all its attempts (first launch + retries) -/
def run (c : Cfg) (as : List Attempt) : St := as.foldl (attempt c) {}

/-- bytes of an attempt that belong in the log: everything, or stdout only when `stderr:` is set -/
def logBytes (c : Cfg) (a : Attempt) : Bytes :=
  (a.filter (fun ch => !(ch.1 && c.stderrFile))).flatMap (·.2)
def outBytes (a : Attempt) : Bytes := (a.filter (fun ch => !ch.1)).flatMap (·.2)
def errBytes (a : Attempt) : Bytes := (a.filter (fun ch => ch.1)).flatMap (·.2)
/-- bytes that reach the stdout sink (stdout, plus stderr when it shares the writer) -/
def sinkBytes (c : Cfg) (a : Attempt) : Bytes := logBytes c a

/-- what is on disk in the log file named in the node's state after the final teardown -/
def logContent (c : Cfg) (as : List Attempt) : Bytes := (run c as).log.disk

end BdModel.Log
