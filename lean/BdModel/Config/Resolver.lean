/-
  Configuration resolver: WHICH directory is the configuration directory of a command and which file is the base
  configuration of every DAG it loads (internal/config/resolver.go `newResolver`, internal/config/config.go `setupViper` /
  `bindEnvs` / `Load`), and how the loader merges the base configuration's limit with the DAG file's
  (internal/dag/loader.go `Load(base, dag, params)` -> `merge(dst = base, src = dag)` = mergo.Merge WithOverride).

  Modelled as the code IS (core Lean only; linked into the driver):

    setupViper    homeDir = os.UserHomeDir()                       (HOME; assumed set, else log.Fatalf)
                  xdg.ConfigHome = $XDG_CONFIG_HOME if != "" else homeDir/.config
                  r = newResolver("BLACKDAGGER_HOME", homeDir/.blackdagger, xdg)
                  viper.AddConfigPath(r.configDir); SetConfigName("config")       (config.yaml of THAT directory only)
    Load          after setupViper: if config.ConfigFile != "" (`--config FILE`, cmd/root.go) viper.SetConfigFile(FILE): FILE is
                  read INSTEAD of config.yaml of the directory (the repair of F51; the directory itself stays what it was)
                  BindEnv("baseConfig", "BLACKDAGGER_BASE_CONFIG"); SetDefault("baseConfig", r.baseConfigFile)
    newResolver   if $BLACKDAGGER_HOME != "" : configDir = it,  useXDGRules = false
                  else if FileExists(legacy) : configDir = legacy, useXDGRules = false        (os.Stat: a file counts too)
                  else configDir = xdg.ConfigHome/blackdagger
                  useXDGRules  : baseConfigFile = xdg.ConfigHome/blackdagger/base.yaml, dagsDir = …/dags
                  otherwise    : baseConfigFile = configDir/base.yaml,                 dagsDir = configDir/dags
    viper         value of a key = bound environment variable if set and NOT EMPTY (AllowEmptyEnv is off)
                                   else the key of the configuration file if present (an empty string there IS a value)
                                   else the default.
    loader        mergo.WithOverride: a non-zero field of the DAG file overwrites the base's; 0 / absent inherits.

  A path is its list of components (`filepath.Join` = append; the check generates clean paths only); the empty list stands for the
  empty string (what `os.Getenv(..) != ""` and viper's empty-environment rule look at).
-/
namespace BdModel.Config.Resolver

abbrev Path := List String

def appName : String := "blackdagger"

/-- `if v := os.Getenv(name); v != ""`: a variable set to the empty string is the same as an unset one -/
def getenv (v : Option Path) : Option Path :=
  match v with
  | some [] => none
  | x => x

/-- what `config.Load()` reads of the process environment and the file system -/
structure Env where
  /-- `BLACKDAGGER_HOME` -/
  bdHome : Option Path
  /-- `XDG_CONFIG_HOME` -/
  xdgConfigHome : Option Path
  /-- `os.UserHomeDir()` -/
  home : Path
  /-- `~/.blackdagger` exists (`util.FileExists`) -/
  legacyExists : Bool
  /-- the XDG configuration directory exists. The code never asks; carried so that "whether or not it exists" can be said
      (and so that the seeded change C15-6, which does ask, can be written down) -/
  xdgExists : Bool
  /-- the `baseConfig:` key of `<dir>/config.yaml` (none: no such file, or no such key in it) -/
  cfgKey : Path → Option Path
  /-- `BLACKDAGGER_BASE_CONFIG` -/
  envBase : Option Path
  /-- `--config FILE` (`config.ConfigFile != ""`): `some k` = given, `k` = the `baseConfig:` key of FILE -/
  explicitCfg : Option (Option Path) := none

/-- the fields of `resolver` this area is about -/
structure Res where
  configDir : Path
  dagsDir : Path
  baseConfigFile : Path
  useXDGRules : Bool
deriving DecidableEq, Repr

/-- `newResolver(appHomeEnv, legacyPath, xdg)` -/
def newResolver (appHome : Option Path) (legacyPath : Path) (legacyExists : Bool) (xdgConfigHome : Path) : Res :=
  let (dir, useXDG) :=
    match getenv appHome with
    | some v => (v, false)
    | none => if legacyExists then (legacyPath, false) else (xdgConfigHome ++ [appName], true)
  if useXDG then
    { configDir := dir, dagsDir := xdgConfigHome ++ [appName, "dags"],
      baseConfigFile := xdgConfigHome ++ [appName, "base.yaml"], useXDGRules := true }
  else
    { configDir := dir, dagsDir := dir ++ ["dags"], baseConfigFile := dir ++ ["base.yaml"], useXDGRules := false }

/-- `xdgCfg.ConfigHome` of `setupViper` -/
def xdgHome (e : Env) : Path :=
  match getenv e.xdgConfigHome with
  | some v => v
  | none => e.home ++ [".config"]

def legacyPath (e : Env) : Path := e.home ++ [".blackdagger"]

/-- the resolver `setupViper` builds -/
def resolve (e : Env) : Res := newResolver e.bdHome (legacyPath e) e.legacyExists (xdgHome e)

def configDir (e : Env) : Path := (resolve e).configDir

/-- the default of the key `baseConfig` -/
def defaultBase (e : Env) : Path := (resolve e).baseConfigFile

/-- viper's precedence for one key: bound non-empty environment variable, configuration file, default -/
def viperGet (envVar cfg : Option Path) (dflt : Path) : Path :=
  match getenv envVar with
  | some v => v
  | none =>
    match cfg with
    | some v => v
    | none => dflt

/-- the `baseConfig:` key of the ONE configuration file viper reads: the explicit file if given, else config.yaml of the
    resolved directory -/
def cfgSource (e : Env) : Option Path :=
  match e.explicitCfg with
  | some k => k
  | none => e.cfgKey (configDir e)

/-- `cfg.BaseConfig` as `config.Load()` returns it -/
def baseConfigFile (e : Env) : Path := viperGet e.envBase (cfgSource e) (defaultBase e)

/-- the default of `cfg.DAGs` (neither `BLACKDAGGER_DAGS_DIR` nor a `dags:` key given) -/
def dagsDir (e : Env) : Path := (resolve e).dagsDir

/-- `dag.Load(base, file)`: `merge(dst = base configuration, src = DAG file)` with mergo.WithOverride on the int field
    `MaxActiveRuns`: the DAG's value if non-zero, else the base's -/
def effectiveLimit (baseLimit dagLimit : Nat) : Nat := if dagLimit ≠ 0 then dagLimit else baseLimit

/-! the seeded change C15-6 (`legacy only if the XDG directory is absent`), for the refutation in Props/C15Config -/

def newResolverC15_6 (appHome : Option Path) (legacyPath : Path) (legacyExists xdgExists : Bool) (xdgConfigHome : Path) : Res :=
  let (dir, useXDG) :=
    match getenv appHome with
    | some v => (v, false)
    | none => if legacyExists && !xdgExists then (legacyPath, false) else (xdgConfigHome ++ [appName], true)
  if useXDG then
    { configDir := dir, dagsDir := xdgConfigHome ++ [appName, "dags"],
      baseConfigFile := xdgConfigHome ++ [appName, "base.yaml"], useXDGRules := true }
  else
    { configDir := dir, dagsDir := dir ++ ["dags"], baseConfigFile := dir ++ ["base.yaml"], useXDGRules := false }

def resolveC15_6 (e : Env) : Res := newResolverC15_6 e.bdHome (legacyPath e) e.legacyExists e.xdgExists (xdgHome e)

def baseConfigFileC15_6 (e : Env) : Path :=
  viperGet e.envBase (match e.explicitCfg with | some k => k | none => e.cfgKey (resolveC15_6 e).configDir)
    (resolveC15_6 e).baseConfigFile

end BdModel.Config.Resolver
