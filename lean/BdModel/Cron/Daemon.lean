import BdModel.Cron.Parse
/-
  Cron.Daemon — the scheduler daemon's logic as internal/scheduler/{scheduler.go,entryreader.go,job.go}
  and internal/dag/{builder.go: buildSchedule, parser.go: parseSchedules/parseScheduleMap/parseCron} implement
  it NOW (after the fixes F8 = 3d1ee58, F9 = 2134a7a, F26 = 677265a, F10 = 922dee6 — see Props/C09.lean).

  Instants are seconds since Go's zero time (Civil.lean), so robfig's "zero time" answer is `0`.
-/
namespace BdModel.Cron

/-! ## `SpecSchedule.Next` -/

/-- search for the least firing minute in `[m, lim)`.  A step either answers, moves to the next
    minute, or — when the month/day test fails — jumps to the first minute of the next day (robfig
    likewise advances field-wise).  `fuel` bounds the number of steps; `lim - m` always suffices. -/
def search (s : Spec) (lim : Nat) : Nat → Nat → Option Nat
  | 0, _ => none
  | fuel + 1, m =>
    if lim ≤ m then none
    else if fires s m then some m
    else if dayOk s (m / 1440) then search s lim fuel (m + 1)
    else search s lim fuel ((m / 1440 + 1) * 1440)

/-- first minute robfig will NOT look at: `yearLimit := t.Year() + 5` for `t = u + 1s`, and the zero
    time is returned at the first wrap into a year `> yearLimit` -/
def horizon (u : Nat) : Nat := minuteOfYearStart (yearOfSec (u + 1) + 6)

/-- `Parsed.Next(u)` for a 5-field spec (Second = {0}): the least firing minute `m` with
    `60*m > u` and inside the horizon; `none` = robfig's zero time -/
def next (s : Spec) (u : Nat) : Option Nat :=
  search s (horizon u) (horizon u - (u / 60 + 1)) (u / 60 + 1)

/-- the `time.Time` that `Next` returns: zero time (`0`) when nothing was found -/
def nextTime (s : Spec) (u : Nat) : Nat :=
  match next s u with
  | none => 0
  | some m => 60 * m

/-! ## `Scheduler.start` / `nextTick` / `run` -/

def nextTick (t : Nat) : Nat := truncMin (t + 60)

/-- the loop of `start()`: `run(t); t = nextTick(t); timer.Reset(t.Sub(now()))`.  Input: the clock
    reading at each `Reset`; output per iteration: the tick that was run and the wait that was
    programmed (a non-positive duration fires at once — late and bunched ticks) -/
def loopTicks (t : Nat) : List Nat → List (Nat × Nat)
  | [] => []
  | now :: rest => (t, nextTick t - now) :: loopTicks (nextTick t) rest

/-- `t := now().Truncate(time.Minute)` then the loop -/
def daemonTicks (now0 : Nat) (nows : List Nat) : List (Nat × Nat) := loopTicks (truncMin now0) nows

inductive Kind | start | stop | restart
deriving DecidableEq, Repr

structure Dag where
  id : Nat
  starts : List Spec
  stops : List Spec
  restarts : List Spec
deriving DecidableEq, Repr

structure Entry where
  dag : Nat
  kind : Kind
  spec : Spec
deriving DecidableEq, Repr

/-- `Status.Status` of the latest run as the store returns it (dag/scheduler: StatusNone, StatusRunning,
    StatusError, StatusCancel, StatusSuccess) -/
inductive RunLabel | none | running | error | cancel | success
deriving DecidableEq, Repr

/-- what `Client.GetLatestStatus` answers for a DAG -/
structure Status where
  err : Bool               -- the call returned an error
  label : RunLabel         -- the latest run's status
  started : Option Nat     -- `util.ParseTime(StartedAt)`: none = error (never run: ""), some 0 = "-"
deriving DecidableEq, Repr

/-- `latestStatus.Status == StatusRunning` — the ONLY thing `jobImpl.Start` / `Stop` ask of the label:
    finished, failed, canceled and not-started runs are treated alike -/
def Status.running (s : Status) : Bool := s.label == .running

def entriesOf (d : Dag) : List Entry :=
  d.starts.map (⟨d.id, .start, ·⟩) ++ d.stops.map (⟨d.id, .stop, ·⟩) ++ d.restarts.map (⟨d.id, .restart, ·⟩)

/-- `entryReaderImpl.Read`: suspended DAGs contribute nothing.  Suspension is looked up by the FILE id
    (`d.id` = base name of the DAG file without extension, the key every writer of suspend flags uses),
    never by the `name:` a definition may carry — the model has no other notion of a DAG's identity. -/
def readEntries (dags : List Dag) (susp : Nat → Bool) : List Entry :=
  (dags.filter (fun d => !susp d.id)).flatMap entriesOf

/-- `run(now)`: entries are computed with `Next(now - 1s)` and sorted by `Next`; an entry whose `Next` is
    the zero time (nothing fires inside robfig's horizon) is skipped (`continue`, /repo 3d1ee58 — the F8
    fix; before it the zero time, not being after `now`, got the entry invoked at every tick); the loop
    breaks at the first entry whose `Next` is `After(now)` — i.e. exactly those with a real `Next` that is
    NOT after `now` are invoked. -/
def invoked (s : Spec) (t : Nat) : Bool :=
  match next s (t - 1) with
  | none => false
  | some m => !decide (60 * m > t)

inductive Act
  | start (dag : Nat)
  | stop (dag : Nat)
  | restart (dag : Nat)
deriving DecidableEq, Repr

def Act.dag : Act → Nat
  | .start d => d | .stop d => d | .restart d => d

/-- `jobImpl.Start`: refuse when the status cannot be read, when running, or — for EVERY other status
    label (success, error, cancel, none) — when the last start (truncated to the minute) is in or after
    `j.Next`; an unparsable `StartedAt` skips that guard -/
def jobStart (dag : Nat) (jnext : Nat) (st : Status) : Option Act :=
  if st.err then none
  else if st.running then none
  else match st.started with
    | some l => if truncMin l ≥ jnext then none else some (.start dag)
    | none => some (.start dag)

/-- `jobImpl.Stop`: only when running -/
def jobStop (dag : Nat) (st : Status) : Option Act :=
  if st.err then none else if st.running then some (.stop dag) else none

/-- `jobImpl.Restart`: unconditional -/
def jobRestart (dag : Nat) : Option Act := some (.restart dag)

/-- `entry.Invoke` -/
def invoke (e : Entry) (jnext : Nat) (st : Status) : Option Act :=
  match e.kind with
  | .start => jobStart e.dag jnext st
  | .stop => jobStop e.dag st
  | .restart => jobRestart e.dag

/-- client calls issued by one invoked-or-not entry at tick `t` -/
def entryAct (status : Nat → Status) (t : Nat) (e : Entry) : Option Act :=
  if invoked e.spec t then invoke e (nextTime e.spec (t - 1)) (status e.dag) else none

/-- One tick as it was before /repo 922dee6: EVERY due entry is invoked, so two start schedules of one
    DAG firing in the same minute gave two Start calls (F10).  Kept only to state that regression. -/
def runTickPinned (dags : List Dag) (susp : Nat → Bool) (status : Nat → Status) (t : Nat) : List Act :=
  (readEntries dags susp).filterMap (entryAct status t)

/-- key of the per-tick `invoked` map of `run`: entry type + DAG location (one location per file id) -/
def Entry.key (e : Entry) : Kind × Nat := (e.kind, e.dag)

/-- the loop of `run` over the due entries with its `invoked` map (`seen` = keys already set): the first
    due entry of each (kind, DAG) is invoked, later ones are skipped (`continue`) -/
def dedupe : List Entry → List (Kind × Nat) → List Entry
  | [], _ => []
  | e :: es, seen =>
    if e.key ∈ seen then dedupe es seen
    else e :: dedupe es (e.key :: seen)

/-- the entries that pass `IsZero → continue` and `After(now) → break`, in the order `run` meets them.
    `run` first stable-sorts by `Next`; every due entry has `Next` = the tick itself
    (Proofs/CronDedupe: `invoked_nextTime_eq`), so among them the sort keeps `Read`'s order. -/
def dueEntries (dags : List Dag) (susp : Nat → Bool) (t : Nat) : List Entry :=
  (readEntries dags susp).filter (fun e => invoked e.spec t)

/-- One tick (`run`, after 922dee6).  Every invoked entry runs in its own goroutine and reads the status
    by itself; the model gives all of them the status as it is when the tick begins. -/
def runTick (dags : List Dag) (susp : Nat → Bool) (status : Nat → Status) (t : Nat) : List Act :=
  (dedupe (dueEntries dags susp t) []).filterMap (entryAct status t)

/-! ## loading: `buildSchedule`, `parseScheduleMap`, `parseSchedules`; `initDags`, watcher events -/

/-- outcome of `dag.LoadMetadata` on one file, as far as the daemon is concerned -/
inductive Load
  | ok (starts stops restarts : List Spec)
  | err          -- error returned: logged, file skipped (init) / previous definition kept (watcher)
  | panic        -- run-time panic; nothing between the loader and `main` recovers (no longer produced by
                 -- `buildSchedule` since the F9 / F26 fixes — `buildSchedule_no_panic` — but still what the
                 -- daemon would do with one)
  | zone         -- uses a named time zone: outside the model
deriving DecidableEq, Repr

/-- a YAML value in schedule position: string, list (items: string or not), or anything else -/
inductive SVal
  | str (s : List Char)
  | list (items : List (Option (List Char)))
  | other
deriving DecidableEq, Repr

inductive SKey | start | stop | restart | unknown | nonString
deriving DecidableEq, Repr

/-- the decoded `schedule:` field -/
inductive SchedDef
  | absent
  | val (v : SVal)                       -- string or list; `other` = invalid type
  | map (kvs : List (SKey × SVal))       -- in Go's (random) iteration order
  | unreadable                           -- the file does not decode at all (bad YAML, …)
deriving DecidableEq, Repr

/-- `parseCron` (internal/dag/parser.go, added by the F26 fix): robfig's panic on a `TZ=` prefix without a
    following space is recovered and reported as an error -/
def parseCron (v : List Char) : ParseResult :=
  match parse v with
  | .panic => .err
  | r => r

/-- `parseSchedules`: values are parsed in order, the first error wins -/
def parseList : List (List Char) → Sum (List Spec) Load
  | [] => .inl []
  | v :: vs =>
    match parseCron v with
    | .ok sp =>
      (match parseList vs with
       | .inl r => .inl (sp :: r)
       | .inr bad => .inr bad)
    | .err => .inr .err
    | .panic => .inr .panic       -- unreachable: `parseCron` never answers panic (Proofs/Cron: parseCron_ne_panic)
    | .zone => .inr .zone

/-- strings of a map value; `none` = a non-string list item (error) -/
def valStrings : SVal → Option (List (List Char))
  | .str s => some [s]
  | .list items => if items.all Option.isSome then some (items.filterMap id) else none
  | .other => some []

/-- `parseScheduleMap`, entry by entry (Go's map order): key must be a string, list items must be
    strings, the key must be start / stop / restart (anything else is an error since the F9 fix), every
    value must parse -/
def scheduleMap : List (SKey × SVal) → (List (List Char) × List (List Char) × List (List Char)) →
    Sum (List (List Char) × List (List Char) × List (List Char)) Load
  | [], acc => .inl acc
  | (k, v) :: rest, (a, b, c) =>
    if k == .nonString then .inr .err
    else match valStrings v with
      | none => .inr .err
      | some vals =>
        match k with
        | .start => (match parseList vals with
                     | .inr bad => .inr bad
                     | .inl _ => scheduleMap rest (a ++ vals, b, c))
        | .stop => (match parseList vals with
                    | .inr bad => .inr bad
                    | .inl _ => scheduleMap rest (a, b ++ vals, c))
        | .restart => (match parseList vals with
                       | .inr bad => .inr bad
                       | .inl _ => scheduleMap rest (a, b, c ++ vals))
        | _ => .inr .err              -- errInvalidScheduleKey

def parseThree (a b c : List (List Char)) : Load :=
  match parseList a with
  | .inr bad => bad
  | .inl sa =>
    match parseList b with
    | .inr bad => bad
    | .inl sb =>
      match parseList c with
      | .inr bad => bad
      | .inl sc => .ok sa sb sc

/-- `buildSchedule` (as reached from `LoadMetadata`) -/
def buildSchedule : SchedDef → Load
  | .absent => .ok [] [] []
  | .unreadable => .err
  | .val (.str s) => parseThree [s] [] []
  | .val (.list items) => if items.all Option.isSome then parseThree (items.filterMap id) [] [] else .err
  | .val .other => .err
  | .map kvs =>
    match scheduleMap kvs ([], [], []) with
    | .inr bad => bad
    | .inl (a, b, c) => parseThree a b c

/-- the reader's `dags` map (file → definition) as an association list -/
def upsert (m : List Dag) (d : Dag) : List Dag :=
  if m.any (fun x => x.id == d.id) then m.map (fun x => if x.id == d.id then d else x) else m ++ [d]

/-- one `LoadMetadata` + map update (`initDags` body, watcher Create/Write); `none` = process dead -/
def loadFile (m : List Dag) (id : Nat) : Load → Option (List Dag)
  | .ok a b c => some (upsert m ⟨id, a, b, c⟩)
  | .err => some m
  | .panic => none
  | .zone => some m

/-- `initDags` over the directory listing -/
def initDags : List (Nat × Load) → List Dag → Option (List Dag)
  | [], m => some m
  | (id, l) :: rest, m =>
    match loadFile m id l with
    | none => none
    | some m' => initDags rest m'

inductive Event
  | write (id : Nat) (l : Load)      -- fsnotify Create / Write
  | remove (id : Nat)                -- fsnotify Remove / Rename
deriving DecidableEq, Repr

/-- `watchDags` body for one event -/
def applyEvent (m : List Dag) : Event → Option (List Dag)
  | .write id l => loadFile m id l
  | .remove id => some (m.filter (fun d => d.id != id))

end BdModel.Cron
