import BdModel.Cron.Civil
/-
  Cron.Spec — a parsed 5-field schedule (robfig/cron `SpecSchedule` with Second = {0}) and the
  predicate "the schedule fires in minute m" (UTC).
  `fires` (DESIGN.md: `matches spec minute`; `matches` is a Lean keyword) is by definition `dayOk (m / 1440) && timeOk (m % 1440)`: that split is what lets the
  search for `Next` skip a whole day at once and still be proved to return the least match.
-/
namespace BdModel.Cron

/-- one field: the bit set (bit i = value i allowed) and robfig's star bit (bit 63 of the uint64) -/
structure Field where
  bits : Nat
  star : Bool
deriving DecidableEq, Repr

structure Spec where
  minute : Field
  hour : Field
  dom : Field
  month : Field
  dow : Field
deriving DecidableEq, Repr

/-- robfig `dayMatches`: if either day field carries the star bit both must match (the starred
    one always does), otherwise — both restricted — EITHER matching is enough -/
def dayMatches (s : Spec) (dt : Date) (wd : Nat) : Bool :=
  let domM := s.dom.bits.testBit dt.day
  let dowM := s.dow.bits.testBit wd
  if s.dom.star || s.dow.star then domM && dowM else domM || dowM

/-- month and day tests of day number `day` -/
def dayOk (s : Spec) (day : Nat) : Bool :=
  let dt := civilOfDay day
  s.month.bits.testBit dt.month && dayMatches s dt (weekday day)

/-- hour and minute tests of minute-of-day `tod` -/
def timeOk (s : Spec) (tod : Nat) : Bool :=
  s.hour.bits.testBit (tod / 60) && s.minute.bits.testBit (tod % 60)

/-- the schedule fires at minute `m` (minutes since 0001-01-01T00:00Z), i.e. at instant `60*m` -/
def fires (s : Spec) (m : Nat) : Bool := dayOk s (m / 1440) && timeOk s (m % 1440)

end BdModel.Cron
