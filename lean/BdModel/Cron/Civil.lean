/-
  Cron.Civil — UTC civil-calendar arithmetic on natural numbers (core Lean only).

  Time base: an instant is a `Nat` = seconds since 0001-01-01T00:00:00Z, i.e. exactly Go's
  `time.Time` zero value is `0` (robfig/cron's `Next` returns that zero time when it finds
  nothing, and `scheduler.run` compares it with `now`).  A *minute* is `instant / 60`, a *day*
  is `minute / 1440`.  Day 0 = Monday 1 January of year 1 (proleptic Gregorian).
  The Unix epoch is instant `unixEpoch`; the driver converts at its boundary.
-/
namespace BdModel.Cron

/-- seconds from 0001-01-01T00:00:00Z to 1970-01-01T00:00:00Z (Go: `unixToInternal`) -/
def unixEpoch : Nat := 62135596800
def unixEpochMin : Nat := 1035593280
def unixEpochDay : Nat := 719162

structure Date where
  year : Nat
  month : Nat   -- 1..12
  day : Nat     -- 1..31
deriving Repr, DecidableEq

/-- civil date of a day number (days since 0001-01-01); Hinnant's `civil_from_days` shifted to
    the 0000-03-01 era origin (306 days before 0001-01-01) -/
def civilOfDay (d : Nat) : Date :=
  let z := d + 306
  let era := z / 146097
  let doe := z % 146097
  let yoe := (doe - doe / 1460 + doe / 36524 - doe / 146096) / 365
  let y := yoe + era * 400
  let doy := doe - (365 * yoe + yoe / 4 - yoe / 100)
  let mp := (5 * doy + 2) / 153
  let dd := doy - (153 * mp + 2) / 5 + 1
  let m := if mp < 10 then mp + 3 else mp - 9
  { year := if m ≤ 2 then y + 1 else y, month := m, day := dd }

/-- day number of a civil date (year ≥ 1) — Hinnant's `days_from_civil` -/
def dayOfCivil (y m d : Nat) : Nat :=
  let y' := if m ≤ 2 then y - 1 else y
  let era := y' / 400
  let yoe := y' % 400
  let mp := if m > 2 then m - 3 else m + 9
  let doy := (153 * mp + 2) / 5 + d - 1
  let doe := yoe * 365 + yoe / 4 - yoe / 100 + doy
  era * 146097 + doe - 306

/-- weekday of a day number, 0 = Sunday … 6 = Saturday (day 0 is a Monday) -/
def weekday (d : Nat) : Nat := (d + 1) % 7

/-- calendar year of an instant (seconds) -/
def yearOfSec (u : Nat) : Nat := (civilOfDay (u / 86400)).year

/-- first minute of 1 January of year `y` -/
def minuteOfYearStart (y : Nat) : Nat := dayOfCivil y 1 1 * 1440

/-- `Time.Truncate(time.Minute)` (Go truncates relative to the zero time, which is our origin) -/
def truncMin (t : Nat) : Nat := t - t % 60

example : civilOfDay 0 = ⟨1, 1, 1⟩ := by decide
example : civilOfDay unixEpochDay = ⟨1970, 1, 1⟩ := by decide
example : weekday unixEpochDay = 4 := by decide            -- a Thursday
example : dayOfCivil 1970 1 1 = unixEpochDay := by decide
example : civilOfDay (dayOfCivil 2024 2 29) = ⟨2024, 2, 29⟩ := by decide
example : civilOfDay (dayOfCivil 2024 2 29 + 1) = ⟨2024, 3, 1⟩ := by decide
example : civilOfDay (dayOfCivil 2100 2 28 + 1) = ⟨2100, 3, 1⟩ := by decide   -- 2100 is not a leap year
example : civilOfDay (dayOfCivil 2000 12 31 + 1) = ⟨2001, 1, 1⟩ := by decide
example : unixEpochDay * 86400 = unixEpoch ∧ unixEpochDay * 1440 = unixEpochMin := by decide

end BdModel.Cron
