import BdModel.Cron.Spec
/-
  Cron.Parse — the 5-field parser blackdagger configures
  (`cron.NewParser(Minute | Hour | Dom | Month | Dow)`, internal/dag/parser.go), written after
  robfig/cron v3.0.1 parser.go, quirks included:
    * `TZ=` / `CRON_TZ=` prefix without a following space indexes `spec[eq+1 : -1]` ⇒ PANIC (F26);
    * descriptors (`@daily` …) are refused (option not configured);
    * exactly 5 whitespace-separated fields;
    * a field is a comma list, EMPTY items dropped (`strings.FieldsFunc`), so `,` is an empty set;
    * `*`/`?` as the low part ignores anything after a hyphen (`*-5` = `*`);
    * `N/s` means `N-max/s`; the star bit is dropped when step > 1;
    * numbers go through `strconv.Atoi` (a leading `+` is accepted, values above 2^63-1 are errors);
    * month / weekday names, any letter case, also as range ends; weekday 7 is out of bounds.
  Strings are `List Char` so that witnesses reduce in the kernel.
-/
namespace BdModel.Cron

inductive ParseResult
  | ok (s : Spec)
  | err            -- `Parse` returned an error
  | panic          -- `Parse` panicked (slice bounds out of range)
  | zone           -- a named time zone other than UTC: outside the model (UTC only)
deriving DecidableEq, Repr

structure Bounds where
  min : Nat
  max : Nat
  names : List (List Char × Nat)

def minuteB : Bounds := ⟨0, 59, []⟩
def hourB : Bounds := ⟨0, 23, []⟩
def domB : Bounds := ⟨1, 31, []⟩
def monthB : Bounds := ⟨1, 12,
  [("jan".toList, 1), ("feb".toList, 2), ("mar".toList, 3), ("apr".toList, 4), ("may".toList, 5), ("jun".toList, 6),
   ("jul".toList, 7), ("aug".toList, 8), ("sep".toList, 9), ("oct".toList, 10), ("nov".toList, 11), ("dec".toList, 12)]⟩
def dowB : Bounds := ⟨0, 6,
  [("sun".toList, 0), ("mon".toList, 1), ("tue".toList, 2), ("wed".toList, 3), ("thu".toList, 4), ("fri".toList, 5),
   ("sat".toList, 6)]⟩

/-- `strings.Split(s, sep)` for a one-character separator: empty pieces are kept -/
def splitKeep (sep : Char) : List Char → List (List Char)
  | [] => [[]]
  | c :: cs =>
    let r := splitKeep sep cs
    if c == sep then [] :: r
    else match r with
      | h :: t => (c :: h) :: t
      | [] => [[c]]

/-- pieces between separator characters, empty pieces dropped (`strings.FieldsFunc`) -/
def fieldsBy (p : Char → Bool) : List Char → List (List Char)
  | [] => []
  | c :: cs =>
    let r := fieldsBy p cs
    if p c then [] :: r
    else match r with
      | h :: t => (c :: h) :: t
      | [] => [[c]]

def fieldsOf (p : Char → Bool) (cs : List Char) : List (List Char) :=
  (fieldsBy p cs).filter (fun f => !f.isEmpty)

/-- `unicode.IsSpace` -/
def isSpace (c : Char) : Bool :=
  let n := c.toNat
  (9 ≤ n && n ≤ 13) || n == 32 || n == 0x85 || n == 0xA0 || n == 0x1680 || (0x2000 ≤ n && n ≤ 0x200a) ||
  n == 0x2028 || n == 0x2029 || n == 0x202f || n == 0x205f || n == 0x3000

def isDigit (c : Char) : Bool := '0' ≤ c && c ≤ '9'

def digitsVal (cs : List Char) : Nat := cs.foldl (fun a c => a * 10 + (c.toNat - 48)) 0

def maxInt64 : Nat := 9223372036854775807

/-- `mustParseInt`: `strconv.Atoi` then "negative not allowed" -/
def mustParseInt (cs : List Char) : Option Nat :=
  let (neg, ds) := match cs with
    | '+' :: r => (false, r)
    | '-' :: r => (true, r)
    | r => (false, r)
  if ds.isEmpty || !ds.all isDigit then none
  else
    let v := digitsVal ds
    if neg then (if v == 0 then some 0 else none)
    else if v > maxInt64 then none else some v

def toLowerAscii (c : Char) : Char := if 'A' ≤ c && c ≤ 'Z' then Char.ofNat (c.toNat + 32) else c

def lookupName (names : List (List Char × Nat)) (cs : List Char) : Option Nat :=
  match names.find? (fun p => p.1 == cs) with
  | some p => some p.2
  | none => none

/-- `parseIntOrName` (ASCII lower-casing; see Props/C09 assumptions) -/
def intOrName (b : Bounds) (cs : List Char) : Option Nat :=
  match lookupName b.names (cs.map toLowerAscii) with
  | some v => some v
  | none => mustParseInt cs

/-- `getBits min max step`: all i in [lo, hi] with (i - lo) % step = 0 -/
def getBits (lo hi step : Nat) : Nat :=
  (List.range (hi + 1)).foldl (fun acc i => if lo ≤ i && (i - lo) % step == 0 then acc ||| (1 <<< i) else acc) 0

def starChars (cs : List Char) : Bool := cs == ['*'] || cs == ['?']

/-- `getRange expr r` -/
def getRange (expr : List Char) (b : Bounds) : Option Field :=
  let rs := splitKeep '/' expr
  let lh := splitKeep '-' (rs.headD [])
  let single := lh.length == 1
  -- start, end, star
  let se : Option (Nat × Nat × Bool) :=
    if starChars (lh.headD []) then some (b.min, b.max, true)
    else match intOrName b (lh.headD []) with
      | none => none
      | some st =>
        match lh with
        | [_] => some (st, st, false)
        | [_, hi] => (intOrName b hi).map (fun e => (st, e, false))
        | _ => none
  match se with
  | none => none
  | some (st, en, star) =>
    let stepped : Option (Nat × Nat × Bool) :=   -- end, step, star
      match rs with
      | [_] => some (en, 1, star)
      | [_, sp] =>
        match mustParseInt sp with
        | none => none
        | some step => some (if single then b.max else en, step, if step > 1 then false else star)
      | _ => none
    match stepped with
    | none => none
    | some (en, step, star) =>
      if st < b.min then none
      else if en > b.max then none
      else if st > en then none
      else if step == 0 then none
      else some ⟨getBits st en step, star⟩

/-- `getField field r` -/
def getField (field : List Char) (b : Bounds) : Option Field :=
  (fieldsOf (· == ',') field).foldl
    (fun acc e => match acc with
      | none => none
      | some f => match getRange e b with
        | none => none
        | some g => some ⟨f.bits ||| g.bits, f.star || g.star⟩)
    (some ⟨0, false⟩)

def hasPrefix (p s : List Char) : Bool := p.isPrefixOf s

def indexOf (c : Char) : List Char → Option Nat
  | [] => none
  | x :: xs => if x == c then some 0 else (indexOf c xs).map (· + 1)

def trimLeft (cs : List Char) : List Char := cs.dropWhile isSpace
def trimSpace (cs : List Char) : List Char := (trimLeft (trimLeft cs).reverse).reverse

/-- the five fields after the optional zone prefix was removed -/
def parseFields (spec : List Char) : ParseResult :=
  if hasPrefix ['@'] spec then .err
  else match fieldsOf isSpace spec with
    | [mi, ho, dm, mo, dw] =>
      match getField mi minuteB, getField ho hourB, getField dm domB, getField mo monthB, getField dw dowB with
      | some a, some b, some c, some d, some e => .ok ⟨a, b, c, d, e⟩
      | _, _, _, _, _ => .err
    | _ => .err

/-- `cronParser.Parse(spec)` -/
def parse (spec : List Char) : ParseResult :=
  if spec.isEmpty then .err
  else if hasPrefix "TZ=".toList spec || hasPrefix "CRON_TZ=".toList spec then
    match indexOf ' ' spec, indexOf '=' spec with
    | none, _ => .panic                       -- spec[eq+1 : -1]
    | some i, some eq =>
      let zoneName := (spec.take i).drop (eq + 1)
      if zoneName.isEmpty || zoneName == "UTC".toList then parseFields (trimSpace (spec.drop i))
      else .zone
    | some _, none => .err                    -- unreachable: the prefix contains '='
  else parseFields spec

def parseStr (s : String) : ParseResult := parse s.toList

example : parseStr "*/15 0 1,15 * 1-5" =
    .ok ⟨⟨0x200040008001, false⟩, ⟨1, false⟩, ⟨0x8002, false⟩, ⟨0x1ffe, true⟩, ⟨0x3e, false⟩⟩ := by decide
example : parseStr "0 0 31 2 *" = .ok ⟨⟨1, false⟩, ⟨1, false⟩, ⟨0x80000000, false⟩, ⟨4, false⟩, ⟨0x7f, true⟩⟩ := by decide
example : parseStr "0 0 * JAN-mar Mon" = .ok ⟨⟨1, false⟩, ⟨1, false⟩, ⟨0xfffffffe, true⟩, ⟨0xe, false⟩, ⟨2, false⟩⟩ := by decide
example : parseStr ", * * * *" = .ok ⟨⟨0, false⟩, ⟨0xffffff, true⟩, ⟨0xfffffffe, true⟩, ⟨0x1ffe, true⟩, ⟨0x7f, true⟩⟩ := by decide
example : parseStr "TZ=UTC" = .panic := by decide
example : parseStr "TZ=UTC 5 * * * *" = parseStr "5 * * * *" := by decide
example : parseStr "* * * * 7" = .err := by decide
example : parseStr "* * * *" = .err := by decide
example : parseStr "@daily" = .err := by decide
example : parseStr "60 * * * *" = .err := by decide
example : parseStr "5-1 * * * *" = .err := by decide
example : parseStr "*/0 * * * *" = .err := by decide
example : parseStr "+5 * * * *" = parseStr "5 * * * *" := by decide

end BdModel.Cron
